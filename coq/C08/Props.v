(* C08 property theorems only. *)
From V Require Import lib.Verdict C08.Model C08.Proofs C08.Proofs2 C08.Proofs3 C08.Proofs4 C08.Proofs5 C08.Proofs6.

(* HEADLINE (partial: relative to the single-value matchers).  For every option set (HTTP or TCP
   chain, authenticated / filter-state principals, trust domains), every list of policies (any
   mix of ALLOW / DENY / AUDIT, dry-run, any rules, any values incl. unparsable ones) and every
   request: the Envoy RBAC filters the compiler model emits, run by the reference evaluator,
   decide exactly as the policies "as expressible on that chain" do: DENY first, then
   ALLOW-if-any; an ALLOW rule with an inexpressible value (HTTP-only field on TCP, bad port /
   CIDR / key) matches nothing, a DENY rule is enforced on its remaining values.
   Premises: [leaves_ok] (each generator's single-value matcher means what the value says on
   this request; proved for ports and CIDRs below, refuted for namespaces, sampled by the
   harness oracle for the rest) and [alias_free_policies] (trust-domain alias rewriting leaves
   the rules unchanged; the rewriting itself is covered by the correspondence only). *)
Theorem C08_decision_preserved_partial : forall o ps r,
  leaves_ok (tcp o) (negb (use_filter_state o)) r ->
  alias_free_policies (trust_domains o) ps ->
  eval_filters (compile_filters o ps) r = decision_view (tcp o) ps r.
Proof. exact compile_preserves_decision. Qed.
Print Assumptions C08_decision_preserved_partial.

(* The same statement with the weaker premise [leaves_rest]: only uri_template paths, the three
   regex-shaped identity matchers (namespace - refuted, principal, serviceAccount) and the JWT
   matchers are still assumed; ports, CIDRs, hosts, methods, headers, plain paths and SNI in all
   four value forms (exact, prefix, suffix, presence) are proved (C08_leaves_discharged). *)
Theorem C08_decision_preserved_weaker_premise_partial : forall o ps r,
  leaves_rest (tcp o) (negb (use_filter_state o)) r ->
  alias_free_policies (trust_domains o) ps ->
  eval_filters (compile_filters o ps) r = decision_view (tcp o) ps r.
Proof. exact compile_preserves_decision_rest. Qed.
Print Assumptions C08_decision_preserved_weaker_premise_partial.

(* ... and with source.principal discharged as well (spiffe:// prefix; the suffix form's regex
   spiffe://.*<suffix> is given its full-match meaning by derivatives and proved equal to
   "ends with"): remaining premises are uri_template paths, namespaces (refuted),
   serviceAccounts and the JWT matchers. *)
Theorem C08_decision_preserved_weakest_premise_partial : forall o ps r,
  leaves_rest2 (tcp o) (negb (use_filter_state o)) r ->
  alias_free_policies (trust_domains o) ps ->
  eval_filters (compile_filters o ps) r = decision_view (tcp o) ps r.
Proof. exact compile_preserves_decision_rest2. Qed.
Print Assumptions C08_decision_preserved_weakest_premise_partial.

Theorem C08_leaf_source_principal : forall key v tcp ua r p,
  gen_prin KSrcPrincipal key v tcp ua = Ok p -> eval_prin p r = value_sem KSrcPrincipal key v r.
Proof. exact leaf_principal. Qed.
Print Assumptions C08_leaf_source_principal.

Theorem C08_leaves_discharged : forall tcp ua r, leaves_rest tcp ua r -> leaves_ok tcp ua r.
Proof. exact leaves_rest_ok. Qed.
Print Assumptions C08_leaves_discharged.

(* HeaderMatcher / HostMatcher and StringMatcher mean the documented value forms, for every
   value and every attribute string: "*" presence (".+" = non-empty for paths / SNI), "*x"
   suffix, "x*" prefix, otherwise exact; hosts case-insensitively *)
Theorem C08_wildcard_forms : forall v,
  (forall ic o, eval_hmatch (header_matcher_ic ic v) o = opt_matches (form_matches ic v) o) /\
  (forall x, eval_smatch (string_matcher v) x = form_matches_nonempty v x).
Proof. intros v. split; [intros; apply header_matcher_opt|apply string_matcher_sem]. Qed.
Print Assumptions C08_wildcard_forms.

(* CONSERVATIVE fallback, proved outright for every chain (HTTP or TCP), policy list and request:
   reading the policies "as expressible on the chain" (ALLOW rules with an inexpressible value
   dropped, DENY rules kept on their remaining values) never admits a request the policies
   themselves reject, provided every `when` attribute is a known one (validation guarantees it). *)
Theorem C08_tcp_conservative : forall tcp ps r,
  all_when_known ps = true -> decision_view tcp ps r = true -> decision ps r = true.
Proof. exact view_never_more_permissive. Qed.
Print Assumptions C08_tcp_conservative.

(* One rule: Builder.build's per-rule body (New + MigrateTrustDomain + Generate) yields a policy
   that matches exactly when the rule-as-expressible matches; a skipped rule matches nothing. *)
Theorem C08_rule_translation_partial : forall o allow pns ru r,
  leaves_ok (tcp o) (negb (use_filter_state o)) r ->
  alias_free (trust_domains o) pns ru ->
  match compile_rule o allow pns ru with
  | Some p => eval_rpolicy p r = rule_view_matches (tcp o) allow pns ru r
  | None => rule_view_matches (tcp o) allow pns ru r = false
  end.
Proof. exact compile_rule_spec. Qed.
Print Assumptions C08_rule_translation_partial.

(* values are OR-ed, notValues NOR-ed, for every attribute on the principal side (the same
   statement for permissions is rule_permission_spec); ALLOW aborts on an inexpressible value *)
Theorem C08_values_or_notvalues_nor : forall tcp ua r, leaves_ok tcp ua r -> forall allow c,
  prin_kind (ck c) = true ->
  if ok_of allow tcp c
  then exists l, rule_principal allow tcp ua c = Ok l /\
                 forallb (fun q => eval_prin q r) l = cond_sem (view_of allow tcp c) r
  else rule_principal allow tcp ua c = Err.
Proof. exact rule_principal_spec. Qed.
Print Assumptions C08_values_or_notvalues_nor.

Theorem C08_values_or_notvalues_nor_perm : forall tcp ua r, leaves_ok tcp ua r -> forall allow c,
  perm_kind (ck c) = true ->
  if ok_of allow tcp c
  then exists l, rule_permission allow tcp c = Ok l /\
                 forallb (fun q => eval_perm q r) l = cond_sem (view_of allow tcp c) r
  else rule_permission allow tcp c = Err.
Proof. exact rule_permission_spec. Qed.
Print Assumptions C08_values_or_notvalues_nor_perm.

(* leaves proved outright: ports and CIDR blocks, every value (parsable or not), every request *)
Theorem C08_leaf_ports_and_cidrs : forall k key v tcp ua r,
  match k with KDestIP | KDestPort | KSrcIP | KRemoteIP => True | _ => False end ->
  (forall p, gen_perm k key v tcp = Ok p -> eval_perm p r = value_sem k key v r) /\
  (forall p, gen_prin k key v tcp ua = Ok p -> eval_prin p r = value_sem k key v r).
Proof. exact leaf_ports_ips. Qed.
Print Assumptions C08_leaf_ports_and_cidrs.

(* REFUTED at full strength: the faithful model of srcNamespaceGenerator admits a request the
   policy rejects (namespaces ["*a"], identity cluster.local/ns/foo/sa/bar): known finding
   C08-namespace-regex-unanchored; the harness runs this witness against the real builder. *)
Theorem C08_decision_preserved_refuted :
  exists o ps r, alias_free_policies (trust_domains o) ps /\
                 eval_filters (compile_filters o ps) r = true /\ decision ps r = false.
Proof. exact namespace_suffix_refuted. Qed.
Print Assumptions C08_decision_preserved_refuted.

Theorem C08_namespace_leaf_refuted :
  exists v r p, gen_prin KSrcNamespace attr_src_namespace v false true = Ok p /\
                eval_prin p r = true /\ value_sem KSrcNamespace attr_src_namespace v r = false.
Proof. exact namespace_leaf_refuted. Qed.
Print Assumptions C08_namespace_leaf_refuted.

(* hypotheses are satisfiable *)
Example C08_alias_free_satisfiable : forall tds, alias_free_policies tds [ns_witness_policy].
Proof. exact alias_free_example. Qed.
