(* C08 proofs, part 3: leaves that are proved outright, the namespace counterexample, examples. *)
From Coq Require Import List NArith Bool String Ascii Lia.
From V Require Import C08.Model C08.Proofs C08.Proofs2.
Import ListNotations.
Local Open Scope string_scope.
Local Open Scope list_scope.

(* ports and CIDR blocks: the generated matcher means exactly what the value says, on every request *)
Lemma leaf_ports_ips k key v tcp ua r :
  match k with KDestIP | KDestPort | KSrcIP | KRemoteIP => True | _ => False end ->
  (forall p, gen_perm k key v tcp = Ok p -> eval_perm p r = value_sem k key v r) /\
  (forall p, gen_prin k key v tcp ua = Ok p -> eval_prin p r = value_sem k key v r).
Proof.
  destruct k; try contradiction; intros _; split; intros p; cbn;
    try discriminate;
    try (destruct (addr_str_to_cidr v); [|discriminate]; intros H; inversion H; subst; reflexivity);
    try (destruct (convert_to_port v); [|discriminate]; intros H; inversion H; subst; reflexivity).
Qed.

(* the faithful model of srcNamespaceGenerator does NOT mean "namespace ends with a":
   regex .*/ns/.*a/.* is satisfied through the "/sa/" segment of every istio identity *)
Definition ns_witness_policy : policy :=
  {| p_id := 0; p_ns := "foo"; p_action := ALLOW; p_dry_run := false;
     p_rules := [ {| from := [ {| s_principals := []; s_not_principals := [];
                                  s_request_principals := []; s_not_request_principals := [];
                                  s_namespaces := ["*a"]; s_not_namespaces := [];
                                  s_ip_blocks := []; s_not_ip_blocks := [];
                                  s_remote_ip_blocks := []; s_not_remote_ip_blocks := [];
                                  s_service_accounts := []; s_not_service_accounts := [] |} ];
                     to := []; when := [] |} ] |}.
Definition ns_witness_request : request :=
  {| r_peer := Some "cluster.local/ns/foo/sa/bar"; r_src_ip := 0; r_remote_ip := 0; r_dst_ip := 0; r_dst_port := 8080;
     r_sni := ""; r_headers := [(":authority", "h"); (":method", "GET")]; r_path := Some "/"; r_jwt := None |}.
Definition http_options : options := {| tcp := false; use_filter_state := false; trust_domains := ["cluster.local"] |}.

Lemma namespace_suffix_refuted :
  exists o ps r, alias_free_policies (trust_domains o) ps /\
                 eval_filters (compile_filters o ps) r = true /\ decision ps r = false.
Proof.
  exists http_options, [ns_witness_policy], ns_witness_request. split; [|split; vm_compute; reflexivity].
  intros p ru [<-|[]] [<-|[]] m H. vm_compute in H. inversion H; subst. vm_compute. reflexivity.
Qed.

Lemma namespace_leaf_refuted :
  exists v r p, gen_prin KSrcNamespace attr_src_namespace v false true = Ok p /\
                eval_prin p r = true /\ value_sem KSrcNamespace attr_src_namespace v r = false.
Proof.
  exists "*a", ns_witness_request. eexists. split; [reflexivity|]. split; vm_compute; reflexivity.
Qed.

(* satisfiable hypotheses: a policy without source.principal values is alias-free for any bundle *)
Example alias_free_example tds : alias_free_policies tds [ns_witness_policy].
Proof.
  intros p ru [<-|[]] [<-|[]] m H. vm_compute in H. inversion H; subst. reflexivity.
Qed.
