(* C08 proofs, part 2: model.New, the per-rule body of Builder.build, policies, filters. *)
From Coq Require Import List NArith Bool String Ascii Lia.
From V Require Import C08.Model C08.Proofs.
Import ListNotations.
Local Open Scope list_scope.

(* predicates on conditions for which an empty condition is neutral *)
Definition neutral (f : cond -> bool) : Prop := forall k key, f (mk k key [] []) = true.

Lemma neutral_sem allow tcp r : neutral (fun c => cond_sem (view_of allow tcp c) r).
Proof. intros k key. destruct allow; reflexivity. Qed.
Lemma neutral_ok allow tcp : neutral (ok_of allow tcp).
Proof. intros k key. destruct allow; reflexivity. Qed.
Lemma neutral_kind (p : kind -> bool) k0 : p k0 = true -> forall k key vs ns, k = k0 -> (fun c => p (ck c)) (mk k key vs ns) = true.
Proof. intros H k key vs ns ->. exact H. Qed.

Lemma insert_front_forallb f l k key vs ns :
  neutral f -> forallb f (insert_front l k key vs ns) = f (mk k key vs ns) && forallb f l.
Proof.
  intros N. unfold insert_front. destruct vs, ns; cbn; try reflexivity. now rewrite N.
Qed.

Lemma append_last_forallb f l k key vs ns :
  neutral f -> forallb f (append_last l k key vs ns) = forallb f l && f (mk k key vs ns).
Proof.
  intros N. unfold append_last.
  destruct vs, ns; cbn; rewrite ?forallb_app; cbn; rewrite ?andb_true_r; try reflexivity.
  now rewrite N, andb_true_r.
Qed.

Lemma merge_source_forallb f pns base s :
  neutral f -> forallb f (merge_source pns base s) = forallb f (source_conds pns s) && forallb f base.
Proof.
  intros N. unfold merge_source, source_conds. rewrite !insert_front_forallb by assumption. cbn.
  rewrite andb_true_r.
  destruct (f (mk KSrcPrincipal _ _ _)), (f (mk KReqPrincipal _ _ _)), (f (mk (KSrcSvcAccount _) _ _ _)), (f (mk KSrcNamespace _ _ _)),
           (f (mk KRemoteIP _ _ _)), (f (mk KSrcIP _ _ _)); reflexivity.
Qed.

Lemma merge_operation_forallb f base o :
  neutral f -> forallb f (merge_operation base o) = forallb f (operation_conds o) && forallb f base.
Proof.
  intros N. unfold merge_operation, operation_conds. rewrite !insert_front_forallb by assumption. cbn.
  rewrite andb_true_r.
  destruct (f (mk KHost _ _ _)), (f (mk KMethod _ _ _)), (f (mk KPath _ _ _)), (f (mk KDestPort _ _ _)); reflexivity.
Qed.

(* kinds stay on their side *)
Lemma insert_front_kind (p : kind -> bool) l k key vs ns :
  p k = true -> forallb (fun c => p (ck c)) l = true -> forallb (fun c => p (ck c)) (insert_front l k key vs ns) = true.
Proof. intros Hk Hl. unfold insert_front. destruct (is_nil vs && is_nil ns); cbn; [assumption|]. now rewrite Hk. Qed.

Lemma append_last_kind (p : kind -> bool) l k key vs ns :
  p k = true -> forallb (fun c => p (ck c)) l = true -> forallb (fun c => p (ck c)) (append_last l k key vs ns) = true.
Proof.
  intros Hk Hl. unfold append_last. destruct (is_nil vs && is_nil ns); [assumption|].
  rewrite forallb_app, Hl. cbn. now rewrite Hk.
Qed.

Lemma merge_source_kind pns base s :
  forallb (fun c => prin_kind (ck c)) base = true -> forallb (fun c => prin_kind (ck c)) (merge_source pns base s) = true.
Proof. intros H. unfold merge_source. repeat apply insert_front_kind; try reflexivity. exact H. Qed.

Lemma merge_operation_kind base o :
  forallb (fun c => perm_kind (ck c)) base = true -> forallb (fun c => perm_kind (ck c)) (merge_operation base o) = true.
Proof. intros H. unfold merge_operation. repeat apply insert_front_kind; try reflexivity. exact H. Qed.

Lemma when_kind_side pns key b k : when_kind pns key = Some (b, k) -> if b then perm_kind k = true else prin_kind k = true.
Proof.
  unfold when_kind.
  repeat match goal with |- context [if ?c then _ else _] => destruct c end;
    intros H; inversion H; subst; reflexivity.
Qed.

(* the `when` loop *)
Lemma new_when_spec f pns ws : neutral f -> forall bperm bprin,
  forallb (fun c => perm_kind (ck c)) bperm = true -> forallb (fun c => prin_kind (ck c)) bprin = true ->
  match new_when pns ws bperm bprin with
  | None => forallb (fun w => match when_kind pns (w_key w) with Some _ => true | None => false end) ws = false
  | Some (bp, bi) =>
      forallb (fun w => match when_kind pns (w_key w) with Some _ => true | None => false end) ws = true /\
      forallb (fun c => perm_kind (ck c)) bp = true /\ forallb (fun c => prin_kind (ck c)) bi = true /\
      forallb f bp && forallb f bi =
      forallb f bperm && forallb f bprin &&
      forallb (fun w => match when_cond pns w with Some c => f c | None => false end) ws
  end.
Proof.
  intros N. induction ws as [|w ws IH]; intros bperm bprin K1 K2; cbn.
  - repeat split; try assumption. now rewrite andb_true_r.
  - unfold when_cond. destruct (when_kind pns (w_key w)) as [[b k]|] eqn:E; [|reflexivity].
    pose proof (when_kind_side _ _ _ _ E) as Hs. destruct b.
    + specialize (IH (append_last bperm k (w_key w) (w_values w) (w_not_values w)) bprin
                     (append_last_kind perm_kind _ _ _ _ _ Hs K1) K2).
      destruct (new_when pns ws _ bprin) as [[bp bi]|]; [|exact IH].
      destruct IH as (A & B & C & D). repeat split; try assumption. cbn.
      rewrite D, append_last_forallb by assumption.
      destruct (forallb f bperm), (f (mk k _ _ _)), (forallb f bprin); reflexivity.
    + specialize (IH bperm (append_last bprin k (w_key w) (w_values w) (w_not_values w)) K1
                     (append_last_kind prin_kind _ _ _ _ _ Hs K2)).
      destruct (new_when pns ws bperm _) as [[bp bi]|]; [|exact IH].
      destruct IH as (A & B & C & D). repeat split; try assumption. cbn.
      rewrite D, append_last_forallb by assumption.
      destruct (forallb f bperm), (f (mk k _ _ _)), (forallb f bprin); reflexivity.
Qed.

Lemma existsb_andb_const {A} (a : A -> bool) (B : bool) l :
  existsb (fun x => a x && B) l = existsb a l && B.
Proof. induction l; cbn; [reflexivity|]. rewrite IHl. destruct (a a0), B, (existsb a l); reflexivity. Qed.

Lemma forallb_andb_const {A} (a : A -> bool) (B : bool) l :
  l <> [] -> forallb (fun x => a x && B) l = forallb a l && B.
Proof.
  induction l as [|x l IH]; [congruence|]. intros _. cbn. destruct l as [|y l].
  - cbn. now rewrite !andb_true_r.
  - rewrite IH by discriminate. destruct (a x), B, (forallb a (y :: l)); reflexivity.
Qed.

(* the lists of a Model, for a neutral predicate *)
Section NewModel.
  Variable pns : string.
  Variable ru : rule.
  Variable f : cond -> bool.
  Hypothesis N : neutral f.

  Lemma new_model_spec :
    match new_model pns ru with
    | None => when_known pns ru = false
    | Some m =>
        when_known pns ru = true /\
        forallb (fun rl => forallb (fun c => perm_kind (ck c)) rl) (m_permissions m) = true /\
        forallb (fun rl => forallb (fun c => prin_kind (ck c)) rl) (m_principals m) = true /\
        m_permissions m <> [] /\ m_principals m <> [] /\
        (* some list satisfies f everywhere *)
        existsb (forallb f) (m_permissions m) && existsb (forallb f) (m_principals m) =
          (is_nil (from ru) || existsb (fun s => forallb f (source_conds pns s)) (from ru)) &&
          (is_nil (to ru) || existsb (fun o => forallb f (operation_conds o)) (to ru)) &&
          forallb (fun w => match when_cond pns w with Some c => f c | None => false end) (when ru) /\
        (* every list satisfies f everywhere *)
        forallb (forallb f) (m_permissions m) && forallb (forallb f) (m_principals m) =
          forallb (fun s => forallb f (source_conds pns s)) (from ru) &&
          forallb (fun o => forallb f (operation_conds o)) (to ru) &&
          forallb (fun w => match when_cond pns w with Some c => f c | None => false end) (when ru)
    end.
  Proof.
    unfold new_model, when_known.
    pose proof (new_when_spec f pns (when ru) N [] [] eq_refl eq_refl) as H.
    destruct (new_when pns (when ru) [] []) as [[bp bi]|]; [|exact H].
    destruct H as (A & B & C & D). cbn in D. cbn [m_permissions m_principals].
    split; [assumption|].
    assert (Kperm : forallb (fun rl => forallb (fun c => perm_kind (ck c)) rl)
                      (if is_nil (to ru) then [bp] else map (merge_operation bp) (to ru)) = true).
    { destruct (to ru); cbn; [now rewrite B|].
      rewrite merge_operation_kind by assumption. cbn. rewrite forallb_map.
      apply forallb_forall. intros; now apply merge_operation_kind. }
    assert (Kprin : forallb (fun rl => forallb (fun c => prin_kind (ck c)) rl)
                      (if is_nil (from ru) then [bi] else map (merge_source pns bi) (from ru)) = true).
    { destruct (from ru); cbn; [now rewrite C|].
      rewrite merge_source_kind by assumption. cbn. rewrite forallb_map.
      apply forallb_forall. intros; now apply merge_source_kind. }
    repeat split; try assumption.
    - destruct (to ru); cbn; discriminate.
    - destruct (from ru); cbn; discriminate.
    - rewrite <- D.
      assert (E1 : existsb (forallb f) (if is_nil (to ru) then [bp] else map (merge_operation bp) (to ru)) =
                   (is_nil (to ru) || existsb (fun o => forallb f (operation_conds o)) (to ru)) && forallb f bp).
      { destruct (to ru) as [|o tos] eqn:T; [cbn; now rewrite orb_false_r|].
        cbn [is_nil orb]. rewrite existsb_map.
        rewrite (existsb_ext_in _ (fun o => forallb f (operation_conds o) && forallb f bp))
          by (intros; now apply merge_operation_forallb).
        apply existsb_andb_const. }
      assert (E2 : existsb (forallb f) (if is_nil (from ru) then [bi] else map (merge_source pns bi) (from ru)) =
                   (is_nil (from ru) || existsb (fun s => forallb f (source_conds pns s)) (from ru)) && forallb f bi).
      { destruct (from ru) as [|s froms] eqn:T; [cbn; now rewrite orb_false_r|].
        cbn [is_nil orb]. rewrite existsb_map.
        rewrite (existsb_ext_in _ (fun s => forallb f (source_conds pns s) && forallb f bi))
          by (intros; now apply merge_source_forallb).
        apply existsb_andb_const. }
      rewrite E1, E2.
      destruct (is_nil (from ru) || _), (is_nil (to ru) || _), (forallb f bp), (forallb f bi); reflexivity.
    - rewrite <- D.
      assert (E1 : forallb (forallb f) (if is_nil (to ru) then [bp] else map (merge_operation bp) (to ru)) =
                   forallb (fun o => forallb f (operation_conds o)) (to ru) && forallb f bp).
      { destruct (to ru) as [|o tos] eqn:T; [cbn; now rewrite andb_true_r|].
        cbn [is_nil]. rewrite forallb_map.
        rewrite (forallb_ext_in _ (fun o => forallb f (operation_conds o) && forallb f bp))
          by (intros; now apply merge_operation_forallb).
        apply forallb_andb_const. discriminate. }
      assert (E2 : forallb (forallb f) (if is_nil (from ru) then [bi] else map (merge_source pns bi) (from ru)) =
                   forallb (fun s => forallb f (source_conds pns s)) (from ru) && forallb f bi).
      { destruct (from ru) as [|s froms] eqn:T; [cbn; now rewrite andb_true_r|].
        cbn [is_nil]. rewrite forallb_map.
        rewrite (forallb_ext_in _ (fun s => forallb f (source_conds pns s) && forallb f bi))
          by (intros; now apply merge_source_forallb).
        apply forallb_andb_const. discriminate. }
      rewrite E1, E2.
      destruct (forallb _ (from ru)), (forallb _ (to ru)), (forallb f bp), (forallb f bi); reflexivity.
  Qed.
End NewModel.

(* trust-domain alias rewriting leaves the rule's model unchanged *)
Definition alias_free (tds : list string) (pns : string) (ru : rule) : Prop :=
  forall m, new_model pns ru = Some m -> migrate_model tds m = m.

(* ------------------------------------------------------------------ one rule *)

Lemma compile_rule_spec o allow pns ru r :
  leaves_ok (tcp o) (negb (use_filter_state o)) r ->
  alias_free (trust_domains o) pns ru ->
  match compile_rule o allow pns ru with
  | Some p => eval_rpolicy p r = rule_view_matches (tcp o) allow pns ru r
  | None => rule_view_matches (tcp o) allow pns ru r = false
  end.
Proof.
  intros L AF. unfold compile_rule, rule_view_matches.
  pose proof (new_model_spec pns ru _ (neutral_sem allow (tcp o) r)) as Hs.
  pose proof (new_model_spec pns ru _ (neutral_ok allow (tcp o))) as Ho.
  destruct (new_model pns ru) as [m|] eqn:NM.
  - rewrite (AF m NM).
    destruct Hs as (WK & K1 & K2 & N1 & N2 & Es & _). destruct Ho as (_ & _ & _ & _ & _ & _ & Eo).
    rewrite WK. cbn [negb].
    pose proof (generate_spec (tcp o) (negb (use_filter_state o)) r L allow m K1 K2 N1 N2) as G.
    destruct allow.
    + (* ALLOW *)
      unfold ok_of in Eo, G. unfold view_of in Es, G.
      match type of G with (if ?b then _ else _) => assert (EO : b = rule_conds_ok (tcp o) pns ru) by exact Eo end.
      rewrite EO in G. destruct (rule_conds_ok (tcp o) pns ru); cbn [andb].
      * destruct G as (p & -> & E). rewrite E.
        unfold rule_matches, source_matches, operation_matches, when_sem.
        rewrite andb_comm in Es. rewrite andb_comm. rewrite <- Es.
        destruct (existsb _ (m_permissions m)), (existsb _ (m_principals m)); reflexivity.
      * now rewrite G.
    + (* DENY / AUDIT *)
      unfold ok_of in G.
      assert (T1 : forallb (fun rl : list cond => forallb (fun _ : cond => true) rl) (m_permissions m) = true).
      { apply forallb_forall. intros. apply forallb_forall. reflexivity. }
      assert (T2 : forallb (fun rl : list cond => forallb (fun _ : cond => true) rl) (m_principals m) = true).
      { apply forallb_forall. intros. apply forallb_forall. reflexivity. }
      rewrite T1, T2 in G. cbn in G. destruct G as (p & -> & E). rewrite E.
      unfold view_of in Es.
      rewrite andb_comm in Es. rewrite andb_comm.
      etransitivity; [|etransitivity; [exact Es|]].
      * destruct (existsb _ (m_permissions m)), (existsb _ (m_principals m)); reflexivity.
      * rewrite andb_comm. reflexivity.
  - rewrite Hs. reflexivity.
Qed.

(* ------------------------------------------------------------------ policies and filters *)

Definition alias_free_policies (tds : list string) (ps : list policy) : Prop :=
  forall p ru, In p ps -> In ru (p_rules p) -> alias_free tds (p_ns p) ru.

Lemma compile_rules_spec o allow r pid pns rs : 
  leaves_ok (tcp o) (negb (use_filter_state o)) r ->
  (forall ru, In ru rs -> alias_free (trust_domains o) pns ru) ->
  forall i,
  existsb (fun np => eval_rpolicy (snd np) r) (compile_rules o allow pid pns i rs) =
  existsb (fun ru => rule_view_matches (tcp o) allow pns ru r) rs.
Proof.
  intros L. induction rs as [|ru rs IH]; intros AF i; cbn; [reflexivity|].
  pose proof (compile_rule_spec o allow pns ru r L (AF ru (or_introl eq_refl))) as H.
  destruct (compile_rule o allow pns ru); cbn.
  - rewrite H, IH; [reflexivity|]. intros; apply AF; now right.
  - rewrite H, IH; [reflexivity|]. intros; apply AF; now right.
Qed.

Lemma compile_policy_spec o a r p :
  leaves_ok (tcp o) (negb (use_filter_state o)) r ->
  (forall ru, In ru (p_rules p) -> alias_free (trust_domains o) (p_ns p) ru) ->
  is_action a p = true ->
  existsb (fun np => eval_rpolicy (snd np) r)
          (compile_policy o (match a with ALLOW => true | _ => false end) p) =
  policy_view_matches (tcp o) p r.
Proof.
  intros L AF Ha. unfold compile_policy, policy_view_matches.
  assert (Hal : (match a with ALLOW => true | _ => false end) = is_action ALLOW p).
  { unfold is_action in *. destruct a, (p_action p); try discriminate; reflexivity. }
  rewrite Hal. destruct (p_rules p) as [|ru rs] eqn:R; [reflexivity|].
  cbn [is_nil]. rewrite <- R in *. apply compile_rules_spec; assumption.
Qed.

Lemma filter_filter {A} (p q : A -> bool) l : filter q (filter p l) = filter (fun x => p x && q x) l.
Proof. induction l; cbn; [reflexivity|]. destruct (p a); cbn; [destruct (q a); now rewrite IHl|assumption]. Qed.

Lemma In_filter_l {A} (p : A -> bool) x l : In x (filter p l) -> In x l /\ p x = true.
Proof. apply filter_In. Qed.

Lemma build_action_matched o a r ps :
  leaves_ok (tcp o) (negb (use_filter_state o)) r ->
  alias_free_policies (trust_domains o) ps ->
  existsb (fun np => eval_rpolicy (snd np) r)
    (flat_map (compile_policy o (match a with ALLOW => true | _ => false end)) (enforced a ps)) =
  existsb (fun p => policy_view_matches (tcp o) p r) (enforced a ps).
Proof.
  intros L AF. rewrite existsb_flat_map. apply existsb_ext_in. intros p Hin.
  apply In_filter_l in Hin. destruct Hin as [Hin Hp]. apply andb_true_iff in Hp. destruct Hp as [Ha _].
  apply compile_policy_spec; try assumption. intros ru Hru. exact (AF p ru Hin Hru).
Qed.

Lemma enforced_split a ps : filter (fun p => negb (p_dry_run p)) (filter (is_action a) ps) = enforced a ps.
Proof. unfold enforced. apply filter_filter. Qed.

Lemma enforced_nil_of_mine a ps : is_nil (filter (is_action a) ps) = true -> enforced a ps = [].
Proof. intros H. rewrite <- enforced_split. apply is_nil_true in H. now rewrite H. Qed.

Lemma eval_build_action o a r ps :
  leaves_ok (tcp o) (negb (use_filter_state o)) r ->
  alias_free_policies (trust_domains o) ps ->
  eval_filters (build_action o a ps) r =
  match a with
  | AUDIT => true
  | DENY => negb (existsb (fun p => policy_view_matches (tcp o) p r) (enforced DENY ps))
  | ALLOW => is_nil (enforced ALLOW ps) || existsb (fun p => policy_view_matches (tcp o) p r) (enforced ALLOW ps)
  end.
Proof.
  intros L AF. unfold build_action.
  destruct (is_nil (filter (is_action a) ps)) eqn:M.
  - pose proof (enforced_nil_of_mine _ _ M) as E0. destruct a; rewrite ?E0; reflexivity.
  - cbn. rewrite andb_true_r. unfold eval_filter; cbn [f_rules]. rewrite enforced_split.
    pose proof (build_action_matched o a r ps L AF) as H.
    destruct (is_nil (enforced a ps)) eqn:E.
    + destruct a; cbn [is_action] in *; rewrite ?E; try reflexivity.
      apply is_nil_true in E. rewrite E. reflexivity.
    + unfold eval_rbac, rbac_matched; cbn [rb_action rb_policies].
      destruct a; cbn [to_raction]; rewrite ?H, ?E; reflexivity.
Qed.

Lemma eval_filters_app a b r : eval_filters (a ++ b) r = eval_filters a r && eval_filters b r.
Proof. unfold eval_filters. apply forallb_app. Qed.

(* the headline statement, relative to the leaves *)
Theorem compile_preserves_decision o ps r :
  leaves_ok (tcp o) (negb (use_filter_state o)) r ->
  alias_free_policies (trust_domains o) ps ->
  eval_filters (compile_filters o ps) r = decision_view (tcp o) ps r.
Proof.
  intros L AF. unfold compile_filters, decision_view.
  rewrite !eval_filters_app, !eval_build_action by assumption. reflexivity.
Qed.
