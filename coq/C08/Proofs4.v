(* C08 proofs, part 4: the policy "as expressible on the chain" is never more permissive than
   the policy itself. *)
From Coq Require Import List NArith Bool String Ascii Lia.
From V Require Import C08.Model C08.Proofs.
Import ListNotations.
Local Open Scope list_scope.

Lemma sem_expressible tcp k key v r :
  value_sem k key v r = true ->
  expressible tcp k key v = true \/ (forall v', expressible tcp k key v' = false).
Proof.
  destruct k; cbn;
    try (destruct (addr_str_to_cidr v); [left; reflexivity|discriminate]);
    try (destruct (convert_to_port v); [left; reflexivity|discriminate]);
    try (intros _; left; reflexivity);
    try (intros _; destruct tcp; [right; reflexivity|left; reflexivity]).
  - destruct (extract_name_in_brackets _); [|discriminate]. intros _.
    destruct tcp; [right; reflexivity|left; reflexivity].
  - destruct (extract_name_in_nested_brackets _); [|discriminate]. intros _.
    destruct tcp; [right; reflexivity|left; reflexivity].
Qed.

Lemma existsb_false_filter {A} (p q : A -> bool) l : existsb p l = false -> existsb p (filter q l) = false.
Proof.
  induction l; cbn; [reflexivity|]. intros H. apply orb_false_iff in H. destruct H as [H1 H2].
  destruct (q a); cbn; [rewrite H1|]; auto.
Qed.

Lemma cond_view_wider tcp c r : cond_sem c r = true -> cond_sem (cond_view tcp c) r = true.
Proof.
  unfold cond_sem, cond_view; cbn [ck ckey cvals cnots].
  set (sem := fun v => value_sem (ck c) (ckey c) v r). set (ok := expressible tcp (ck c) (ckey c)).
  intros H. apply andb_true_iff in H. destruct H as [H1 H2].
  apply andb_true_iff. split.
  - destruct (cvals c) as [|v0 vs0] eqn:V; [reflexivity|]. cbn [is_nil orb] in H1.
    apply existsb_exists in H1. destruct H1 as (v & Hin & Hs).
    destruct (sem_expressible tcp _ _ _ _ Hs) as [Hok|Hno].
    + apply orb_true_iff. right. apply existsb_exists. exists v. split; [|exact Hs].
      apply filter_In. split; assumption.
    + assert (filter ok (v0 :: vs0) = []) as ->; [|reflexivity].
      clear -Hno. induction (v0 :: vs0); cbn; [reflexivity|]. unfold ok at 1. rewrite Hno. assumption.
  - apply negb_true_iff. apply negb_true_iff in H2. now apply existsb_false_filter.
Qed.

Lemma forallb_impl {A} (p q : A -> bool) l : (forall x, p x = true -> q x = true) -> forallb p l = true -> forallb q l = true.
Proof. intros H. rewrite !forallb_forall. auto. Qed.
Lemma existsb_impl {A} (p q : A -> bool) l : (forall x, p x = true -> q x = true) -> existsb p l = true -> existsb q l = true.
Proof. intros H. rewrite !existsb_exists. intros (x & I & P). exists x; auto. Qed.

Lemma rule_view_deny_wider tcp pns ru r :
  when_known pns ru = true -> rule_matches pns ru r = true -> rule_view_matches tcp false pns ru r = true.
Proof.
  intros K H. unfold rule_view_matches. rewrite K. cbn [negb]. unfold rule_matches in H.
  apply andb_true_iff in H. destruct H as [H H3]. apply andb_true_iff in H. destruct H as [H1 H2].
  rewrite !andb_true_iff. repeat split.
  - apply orb_true_iff in H1. apply orb_true_iff. destruct H1 as [H1|H1]; [now left|right].
    revert H1. apply existsb_impl. intros s. unfold source_matches. apply forallb_impl.
    intros c. apply cond_view_wider.
  - apply orb_true_iff in H2. apply orb_true_iff. destruct H2 as [H2|H2]; [now left|right].
    revert H2. apply existsb_impl. intros o. unfold operation_matches. apply forallb_impl.
    intros c. apply cond_view_wider.
  - revert H3. apply forallb_impl. intros w. unfold when_sem. destruct (when_cond pns w); [|discriminate].
    apply cond_view_wider.
Qed.

Lemma rule_view_allow_narrower tcp pns ru r : rule_view_matches tcp true pns ru r = true -> rule_matches pns ru r = true.
Proof.
  unfold rule_view_matches. destruct (negb (when_known pns ru)); [discriminate|].
  intros H. apply andb_true_iff in H. tauto.
Qed.

Definition all_when_known (ps : list policy) : bool := forallb (fun p => forallb (when_known (p_ns p)) (p_rules p)) ps.

Theorem view_never_more_permissive tcp ps r :
  all_when_known ps = true -> decision_view tcp ps r = true -> decision ps r = true.
Proof.
  intros K. unfold decision_view, decision. intros H. apply andb_true_iff in H. destruct H as [HD HA].
  apply andb_true_iff. split.
  - apply negb_true_iff. apply negb_true_iff in HD.
    destruct (existsb (fun p => policy_matches p r) (enforced DENY ps)) eqn:E; [|reflexivity].
    exfalso. apply existsb_exists in E. destruct E as (p & Hin & Hp).
    assert (V : existsb (fun p => policy_view_matches tcp p r) (enforced DENY ps) = true); [|congruence].
    apply existsb_exists. exists p. split; [assumption|].
    unfold enforced in Hin. apply filter_In in Hin. destruct Hin as [Hps Hact]. apply andb_true_iff in Hact.
    destruct Hact as [Hact _].
    assert (NA : is_action ALLOW p = false) by (unfold is_action in *; destruct (p_action p); try discriminate; reflexivity).
    unfold policy_view_matches. rewrite NA. unfold policy_matches in Hp.
    apply existsb_exists in Hp. destruct Hp as (ru & Hru & Hm). apply existsb_exists. exists ru. split; [assumption|].
    apply rule_view_deny_wider; [|assumption].
    unfold all_when_known in K. rewrite forallb_forall in K. specialize (K p Hps).
    rewrite forallb_forall in K. now apply K.
  - apply orb_true_iff in HA. apply orb_true_iff. destruct HA as [HA|HA]; [now left|right].
    apply existsb_exists in HA. destruct HA as (p & Hin & Hp). apply existsb_exists. exists p. split; [assumption|].
    unfold enforced in Hin. apply filter_In in Hin. destruct Hin as [_ Hact]. apply andb_true_iff in Hact.
    destruct Hact as [Hact _]. unfold policy_view_matches in Hp. rewrite Hact in Hp.
    revert Hp. apply existsb_impl. intros ru. apply rule_view_allow_narrower.
Qed.
