(* C08 proofs, part 6: the source.principal matcher (StringMatcherWithPrefix(v, "spiffe://")),
   incl. the suffix regex  spiffe://.*<quoted suffix>. *)
From Coq Require Import List NArith Bool String Ascii Lia.
From V Require Import C08.Model C08.Proofs C08.Proofs2 C08.Proofs3 C08.Proofs5.
Import ListNotations.
Local Open Scope string_scope.

Lemma lit_match l s : re_match (RLit l) s = String.eqb l s.
Proof.
  revert l. induction s as [|c s IH]; intros l.
  - destruct l; reflexivity.
  - destruct l as [|a l']; cbn [re_match deriv String.eqb]; [apply re_match_fail|].
    destruct (Ascii.eqb a c); [apply IH|apply re_match_fail].
Qed.

Lemma seq_alt x y L s : re_match (RSeq (RAlt x y) L) s = re_match (RSeq x L) s || re_match (RSeq y L) s.
Proof.
  revert x y. induction s as [|c s IH]; intros x y.
  - cbn. destruct (nullable x), (nullable y), (nullable L); reflexivity.
  - cbn [re_match deriv nullable].
    destruct (nullable x), (nullable y); cbn [orb]; rewrite ?re_match_alt, IH;
      generalize (re_match (RSeq (deriv c x) L) s), (re_match (RSeq (deriv c y) L) s), (re_match (deriv c L) s);
      intros [] [] []; reflexivity.
Qed.

Lemma seq_seq_fail S L s : re_match (RSeq (RSeq RFail S) L) s = false.
Proof. induction s; cbn; auto. Qed.

Definition eps_any : re := RSeq REps (RStar RAny).

Lemma star_any_step L c p :
  re_match (RSeq eps_any L) (String c p) = re_match (RSeq eps_any L) p || re_match L (String c p).
Proof.
  cbn [re_match deriv nullable eps_any andb]. rewrite re_match_alt, seq_alt, seq_seq_fail. reflexivity.
Qed.

Lemma star_any_eq L p : re_match (RSeq re_any_star L) p = re_match (RSeq eps_any L) p.
Proof.
  destruct p as [|c p]; [reflexivity|].
  rewrite star_any_step. cbn [re_match deriv nullable re_any_star]. rewrite re_match_alt. reflexivity.
Qed.

Lemma star_any_lit suf p : re_match (RSeq re_any_star (RLit suf)) p = has_suffix suf p.
Proof.
  rewrite star_any_eq. induction p as [|c p IH].
  - cbn. destruct suf; reflexivity.
  - rewrite star_any_step, IH, lit_match. cbn [has_suffix]. apply orb_comm.
Qed.

Lemma seq_lit_empty R p : re_match (RSeq (RLit "") R) p = re_match R p.
Proof.
  destruct p as [|c p]; [reflexivity|]. cbn [re_match deriv nullable]. rewrite re_match_alt, re_match_seq_fail. reflexivity.
Qed.

Lemma seq_lit_app l R p : re_match (RSeq (RLit l) R) (l ++ p) = re_match R p.
Proof.
  induction l as [|a l IH]; [apply seq_lit_empty|].
  cbn [append re_match deriv nullable]. rewrite Ascii.eqb_refl. exact IH.
Qed.

Lemma prefix_app l a b : String.prefix (l ++ a) (l ++ b) = String.prefix a b.
Proof.
  induction l as [|c l IH]; [reflexivity|]. cbn [append].
  change (String.prefix (String c (l ++ a)) (String c (l ++ b))) with
    (if ascii_dec c c then String.prefix (l ++ a) (l ++ b) else false).
  destruct (ascii_dec c c); [exact IH|congruence].
Qed.

Lemma eqb_app l a b : String.eqb (l ++ a) (l ++ b) = String.eqb a b.
Proof. induction l as [|c l IH]; [reflexivity|]. cbn [append String.eqb]. now rewrite Ascii.eqb_refl. Qed.

Lemma principal_matcher_sem v p :
  eval_smatch (string_matcher_with_prefix v spiffe_prefix) (spiffe_prefix ++ p) = form_matches false v p.
Proof.
  unfold string_matcher_with_prefix, form_matches, classify.
  destruct (String.eqb v "*") eqn:E; [cbn [eval_smatch]; rewrite any_plus; reflexivity|].
  rewrite has_prefix_star, has_suffix_star. destruct v as [|a r].
  - cbn [first_is last_is eval_smatch]. apply eqb_app.
  - cbn [first_is]. destruct (Ascii.eqb a star) eqn:Ea.
    + apply Ascii.eqb_eq in Ea. subst a.
      replace (String.eqb spiffe_prefix "") with false by reflexivity.
      unfold trim_prefix. rewrite has_prefix_star. cbn [first_is star]. rewrite Ascii.eqb_refl.
      cbn [String.length drop eval_smatch]. rewrite seq_lit_app. apply star_any_lit.
    + unfold trim_star_suffix. destruct (last_is star (String a r)); cbn [eval_smatch].
      * unfold has_prefix. apply prefix_app.
      * apply eqb_app.
Qed.

Lemma leaf_principal key v tcp ua r p :
  gen_prin KSrcPrincipal key v tcp ua = Ok p -> eval_prin p r = value_sem KSrcPrincipal key v r.
Proof.
  cbn [gen_prin]. intros H; inversion H; subst. unfold principal_authenticated, value_sem.
  destruct ua; cbn [eval_prin]; unfold peer_san.
  - destruct (r_peer r); [apply principal_matcher_sem|reflexivity].
  - replace (String.eqb peer_principal_key peer_principal_key) with true by reflexivity.
    destruct (r_peer r); [apply principal_matcher_sem|reflexivity].
Qed.

(* the premise without source.principal *)
Record leaves_rest2 (tcp use_auth : bool) (r : request) : Prop := {
  rest2_template : forall key v p, contains_path_template v = true ->
      gen_perm KPath key v tcp = Ok p -> eval_perm p r = value_sem KPath key v r;
  rest2_identity : forall k key v p,
      (k = KSrcNamespace \/ exists d, k = KSrcSvcAccount d) ->
      gen_prin k key v tcp use_auth = Ok p -> eval_prin p r = value_sem k key v r;
  rest2_ext : forall k key vs p, gen_prin_ext k key vs tcp = Ok (Some p) ->
      eval_prin p r = existsb (fun v => value_sem k key v r) vs
}.

Lemma leaves_rest2_rest tcp ua r : leaves_rest2 tcp ua r -> leaves_rest tcp ua r.
Proof.
  intros [HT HI HE]. constructor; [exact HT| |exact HE].
  intros k key v p [->|[->|[d ->]]].
  - apply HI. now left.
  - apply leaf_principal.
  - apply HI. right. now exists d.
Qed.

Theorem compile_preserves_decision_rest2 o ps r :
  leaves_rest2 (tcp o) (negb (use_filter_state o)) r ->
  alias_free_policies (trust_domains o) ps ->
  eval_filters (compile_filters o ps) r = decision_view (tcp o) ps r.
Proof. intros L. apply compile_preserves_decision_rest. now apply leaves_rest2_rest. Qed.
