(* C08 proofs, part 1: the compiler preserves the decision, for every policy list and request,
   relative to the correctness of the single-value matchers ("leaves"). *)
From Coq Require Import List NArith Bool String Ascii Lia.
From V Require Import C08.Model.
Import ListNotations.
Local Open Scope list_scope.

(* ------------------------------------------------------------------ small facts *)

Lemma is_nil_map {A B} (f : A -> B) l : is_nil (map f l) = is_nil l.
Proof. destruct l; reflexivity. Qed.

Lemma is_nil_true {A} (l : list A) : is_nil l = true -> l = [].
Proof. destruct l; [reflexivity|discriminate]. Qed.

Lemma existsb_map {A B} (f : A -> B) (p : B -> bool) l : existsb p (map f l) = existsb (fun x => p (f x)) l.
Proof. induction l; cbn; [reflexivity|now rewrite IHl]. Qed.

Lemma forallb_map {A B} (f : A -> B) (p : B -> bool) l : forallb p (map f l) = forallb (fun x => p (f x)) l.
Proof. induction l; cbn; [reflexivity|now rewrite IHl]. Qed.

Lemma forallb_ext_in {A} (p q : A -> bool) l : (forall x, In x l -> p x = q x) -> forallb p l = forallb q l.
Proof.
  induction l; cbn; intros H; [reflexivity|].
  rewrite (H a (or_introl eq_refl)), IHl; [reflexivity|]. intros; apply H; now right.
Qed.

Lemma existsb_ext_in {A} (p q : A -> bool) l : (forall x, In x l -> p x = q x) -> existsb p l = existsb q l.
Proof.
  induction l; cbn; intros H; [reflexivity|].
  rewrite (H a (or_introl eq_refl)), IHl; [reflexivity|]. intros; apply H; now right.
Qed.

Lemma existsb_flat_map {A B} (f : A -> list B) (p : B -> bool) l :
  existsb p (flat_map f l) = existsb (fun x => existsb p (f x)) l.
Proof. induction l; cbn; [reflexivity|]. now rewrite existsb_app, IHl. Qed.

Lemma existsb_filter {A} (p q : A -> bool) l : existsb p (filter q l) = existsb (fun x => q x && p x) l.
Proof. induction l; cbn; [reflexivity|]. destruct (q a); cbn; now rewrite IHl. Qed.

Lemma filter_all {A} (q : A -> bool) l : forallb q l = true -> filter q l = l.
Proof.
  induction l; cbn; [reflexivity|]. destruct (q a); cbn; [|discriminate].
  intros H; now rewrite IHl.
Qed.

(* ------------------------------------------------------------------ the value loops (or_list) *)

Section OrList.
  Context {A : Type} (gen : string -> res A) (ev : A -> bool) (sem : string -> bool) (ok : string -> bool).
  Hypothesis Hok : forall v, ok v = match gen v with Ok _ => true | Err => false end.
  Hypothesis Hleaf : forall v p, gen v = Ok p -> ev p = sem v.

  Lemma or_list_allow vs :
    if forallb ok vs
    then exists l, or_list gen true vs = Ok l /\ existsb ev l = existsb sem vs /\ is_nil l = is_nil vs
    else or_list gen true vs = Err.
  Proof.
    induction vs as [|v vs IH]; cbn.
    - exists []; repeat split.
    - rewrite Hok. destruct (gen v) as [p|] eqn:G; cbn; [|reflexivity].
      destruct (forallb ok vs).
      + destruct IH as (l & -> & E & N). exists (p :: l). cbn. rewrite (Hleaf _ _ G), E. repeat split.
      + now rewrite IH.
  Qed.

  Lemma or_list_deny vs :
    exists l, or_list gen false vs = Ok l /\ existsb ev l = existsb sem (filter ok vs) /\
              is_nil l = is_nil (filter ok vs).
  Proof.
    induction vs as [|v vs IH]; cbn.
    - exists []; repeat split.
    - rewrite Hok. destruct IH as (l & E1 & E2 & E3). destruct (gen v) as [p|] eqn:G; cbn.
      + rewrite E1. exists (p :: l). cbn. rewrite (Hleaf _ _ G), E2. repeat split.
      + exists l. repeat split; assumption.
  Qed.
End OrList.

(* ------------------------------------------------------------------ leaves: what the structural theorem assumes of single-value matchers *)

Definition perm_kind (k : kind) : bool :=
  match k with KDestIP | KDestPort | KConnSNI | KHost | KPath | KMethod => true | _ => false end.
Definition prin_kind (k : kind) : bool := negb (perm_kind k).

Record leaves_ok (tcp use_auth : bool) (r : request) : Prop := {
  leaf_perm : forall k key v p, gen_perm k key v tcp = Ok p -> eval_perm p r = value_sem k key v r;
  leaf_prin : forall k key v p, gen_prin k key v tcp use_auth = Ok p -> eval_prin p r = value_sem k key v r;
  leaf_ext : forall k key vs p, gen_prin_ext k key vs tcp = Ok (Some p) ->
                                eval_prin p r = existsb (fun v => value_sem k key v r) vs
}.

Lemma gen_perm_ok k key v tcp :
  perm_kind k = true ->
  expressible tcp k key v = match gen_perm k key v tcp with Ok _ => true | Err => false end.
Proof.
  destruct k; cbn; try discriminate; intros _;
    try (destruct (addr_str_to_cidr v); reflexivity);
    try (destruct (convert_to_port v); reflexivity);
    try reflexivity; destruct tcp; try reflexivity; cbn; destruct (contains_path_template v); reflexivity.
Qed.

Lemma gen_prin_ok k key v tcp ua :
  prin_kind k = true -> is_extended k = false ->
  expressible tcp k key v = match gen_prin k key v tcp ua with Ok _ => true | Err => false end.
Proof.
  destruct k; cbn; try discriminate; intros _ _;
    try (destruct (addr_str_to_cidr v); reflexivity);
    try reflexivity.
  destruct tcp; cbn; [reflexivity|].
  destruct (extract_name_in_brackets _); reflexivity.
Qed.

(* for extended kinds expressibility does not depend on the value *)
Lemma gen_ext_ok k key vs tcp :
  is_extended k = true -> vs <> [] ->
  match gen_prin_ext k key vs tcp with
  | Err => forall v, expressible tcp k key v = false
  | Ok None => False
  | Ok (Some _) => forall v, expressible tcp k key v = true
  end.
Proof.
  intros Hk Hvs. unfold gen_prin_ext. destruct tcp.
  - destruct k; try discriminate; intros v; reflexivity.
  - destruct k; try discriminate; cbn.
    + destruct vs as [|a [|b vs']]; [congruence| |]; cbn; intros; reflexivity.
    + intros; reflexivity.
    + intros; reflexivity.
    + destruct (extract_name_in_nested_brackets _); intros; reflexivity.
Qed.

(* ------------------------------------------------------------------ one condition *)

Definition view_of (allow tcp : bool) (c : cond) : cond := if allow then c else cond_view tcp c.
Definition ok_of (allow tcp : bool) (c : cond) : bool := if allow then cond_expressible tcp c else true.

Lemma pack_perm_sem r vs ns :
  forallb (fun q => eval_perm q r) ((if is_nil vs then [] else [POr vs]) ++ (if is_nil ns then [] else [PNot (POr ns)])) =
  (is_nil vs || existsb (fun q => eval_perm q r) vs) && negb (existsb (fun q => eval_perm q r) ns).
Proof.
  destruct vs, ns; cbn; try reflexivity; rewrite ?andb_true_r; reflexivity.
Qed.

Lemma pack_prin_sem r vs ns :
  forallb (fun q => eval_prin q r) ((if is_nil vs then [] else [IOr vs]) ++ (if is_nil ns then [] else [INot (IOr ns)])) =
  (is_nil vs || existsb (fun q => eval_prin q r) vs) && negb (existsb (fun q => eval_prin q r) ns).
Proof.
  destruct vs, ns; cbn; try reflexivity; rewrite ?andb_true_r; reflexivity.
Qed.

Section Cond.
  Variables (tcp ua : bool) (r : request).
  Hypothesis L : leaves_ok tcp ua r.

  Lemma rule_permission_spec allow c :
    perm_kind (ck c) = true ->
    if ok_of allow tcp c
    then exists l, rule_permission allow tcp c = Ok l /\
                   forallb (fun q => eval_perm q r) l = cond_sem (view_of allow tcp c) r
    else rule_permission allow tcp c = Err.
  Proof.
    intros Hk. unfold rule_permission, ok_of, view_of.
    set (gen := fun v => gen_perm (ck c) (ckey c) v tcp).
    set (sem := fun v => value_sem (ck c) (ckey c) v r).
    set (ok := expressible tcp (ck c) (ckey c)).
    assert (Hok : forall v, ok v = match gen v with Ok _ => true | Err => false end)
      by (intros; apply gen_perm_ok; assumption).
    assert (Hl : forall v p, gen v = Ok p -> eval_perm p r = sem v) by (intros v p; apply (leaf_perm _ _ _ L)).
    destruct allow.
    - unfold cond_expressible. fold ok.
      pose proof (or_list_allow gen (fun q => eval_perm q r) sem ok Hok Hl (cvals c)) as H1.
      pose proof (or_list_allow gen (fun q => eval_perm q r) sem ok Hok Hl (cnots c)) as H2.
      destruct (forallb ok (cvals c)); cbn.
      + destruct H1 as (l1 & -> & E1 & N1).
        destruct (forallb ok (cnots c)).
        * destruct H2 as (l2 & -> & E2 & N2). eexists; split; [reflexivity|].
          rewrite pack_perm_sem, E1, E2, N1. reflexivity.
        * now rewrite H2.
      + now rewrite H1.
    - destruct (or_list_deny gen (fun q => eval_perm q r) sem ok Hok Hl (cvals c)) as (l1 & -> & E1 & N1).
      destruct (or_list_deny gen (fun q => eval_perm q r) sem ok Hok Hl (cnots c)) as (l2 & -> & E2 & N2).
      eexists; split; [reflexivity|]. rewrite pack_perm_sem, E1, E2, N1. reflexivity.
  Qed.

  Lemma ext_half_spec allow c vs neg :
    is_extended (ck c) = true ->
    if allow && negb (forallb (expressible tcp (ck c) (ckey c)) vs)
    then ext_half allow tcp c vs neg = Err
    else exists l, ext_half allow tcp c vs neg = Ok l /\
         forallb (fun q => eval_prin q r) l =
         let vs' := if allow then vs else filter (expressible tcp (ck c) (ckey c)) vs in
         if neg then negb (existsb (fun v => value_sem (ck c) (ckey c) v r) vs')
         else is_nil vs' || existsb (fun v => value_sem (ck c) (ckey c) v r) vs'.
  Proof.
    intros Hk. unfold ext_half. destruct (is_nil vs) eqn:Nn.
    - apply is_nil_true in Nn. subst vs. cbn. rewrite andb_false_r. exists []. split; [reflexivity|].
      destruct allow, neg; reflexivity.
    - assert (Hne : vs <> []) by (intros ->; discriminate).
      pose proof (gen_ext_ok (ck c) (ckey c) vs tcp Hk Hne) as G.
      destruct (gen_prin_ext (ck c) (ckey c) vs tcp) as [[p|]|] eqn:E; [| contradiction |].
      + assert (F : forallb (expressible tcp (ck c) (ckey c)) vs = true)
          by (apply forallb_forall; intros; apply G).
        rewrite F, andb_false_r. rewrite (filter_all _ _ F).
        exists [if neg then INot p else p]. split; [reflexivity|].
        pose proof (leaf_ext _ _ _ L _ _ _ _ E) as Hp.
        destruct allow, neg; cbn; rewrite ?Nn, Hp, ?andb_true_r; reflexivity.
      + assert (F : forallb (expressible tcp (ck c) (ckey c)) vs = false).
        { destruct vs as [|v0 vs0]; [congruence|]. cbn. rewrite G. reflexivity. }
        rewrite F. destruct allow; cbn; [reflexivity|].
        assert (Fl : filter (expressible tcp (ck c) (ckey c)) vs = []).
        { clear -G. induction vs; cbn; [reflexivity|]. rewrite G. assumption. }
        rewrite Fl. exists []. split; [reflexivity|]. destruct neg; reflexivity.
  Qed.

  Lemma rule_principal_spec allow c :
    prin_kind (ck c) = true ->
    if ok_of allow tcp c
    then exists l, rule_principal allow tcp ua c = Ok l /\
                   forallb (fun q => eval_prin q r) l = cond_sem (view_of allow tcp c) r
    else rule_principal allow tcp ua c = Err.
  Proof.
    intros Hk. unfold rule_principal. destruct (is_extended (ck c)) eqn:Hx.
    - pose proof (ext_half_spec allow c (cvals c) false Hx) as H1.
      pose proof (ext_half_spec allow c (cnots c) true Hx) as H2.
      unfold ok_of, view_of, cond_expressible. destruct allow; cbn [andb negb] in *.
      + destruct (forallb (expressible tcp (ck c) (ckey c)) (cvals c)); cbn [negb] in *.
        * destruct H1 as (l1 & -> & E1). destruct (forallb (expressible tcp (ck c) (ckey c)) (cnots c)); cbn [negb andb] in *.
          -- destruct H2 as (l2 & -> & E2). eexists; split; [reflexivity|].
             rewrite forallb_app, E1, E2. reflexivity.
          -- now rewrite H2.
        * now rewrite H1.
      + destruct H1 as (l1 & -> & E1). destruct H2 as (l2 & -> & E2).
        eexists; split; [reflexivity|]. rewrite forallb_app, E1, E2. reflexivity.
    - unfold ok_of, view_of.
      set (gen := fun v => gen_prin (ck c) (ckey c) v tcp ua).
      set (sem := fun v => value_sem (ck c) (ckey c) v r).
      set (ok := expressible tcp (ck c) (ckey c)).
      assert (Hok : forall v, ok v = match gen v with Ok _ => true | Err => false end)
        by (intros; apply gen_prin_ok; assumption).
      assert (Hl : forall v p, gen v = Ok p -> eval_prin p r = sem v) by (intros v p; apply (leaf_prin _ _ _ L)).
      destruct allow.
      + unfold cond_expressible. fold ok.
        pose proof (or_list_allow gen (fun q => eval_prin q r) sem ok Hok Hl (cvals c)) as H1.
        pose proof (or_list_allow gen (fun q => eval_prin q r) sem ok Hok Hl (cnots c)) as H2.
        destruct (forallb ok (cvals c)); cbn.
        * destruct H1 as (l1 & -> & E1 & N1).
          destruct (forallb ok (cnots c)).
          -- destruct H2 as (l2 & -> & E2 & N2). eexists; split; [reflexivity|].
             rewrite pack_prin_sem, E1, E2, N1. reflexivity.
          -- now rewrite H2.
        * now rewrite H1.
      + destruct (or_list_deny gen (fun q => eval_prin q r) sem ok Hok Hl (cvals c)) as (l1 & -> & E1 & N1).
        destruct (or_list_deny gen (fun q => eval_prin q r) sem ok Hok Hl (cnots c)) as (l2 & -> & E2 & N2).
        eexists; split; [reflexivity|]. rewrite pack_prin_sem, E1, E2, N1. reflexivity.
  Qed.

  (* ---------------------------------------------------------------- a ruleList *)

  Lemma concat_res_spec {X} (f : cond -> res (list X)) (ev : X -> bool) (kindp : kind -> bool) allow rl :
    (forall c, kindp (ck c) = true ->
       if ok_of allow tcp c
       then exists l, f c = Ok l /\ forallb ev l = cond_sem (view_of allow tcp c) r
       else f c = Err) ->
    forallb (fun c => kindp (ck c)) rl = true ->
    if forallb (ok_of allow tcp) rl
    then exists l, concat_res f rl = Ok l /\ forallb ev l = forallb (fun c => cond_sem (view_of allow tcp c) r) rl
    else concat_res f rl = Err.
  Proof.
    intros Hf. induction rl as [|c rl IH]; cbn; intros Hk.
    - exists []; split; reflexivity.
    - apply andb_true_iff in Hk. destruct Hk as [Hc Hrl]. specialize (IH Hrl). specialize (Hf c Hc).
      destruct (ok_of allow tcp c); cbn.
      + destruct Hf as (l & -> & E). destruct (forallb (ok_of allow tcp) rl).
        * destruct IH as (l' & -> & E'). eexists; split; [reflexivity|]. now rewrite forallb_app, E, E'.
        * now rewrite IH.
      + now rewrite Hf.
  Qed.

  Lemma generate_permission_spec allow rl :
    forallb (fun c => perm_kind (ck c)) rl = true ->
    if forallb (ok_of allow tcp) rl
    then exists p, generate_permission allow tcp rl = Ok p /\
                   eval_perm p r = forallb (fun c => cond_sem (view_of allow tcp c) r) rl
    else generate_permission allow tcp rl = Err.
  Proof.
    intros Hk. unfold generate_permission.
    pose proof (concat_res_spec (rule_permission allow tcp) (fun q => eval_perm q r) perm_kind allow rl
                  (fun c => rule_permission_spec allow c) Hk) as H.
    destruct (forallb (ok_of allow tcp) rl).
    - destruct H as (l & -> & E). eexists; split; [reflexivity|]. rewrite <- E.
      destruct l; reflexivity.
    - now rewrite H.
  Qed.

  Lemma generate_principal_spec allow rl :
    forallb (fun c => prin_kind (ck c)) rl = true ->
    if forallb (ok_of allow tcp) rl
    then exists p, generate_principal allow tcp ua rl = Ok p /\
                   eval_prin p r = forallb (fun c => cond_sem (view_of allow tcp c) r) rl
    else generate_principal allow tcp ua rl = Err.
  Proof.
    intros Hk. unfold generate_principal.
    pose proof (concat_res_spec (rule_principal allow tcp ua) (fun q => eval_prin q r) prin_kind allow rl
                  (fun c => rule_principal_spec allow c) Hk) as H.
    destruct (forallb (ok_of allow tcp) rl).
    - destruct H as (l & -> & E). eexists; split; [reflexivity|]. rewrite <- E.
      destruct l; reflexivity.
    - now rewrite H.
  Qed.

  Lemma map_res_spec {X} (f : list cond -> res X) (ev : X -> bool) (kindp : kind -> bool) allow rls :
    (forall rl, forallb (fun c => kindp (ck c)) rl = true ->
       if forallb (ok_of allow tcp) rl
       then exists p, f rl = Ok p /\ ev p = forallb (fun c => cond_sem (view_of allow tcp c) r) rl
       else f rl = Err) ->
    forallb (fun rl => forallb (fun c => kindp (ck c)) rl) rls = true ->
    if forallb (fun rl => forallb (ok_of allow tcp) rl) rls
    then exists l, map_res f rls = Ok l /\ is_nil l = is_nil rls /\
         existsb ev l = existsb (fun rl => forallb (fun c => cond_sem (view_of allow tcp c) r) rl) rls
    else map_res f rls = Err.
  Proof.
    intros Hf. induction rls as [|rl rls IH]; cbn; intros Hk.
    - exists []; repeat split.
    - apply andb_true_iff in Hk. destruct Hk as [Hc Hrl]. specialize (IH Hrl). specialize (Hf rl Hc).
      destruct (forallb (ok_of allow tcp) rl); cbn.
      + destruct Hf as (p & -> & E). destruct (forallb _ rls).
        * destruct IH as (l' & -> & N & E'). eexists; split; [reflexivity|]. cbn. now rewrite E, E'.
        * now rewrite IH.
      + now rewrite Hf.
  Qed.

  (* Model.Generate on a model whose lists are well-sided and non-empty *)
  Lemma generate_spec allow m :
    forallb (fun rl => forallb (fun c => perm_kind (ck c)) rl) (m_permissions m) = true ->
    forallb (fun rl => forallb (fun c => prin_kind (ck c)) rl) (m_principals m) = true ->
    m_permissions m <> [] -> m_principals m <> [] ->
    if forallb (fun rl => forallb (ok_of allow tcp) rl) (m_permissions m) &&
       forallb (fun rl => forallb (ok_of allow tcp) rl) (m_principals m)
    then exists p, generate allow tcp ua m = Ok p /\
         eval_rpolicy p r =
         existsb (fun rl => forallb (fun c => cond_sem (view_of allow tcp c) r) rl) (m_permissions m) &&
         existsb (fun rl => forallb (fun c => cond_sem (view_of allow tcp c) r) rl) (m_principals m)
    else generate allow tcp ua m = Err.
  Proof.
    intros K1 K2 N1 N2. unfold generate.
    pose proof (map_res_spec (generate_permission allow tcp) (fun q => eval_perm q r) perm_kind allow
                  (m_permissions m) (generate_permission_spec allow) K1) as H1.
    pose proof (map_res_spec (generate_principal allow tcp ua) (fun q => eval_prin q r) prin_kind allow
                  (m_principals m) (generate_principal_spec allow) K2) as H2.
    set (b1 := forallb (fun rl => forallb (ok_of allow tcp) rl) (m_permissions m)) in *.
    set (b2 := forallb (fun rl => forallb (ok_of allow tcp) rl) (m_principals m)) in *.
    destruct b1; cbn.
    - destruct H1 as (l1 & -> & Nl1 & E1).
      assert (is_nil l1 = false) as -> by (rewrite Nl1; destruct (m_permissions m); [congruence|reflexivity]).
      destruct b2.
      + destruct H2 as (l2 & -> & Nl2 & E2).
        assert (is_nil l2 = false) as -> by (rewrite Nl2; destruct (m_principals m); [congruence|reflexivity]).
        eexists; split; [reflexivity|]. unfold eval_rpolicy; cbn. now rewrite E1, E2.
      + now rewrite H2.
    - now rewrite H1.
  Qed.
End Cond.
