(* Evaluation of harness cases for C08. *)
From V Require Export lib.Verdict C08.Model.
Local Open Scope N_scope.

(* One policy set driven through the REAL builder (builder.New(..).BuildHTTP()/BuildTCP()), the
   RBAC protos of the produced filters decoded into the model AST, and requests built from the
   policies' constants and their near misses.  Request j of case [id] is reported as id+1+j;
   [Req] carries no data (it only reserves that id for the (policy, request) sample). *)
Inductive case :=
| Decide (id : N) (o : options) (ps : list policy) (observed : list rfilter) (reqs : list request)
| Req (id : N).

Definition case_id c := match c with Decide id _ _ _ _ => id | Req id => id end.

(* ---- structural equality of the target AST (regexes up to [canon]) *)
Section ListEq.
  Variable A : Type.
  Variable eqb : A -> A -> bool.
  Fixpoint leqb (l1 l2 : list A) : bool :=
    match l1, l2 with
    | [], [] => true
    | x :: l1', y :: l2' => eqb x y && leqb l1' l2'
    | _, _ => false
    end.
End ListEq.
Arguments leqb {A} eqb l1 l2.

Definition smatch_eqb (a b : smatch) : bool :=
  match a, b with
  | SExact x i, SExact y j | SPrefix x i, SPrefix y j | SSuffix x i, SSuffix y j => String.eqb x y && Bool.eqb i j
  | SRegex x, SRegex y => re_eqb (canon x) (canon y)
  | _, _ => false
  end.
Definition hmatch_eqb (a b : hmatch) : bool :=
  match a, b with
  | HPresent, HPresent => true
  | HString x, HString y => smatch_eqb x y
  | _, _ => false
  end.
Fixpoint vmatch_eqb (a b : vmatch) : bool :=
  match a, b with
  | VString x, VString y => smatch_eqb x y
  | VOr l1, VOr l2 => leqb vmatch_eqb l1 l2
  | VList x, VList y => vmatch_eqb x y
  | _, _ => false
  end.
Definition cidr_eqb (a b : cidr) : bool := N.eqb (c_addr a) (c_addr b) && N.eqb (c_len a) (c_len b).

Fixpoint perm_eqb (a b : perm) : bool :=
  match a, b with
  | PAny, PAny => true
  | PAnd l1, PAnd l2 | POr l1, POr l2 => leqb perm_eqb l1 l2
  | PNot x, PNot y => perm_eqb x y
  | PHeader n1 m1, PHeader n2 m2 => String.eqb n1 n2 && hmatch_eqb m1 m2
  | PUrlPath x, PUrlPath y | PSNI x, PSNI y => smatch_eqb x y
  | PDestPort x, PDestPort y => N.eqb x y
  | PDestIP x, PDestIP y => cidr_eqb x y
  | PMetadata f1 p1 v1, PMetadata f2 p2 v2 => String.eqb f1 f2 && leqb String.eqb p1 p2 && vmatch_eqb v1 v2
  | PUriTemplate x, PUriTemplate y => String.eqb x y
  | _, _ => false
  end.

Fixpoint prin_eqb (a b : prin) : bool :=
  match a, b with
  | IAny, IAny => true
  | IAnd l1, IAnd l2 | IOr l1, IOr l2 => leqb prin_eqb l1 l2
  | INot x, INot y => prin_eqb x y
  | IAuthenticated x, IAuthenticated y => smatch_eqb x y
  | IFilterState k1 x, IFilterState k2 y => String.eqb k1 k2 && smatch_eqb x y
  | IDirectRemoteIP x, IDirectRemoteIP y | IRemoteIP x, IRemoteIP y => cidr_eqb x y
  | IHeader n1 m1, IHeader n2 m2 => String.eqb n1 n2 && hmatch_eqb m1 m2
  | IMetadata f1 p1 v1, IMetadata f2 p2 v2 => String.eqb f1 f2 && leqb String.eqb p1 p2 && vmatch_eqb v1 v2
  | _, _ => false
  end.

Definition rpolicy_eqb (a b : rpolicy) : bool :=
  leqb perm_eqb (rp_permissions a) (rp_permissions b) && leqb prin_eqb (rp_principals a) (rp_principals b).
Definition raction_eqb (a b : raction) : bool :=
  match a, b with RAllow, RAllow | RDeny, RDeny | RLog, RLog => true | _, _ => false end.
Definition named_eqb (a b : (N * N) * rpolicy) : bool :=
  N.eqb (fst (fst a)) (fst (fst b)) && N.eqb (snd (fst a)) (snd (fst b)) && rpolicy_eqb (snd a) (snd b).
Definition rbac_eqb (a b : rbac) : bool :=
  raction_eqb (rb_action a) (rb_action b) && leqb named_eqb (rb_policies a) (rb_policies b).
Definition rfilter_eqb (a b : rfilter) : bool :=
  option_eqb rbac_eqb (f_rules a) (f_rules b) && option_eqb rbac_eqb (f_shadow a) (f_shadow b).

(* correspondence: the model compiler predicts the real builder's output *)
Definition model_ok (c : case) : bool :=
  match c with
  | Decide _ o ps obs _ => leqb rfilter_eqb (compile_filters o ps) obs
  | Req _ => true
  end.

(* property oracle on ONE request: the REAL decoded filters, run by the reference evaluator,
   decide as the policy semantics say (policies read under the mesh's trust-domain aliases,
   and "as expressible on the chain"); and the result is never more permissive than the plain
   decision whenever every `when` attribute is a known one *)
Definition all_when_known (ps : list policy) : bool :=
  forallb (fun p => forallb (when_known (p_ns p)) (p_rules p)) ps.

Definition req_ok (o : options) (ps : list policy) (obs : list rfilter) (r : request) : bool :=
  let ps' := alias_policies (trust_domains o) ps in
  Bool.eqb (eval_filters obs r) (decision_view (tcp o) ps' r) &&
  (negb (all_when_known ps) || implb (eval_filters obs r) (decision ps' r)).

Definition prop_ok (c : case) : bool :=
  match c with
  | Decide _ o ps obs reqs => forallb (req_ok o ps obs) reqs
  | Req _ => true
  end.

Fixpoint failing (o : options) (ps : list policy) (obs : list rfilter) (id : N) (reqs : list request)
  : list (N * verdict) :=
  match reqs with
  | [] => []
  | r :: reqs' =>
      (if req_ok o ps obs r then [] else [(id, PropertyFails)]) ++ failing o ps obs (id + 1) reqs'
  end.

Definition check_case (c : case) : list (N * verdict) :=
  match c with
  | Decide id o ps obs reqs =>
      (if model_ok c then [] else [(id, ModelDiffers)]) ++ failing o ps obs (id + 1) reqs
  | Req _ => []
  end.

Definition mismatches (cs : list case) : list (N * verdict) := flat_map check_case cs.
