(* Evaluation of harness cases for C17. *)
From V Require Export lib.Verdict C17.Model.
From Coq Require Import List NArith ZArith Bool String Ascii.
Import ListNotations.
Local Open Scope string_scope.
Local Open Scope list_scope.

Inductive case :=
(* stable service sorters on a list and on a permutation of it ([p] = indices into [l]); [out]/[out'] =
   tags in the order the REAL sorter returned.  rule 0 = model.SortServicesByCreationTime,
   1 = serviceentry.sortServicesByCreationTime *)
| SortSvc (id : N) (rule : N) (l : list svc) (p : list nat) (out out' : list N)
(* unstable config sorters. rule 0 = sortConfigByCreationTime, 1 = sortMergedVirtualServicesByCreationTime,
   2 = sortConfigBySelectorAndCreationTime *)
| SortCfg (id : N) (rule : N) (l : list cfg) (p : list nat) (out out' : list N)
(* the total-order laws on the implementation: signs of the real comparator on a triple, in the order
   ab ba bc cb ac ca aa *)
| CmpSvc (id : N) (rule : N) (a b c : svc) (obs : list Z)
| CmpCfg (id : N) (rule : N) (a b c : cfg) (obs : list Z)
(* the real initServiceRegistry (PushContext.InitContext) with env.Services() returning [l] resp. the
   permuted list: winners of HostnameAndNamespace as ((hostname, namespace), tag), sorted by key *)
| HostIdx (id : N) (l : list svc) (p : list nat) (obs obs' : list (hkey * N))
(* EndpointShards.Keys() for two insertion orders of the same keys *)
| Shards (id : N) (l : list shard) (p : list nat) (out out' : list shard)
(* pickBest/pickFirstVisibleNamespace called repeatedly on one map: the distinct results seen *)
| PickNs (id : N) (best : bool) (l : list nsvc) (obs : list string)
(* mergeAllVirtualHosts called repeatedly on equal maps: the distinct outputs, and for each the tags
   after util.SortVirtualHosts (what the caller does next) *)
| MergeVh (id : N) (m : list (Z * list vhost)) (obs : list (list vhost)) (sorted : list (list N))
(* endpoint_builder generate via the EDS generator: endpoints (locality, id) in shard order, observed
   LocalityLbEndpoints as (locality label, endpoint ids) for two insertion orders of the endpoints'
   localities *)
| Locality (id : N) (eps : list ep) (obs : list (string * list N))
(* the real initSidecarScopes + getSidecarScope (PushContext.InitContext + Proxy.SetSidecarScope) over a config
   store listing the Sidecars [l] in that order resp. permuted by [p]; [ms] = tags whose selector matches the
   workload; [obs]/[obs'] = tag of the Sidecar that governs the proxy (None = default scope) *)
| SidecarPick (id : N) (l : list cfg) (ms : list N) (proxy_ns root_ns : string) (p : list nat) (obs obs' : option N)
(* per-namespace order of policies after PushContext.InitContext for two listing orders.
   kind 1 AuthorizationPolicy, 2 Telemetry, 3 RequestAuthentication, 4 PeerAuthentication *)
| CallSite (id : N) (kind : N) (l : list cfg) (nss : list string) (p : list nat) (out out' : list N)
(* PushContext.EnvoyFilters(proxy): order of the matched filters (priority, config) for two listing orders *)
| EnvoyF (id : N) (root : string) (l : list (Z * cfg)) (p : list nat) (out out' : list N)
(* model.MostSpecificHostMatch over a wildcard map, called repeatedly: the distinct results seen ("" = no match) *)
| HostMatch (id : N) (needle : string) (wild : list string) (obs : list string)
(* EXPLORATION (no model): per-resource digests (name digest, bytes digest), sorted by type and name, of
   all CDS/LDS/RDS/EDS resources of one proxy for two runs that must agree. kind 0 = repeated generation
   on one server, 1 = same objects inserted in another order into a second server *)
| Direct (id : N) (kind : N) (a b : list (N * N))
(* EXPLORATION: the ORDER of the resources of one type (0 cds, 1 lds, 2 rds, 3 eds) inside a response, as
   name digests, for two generations by the real generators on one server *)
| Order (id : N) (typ : N) (a b : list N).

Definition case_id c :=
  match c with
  | SortSvc id _ _ _ _ _ | SortCfg id _ _ _ _ _ | CmpSvc id _ _ _ _ _ | CmpCfg id _ _ _ _ _
  | HostIdx id _ _ _ _ | Shards id _ _ _ _ | PickNs id _ _ _ | MergeVh id _ _ _
  | Locality id _ _ | Direct id _ _ _ | Order id _ _ _
  | SidecarPick id _ _ _ _ _ _ _ | CallSite id _ _ _ _ _ _ | EnvoyF id _ _ _ _ _ | HostMatch id _ _ _ => id
  end.

(* ------------------------------------------------------------------ helpers *)

Definition nlist_eqb := list_eqb N.eqb.
Definition slist_eqb := list_eqb String.eqb.

Definition valid_perm (n : nat) (p : list nat) : bool :=
  Nat.eqb (List.length p) n && forallb (fun i => existsb (Nat.eqb i) p) (seq 0 n).

Definition dsvc := MkSvc 0 0 "" "" "" false "".
Definition dcfg := MkCfg 0 0 "" "" false.

Definition svc_rule (r : N) : svc -> svc -> comparison := if N.eqb r 0 then svc_cmp else se_cmp.
Definition cfg_rule (r : N) : cfg -> cfg -> comparison := if N.eqb r 2 then dr_cmp else cfg_cmp.

Definition sgn (c : comparison) : Z := match c with Lt => (-1)%Z | Eq => 0%Z | Gt => 1%Z end.

Definition has_tie {A} (cmp : A -> A -> comparison) (l : list A) : bool :=
  (* some pair at different positions compares Eq *)
  (fix go (l : list A) : bool :=
     match l with
     | [] => false
     | x :: l' => existsb (fun y => match cmp x y with Eq => true | _ => false end) l' || go l'
     end) l.

(* [o] lists the tags of a sorted permutation of [l] *)
Definition find_tag {A} (tag : A -> N) (l : list A) (t : N) : option A := find (fun x => N.eqb (tag x) t) l.

Definition sorted_perm_of {A} (tag : A -> N) (d : A) (cmp : A -> A -> comparison) (l : list A) (o : list N) : bool :=
  let xs := map (fun t => match find_tag tag l t with Some x => x | None => d end) o in
  nlist_eqb (map tag xs) o
  && Nat.eqb (List.length o) (List.length l)
  && forallb (fun x => existsb (N.eqb (tag x)) o) l
  && sortedb cmp xs.

(* sign laws of a comparator on a triple: obs = [ab; ba; bc; cb; ac; ca; aa] *)
Definition laws_ok (obs : list Z) : bool :=
  match obs with
  | [ab; ba; bc; cb; ac; ca; aa] =>
      Z.eqb ab (- ba) && Z.eqb bc (- cb) && Z.eqb ac (- ca) && Z.eqb aa 0
      (* transitivity of < in both directions *)
      && (negb (Z.eqb ab (-1) && Z.eqb bc (-1)) || Z.eqb ac (-1))
      && (negb (Z.eqb ab 1 && Z.eqb bc 1) || Z.eqb ac 1)
      (* Eq is a congruence *)
      && (negb (Z.eqb ab 0) || Z.eqb ac bc)
      && (negb (Z.eqb bc 0) || Z.eqb ab ac)
  | _ => false
  end.

Definition svc_key_eqb (r : N) (x y : svc) : bool :=
  Z.eqb (s_time x) (s_time y) && String.eqb (s_name x) (s_name y) && String.eqb (s_ns x) (s_ns y)
  && String.eqb (s_obj x) (s_obj y)
  && (negb (N.eqb r 0) || String.eqb (s_host x) (s_host y)).

Definition cfg_key_eqb (r : N) (x y : cfg) : bool :=
  Z.eqb (c_time x) (c_time y) && String.eqb (c_name x) (c_name y) && String.eqb (c_ns x) (c_ns y)
  && (negb (N.eqb r 2) || Bool.eqb (c_sel x) (c_sel y)).

(* Eq exactly on equal keys: the comparator is a total order ON THE KEY *)
Definition sep_ok {A} (keq : A -> A -> bool) (a b c : A) (obs : list Z) : bool :=
  match obs with
  | [ab; _; bc; _; ac; _; _] =>
      Bool.eqb (Z.eqb ab 0) (keq a b) && Bool.eqb (Z.eqb bc 0) (keq b c) && Bool.eqb (Z.eqb ac 0) (keq a c)
  | _ => false
  end.

Definition hk_pair_eqb (a b : hkey * N) : bool := hkey_eqb (fst a) (fst b) && N.eqb (snd a) (snd b).

Definition host_obs_ok (l : list svc) (obs : list (hkey * N)) : bool :=
  Nat.eqb (List.length obs) (List.length (host_index l))
  && forallb (fun kt => option_eqb N.eqb (winner l (fst kt)) (Some (snd kt))) obs.

Definition shard_eqb (a b : shard) : bool := String.eqb (fst a) (fst b) && String.eqb (snd a) (snd b).

Definition vh_eqb (a b : vhost) : bool :=
  N.eqb (v_tag a) (v_tag b) && String.eqb (v_name a) (v_name b) && slist_eqb (v_domains a) (v_domains b).

Definition loc_eqb (a b : string * list N) : bool := String.eqb (fst a) (fst b) && nlist_eqb (snd a) (snd b).

Definition all_equal {A} (eqb : A -> A -> bool) (l : list A) : bool :=
  match l with
  | [] => true
  | x :: l' => forallb (eqb x) l'
  end.

Definition nn_eqb (a b : N * N) : bool := N.eqb (fst a) (fst b) && N.eqb (snd a) (snd b).

(* strings.HasSuffix(needle, h[1:]) — case sensitive *)
Definition is_suffix (suf s : string) : bool :=
  Nat.leb (String.length suf) (String.length s)
  && String.eqb (String.substring (String.length s - String.length suf) (String.length suf) s) suf.
Definition wild_matches (needle h : string) : bool :=
  match h with String _ t => is_suffix t needle | EmptyString => false end.

(* ------------------------------------------------------------------ correspondence *)

Definition model_ok (c : case) : bool :=
  match c with
  | SortSvc _ r l p out out' =>
      let cmp := svc_rule r in
      valid_perm (List.length l) p
      && nlist_eqb (map s_tag (isort cmp l)) out
      && nlist_eqb (map s_tag (isort cmp (nth_all dsvc l p))) out'
  | SortCfg _ r l p out out' =>
      let cmp := cfg_rule r in
      valid_perm (List.length l) p
      && (if has_tie cmp l
          then sorted_perm_of c_tag dcfg cmp l out && sorted_perm_of c_tag dcfg cmp l out'
          else nlist_eqb (map c_tag (isort cmp l)) out
               && nlist_eqb (map c_tag (isort cmp (nth_all dcfg l p))) out')
  | CmpSvc _ r a b c obs =>
      let cmp := svc_rule r in
      list_eqb Z.eqb obs (map sgn [cmp a b; cmp b a; cmp b c; cmp c b; cmp a c; cmp c a; cmp a a])
  | CmpCfg _ r a b c obs =>
      let cmp := cfg_rule r in
      list_eqb Z.eqb obs (map sgn [cmp a b; cmp b a; cmp b c; cmp c b; cmp a c; cmp c a; cmp a a])
  | HostIdx _ l p obs obs' =>
      valid_perm (List.length l) p && host_obs_ok l obs && host_obs_ok (nth_all dsvc l p) obs'
  | Shards _ l p out out' =>
      valid_perm (List.length l) p
      && list_eqb shard_eqb (isort shard_cmp l) out
      && list_eqb shard_eqb (isort shard_cmp (nth_all ("", "") l p)) out'
  | PickNs _ best l obs =>
      let f := if best then pick_best else pick_first in
      let possible := map f (perms l) in
      negb (Nat.eqb (List.length obs) 0)
      && forallb (fun o => existsb (String.eqb o) possible) obs
  | MergeVh _ m obs sorted =>
      let possible := map merge_all (perms m) in
      negb (Nat.eqb (List.length obs) 0)
      && forallb (fun o => existsb (list_eqb vh_eqb o) possible) obs
      && list_eqb nlist_eqb (map (fun o => map v_tag (sort_vhosts o)) obs) sorted
  | Locality _ eps obs =>
      list_eqb loc_eqb (locality_order (map fst (group_localities eps)) eps) obs
  | Direct _ _ _ _ => true
  | Order _ _ _ _ => true
  | SidecarPick _ l ms pns root p obs obs' =>
      valid_perm (List.length l) p
      && option_eqb N.eqb (choose_sidecar pns root ms l) obs
      && option_eqb N.eqb (choose_sidecar pns root ms (nth_all dcfg l p)) obs'
  | CallSite _ kind l nss p out out' =>
      valid_perm (List.length l) p
      && nlist_eqb (map c_tag (callsite_order kind nss l)) out
      && nlist_eqb (map c_tag (callsite_order kind nss (nth_all dcfg l p))) out'
  | HostMatch _ needle wild obs =>
      let cands := filter (wild_matches needle) wild in
      negb (Nat.eqb (List.length obs) 0)
      && forallb (fun o => match cands with
                           | [] => String.eqb o ""
                           | _ => existsb (String.eqb o) cands
                           end) obs
  | EnvoyF _ root l p out out' =>
      valid_perm (List.length l) p
      && nlist_eqb (map (fun x => c_tag (snd x)) (sort_envoyfilters root l)) out
      && nlist_eqb (map (fun x => c_tag (snd x)) (sort_envoyfilters root (nth_all (0%Z, dcfg) l p))) out'
  end.

(* ------------------------------------------------------------------ property oracle on the observed output *)

Definition prop_ok (c : case) : bool :=
  match c with
  | SortSvc _ _ _ _ out out' => nlist_eqb out out'
  | SortCfg _ r l _ out out' =>
      (* C17_configs_order: (namespace, name) unique in a list of one kind; lists violating it are the
         malformed stream and only checked for "sorted permutation" *)
      if has_tie (cfg_rule r) l then true else nlist_eqb out out'
  | CmpSvc _ r a b c obs => laws_ok obs && sep_ok (svc_key_eqb r) a b c obs
  | CmpCfg _ r a b c obs => laws_ok obs && sep_ok (cfg_key_eqb r) a b c obs
  | HostIdx _ _ _ obs obs' => list_eqb hk_pair_eqb obs obs'
  | Shards _ _ _ out out' => list_eqb shard_eqb out out'
  | PickNs _ _ _ obs => Nat.eqb (List.length obs) 1
  | MergeVh _ _ _ sorted => all_equal nlist_eqb sorted
  | Locality _ _ obs => sortedb String.compare (map fst obs)
                        && negb (has_tie String.compare (map fst obs))
  | Direct _ _ a b => list_eqb nn_eqb a b
  | Order _ _ a b => nlist_eqb a b
  | SidecarPick _ _ _ _ _ _ obs obs' => option_eqb N.eqb obs obs'
  | CallSite _ _ _ _ _ out out' => nlist_eqb out out'
  | EnvoyF _ _ _ _ out out' => nlist_eqb out out'
  | HostMatch _ _ _ obs => Nat.eqb (List.length obs) 1
  end.

Definition mismatches := check_all case_id model_ok prop_ok.
