(* C17 property theorems only. *)
From Coq Require Import List NArith ZArith Bool String Ascii Permutation.
From V Require Import lib.Verdict C17.Model C17.Proofs C17.ProofsRules.
Import ListNotations.
Local Open Scope string_scope.
Local Open Scope list_scope.

(* Generic: for a comparator that is a weak order and separates the elements of the list (it is a total
   order on the key and the keys are unique), ANY two sorted permutations of permuted inputs coincide —
   whatever sorting algorithm produced them (slices.SortFunc is not stable) ... *)
Theorem C17_any_sort_perm_invariant :
  forall (A : Type) (cmp : A -> A -> comparison), weak_order cmp ->
  forall l l' o o', Permutation l l' -> separates cmp l ->
    sortedb cmp o = true -> Permutation o l ->
    sortedb cmp o' = true -> Permutation o' l' -> o = o'.
Proof. exact @any_sort_perm_invariant. Qed.
Print Assumptions C17_any_sort_perm_invariant.

(* ... in particular the stable sort of the model. *)
Theorem C17_sort_perm_invariant :
  forall (A : Type) (cmp : A -> A -> comparison), weak_order cmp ->
  forall l l', Permutation l l' -> separates cmp l -> isort cmp l = isort cmp l'.
Proof. exact @sort_perm_invariant. Qed.
Print Assumptions C17_sort_perm_invariant.

(* The model's sort is a sorted permutation for every weak order (so the two theorems above apply to it). *)
Theorem C17_isort_sorted_perm :
  forall (A : Type) (cmp : A -> A -> comparison), weak_order cmp ->
  forall l, sortedb cmp (isort cmp l) = true /\ Permutation (isort cmp l) l.
Proof. intros A cmp W l. split; [apply sorted_sortedb, isort_sorted; exact W|apply isort_perm]. Qed.
Print Assumptions C17_isort_sorted_perm.

(* ---- SortServicesByCreationTime (after fix 2ebf73e) *)

(* order independence under exactly the uniqueness the comparator needs: two distinct service objects
   differ in (creation time, Attributes.Name, namespace, ObjectName, hostname).  The consequence for
   initServiceRegistry: the same winners of HostnameAndNamespace. *)
Theorem C17_services_order :
  forall l l', Permutation l l' -> svc_key_unique l ->
    sort_services l = sort_services l' /\ host_index l = host_index l'.
Proof. intros l l' P U. split; [apply services_order|apply host_index_order]; assumption. Qed.
Print Assumptions C17_services_order.

(* the comparator is a weak order whose Eq is exactly equality of that key *)
Theorem C17_services_cmp_key :
  weak_order svc_cmp /\
  forall x y, svc_cmp x y = Eq <->
    s_time x = s_time y /\ s_name x = s_name y /\ s_ns x = s_ns y /\ s_obj x = s_obj y /\ s_host x = s_host y.
Proof. split; [exact wo_svc|exact svc_cmp_eq]. Qed.
Print Assumptions C17_services_cmp_key.

(* the witness of the former finding C17-K6-svc-tie (two ServiceEntries of ns1 naming dup.example.com in the
   same second) is now ordered by ObjectName, whatever the listing order *)
Theorem C17_services_former_k6_witness :
  sort_services [k6_a; k6_b] = sort_services [k6_b; k6_a] /\
  winner [k6_a; k6_b] ("dup.example.com", "ns1") = winner [k6_b; k6_a] ("dup.example.com", "ns1").
Proof. exact k6_now_ordered. Qed.
Print Assumptions C17_services_former_k6_witness.

(* the ServiceEntry registry's own sorter adds ObjectName to the key *)
Theorem C17_se_services_order :
  forall l l', Permutation l l' -> se_key_unique l -> sort_se_services l = sort_se_services l'.
Proof. exact se_services_order. Qed.
Print Assumptions C17_se_services_order.

(* ---- config sorters (unstable sort: any sorted permutation) *)

Theorem C17_configs_order :
  forall l l' o o', Permutation l l' -> cfg_key_unique l ->
    sortedb cfg_cmp o = true -> Permutation o l ->
    sortedb cfg_cmp o' = true -> Permutation o' l' ->
    o = o' /\ o = sort_configs l.
Proof. exact configs_order. Qed.
Print Assumptions C17_configs_order.

Theorem C17_destrules_order :
  forall l l' o o', Permutation l l' -> cfg_key_unique l ->
    sortedb dr_cmp o = true -> Permutation o l ->
    sortedb dr_cmp o' = true -> Permutation o' l' ->
    o = o' /\ o = sort_destrules l.
Proof. exact destrules_order. Qed.
Print Assumptions C17_destrules_order.

(* ---- call sites: which Sidecar governs a workload (initSidecarScopes + getSidecarScope), and the
   per-namespace order of AuthorizationPolicy / Telemetry / RequestAuthentication / PeerAuthentication *)

(* the ordered Sidecar list (selector-bearing first, each group by creation time, name, namespace) and the
   Sidecar chosen for any workload do not depend on the store's listing order nor on the sorting algorithm,
   given (namespace, name) uniqueness *)
Theorem C17_sidecars_order :
  forall l l' o o', Permutation l l' -> cfg_key_unique l ->
    sortedb cfg_cmp o = true -> Permutation o l ->
    sortedb cfg_cmp o' = true -> Permutation o' l' ->
    sidecar_partition o = sidecar_partition o' /\
    sidecar_partition o = sidecar_order l /\
    forall pns root ms, choose_in pns root ms (sidecar_partition o) = choose_in pns root ms (sidecar_partition o').
Proof. exact sidecars_order. Qed.
Print Assumptions C17_sidecars_order.

Theorem C17_sidecar_choice_order :
  forall l l' pns root ms, Permutation l l' -> cfg_key_unique l ->
    choose_sidecar pns root ms l = choose_sidecar pns root ms l'.
Proof. exact sidecar_choice_order. Qed.
Print Assumptions C17_sidecar_choice_order.

(* the name/namespace tie-break is what makes it so: ordering on (selector, creation time) alone lets two
   equal-age Sidecars of one namespace that both match swap with the listing order *)
Theorem C17_sidecar_weak_rule_order_dependent :
  exists l l', Permutation l l' /\ cfg_key_unique l /\
    choose_in "app" "istio-system" [1%N; 2%N] (isort weak_sidecar_cmp l) <>
    choose_in "app" "istio-system" [1%N; 2%N] (isort weak_sidecar_cmp l').
Proof. exact weak_sidecar_rule_order_dependent. Qed.
Print Assumptions C17_sidecar_weak_rule_order_dependent.

Theorem C17_policies_order :
  forall kind nss l l' o o', Permutation l l' -> cfg_key_unique l ->
    sortedb cfg_cmp o = true -> Permutation o l ->
    sortedb cfg_cmp o' = true -> Permutation o' l' ->
    callsite_in kind nss o = callsite_in kind nss o' /\ callsite_in kind nss o = callsite_order kind nss l.
Proof. exact callsite_order_inv. Qed.
Print Assumptions C17_policies_order.

(* the uniqueness hypothesis is needed (not reachable from one store of one kind) *)
Theorem C17_configs_ties_order_dependent :
  exists l l', Permutation l l' /\ sort_configs l <> sort_configs l'.
Proof. exact configs_ties_order_dependent. Qed.
Print Assumptions C17_configs_ties_order_dependent.

(* ---- shard keys, localities: total orders on the keys themselves, no hypothesis *)

Theorem C17_shards_order :
  forall l l' o o', Permutation l l' ->
    sortedb shard_cmp o = true -> Permutation o l ->
    sortedb shard_cmp o' = true -> Permutation o' l' -> o = o'.
Proof. exact shards_order. Qed.
Print Assumptions C17_shards_order.

Theorem C17_localities_order :
  forall iter iter' eps, Permutation iter iter' -> locality_order iter eps = locality_order iter' eps.
Proof. exact localities_order. Qed.
Print Assumptions C17_localities_order.

(* ---- namespace selection over the byNamespace map *)

Theorem C17_pick_first_order : forall l l', Permutation l l' -> pick_first l = pick_first l'.
Proof. exact pick_first_order. Qed.
Print Assumptions C17_pick_first_order.

(* pickBestVisibleNamespace (after fix 2ebf73e: creation-time ties broken by namespace) does not depend on
   the iteration order of the byNamespace map; the only hypothesis is structural: at most one visible
   Kubernetes service per hostname (a Kubernetes hostname contains its namespace) *)
Theorem C17_pick_best_order :
  forall l l', Permutation l l' -> one_kube l -> pick_best l = pick_best l'.
Proof. exact pick_best_order. Qed.
Print Assumptions C17_pick_best_order.

(* ---- virtual hosts of the HTTP-proxy route (candidate K10; the port order feeding it was fixed in 21ee1c8) *)

(* mergeAllVirtualHosts alone follows map iteration order ... *)
Theorem C17_merge_vhosts_order_dependent :
  exists m m', Permutation m m' /\ NoDup (map fst m) /\ merge_all m <> merge_all m'.
Proof. exact merge_all_order_dependent. Qed.
Print Assumptions C17_merge_vhosts_order_dependent.

(* ... but its only caller sorts the result by name, and names ("host:port") are unique *)
Theorem C17_merged_sorted_order :
  forall m m', Permutation m m' -> vh_names_unique (merge_all m) ->
    sort_vhosts (merge_all m) = sort_vhosts (merge_all m').
Proof. exact merged_sorted_order. Qed.
Print Assumptions C17_merged_sorted_order.

(* ---- hypotheses are satisfiable *)

Example C17_ex_services :
  svc_key_unique [MkSvc 1 5 "a" "ns" "a.ns.svc" true "a"; MkSvc 2 5 "b" "ns" "b.ns.svc" true "b"].
Proof.
  intros x y [<-|[<-|[]]] [<-|[<-|[]]]; cbn; intros; try reflexivity; discriminate.
Qed.

Example C17_ex_pick_best :
  let l := [MkNsvc "ns2" true false 7; MkNsvc "ns1" true false 7; MkNsvc "ns3" false true 1] in
  one_kube l /\ pick_best l = "ns1" /\ pick_best (rev l) = "ns1".
Proof.
  cbn. split; [|split; reflexivity].
  intros x y [<-|[<-|[<-|[]]]] [<-|[<-|[<-|[]]]]; cbn; intros; try reflexivity; discriminate.
Qed.

Example C17_ex_vhosts :
  vh_names_unique (merge_all [(80%Z, [MkVh 1 "a:80" ["a"; "a:80"]]); (8080%Z, [MkVh 2 "b:8080" ["b"; "b:8080"]])]).
Proof.
  cbn. intros x y [<-|[<-|[]]] [<-|[<-|[]]]; cbn; intros; try reflexivity; discriminate.
Qed.
