(* C17 — generic theory: a sorted permutation is unique when the comparator separates the elements;
   insertion sort (the model of Go's stable sorts) produces a sorted permutation. *)
From Coq Require Import List NArith ZArith Bool String Ascii Lia Permutation Sorted.
From V Require Import C17.Model.
Import ListNotations.

(* What Go's sort functions require of a comparator ("strict weak ordering"), in [comparison] form. *)
Record weak_order {A} (cmp : A -> A -> comparison) : Prop := {
  wo_antisym : forall x y, cmp x y = CompOpp (cmp y x);
  wo_trans : forall x y z, cmp x y = Lt -> cmp y z = Lt -> cmp x z = Lt;
  wo_eq : forall x y z, cmp x y = Eq -> cmp x z = cmp y z
}.

Definition le {A} (cmp : A -> A -> comparison) (x y : A) : Prop := cmp x y <> Gt.

Section Generic.
  Context {A : Type} (cmp : A -> A -> comparison) (WO : weak_order cmp).

  Lemma wo_refl x : cmp x x = Eq.
  Proof. pose proof (wo_antisym _ WO x x) as H. destruct (cmp x x); cbn in H; congruence. Qed.

  Lemma wo_eq_sym x y : cmp x y = Eq -> cmp y x = Eq.
  Proof. intros H. rewrite (wo_antisym _ WO), H. reflexivity. Qed.

  Lemma wo_gt_lt x y : cmp x y = Gt -> cmp y x = Lt.
  Proof. intros H. rewrite (wo_antisym _ WO), H. reflexivity. Qed.

  Lemma wo_lt_gt x y : cmp x y = Lt -> cmp y x = Gt.
  Proof. intros H. rewrite (wo_antisym _ WO), H. reflexivity. Qed.

  Lemma le_trans x y z : le cmp x y -> le cmp y z -> le cmp x z.
  Proof.
    unfold le. intros H1 H2.
    destruct (cmp x y) eqn:E1; try congruence.
    - rewrite (wo_eq _ WO x y z E1). exact H2.
    - destruct (cmp y z) eqn:E2; try congruence.
      + apply wo_eq_sym in E2. pose proof (wo_eq _ WO z y x E2) as H.
        rewrite (wo_lt_gt _ _ E1) in H. rewrite (wo_gt_lt _ _ H). discriminate.
      + rewrite (wo_trans _ WO x y z E1 E2). discriminate.
  Qed.

  Lemma le_antisym_eq x y : le cmp x y -> le cmp y x -> cmp x y = Eq.
  Proof.
    unfold le. intros H1 H2. destruct (cmp x y) eqn:E; try congruence.
    apply wo_lt_gt in E. congruence.
  Qed.

  Lemma insert_perm x l : Permutation (insert cmp x l) (x :: l).
  Proof.
    induction l as [|y l IH]; cbn [insert]; [reflexivity|].
    destruct (cmp x y); try reflexivity.
    rewrite IH. apply perm_swap.
  Qed.

  Lemma isort_perm l : Permutation (isort cmp l) l.
  Proof.
    induction l as [|x l IH]; cbn [isort]; [reflexivity|].
    rewrite insert_perm. constructor. exact IH.
  Qed.

  Lemma insert_sorted x l : StronglySorted (le cmp) l -> StronglySorted (le cmp) (insert cmp x l).
  Proof.
    induction l as [|y l IH]; cbn [insert]; intros HS.
    - constructor; constructor.
    - inversion HS as [|? ? HS' HF]; subst.
      destruct (cmp x y) eqn:E.
      + constructor; [exact HS|]. constructor; [unfold le; congruence|].
        eapply Forall_impl; [|exact HF]. intros z Hz. eapply le_trans; [|exact Hz]. unfold le; congruence.
      + constructor; [exact HS|]. constructor; [unfold le; congruence|].
        eapply Forall_impl; [|exact HF]. intros z Hz. eapply le_trans; [|exact Hz]. unfold le; congruence.
      + constructor; [apply IH; exact HS'|].
        apply Forall_forall. intros z Hz.
        apply (Permutation_in _ (insert_perm x l)) in Hz. destruct Hz as [<-|Hz].
        * unfold le. rewrite (wo_gt_lt _ _ E). discriminate.
        * rewrite Forall_forall in HF. apply HF. exact Hz.
  Qed.

  Lemma isort_sorted l : StronglySorted (le cmp) (isort cmp l).
  Proof.
    induction l as [|x l IH]; cbn [isort]; [constructor|]. apply insert_sorted. exact IH.
  Qed.

  Lemma sortedb_sorted l : sortedb cmp l = true -> StronglySorted (le cmp) l.
  Proof.
    induction l as [|x l IH]; [constructor|].
    cbn [sortedb]. destruct l as [|y l'].
    - intros _. constructor; constructor.
    - intros H. assert (Hxy : le cmp x y) by (unfold le; destruct (cmp x y); congruence).
      assert (Hs : sortedb cmp (y :: l') = true) by (destruct (cmp x y); congruence).
      specialize (IH Hs). constructor; [exact IH|].
      inversion IH as [|? ? _ HF]; subst. constructor; [exact Hxy|].
      eapply Forall_impl; [|exact HF]. intros z Hz. eapply le_trans; eassumption.
  Qed.

  Lemma sorted_sortedb l : StronglySorted (le cmp) l -> sortedb cmp l = true.
  Proof.
    induction l as [|x l IH]; [reflexivity|].
    intros HS. inversion HS as [|? ? HS' HF]; subst. cbn [sortedb]. destruct l as [|y l']; [reflexivity|].
    inversion HF as [|? ? Hxy _]; subst. unfold le in Hxy.
    destruct (cmp x y); try congruence; apply IH; exact HS'.
  Qed.

  (* The heart of the matter: two sorted arrangements of the same elements coincide as soon as the
     comparator never reports Eq for two different elements of the list. *)
  Lemma sorted_perm_unique l1 : forall l2,
    StronglySorted (le cmp) l1 -> StronglySorted (le cmp) l2 -> Permutation l1 l2 ->
    (forall x y, In x l1 -> In y l1 -> cmp x y = Eq -> x = y) ->
    l1 = l2.
  Proof.
    induction l1 as [|x l1 IH]; intros l2 S1 S2 P U.
    - apply Permutation_nil in P. congruence.
    - destruct l2 as [|y l2]; [apply Permutation_sym, Permutation_nil in P; discriminate|].
      inversion S1 as [|? ? S1' F1]; subst. inversion S2 as [|? ? S2' F2]; subst.
      rewrite Forall_forall in F1, F2.
      assert (Hy : In y (x :: l1)) by (eapply Permutation_in; [apply Permutation_sym; exact P|left; reflexivity]).
      assert (Hx : In x (y :: l2)) by (eapply Permutation_in; [exact P|left; reflexivity]).
      assert (Exy : x = y).
      { destruct Hy as [Hy|Hy]; [exact Hy|]. destruct Hx as [Hx|Hx]; [congruence|].
        apply U; [left; reflexivity|right; exact Hy|].
        apply le_antisym_eq; [apply F1; exact Hy|apply F2; exact Hx]. }
      subst y. f_equal. apply IH; try assumption.
      + eapply Permutation_cons_inv. exact P.
      + intros a b Ha Hb. apply U; right; assumption.
  Qed.

  Definition separates (l : list A) : Prop :=
    forall x y, In x l -> In y l -> cmp x y = Eq -> x = y.

  (* any two sorters — stable or not — agree on permuted inputs whose elements the comparator separates *)
  Theorem any_sort_perm_invariant l l' o o' :
    Permutation l l' -> separates l ->
    sortedb cmp o = true -> Permutation o l ->
    sortedb cmp o' = true -> Permutation o' l' ->
    o = o'.
  Proof.
    intros P U So Po So' Po'.
    apply sorted_perm_unique; try (apply sortedb_sorted; assumption).
    - rewrite Po, P, Po'. reflexivity.
    - intros x y Hx Hy. apply U; eapply Permutation_in; eassumption.
  Qed.

  Theorem sort_perm_invariant l l' :
    Permutation l l' -> separates l -> isort cmp l = isort cmp l'.
  Proof.
    intros P U. apply (any_sort_perm_invariant l l'); try assumption.
    - apply sorted_sortedb, isort_sorted.
    - apply isort_perm.
    - apply sorted_sortedb, isort_sorted.
    - apply isort_perm.
  Qed.

  (* a sorted permutation computed by any (unstable) sorter equals the model's insertion sort *)
  Corollary sorted_perm_is_isort l o :
    separates l -> sortedb cmp o = true -> Permutation o l -> o = isort cmp l.
  Proof.
    intros U So Po. apply (any_sort_perm_invariant l l); try assumption; try reflexivity.
    - apply sorted_sortedb, isort_sorted.
    - apply isort_perm.
  Qed.
End Generic.

(* a total order separates every list *)
Lemma total_separates {A} (cmp : A -> A -> comparison) :
  (forall x y, cmp x y = Eq -> x = y) -> forall l, separates cmp l.
Proof. intros T l x y _ _. apply T. Qed.

(* ------------------------------------------------------------------ building weak orders *)

Lemma wo_on {A B} (f : A -> B) c : weak_order c -> weak_order (on f c).
Proof.
  intros [a t e]. constructor; unfold on; intros.
  - apply a.
  - eapply t; eassumption.
  - apply e. assumption.
Qed.

Lemma wo_lex {A} (c1 c2 : A -> A -> comparison) : weak_order c1 -> weak_order c2 -> weak_order (lex c1 c2).
Proof.
  intros W1 W2. constructor; unfold lex.
  - intros x y. rewrite (wo_antisym _ W1 x y). destruct (c1 y x); cbn; try reflexivity. apply (wo_antisym _ W2).
  - intros x y z.
    destruct (c1 x y) eqn:E1; try discriminate; destruct (c1 y z) eqn:E2; try discriminate; intros H1 H2.
    + rewrite (wo_eq _ W1 x y z E1), E2. eapply (wo_trans _ W2); eassumption.
    + rewrite (wo_eq _ W1 x y z E1), E2. reflexivity.
    + pose proof (wo_eq _ W1 z y x (wo_eq_sym _ W1 _ _ E2)) as H.
      rewrite (wo_lt_gt _ W1 _ _ E1) in H. rewrite (wo_gt_lt _ W1 _ _ H). reflexivity.
    + rewrite (wo_trans _ W1 x y z E1 E2). reflexivity.
  - intros x y z. destruct (c1 x y) eqn:E1; try discriminate. intros E2.
    rewrite (wo_eq _ W1 x y z E1). destruct (c1 y z); try reflexivity. apply (wo_eq _ W2). exact E2.
Qed.

Lemma lex_eq {A} (c1 c2 : A -> A -> comparison) x y : lex c1 c2 x y = Eq <-> c1 x y = Eq /\ c2 x y = Eq.
Proof.
  unfold lex. destruct (c1 x y).
  - split; [intros H; split; [reflexivity|exact H]|intros [_ H]; exact H].
  - split; [discriminate|intros [H _]; discriminate].
  - split; [discriminate|intros [H _]; discriminate].
Qed.

Lemma wo_Z : weak_order Z.compare.
Proof.
  constructor.
  - intros x y. rewrite Z.compare_antisym. reflexivity.
  - intros x y z. rewrite !Z.compare_lt_iff. lia.
  - intros x y z H. apply Z.compare_eq in H. subst. reflexivity.
Qed.

Lemma ascii_cmp_trans a b c : Ascii.compare a b = Lt -> Ascii.compare b c = Lt -> Ascii.compare a c = Lt.
Proof. unfold Ascii.compare. rewrite !N.compare_lt_iff. lia. Qed.

Lemma str_cmp_trans x : forall y z, String.compare x y = Lt -> String.compare y z = Lt -> String.compare x z = Lt.
Proof.
  induction x as [|a x IH]; intros [|b y] [|c z]; cbn [String.compare]; try discriminate; auto.
  destruct (Ascii.compare a b) eqn:E1; try discriminate;
    destruct (Ascii.compare b c) eqn:E2; try discriminate; intros H1 H2.
  - apply Ascii.compare_eq_iff in E1, E2. subst.
    assert (R : Ascii.compare c c = Eq).
    { pose proof (Ascii.compare_antisym c c) as H. destruct (Ascii.compare c c); cbn in H; congruence. }
    rewrite R. eapply IH; eassumption.
  - apply Ascii.compare_eq_iff in E1. subst. rewrite E2. reflexivity.
  - apply Ascii.compare_eq_iff in E2. subst. rewrite E1. reflexivity.
  - rewrite (ascii_cmp_trans _ _ _ E1 E2). reflexivity.
Qed.

Lemma str_cmp_refl x : String.compare x x = Eq.
Proof. pose proof (String.compare_antisym x x) as H. destruct (String.compare x x); cbn in H; congruence. Qed.

Lemma wo_string : weak_order String.compare.
Proof.
  constructor.
  - apply String.compare_antisym.
  - apply str_cmp_trans.
  - intros x y z H. apply String.compare_eq_iff in H. subst. reflexivity.
Qed.

Lemma str_cmp_eq x y : String.compare x y = Eq <-> x = y.
Proof. split; [apply String.compare_eq_iff|intros ->; apply str_cmp_refl]. Qed.

Lemma Z_cmp_eq x y : Z.compare x y = Eq <-> x = y.
Proof. apply Z.compare_eq_iff. Qed.

Lemma wo_bool : weak_order bool_cmp.
Proof. constructor; intros [] []; try intros []; cbn; congruence. Qed.

Lemma bool_cmp_eq a b : bool_cmp a b = Eq <-> a = b.
Proof. destruct a, b; cbn; split; congruence. Qed.
