(* C17 — generation is deterministic: executable model of the ORDERING RULES of the generators.
   Definitions only.  Every definition names the Go function it follows (paths under /repo).

   Go comparators return an int (<0, 0, >0); the model uses [comparison] (Lt, Eq, Gt).
   [time.Time.Compare] compares instants: times are [Z] (unix nanoseconds).
   [strings.Compare] / [<] on strings is byte-lexicographic = [String.compare]. *)
From Coq Require Import List NArith ZArith Bool String Ascii.
Import ListNotations.
Local Open Scope string_scope.
Local Open Scope list_scope.

(* ------------------------------------------------------------------ generic sorting *)

(* slices.SortStableFunc / sort.SliceStable / sort.Stable: a STABLE sort.  For a comparator that is a
   weak order the stable result is unique, so insertion sort is a faithful model of the output
   (not of the algorithm).  [insert] puts x before the first element that is not strictly smaller,
   and [isort] inserts from the right, so elements that compare Eq keep their input order. *)
Fixpoint insert {A} (cmp : A -> A -> comparison) (x : A) (l : list A) : list A :=
  match l with
  | [] => [x]
  | y :: l' => match cmp x y with
               | Gt => y :: insert cmp x l'
               | _ => x :: y :: l'
               end
  end.

Fixpoint isort {A} (cmp : A -> A -> comparison) (l : list A) : list A :=
  match l with
  | [] => []
  | x :: l' => insert cmp x (isort cmp l')
  end.

(* slices.SortFunc / sort.Slice / sort.Strings are NOT stable (pdqsort): what the code relies on is
   only that the result is a sorted permutation.  [sortedb] is the executable "is sorted" check used
   for those sorters when the input has ties. *)
Fixpoint sortedb {A} (cmp : A -> A -> comparison) (l : list A) : bool :=
  match l with
  | [] => true
  | x :: l' => match l' with
               | [] => true
               | y :: _ => match cmp x y with Gt => false | _ => sortedb cmp l' end
               end
  end.

(* lexicographic combination: "if r := c1(a,b); r != 0 { return r }; return c2(a,b)" *)
Definition lex {A} (c1 c2 : A -> A -> comparison) (x y : A) : comparison :=
  match c1 x y with
  | Eq => c2 x y
  | r => r
  end.

Definition on {A B} (f : A -> B) (c : B -> B -> comparison) (x y : A) : comparison := c (f x) (f y).

(* a comparator from a Go [less] function (sort.Slice / sort.SliceStable) *)
Definition of_less {A} (less : A -> A -> bool) (x y : A) : comparison :=
  if less x y then Lt else if less y x then Gt else Eq.

Definition bool_cmp (a b : bool) : comparison :=
  match a, b with
  | false, true => Lt
  | true, false => Gt
  | _, _ => Eq
  end.

(* ------------------------------------------------------------------ services *)

(* The projection of *model.Service the ordering rules look at.  [s_tag] is the identity of the object
   (two distinct objects may agree on every other field the comparator reads). *)
Record svc := MkSvc {
  s_tag : N;
  s_time : Z;          (* CreationTime *)
  s_name : string;     (* Attributes.Name  (ServiceEntry services: = hostname) *)
  s_ns : string;       (* Attributes.Namespace *)
  s_host : string;     (* Hostname *)
  s_kube : bool;       (* Attributes.ServiceRegistry == provider.Kubernetes *)
  s_obj : string       (* Attributes.K8sAttributes.ObjectName *)
}.

(* pilot/pkg/model/push_context.go SortServicesByCreationTime: the closure, branch for branch
   (after fix 2ebf73e: ties on (time, name, namespace) fall back to ObjectName, then Hostname) *)
Definition svc_cmp (i j : svc) : comparison :=
  match Z.compare (s_time i) (s_time j) with
  | Eq => match String.compare (s_name i) (s_name j) with
          | Eq => match String.compare (s_ns i) (s_ns j) with
                  | Eq => match String.compare (s_obj i) (s_obj j) with
                          | Eq => String.compare (s_host i) (s_host j)
                          | r => r
                          end
                  | r => r
                  end
          | r => r
          end
  | r => r
  end.

(* SortServicesByCreationTime = slices.SortStableFunc with that closure *)
Definition sort_services (l : list svc) : list svc := isort svc_cmp l.

(* pilot/pkg/serviceregistry/serviceentry/controller.go sortServicesByCreationTime: same with a final
   fallback on K8sAttributes.ObjectName *)
Definition se_cmp (i j : svc) : comparison :=
  match Z.compare (s_time i) (s_time j) with
  | Eq => match String.compare (s_name i) (s_name j) with
          | Eq => match String.compare (s_ns i) (s_ns j) with
                  | Eq => String.compare (s_obj i) (s_obj j)
                  | r => r
                  end
          | r => r
          end
  | r => r
  end.

Definition sort_se_services (l : list svc) : list svc := isort se_cmp l.

(* pilot/pkg/model/push_context.go initServiceRegistry, the HostnameAndNamespace part:
   for s in sorted services: the first service of a (hostname, namespace) wins, except that a
   Kubernetes service replaces a non-Kubernetes one. *)
Definition hkey := (string * string)%type.
Definition hkey_eqb (a b : hkey) : bool := String.eqb (fst a) (fst b) && String.eqb (snd a) (snd b).

Fixpoint hi_lookup (k : hkey) (m : list (hkey * svc)) : option svc :=
  match m with
  | [] => None
  | (k', s) :: m' => if hkey_eqb k k' then Some s else hi_lookup k m'
  end.

Fixpoint hi_set (k : hkey) (s : svc) (m : list (hkey * svc)) : list (hkey * svc) :=
  match m with
  | [] => [(k, s)]
  | (k', s') :: m' => if hkey_eqb k k' then (k, s) :: m' else (k', s') :: hi_set k s m'
  end.

Definition hi_step (m : list (hkey * svc)) (s : svc) : list (hkey * svc) :=
  let k := (s_host s, s_ns s) in
  match hi_lookup k m with
  | Some existing =>
      if negb (negb (s_kube existing) && s_kube s) then m (* "ignored by" *) else hi_set k s m
  | None => hi_set k s m
  end.

(* env.Services() returns [l] in registry order; the index after initServiceRegistry *)
Definition host_index (l : list svc) : list (hkey * svc) := fold_left hi_step (sort_services l) [].

Definition winner (l : list svc) (k : hkey) : option N := option_map s_tag (hi_lookup k (host_index l)).

(* ------------------------------------------------------------------ configs *)

Record cfg := MkCfg {
  c_tag : N;
  c_time : Z;        (* CreationTimestamp *)
  c_name : string;
  c_ns : string;
  c_sel : bool       (* DestinationRule: GetWorkloadSelector() != nil *)
}.

(* pilot/pkg/model/config.go configCompareByCreationTime *)
Definition cfg_cmp (a b : cfg) : comparison :=
  match Z.compare (c_time a) (c_time b) with
  | Eq => match String.compare (c_name a) (c_name b) with
          | Eq => String.compare (c_ns a) (c_ns b)
          | r => r
          end
  | r => r
  end.

(* pilot/pkg/model/push_context.go sortConfigBySelectorAndCreationTime: the closure *)
Definition dr_cmp (a b : cfg) : comparison :=
  if c_sel a && negb (c_sel b) then Lt
  else if negb (c_sel a) && c_sel b then Gt
  else match Z.compare (c_time a) (c_time b) with
       | Eq => match String.compare (c_name a) (c_name b) with
               | Eq => String.compare (c_ns a) (c_ns b)
               | r => r
               end
       | r => r
       end.

(* sortConfigByCreationTime, sortMergedVirtualServicesByCreationTime, sortConfigBySelectorAndCreationTime
   use slices.SortFunc (unstable): the output is predicted exactly only when no two elements tie. *)
Definition sort_configs (l : list cfg) : list cfg := isort cfg_cmp l.
Definition sort_destrules (l : list cfg) : list cfg := isort dr_cmp l.

(* ------------------------------------------------------------------ call sites in PushContext init *)

(* pilot/pkg/model/push_context.go initSidecarScopes: sortConfigByCreationTime, then one pass collecting the
   Sidecars with a workload selector and one pass collecting those without ([c_sel] = WorkloadSelector != nil) *)
Definition sidecar_partition (s : list cfg) : list cfg :=
  filter c_sel s ++ filter (fun c => negb (c_sel c)) s.
Definition sidecar_order (l : list cfg) : list cfg := sidecar_partition (sort_configs l).

(* doGetSidecarScope for a SidecarProxy over the ordered list [o]: the first Sidecar of the proxy's namespace
   that has no selector or whose selector matches the workload ([ms] = tags of the Sidecars whose selector is
   a subset of the workload labels); otherwise meshRootSidecarConfig = the first selector-less Sidecar of the
   root namespace; otherwise the default scope (None) *)
Definition choose_in (proxy_ns root_ns : string) (ms : list N) (o : list cfg) : option N :=
  match find (fun c => String.eqb (c_ns c) proxy_ns && (negb (c_sel c) || existsb (N.eqb (c_tag c)) ms)) o with
  | Some c => Some (c_tag c)
  | None => match find (fun c => String.eqb (c_ns c) root_ns && negb (c_sel c)) o with
            | Some c => Some (c_tag c)
            | None => None
            end
  end.
Definition choose_sidecar (proxy_ns root_ns : string) (ms : list N) (l : list cfg) : option N :=
  choose_in proxy_ns root_ns ms (sidecar_order l).

(* GetAuthorizationPolicies / getTelemetries / initAuthenticationPolicies: sortConfigByCreationTime, then
   append to a per-namespace slice in that order; lookups concatenate the slices of a list of namespaces *)
Definition by_namespaces (nss : list string) (s : list cfg) : list cfg :=
  flat_map (fun ns => filter (fun c => String.eqb (c_ns c) ns) s) nss.

(* addPeerAuthentication: of the selector-less (namespace/mesh level) policies only the first of each
   namespace is kept ([c_sel] = selector with at least one label) *)
Fixpoint pa_keep (seen : list string) (s : list cfg) : list cfg :=
  match s with
  | [] => []
  | c :: s' =>
      if c_sel c then c :: pa_keep seen s'
      else if existsb (String.eqb (c_ns c)) seen then pa_keep seen s'
      else c :: pa_keep (c_ns c :: seen) s'
  end.

(* kind 1 AuthorizationPolicy, 2 Telemetry, 3 RequestAuthentication, 4 PeerAuthentication *)
Definition callsite_in (kind : N) (nss : list string) (o : list cfg) : list cfg :=
  by_namespaces nss (if N.eqb kind 4 then pa_keep [] o else o).
Definition callsite_order (kind : N) (nss : list string) (l : list cfg) : list cfg :=
  callsite_in kind nss (sort_configs l).

(* PushContext.EnvoyFilters: sort.Slice over the matched filters of the root and the proxy namespace with
   less = priority, then root namespace first (only when the namespaces differ and one is the root),
   then creation time, then Name + "." + Namespace.  An element is (priority, config). *)
Definition ef_less (root : string) (i j : Z * cfg) : bool :=
  let ci := snd i in let cj := snd j in
  if negb (Z.eqb (fst i) (fst j)) then Z.ltb (fst i) (fst j)
  else if negb (String.eqb (c_ns ci) (c_ns cj)) && (String.eqb (c_ns ci) root || String.eqb (c_ns cj) root)
       then String.eqb (c_ns ci) root
  else if negb (Z.eqb (c_time ci) (c_time cj)) then Z.ltb (c_time ci) (c_time cj)
  else String.ltb (c_name ci ++ "." ++ c_ns ci)%string (c_name cj ++ "." ++ c_ns cj)%string.
Definition ef_cmp (root : string) : Z * cfg -> Z * cfg -> comparison := of_less (ef_less root).
Definition sort_envoyfilters (root : string) (l : list (Z * cfg)) : list (Z * cfg) := isort (ef_cmp root) l.

(* ------------------------------------------------------------------ shard keys, localities *)

(* pilot/pkg/model/endpointshards.go Keys: sort.Slice with
   less = if provider equal then cluster < else provider < *)
Definition shard := (string * string)%type. (* provider, cluster *)
Definition shard_less (a b : shard) : bool :=
  if String.eqb (fst a) (fst b) then String.ltb (snd a) (snd b) else String.ltb (fst a) (fst b).
Definition shard_cmp : shard -> shard -> comparison := of_less shard_less.
Definition sort_shards (l : list shard) : list shard := isort shard_cmp l.

(* pilot/pkg/xds/endpoints/endpoint_builder.go generate: endpoints are grouped by Locality.Label in a
   map (first-seen creates the group, later endpoints are appended), the labels are collected by
   ranging over the map and sorted with sort.Strings. [iter] is the map iteration order of the labels. *)
Definition ep := (string * N)%type. (* locality label, endpoint identity *)

Fixpoint group_add (e : ep) (g : list (string * list N)) : list (string * list N) :=
  match g with
  | [] => [(fst e, [snd e])]
  | (l, xs) :: g' => if String.eqb l (fst e) then (l, xs ++ [snd e]) :: g' else (l, xs) :: group_add e g'
  end.

Definition group_localities (eps : list ep) : list (string * list N) :=
  fold_left (fun g e => group_add e g) eps [].

Fixpoint loc_lookup (l : string) (g : list (string * list N)) : list N :=
  match g with
  | [] => []
  | (l', xs) :: g' => if String.eqb l l' then xs else loc_lookup l g'
  end.

(* [iter] : the labels in map iteration order (any permutation of the group keys) *)
Definition locality_order (iter : list string) (eps : list ep) : list (string * list N) :=
  let g := group_localities eps in
  map (fun l => (l, loc_lookup l g)) (isort String.compare iter).

(* ------------------------------------------------------------------ namespace selection *)

(* one entry of byNamespace (the map key is the namespace; IsServiceVisible is evaluated by the harness
   on the real PushContext and passed in) *)
Record nsvc := MkNsvc {
  n_ns : string;
  n_visible : bool;
  n_kube : bool;
  n_time : Z
}.

(* pilot/pkg/model/sidecar.go pickBestVisibleNamespace; [l] = byNamespace in map iteration order.
   [better s b] is the replacement condition (after fix 2ebf73e):
   svc.CreationTime.Before(best) || (svc.CreationTime.Equal(best) && svc.Namespace < best.Namespace) *)
Definition better (s b : nsvc) : bool :=
  (n_time s <? n_time b)%Z || ((n_time s =? n_time b)%Z && String.ltb (n_ns s) (n_ns b)).

Fixpoint pick_best_loop (l : list nsvc) (best : option nsvc) : string :=
  match l with
  | [] => match best with Some b => n_ns b | None => "" end
  | s :: l' =>
      if n_visible s then
        if n_kube s then n_ns s
        else match best with
             | None => pick_best_loop l' (Some s)
             | Some b => if better s b then pick_best_loop l' (Some s)
                         else pick_best_loop l' best
             end
      else pick_best_loop l' best
  end.
Definition pick_best (l : list nsvc) : string := pick_best_loop l None.

(* pickFirstVisibleNamespace: collect visible namespaces (map order), sort.Strings, take the first *)
Definition pick_first (l : list nsvc) : string :=
  match isort String.compare (map n_ns (filter n_visible l)) with
  | [] => ""
  | ns :: _ => ns
  end.

(* ------------------------------------------------------------------ virtual hosts *)

Record vhost := MkVh {
  v_tag : N;
  v_name : string;
  v_domains : list string
}.

Fixpoint has_colon (s : string) : bool :=
  match s with
  | EmptyString => false
  | String c s' => if Ascii.eqb c ":"%char then true else has_colon s'
  end.

(* pilot/pkg/networking/core/httproute.go mergeAllVirtualHosts, one map entry *)
Definition merge_port (p : Z) (vhs : list vhost) : list vhost :=
  if (p =? 80)%Z then vhs
  else flat_map (fun v =>
         let ds := filter has_colon (v_domains v) in
         match ds with
         | [] => []
         | _ => [MkVh (v_tag v) (v_name v) ds]
         end) vhs.

(* [m] = vHostPortMap in map iteration order *)
Definition merge_all (m : list (Z * list vhost)) : list vhost :=
  flat_map (fun pv => merge_port (fst pv) (snd pv)) m.

(* pilot/pkg/networking/util/util.go SortVirtualHosts: sort.SliceStable by Name (applied by the only
   caller, buildSidecarOutboundHTTPRouteConfig, to the merged list) *)
Definition vh_cmp : vhost -> vhost -> comparison := on v_name String.compare.
Definition sort_vhosts (l : list vhost) : list vhost :=
  match l with
  | [] | [_] => l
  | _ => isort vh_cmp l
  end.

(* ------------------------------------------------------------------ helpers for the evaluation *)

Fixpoint perms {A} (l : list A) : list (list A) :=
  (* all permutations by insertion at every position; used only on lists of length <= 5 *)
  match l with
  | [] => [[]]
  | x :: l' =>
      flat_map (fun p =>
        (fix ins (pre post : list A) : list (list A) :=
           (pre ++ x :: post) ::
           match post with
           | [] => []
           | y :: post' => ins (pre ++ [y]) post'
           end) [] p) (perms l')
  end.

Definition nth_all {A} (d : A) (l : list A) (idx : list nat) : list A := map (fun i => nth i l d) idx.
