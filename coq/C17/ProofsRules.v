(* C17 — one instance of the generic theorem per ordering rule of the generators, with exactly the
   key uniqueness each needs, and the refutations for the rules whose comparator does not separate
   reachable inputs. *)
From Coq Require Import List NArith ZArith Bool String Ascii Lia Permutation Sorted.
From V Require Import C17.Model C17.Proofs.
Import ListNotations.
Local Open Scope string_scope.
Local Open Scope list_scope.

(* ------------------------------------------------------------------ services *)

Lemma svc_cmp_lex :
  svc_cmp = lex (on s_time Z.compare) (lex (on s_name String.compare) (lex (on s_ns String.compare)
              (lex (on s_obj String.compare) (on s_host String.compare)))).
Proof. reflexivity. Qed.

Lemma wo_svc : weak_order svc_cmp.
Proof. rewrite svc_cmp_lex. repeat apply wo_lex; apply wo_on; auto using wo_Z, wo_string. Qed.

Lemma svc_cmp_eq x y :
  svc_cmp x y = Eq <->
  s_time x = s_time y /\ s_name x = s_name y /\ s_ns x = s_ns y /\ s_obj x = s_obj y /\ s_host x = s_host y.
Proof.
  rewrite svc_cmp_lex, !lex_eq. unfold on. rewrite Z_cmp_eq, !str_cmp_eq. tauto.
Qed.

(* the key uniqueness SortServicesByCreationTime needs: two distinct service objects of the list differ in
   creation time, Attributes.Name, namespace, ObjectName or hostname *)
Definition svc_key_unique (l : list svc) : Prop :=
  forall x y, In x l -> In y l ->
    s_time x = s_time y -> s_name x = s_name y -> s_ns x = s_ns y -> s_obj x = s_obj y -> s_host x = s_host y ->
    x = y.

Lemma svc_key_unique_separates l : svc_key_unique l -> separates svc_cmp l.
Proof. intros U x y Hx Hy E. apply svc_cmp_eq in E. destruct E as (a & b & c & d & e). apply U; assumption. Qed.

Lemma services_order l l' :
  Permutation l l' -> svc_key_unique l -> sort_services l = sort_services l'.
Proof. intros P U. apply sort_perm_invariant; auto using wo_svc, svc_key_unique_separates. Qed.

Lemma host_index_order l l' :
  Permutation l l' -> svc_key_unique l -> host_index l = host_index l'.
Proof. intros P U. unfold host_index. rewrite (services_order l l' P U). reflexivity. Qed.

(* the former K6 witness: two ServiceEntry-derived services of one namespace naming the same host with the
   same creation time are now separated by ObjectName *)
Definition k6_a := MkSvc 1 1700000000000000000 "dup.example.com" "ns1" "dup.example.com" false "se-a".
Definition k6_b := MkSvc 2 1700000000000000000 "dup.example.com" "ns1" "dup.example.com" false "se-b".

Lemma k6_now_ordered :
  sort_services [k6_a; k6_b] = sort_services [k6_b; k6_a] /\
  winner [k6_a; k6_b] ("dup.example.com", "ns1") = winner [k6_b; k6_a] ("dup.example.com", "ns1").
Proof. split; vm_compute; reflexivity. Qed.

(* the registry-local comparator with the ObjectName fallback *)
Lemma se_cmp_lex :
  se_cmp = lex (on s_time Z.compare) (lex (on s_name String.compare)
             (lex (on s_ns String.compare) (on s_obj String.compare))).
Proof. reflexivity. Qed.

Lemma wo_se : weak_order se_cmp.
Proof. rewrite se_cmp_lex. repeat apply wo_lex; apply wo_on; auto using wo_Z, wo_string. Qed.

Lemma se_cmp_eq x y :
  se_cmp x y = Eq <-> s_time x = s_time y /\ s_name x = s_name y /\ s_ns x = s_ns y /\ s_obj x = s_obj y.
Proof. rewrite se_cmp_lex, !lex_eq. unfold on. rewrite Z_cmp_eq, !str_cmp_eq. tauto. Qed.

Definition se_key_unique (l : list svc) : Prop :=
  forall x y, In x l -> In y l ->
    s_time x = s_time y -> s_name x = s_name y -> s_ns x = s_ns y -> s_obj x = s_obj y -> x = y.

Lemma se_services_order l l' :
  Permutation l l' -> se_key_unique l -> sort_se_services l = sort_se_services l'.
Proof.
  intros P U. apply sort_perm_invariant; auto using wo_se.
  intros x y Hx Hy E. apply se_cmp_eq in E. destruct E as (a & b & c & d). apply U; assumption.
Qed.

(* ------------------------------------------------------------------ configs *)

Lemma cfg_cmp_lex : cfg_cmp = lex (on c_time Z.compare) (lex (on c_name String.compare) (on c_ns String.compare)).
Proof. reflexivity. Qed.

Lemma wo_cfg : weak_order cfg_cmp.
Proof. rewrite cfg_cmp_lex. repeat apply wo_lex; apply wo_on; auto using wo_Z, wo_string. Qed.

Lemma cfg_cmp_eq x y :
  cfg_cmp x y = Eq <-> c_time x = c_time y /\ c_name x = c_name y /\ c_ns x = c_ns y.
Proof. rewrite cfg_cmp_lex, !lex_eq. unfold on. rewrite Z_cmp_eq, !str_cmp_eq. tauto. Qed.

(* a config list of one kind: (namespace, name) identifies the object *)
Definition cfg_key_unique (l : list cfg) : Prop :=
  forall x y, In x l -> In y l -> c_name x = c_name y -> c_ns x = c_ns y -> x = y.

Lemma cfg_separates l : cfg_key_unique l -> separates cfg_cmp l.
Proof. intros U x y Hx Hy E. apply cfg_cmp_eq in E. destruct E as (_ & b & c). apply U; assumption. Qed.

(* sel_rank: "has a workload selector" sorts first *)
Definition dr_lex : cfg -> cfg -> comparison :=
  lex (on (fun c => negb (c_sel c)) bool_cmp) cfg_cmp.

Lemma dr_cmp_lex a b : dr_cmp a b = dr_lex a b.
Proof.
  unfold dr_cmp, dr_lex, lex, on, cfg_cmp.
  destruct (c_sel a), (c_sel b); reflexivity.
Qed.

Lemma wo_dr : weak_order dr_cmp.
Proof.
  assert (W : weak_order dr_lex) by (apply wo_lex; [apply wo_on, wo_bool|apply wo_cfg]).
  destruct W as [a t e]. constructor.
  - intros x y. rewrite !dr_cmp_lex. apply a.
  - intros x y z. rewrite !dr_cmp_lex. apply t.
  - intros x y z. rewrite !dr_cmp_lex. apply e.
Qed.

Lemma dr_separates l : cfg_key_unique l -> separates dr_cmp l.
Proof.
  intros U x y Hx Hy E. rewrite dr_cmp_lex in E. apply lex_eq in E. destruct E as [_ E].
  apply cfg_cmp_eq in E. destruct E as (_ & b & c). apply U; assumption.
Qed.

(* slices.SortFunc is not stable: the theorem is about ANY sorted permutation the sorter may return *)
Lemma configs_order l l' o o' :
  Permutation l l' -> cfg_key_unique l ->
  sortedb cfg_cmp o = true -> Permutation o l ->
  sortedb cfg_cmp o' = true -> Permutation o' l' ->
  o = o' /\ o = sort_configs l.
Proof.
  intros P U So Po So' Po'. split.
  - apply (any_sort_perm_invariant cfg_cmp wo_cfg l l'); auto using cfg_separates.
  - apply sorted_perm_is_isort; auto using wo_cfg, cfg_separates.
Qed.

Lemma destrules_order l l' o o' :
  Permutation l l' -> cfg_key_unique l ->
  sortedb dr_cmp o = true -> Permutation o l ->
  sortedb dr_cmp o' = true -> Permutation o' l' ->
  o = o' /\ o = sort_destrules l.
Proof.
  intros P U So Po So' Po'. split.
  - apply (any_sort_perm_invariant dr_cmp wo_dr l l'); auto using dr_separates.
  - apply sorted_perm_is_isort; auto using wo_dr, dr_separates.
Qed.

(* without (namespace, name) uniqueness the comparator does not separate: not reachable from one
   config store of one kind, recorded to show the hypothesis is needed *)
Lemma configs_ties_order_dependent :
  exists l l', Permutation l l' /\ sort_configs l <> sort_configs l'.
Proof.
  exists [MkCfg 1 5 "a" "ns" false; MkCfg 2 5 "a" "ns" true],
         [MkCfg 2 5 "a" "ns" true; MkCfg 1 5 "a" "ns" false].
  split; [apply perm_swap|vm_compute; discriminate].
Qed.

(* ------------------------------------------------------------------ call sites: Sidecars, policies *)

(* whatever sorted permutation the (unstable) sorter returned, for whatever listing order of the store *)
Lemma sidecars_order l l' o o' :
  Permutation l l' -> cfg_key_unique l ->
  sortedb cfg_cmp o = true -> Permutation o l ->
  sortedb cfg_cmp o' = true -> Permutation o' l' ->
  sidecar_partition o = sidecar_partition o' /\
  sidecar_partition o = sidecar_order l /\
  forall pns root ms, choose_in pns root ms (sidecar_partition o) = choose_in pns root ms (sidecar_partition o').
Proof.
  intros P U So Po So' Po'.
  destruct (configs_order l l' o o' P U So Po So' Po') as [E1 E2].
  split; [rewrite E1; reflexivity|]. split; [unfold sidecar_order; rewrite E2; reflexivity|].
  intros. rewrite E1. reflexivity.
Qed.

Lemma sidecar_choice_order l l' pns root ms :
  Permutation l l' -> cfg_key_unique l -> choose_sidecar pns root ms l = choose_sidecar pns root ms l'.
Proof.
  intros P U. unfold choose_sidecar, sidecar_order, sort_configs.
  rewrite (sort_perm_invariant cfg_cmp wo_cfg l l' P (cfg_separates l U)). reflexivity.
Qed.

(* without the name/namespace tie-break (a sort keyed on selector and creation time only) the choice follows
   the listing order: the witness of seeded change C17-2, as a statement about the weaker rule *)
Definition weak_sidecar_cmp : cfg -> cfg -> comparison :=
  lex (on (fun c => negb (c_sel c)) bool_cmp) (on c_time Z.compare).

Lemma weak_sidecar_rule_order_dependent :
  exists l l', Permutation l l' /\ cfg_key_unique l /\
    choose_in "app" "istio-system" [1%N; 2%N] (isort weak_sidecar_cmp l) <>
    choose_in "app" "istio-system" [1%N; 2%N] (isort weak_sidecar_cmp l').
Proof.
  exists [MkCfg 1 7 "by-app" "app" true; MkCfg 2 7 "by-version" "app" true],
         [MkCfg 2 7 "by-version" "app" true; MkCfg 1 7 "by-app" "app" true].
  split; [apply perm_swap|]. split.
  - intros x y [<-|[<-|[]]] [<-|[<-|[]]]; cbn; intros; try reflexivity; discriminate.
  - vm_compute. discriminate.
Qed.

Lemma callsite_order_inv kind nss l l' o o' :
  Permutation l l' -> cfg_key_unique l ->
  sortedb cfg_cmp o = true -> Permutation o l ->
  sortedb cfg_cmp o' = true -> Permutation o' l' ->
  callsite_in kind nss o = callsite_in kind nss o' /\ callsite_in kind nss o = callsite_order kind nss l.
Proof.
  intros P U So Po So' Po'.
  destruct (configs_order l l' o o' P U So Po So' Po') as [E1 E2].
  split; [rewrite E1; reflexivity|]. unfold callsite_order. rewrite E2. reflexivity.
Qed.

(* ------------------------------------------------------------------ shard keys *)

Lemma shard_cmp_lex a b : shard_cmp a b = lex (on fst String.compare) (on snd String.compare) a b.
Proof.
  unfold shard_cmp, of_less, shard_less, lex, on, String.ltb.
  destruct (String.eqb_spec (fst a) (fst b)) as [E|NE].
  - rewrite E, str_cmp_refl, (String.compare_antisym (snd b) (snd a)).
    rewrite String.eqb_refl. destruct (String.compare (snd a) (snd b)); reflexivity.
  - assert (NE' : fst b <> fst a) by congruence.
    apply String.eqb_neq in NE'. rewrite NE'.
    rewrite (String.compare_antisym (fst b) (fst a)).
    destruct (String.compare (fst a) (fst b)) eqn:E; try reflexivity.
    apply String.compare_eq_iff in E. contradiction.
Qed.

Lemma wo_shard : weak_order shard_cmp.
Proof.
  assert (W : weak_order (lex (on (@fst string string) String.compare) (on (@snd string string) String.compare)))
    by (apply wo_lex; apply wo_on, wo_string).
  destruct W as [a t e]. constructor.
  - intros x y. rewrite !shard_cmp_lex. apply a.
  - intros x y z. rewrite !shard_cmp_lex. apply t.
  - intros x y z. rewrite !shard_cmp_lex. apply e.
Qed.

Lemma shard_cmp_total x y : shard_cmp x y = Eq -> x = y.
Proof.
  rewrite shard_cmp_lex, lex_eq. unfold on. rewrite !str_cmp_eq.
  destruct x, y; cbn. intros [-> ->]. reflexivity.
Qed.

(* the comparator is a total order on the keys themselves: any sorted permutation, no hypothesis *)
Lemma shards_order l l' o o' :
  Permutation l l' ->
  sortedb shard_cmp o = true -> Permutation o l ->
  sortedb shard_cmp o' = true -> Permutation o' l' ->
  o = o'.
Proof.
  intros P So Po So' Po'.
  apply (any_sort_perm_invariant shard_cmp wo_shard l l'); auto.
  apply total_separates, shard_cmp_total.
Qed.

(* ------------------------------------------------------------------ localities *)

Lemma strings_order l l' : Permutation l l' -> isort String.compare l = isort String.compare l'.
Proof.
  intros P. apply sort_perm_invariant; auto using wo_string.
  apply total_separates, String.compare_eq_iff.
Qed.

Lemma localities_order iter iter' eps :
  Permutation iter iter' -> locality_order iter eps = locality_order iter' eps.
Proof. intros P. unfold locality_order. rewrite (strings_order _ _ P). reflexivity. Qed.

(* ------------------------------------------------------------------ namespace selection *)

Lemma pick_first_order l l' : Permutation l l' -> pick_first l = pick_first l'.
Proof.
  intros P. unfold pick_first.
  assert (P' : Permutation (map n_ns (filter n_visible l)) (map n_ns (filter n_visible l'))).
  { apply Permutation_map. clear -P. induction P; cbn.
    - reflexivity.
    - destruct (n_visible x); [constructor|]; assumption.
    - destruct (n_visible x), (n_visible y); try reflexivity. apply perm_swap.
    - etransitivity; eassumption. }
  rewrite (strings_order _ _ P'). reflexivity.
Qed.

(* pickBestVisibleNamespace: [better] is the strict part of the total order (creation time, namespace) *)
Definition ncmp : nsvc -> nsvc -> comparison := lex (on n_time Z.compare) (on n_ns String.compare).

Lemma wo_ncmp : weak_order ncmp.
Proof. apply wo_lex; apply wo_on; auto using wo_Z, wo_string. Qed.

Lemma better_lt s b : better s b = match ncmp s b with Lt => true | _ => false end.
Proof.
  unfold better, ncmp, lex, on.
  destruct (Z.compare_spec (n_time s) (n_time b)) as [E|L|G].
  - rewrite E, Z.ltb_irrefl, Z.eqb_refl. cbn. unfold String.ltb.
    destruct (String.compare (n_ns s) (n_ns b)); reflexivity.
  - apply Z.ltb_lt in L. rewrite L. reflexivity.
  - assert (H1 : (n_time s <? n_time b)%Z = false) by (apply Z.ltb_ge; lia).
    assert (H2 : (n_time s =? n_time b)%Z = false) by (apply Z.eqb_neq; lia).
    rewrite H1, H2. reflexivity.
Qed.

Definition visible_nonkube (l : list nsvc) : Prop :=
  Forall (fun s => n_visible s = true -> n_kube s = false) l.

(* the loop result is characterised: "" iff nothing is visible (and no best), otherwise the namespace of
   a candidate that is minimal for (creation time, namespace) *)
Lemma pick_best_loop_min l : forall best,
  visible_nonkube l ->
  let cands := (match best with Some b => [b] | None => [] end) ++ filter n_visible l in
  match cands with
  | [] => pick_best_loop l best = ""
  | _ => exists m, In m cands /\ pick_best_loop l best = n_ns m /\
                   forall c, In c cands -> le ncmp m c
  end.
Proof.
  induction l as [|s l IH]; intros best NK.
  - cbn. destruct best as [b|]; cbn; [|reflexivity].
    exists b. split; [left; reflexivity|]. split; [reflexivity|].
    intros c [<-|[]]. unfold le. rewrite (wo_refl _ wo_ncmp). discriminate.
  - inversion NK as [|? ? Hs NK']; subst. cbn [pick_best_loop filter].
    destruct (n_visible s) eqn:V.
    + rewrite (Hs eq_refl).
      destruct best as [b|].
      * rewrite better_lt. destruct (ncmp s b) eqn:C.
        -- specialize (IH (Some b) NK'). cbn in IH. destruct IH as (m & Hin & Hr & Hmin).
           cbn. exists m. split; [destruct Hin as [<-|Hin]; [left; reflexivity|right; right; exact Hin]|].
           split; [exact Hr|].
           intros c [<-|[<-|Hc]].
           ++ apply Hmin. left; reflexivity.
           ++ apply (le_trans _ wo_ncmp m b s); [apply Hmin; left; reflexivity|].
              unfold le. rewrite (wo_eq_sym _ wo_ncmp _ _ C). discriminate.
           ++ apply Hmin. right. exact Hc.
        -- specialize (IH (Some s) NK'). cbn in IH. destruct IH as (m & Hin & Hr & Hmin).
           cbn. exists m. split; [right; exact Hin|]. split; [exact Hr|].
           intros c [<-|Hc]; [|apply Hmin; exact Hc].
           apply (le_trans _ wo_ncmp m s b); [apply Hmin; left; reflexivity|].
           unfold le. rewrite C. discriminate.
        -- specialize (IH (Some b) NK'). cbn in IH. destruct IH as (m & Hin & Hr & Hmin).
           cbn. exists m. split; [destruct Hin as [<-|Hin]; [left; reflexivity|right; right; exact Hin]|].
           split; [exact Hr|].
           intros c [<-|[<-|Hc]].
           ++ apply Hmin. left; reflexivity.
           ++ apply (le_trans _ wo_ncmp m b s); [apply Hmin; left; reflexivity|].
              unfold le. rewrite (wo_gt_lt _ wo_ncmp _ _ C). discriminate.
           ++ apply Hmin. right. exact Hc.
      * specialize (IH (Some s) NK'). cbn in IH. cbn. exact IH.
    + specialize (IH best NK'). exact IH.
Qed.

Lemma filter_perm {A} (f : A -> bool) l l' : Permutation l l' -> Permutation (filter f l) (filter f l').
Proof.
  induction 1; cbn.
  - reflexivity.
  - destruct (f x); [constructor|]; assumption.
  - destruct (f x), (f y); try reflexivity. apply perm_swap.
  - etransitivity; eassumption.
Qed.

(* no hypothesis on creation times any more: namespaces (the map keys) decide ties *)
Lemma pick_best_order_nokube l l' :
  Permutation l l' -> visible_nonkube l -> pick_best l = pick_best l'.
Proof.
  intros P NK.
  assert (NK' : visible_nonkube l').
  { unfold visible_nonkube in *. rewrite Forall_forall in *. intros x Hx. apply NK.
    eapply Permutation_in; [apply Permutation_sym; exact P|exact Hx]. }
  pose proof (pick_best_loop_min l None NK) as H1.
  pose proof (pick_best_loop_min l' None NK') as H2.
  cbn in H1, H2. pose proof (filter_perm n_visible _ _ P) as PF.
  unfold pick_best.
  destruct (filter n_visible l) as [|a fl] eqn:E1.
  - apply Permutation_nil in PF. rewrite PF in H2. congruence.
  - destruct (filter n_visible l') as [|a' fl'] eqn:E2.
    + apply Permutation_sym, Permutation_nil in PF. discriminate.
    + destruct H1 as (m & Hm & R1 & M1). destruct H2 as (m' & Hm' & R2 & M2).
      rewrite R1, R2.
      assert (Hm'1 : In m' (a :: fl)) by (eapply Permutation_in; [apply Permutation_sym; exact PF|exact Hm']).
      assert (Hm1 : In m (a' :: fl')) by (eapply Permutation_in; [exact PF|exact Hm]).
      pose proof (le_antisym_eq _ wo_ncmp m m' (M1 m' Hm'1) (M2 m Hm1)) as E.
      unfold ncmp in E. apply lex_eq in E. destruct E as [_ E]. unfold on in E.
      apply str_cmp_eq in E. exact E.
Qed.

(* with exactly one visible Kubernetes service the loop returns its namespace wherever it sits *)
Lemma pick_best_loop_kube k l : forall best,
  In k l -> n_visible k = true -> n_kube k = true ->
  (forall x, In x l -> n_visible x = true -> n_kube x = true -> x = k) ->
  pick_best_loop l best = n_ns k.
Proof.
  induction l as [|s l IH]; intros best Hin V K U; [destruct Hin|].
  cbn [pick_best_loop].
  assert (U' : forall x, In x l -> n_visible x = true -> n_kube x = true -> x = k)
    by (intros x Hx; apply U; right; exact Hx).
  destruct (n_visible s) eqn:Vs.
  - destruct (n_kube s) eqn:Ks.
    + rewrite (U s (or_introl eq_refl) Vs Ks). reflexivity.
    + assert (Hin' : In k l) by (destruct Hin as [->|H]; [congruence|exact H]).
      destruct best as [b|]; [destruct (better s b)|]; apply IH; assumption.
  - assert (Hin' : In k l) by (destruct Hin as [->|H]; [congruence|exact H]).
    apply IH; assumption.
Qed.

(* a hostname is owned by at most one Kubernetes service (its hostname contains its namespace) *)
Definition one_kube (l : list nsvc) : Prop :=
  forall x y, In x l -> In y l -> n_visible x = true -> n_kube x = true ->
    n_visible y = true -> n_kube y = true -> x = y.

Lemma pick_best_order l l' : Permutation l l' -> one_kube l -> pick_best l = pick_best l'.
Proof.
  intros P O.
  destruct (existsb (fun s => n_visible s && n_kube s) l) eqn:E.
  - apply existsb_exists in E. destruct E as (k & Hk & VK). apply andb_true_iff in VK. destruct VK as [V K].
    assert (U : forall x, In x l -> n_visible x = true -> n_kube x = true -> x = k)
      by (intros x Hx Vx Kx; apply O; assumption).
    unfold pick_best. rewrite (pick_best_loop_kube k l None Hk V K U).
    symmetry. apply pick_best_loop_kube; try assumption.
    + eapply Permutation_in; eassumption.
    + intros x Hx. apply U. eapply Permutation_in; [apply Permutation_sym; exact P|exact Hx].
  - apply pick_best_order_nokube; [exact P|].
    unfold visible_nonkube. apply Forall_forall. intros x Hx Vx.
    destruct (n_kube x) eqn:Kx; [|reflexivity].
    assert (C : existsb (fun s => n_visible s && n_kube s) l = true)
      by (apply existsb_exists; exists x; split; [exact Hx|rewrite Vx, Kx; reflexivity]).
    congruence.
Qed.

(* the former witness: equal-age ServiceEntries in ns1 and ns2 now always give ns1 *)
Lemma pick_best_former_witness :
  pick_best [MkNsvc "ns1" true false 7; MkNsvc "ns2" true false 7] = "ns1"%string /\
  pick_best [MkNsvc "ns2" true false 7; MkNsvc "ns1" true false 7] = "ns1"%string.
Proof. split; reflexivity. Qed.

(* ------------------------------------------------------------------ virtual hosts *)

Lemma merge_all_perm m m' : Permutation m m' -> Permutation (merge_all m) (merge_all m').
Proof.
  unfold merge_all. induction 1; cbn.
  - reflexivity.
  - apply Permutation_app_head. assumption.
  - rewrite !app_assoc. apply Permutation_app_tail, Permutation_app_comm.
  - etransitivity; eassumption.
Qed.

Lemma wo_vh : weak_order vh_cmp.
Proof. apply wo_on, wo_string. Qed.

Definition vh_names_unique (l : list vhost) : Prop :=
  forall x y, In x l -> In y l -> v_name x = v_name y -> x = y.

Lemma sort_vhosts_perm l l' :
  Permutation l l' -> vh_names_unique l -> sort_vhosts l = sort_vhosts l'.
Proof.
  intros P U.
  assert (S : isort vh_cmp l = isort vh_cmp l').
  { apply sort_perm_invariant; auto using wo_vh.
    intros x y Hx Hy E. unfold vh_cmp, on in E. apply String.compare_eq_iff in E. apply U; assumption. }
  pose proof (Permutation_length P) as L.
  destruct l as [|a [|b l]]; destruct l' as [|a' [|b' l']]; try discriminate L.
  - reflexivity.
  - apply Permutation_length_1 in P. congruence.
  - exact S.
Qed.

(* K10 as seen at the only call site: mergeAllVirtualHosts followed by SortVirtualHosts *)
Lemma merged_sorted_order m m' :
  Permutation m m' -> vh_names_unique (merge_all m) ->
  sort_vhosts (merge_all m) = sort_vhosts (merge_all m').
Proof. intros P U. apply sort_vhosts_perm; [apply merge_all_perm; exact P|exact U]. Qed.

(* the function on its own does follow map iteration order *)
Lemma merge_all_order_dependent :
  exists m m', Permutation m m' /\ NoDup (map fst m) /\ merge_all m <> merge_all m'.
Proof.
  exists [(80%Z, [MkVh 1 "a:80" ["a"; "a:80"]]); (8080%Z, [MkVh 2 "b:8080" ["b"; "b:8080"]])],
         [(8080%Z, [MkVh 2 "b:8080" ["b"; "b:8080"]]); (80%Z, [MkVh 1 "a:80" ["a"; "a:80"]])].
  split; [apply perm_swap|]. split; [repeat constructor; cbn; intuition discriminate|].
  vm_compute. discriminate.
Qed.
