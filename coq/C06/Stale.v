(* C06 proofs, part 2: no stale read (ghost world versions), provenance, transparency. *)
From Coq Require Import Lia ZifyBool ZifyNat ZifyN.
From V Require Import lib.Verdict C06.Model C06.Proofs.
Open Scope N_scope.

(* zify does not see through the type aliases *)
Ltac nlia := unfold stamp, key, cfg in *; lia.

(* ------------------------------------------------------------------ how a step changes store and token *)

Lemma cci_fold_store_In q l e : In e (store (fold_left clear_config_index q l)) -> In e (store l).
Proof.
  revert l. induction q as [|kc r IH]; intros l; cbn [fold_left]; [auto|].
  intros H. apply IH in H. unfold clear_config_index in H.
  destruct (lru_find (fst kc) (store l)) as [c|] eqn:E; cbn [store] in H; [|exact H].
  destruct H as [<-|H]; [apply (lru_find_In _ _ _ E)|apply lru_del_In in H; tauto].
Qed.

Lemma cci_fold_tok q l : tok (fold_left clear_config_index q l) = tok l.
Proof.
  revert l. induction q as [|kc r IH]; intros l; cbn [fold_left]; [reflexivity|].
  rewrite IH. unfold clear_config_index. destruct (lru_find _ _); reflexivity.
Qed.

Definition mk_entry k v t deps := {| e_key := k; e_val := v; e_tok := t; e_deps := deps |}.

Lemma step_store_sub o l e :
  In e (store (fst (step o l))) ->
  In e (store l) \/
  exists k deps t v, o = OAdd k deps (Some t) v /\ e = mk_entry k v t deps /\ tok l <= t.
Proof.
  destruct o; cbn [step fst snd].
  - unfold add. destruct start as [t|]; [|auto].
    destruct (t <? tok l) eqn:T; [auto|].
    destruct (match lru_find k (store l) with Some c => t <=? e_tok c | None => false end).
    + cbn [with_store store]. intros H. left. apply lru_touch_In in H. exact H.
    + pose proof (lru_put_In (cap l) (mk_entry k v t deps) (lru_touch k (store l))) as P.
      unfold mk_entry in P. destruct (lru_put _ _ _) as [st2 ev]. cbn [fst store] in *.
      intros H. destruct (P e H) as [->|Ho].
      * right. exists k, deps, t, v. split; [reflexivity|split; [reflexivity|nlia]].
      * left. apply lru_touch_In in Ho. exact Ho.
  - unfold get, get_tok. destruct (lru_find k (store l)) as [c|] eqn:E; cbn [snd with_store store]; [|auto].
    intros [<-|H]; left; [apply (lru_find_In _ _ _ E)|apply lru_del_In in H; tauto].
  - intros H. left. apply clear_store_In in H. tauto.
  - intros [].
  - unfold flush. cbn [store]. intros H. left. apply cci_fold_store_In in H. exact H.
Qed.

Lemma step_tok_mono o l :
  match o with
  | OClear _ now _ | OClearAll now => tok (fst (step o l)) = now
  | _ => tok l <= tok (fst (step o l))
  end.
Proof.
  destruct o; cbn [step fst snd]; try reflexivity.
  - unfold add. destruct start as [t|]; [|nlia].
    destruct (t <? tok l) eqn:T; [nlia|].
    destruct (match lru_find k (store l) with Some c => t <=? e_tok c | None => false end); [cbn; nlia|].
    destruct (lru_put _ _ _). cbn [tok]. nlia.
  - unfold get, get_tok. destruct (lru_find k (store l)); cbn; nlia.
  - unfold flush. cbn [tok]. rewrite cci_fold_tok. nlia.
Qed.

(* ------------------------------------------------------------------ the ghost invariant *)

Definition ginv (g : ghost) (l : lru) : Prop :=
  (forall c, In c (clears g) -> fst c <= tok l) /\
  (forall d, lastchg g d = 0 \/ exists s, In (s, lastchg g d) (clears g)) /\
  store_fresh g l.

Lemma ginv_init cp : ginv ghost0 (init cp).
Proof. split; [intros c []|split; [intros d; left; reflexivity|intros e []]]. Qed.

Lemma fresh_b_ext g g' deps v :
  (forall d, In d deps -> lastchg g' d = lastchg g d) -> fresh_b g' deps v = fresh_b g deps v.
Proof.
  intros H. destruct v as [v|]; [|reflexivity]. cbn [fresh_b].
  induction deps as [|d r IH]; [reflexivity|]. cbn [forallb].
  rewrite (H d (or_introl eq_refl)). rewrite IH; [reflexivity|]. intros x Hx. apply H. right. exact Hx.
Qed.

Lemma ginv_step o g l :
  inv l -> ginv g l -> wf_op true g o = true -> ginv (gstep o g) (fst (step o l)).
Proof.
  intros [HB HI] (GA & GC & GF) W.
  assert (Hsame : gstep o g = g ->
                  tok l <= tok (fst (step o l)) ->
                  (forall e, In e (store (fst (step o l))) -> fresh_b g (e_deps e) (e_val e) = true) ->
                  ginv (gstep o g) (fst (step o l))).
  { intros Hg Ht Hf. rewrite Hg. split; [|split; [exact GC|exact Hf]].
    intros c Hc. specialize (GA c Hc). nlia. }
  destruct o.
  - (* Add *)
    apply Hsame; [reflexivity|exact (step_tok_mono (OAdd k deps start v) l)|].
    intros e He. apply step_store_sub in He. destruct He as [He|(k0 & deps0 & t & v0 & Ho & -> & Ht)].
    + exact (GF e He).
    + inversion Ho; subst. cbn [mk_entry e_deps e_val].
      destruct v0 as [v0|]; [|reflexivity]. cbn [fresh_b]. apply forallb_forall. intros d Hd.
      cbn [wf_op] in W. rewrite forallb_forall in W.
      destruct (GC d) as [Z|[s Hs]]; [nlia|].
      specialize (W _ Hs). specialize (GA _ Hs). cbv beta iota in W. cbn [fst snd] in *.
      apply orb_true_iff in W. destruct W as [W|W]; [exact W|]. apply N.ltb_lt in W. clear - W GA Ht. nlia.
  - apply Hsame; [reflexivity|exact (step_tok_mono (OGet k) l)|].
    intros e He. apply step_store_sub in He. destruct He as [He|(k0 & deps0 & t & v0 & Ho & _)]; [exact (GF e He)|discriminate].
  - (* Clear *)
    cbn [wf_op] in W. rewrite forallb_forall in W.
    cbn [step fst gstep]. split; [|split].
    + cbn [clears clear tok]. intros c [<-|Hc]; cbn [fst]; [nlia|]. specialize (W c Hc). nlia.
    + intros d. cbn [lastchg clears]. destruct (memN d cfgs).
      * right. exists now. left. reflexivity.
      * destruct (GC d) as [Z|[s Hs]]; [left; exact Z|right; exists s; right; exact Hs].
    + intros e He.
      assert (Hn : forall d, In d (e_deps e) -> ~ In d cfgs).
      { intros d Hd Hc. exact (clear_removes l cfgs now ord e d HI He Hc Hd). }
      apply clear_store_In in He. destruct He as [He _].
      rewrite <- (GF e He). apply fresh_b_ext. intros d Hd. cbn [lastchg].
      specialize (Hn d Hd). apply memN_false in Hn. rewrite Hn. reflexivity.
  - (* ClearAll *)
    cbn [wf_op] in W. rewrite forallb_forall in W.
    cbn [step fst gstep]. split; [|split].
    + cbn [clears clear_all tok]. intros c [<-|Hc]; cbn [fst]; [nlia|]. specialize (W c Hc). nlia.
    + intros d. cbn [lastchg clears]. right. exists now. left. reflexivity.
    + intros e [].
  - apply Hsame; [reflexivity|exact (step_tok_mono OFlush l)|].
    intros e He. apply step_store_sub in He. destruct He as [He|(k0 & deps0 & t & v0 & Ho & _)]; [exact (GF e He)|discriminate].
Qed.

Lemma get_result k l c : lru_find k (store l) = Some c -> fst (get k l) = e_val c.
Proof.
  intros E. unfold get, get_tok. rewrite E. cbn [fst].
  destruct (e_val c) as [v|]; [|reflexivity].
  assert (0 <=? e_tok c = true) as -> by (apply N.leb_le; nlia). reflexivity.
Qed.

Lemma get_result_none k l : lru_find k (store l) = None -> fst (get k l) = None.
Proof. intros E. unfold get, get_tok. rewrite E. reflexivity. Qed.

Lemma gets_fresh_gen ops : forall g l,
  inv l -> ginv g l -> wf_trace true g ops = true -> gets_fresh g l ops.
Proof.
  induction ops as [|o r IH]; intros g l HI HG W; cbn [gets_fresh]; [exact I|].
  cbn [wf_trace] in W. apply andb_true_iff in W. destruct W as [W1 W2].
  split.
  - destruct o; try exact I.
    destruct (lru_find k (store l)) as [c|] eqn:E.
    + split; [apply get_result; exact E|].
      rewrite (get_result k l c E). destruct HG as (_ & _ & GF).
      apply GF. apply (lru_find_In _ _ _ E).
    + apply get_result_none. exact E.
  - apply IH; [apply inv_step; exact HI|apply ginv_step; assumption|exact W2].
Qed.

Lemma no_stale_read_all cp ops :
  wf_trace true ghost0 ops = true -> gets_fresh ghost0 (init cp) ops.
Proof. intros W. apply gets_fresh_gen; [apply inv_init|apply ginv_init|exact W]. Qed.

(* ------------------------------------------------------------------ the tie: strictness is necessary *)

Definition tie_witness : list op :=
  [ OAdd 7 [1] (Some 1) (Some {| vid := 1; gver := 0 |});
    OClear [1] 2 [(7, [1])];
    OAdd 7 [1] (Some 2) (Some {| vid := 2; gver := 0 |});   (* data from version 0, start = clear stamp *)
    OGet 7 ].

Lemma no_stale_read_tie_refuted :
  exists cp ops, wf_trace false ghost0 ops = true /\ ~ gets_fresh ghost0 (init cp) ops.
Proof.
  exists 2%nat, tie_witness. split; [vm_compute; reflexivity|].
  intros H. vm_compute in H. destruct H as (_ & _ & _ & (_ & F) & _). discriminate F.
Qed.

(* ------------------------------------------------------------------ provenance *)

Lemma added_before_app k v a b :
  added_before k v (a ++ b) = added_before k v a || added_before k v b.
Proof.
  induction a as [|o a IH]; [reflexivity|]. cbn [app added_before].
  destruct o as [k' d s [v'|]| | | |]; rewrite IH; try reflexivity.
  rewrite orb_assoc. reflexivity.
Qed.

Lemma prov_run ops : forall hist l,
  (forall e v, In e (store l) -> e_val e = Some v -> added_before (e_key e) v hist = true) ->
  forall e v, In e (store (run ops l)) -> e_val e = Some v -> added_before (e_key e) v (hist ++ ops) = true.
Proof.
  induction ops as [|o r IH]; intros hist l H e v He Hv.
  - rewrite app_nil_r. exact (H e v He Hv).
  - cbn [run fold_left] in He. change (In e (store (run r (fst (step o l))))) in He.
    replace (hist ++ o :: r) with ((hist ++ [o]) ++ r) by (rewrite <- app_assoc; reflexivity).
    apply (IH (hist ++ [o]) (fst (step o l))); [|exact He|exact Hv].
    intros e' v' He' Hv'. rewrite added_before_app.
    apply step_store_sub in He'. destruct He' as [Ho|(k0 & deps0 & t & v0 & -> & -> & _)].
    + rewrite (H e' v' Ho Hv'). reflexivity.
    + cbn [mk_entry e_val e_key] in *. subst v0. cbn [added_before].
      rewrite !N.eqb_refl. cbn. apply orb_true_r.
Qed.

Lemma get_returns_added cp ops k v :
  fst (get k (run ops (init cp))) = Some v -> added_before k v ops = true.
Proof.
  intros H. destruct (lru_find k (store (run ops (init cp)))) as [c|] eqn:E.
  - rewrite (get_result _ _ _ E) in H. destruct (lru_find_In _ _ _ E) as [Hin Hk].
    pose proof (prov_run ops [] (init cp)) as P. cbn [app] in P.
    rewrite <- Hk. apply (P (fun e v He => match He with end) c v Hin H).
  - rewrite (get_result_none _ _ E) in H. discriminate.
Qed.

(* ------------------------------------------------------------------ transparency under H_key *)

Section Transparent.
  (* [gen n k]: the bytes generation yields, from the world at version n, for any proxy whose
     cache key is k; [depsof k]: the dependent configs the entry type declares for that key. *)
  Variable gen : N -> key -> N.
  Variable depsof : key -> list cfg.

  (* H_key at a moment of the run: generation for key k reads nothing but the declared
     dependent configs — if none of them changed after version n, generating from version n and
     generating now give the same bytes. *)
  Definition hkey_at (g : ghost) : Prop :=
    forall k n, n <= wv g -> (forall d, In d (depsof k) -> lastchg g d <= n) -> gen n k = gen (wv g) k.

  (* writers insert what generation produced from the version they read, with the declared deps *)
  Definition honest (g : ghost) (o : op) : Prop :=
    match o with
    | OAdd k deps _ (Some v) => deps = depsof k /\ vid v = gen (gver v) k /\ gver v <= wv g
    | _ => True
    end.

  Fixpoint honest_trace (g : ghost) (ops : list op) : Prop :=
    match ops with
    | [] => True
    | o :: r => hkey_at g /\ honest g o /\ honest_trace (gstep o g) r
    end.

  (* every hit equals a fresh generation now *)
  Fixpoint gets_transparent (g : ghost) (l : lru) (ops : list op) : Prop :=
    match ops with
    | [] => True
    | o :: r =>
        match o with
        | OGet k => match fst (get k l) with Some v => vid v = gen (wv g) k | None => True end
        | _ => True
        end /\ gets_transparent (gstep o g) (fst (step o l)) r
    end.

  Definition tinv (g : ghost) (l : lru) : Prop :=
    forall e v, In e (store l) -> e_val e = Some v ->
      e_deps e = depsof (e_key e) /\ vid v = gen (gver v) (e_key e) /\ gver v <= wv g.

  Lemma wv_mono o g : wv g <= wv (gstep o g).
  Proof. destruct o; cbn [gstep wv]; nlia. Qed.

  Lemma tinv_step o g l : tinv g l -> honest g o -> tinv (gstep o g) (fst (step o l)).
  Proof.
    intros HT HH e v He Hv. pose proof (wv_mono o g) as M.
    apply step_store_sub in He. destruct He as [Ho|(k0 & deps0 & t & v0 & -> & -> & _)].
    - destruct (HT e v Ho Hv) as (A & B & C). split; [exact A|split; [exact B|nlia]].
    - cbn [mk_entry e_val e_key e_deps] in *. subst v0. cbn [honest] in HH.
      destruct HH as (A & B & C). split; [exact A|split; [exact B|cbn [gstep]; exact C]].
  Qed.

  Lemma transparent_gen ops : forall g l,
    inv l -> ginv g l -> tinv g l ->
    wf_trace true g ops = true -> honest_trace g ops -> gets_transparent g l ops.
  Proof.
    induction ops as [|o r IH]; intros g l HI HG HT W HH; cbn [gets_transparent]; [exact I|].
    cbn [wf_trace] in W. apply andb_true_iff in W. destruct W as [W1 W2].
    cbn [honest_trace] in HH. destruct HH as (HK & HO & HR).
    split.
    - destruct o; try exact I.
      destruct (lru_find k (store l)) as [c|] eqn:E.
      + rewrite (get_result k l c E). destruct (e_val c) as [v|] eqn:Ev; [|exact I].
        destruct (lru_find_In _ _ _ E) as [Hin Hk].
        destruct (HT c v Hin Ev) as (A & B & C). rewrite Hk in *.
        rewrite B. apply HK; [exact C|].
        intros d Hd. destruct HG as (_ & _ & GF). specialize (GF c Hin).
        rewrite Ev, A in GF. cbn [fresh_b] in GF. rewrite forallb_forall in GF.
        specialize (GF d Hd). nlia.
      + rewrite (get_result_none k l E). exact I.
    - apply IH; [apply inv_step; exact HI|apply ginv_step; assumption|apply tinv_step; assumption|exact W2|exact HR].
  Qed.

  Lemma cache_transparent_all cp ops :
    wf_trace true ghost0 ops = true -> honest_trace ghost0 ops ->
    gets_transparent ghost0 (init cp) ops.
  Proof.
    intros W H. apply transparent_gen; [apply inv_init|apply ginv_init| |exact W|exact H].
    intros e v [].
  Qed.
End Transparent.

(* ------------------------------------------------------------------ direct token facts *)

Lemma stale_writer_dropped l k deps s v : s < tok l -> add k deps (Some s) v l = l.
Proof. intros H. unfold add. assert (s <? tok l = true) as -> by (apply N.ltb_lt; exact H). reflexivity. Qed.

(* ------------------------------------------------------------------ XdsCacheImpl.Clear *)

Lemma x_clear_removes cp oc oe orr os cfgs has_pa n1 n2 n3 n4 o1 o2 o3 o4 t e d :
  let x := {| x_cds := run oc (init cp); x_eds := run oe (init cp);
              x_rds := run orr (init cp); x_sds := run os (init cp) |} in
  In e (store (x_sel t (x_clear cfgs has_pa n1 n2 n3 n4 o1 o2 o3 o4 x))) ->
  In d cfgs -> ~ In d (e_deps e).
Proof.
  intros x He Hd.
  destruct t; cbn [x_sel x_clear x x_cds x_eds x_rds x_sds] in He.
  - exact (clear_removes_all cp oc cfgs n1 o1 e d He Hd).
  - destruct has_pa; [destruct He|exact (clear_removes_all cp oe cfgs n2 o2 e d He Hd)].
  - exact (clear_removes_all cp orr cfgs n3 o3 e d He Hd).
  - exact (clear_removes_all cp os cfgs n4 o4 e d He Hd).
Qed.
