(* C06 — the xDS cache is invisible.
   Executable model of pilot/pkg/model/typed_xds_cache.go (lruCache[K]) on top of
   hashicorp/golang-lru/v2/simplelru, written function for function, plus the ghost
   vocabulary (world versions, writer discipline) the property theorems are stated in.
   Definitions only; proofs are in Proofs.v. *)
From V Require Import lib.Verdict.
Open Scope N_scope.

Definition key := N.      (* cache key (hash of the generation inputs) *)
Definition cfg := N.      (* ConfigHash of a dependent config *)
Definition stamp := N.    (* CacheToken = time.UnixNano *)

(* A cached resource.  [vid] identifies the bytes; [gver] is ghost data carried inside the
   value: the world version the writer generated it from (the code never inspects values). *)
Record value := { vid : N; gver : N }.

(* cacheValue + its key *)
Record entry := { e_key : key; e_val : option value; e_tok : stamp; e_deps : list cfg }.

Definition evicted := (key * list cfg)%type.           (* evictKeyConfigs *)
Definition index := list (cfg * list key).             (* configIndex: map[ConfigHash]sets.Set[K] *)

Record lru := {
  cap   : nat;            (* simplelru size (features.XDSCacheMaxSize; <=0 means 20000) *)
  store : list entry;     (* simplelru evictList, head = most recently used *)
  tok   : stamp;          (* l.token *)
  idx   : index;          (* l.configIndex *)
  queue : list evicted    (* l.evictQueue *)
}.

Definition init (c : nat) : lru := {| cap := c; store := []; tok := 0; idx := []; queue := [] |}.

Definition memN (x : N) (l : list N) : bool := existsb (N.eqb x) l.

(* ---------------------------------------------------------------- simplelru.LRU *)

(* items[key] *)
Fixpoint lru_find (k : key) (st : list entry) : option entry :=
  match st with
  | [] => None
  | e :: r => if e_key e =? k then Some e else lru_find k r
  end.

(* evictList.Remove + delete(items, key) *)
Definition lru_del (k : key) (st : list entry) : list entry :=
  filter (fun e => negb (e_key e =? k)) st.

(* LRU.Get: MoveToFront when present *)
Definition lru_touch (k : key) (st : list entry) : list entry :=
  match lru_find k st with
  | Some e => e :: lru_del k st
  | None => st
  end.

Fixpoint split_last (st : list entry) : option (list entry * entry) :=
  match st with
  | [] => None
  | e :: r => match split_last r with
              | None => Some ([], e)
              | Some (r', x) => Some (e :: r', x)
              end
  end.

(* LRU.Add: existing key -> MoveToFront + overwrite, no eviction; otherwise PushFront and
   removeOldest when Length() > size.  Returns the evicted element (onEvict argument). *)
Definition lru_put (c : nat) (e : entry) (st : list entry) : list entry * option entry :=
  match lru_find (e_key e) st with
  | Some _ => (e :: lru_del (e_key e) st, None)
  | None =>
      let st' := e :: st in
      if Nat.ltb c (List.length st') then
        match split_last st' with
        | Some (r, x) => (r, Some x)
        | None => (st', None)
        end
      else (st', None)
  end.

(* ---------------------------------------------------------------- configIndex helpers *)

(* sets.InsertOrNew(l.configIndex, cfg, k) *)
Fixpoint idx_insert (d : cfg) (k : key) (ix : index) : index :=
  match ix with
  | [] => [(d, [k])]
  | (d', ks) :: r =>
      if d' =? d then (d', if memN k ks then ks else k :: ks) :: r
      else (d', ks) :: idx_insert d k r
  end.

(* sets.DeleteCleanupLast(l.configIndex, cfg, k) *)
Fixpoint idx_remove (d : cfg) (k : key) (ix : index) : index :=
  match ix with
  | [] => []
  | (d', ks) :: r =>
      if d' =? d then
        match filter (fun x => negb (x =? k)) ks with
        | [] => r
        | ks' => (d', ks') :: r
        end
      else (d', ks) :: idx_remove d k r
  end.

(* delete(l.configIndex, hc) *)
Definition idx_delete (d : cfg) (ix : index) : index :=
  filter (fun p => negb (fst p =? d)) ix.

(* l.configIndex[hc] *)
Definition idx_lookup (d : cfg) (ix : index) : list key :=
  flat_map (fun p => if fst p =? d then snd p else []) ix.

Definition idx_mem (d : cfg) (k : key) (ix : index) : bool := memN k (idx_lookup d ix).

(* updateConfigIndex *)
Definition update_config_index (k : key) (deps : list cfg) (ix : index) : index :=
  fold_left (fun ix d => idx_insert d k ix) deps ix.

(* ---------------------------------------------------------------- lruCache methods *)

Definition with_store (l : lru) (st : list entry) : lru :=
  {| cap := cap l; store := st; tok := tok l; idx := idx l; queue := queue l |}.

Definition ev_list (o : option entry) : list evicted :=
  match o with Some x => [(e_key x, e_deps x)] | None => [] end.

(* Add(k, entry, pushReq, value).  [start = None] stands for pushReq == nil or a zero Start. *)
Definition add (k : key) (deps : list cfg) (start : option stamp) (v : option value) (l : lru) : lru :=
  match start with
  | None => l
  | Some token =>
      if token <? tok l then l                                   (* token < l.token: dropped *)
      else
        let cur := lru_find k (store l) in                        (* cur, f := l.store.Get(k) *)
        let st1 := lru_touch k (store l) in
        if match cur with Some c => token <=? e_tok c | None => false end
        then with_store l st1                                     (* stale or same resource *)
        else
          let '(st2, ev) := lru_put (cap l) {| e_key := k; e_val := v; e_tok := token; e_deps := deps |} st1 in
          {| cap := cap l; store := st2; tok := token;
             idx := update_config_index k deps (idx l);
             queue := queue l ++ ev_list ev ++
                      match cur with Some c => [(k, e_deps c)] | None => [] end |}
  end.

(* get(key, token); Get = get(key, 0) *)
Definition get_tok (k : key) (token : stamp) (l : lru) : option value * lru :=
  match lru_find k (store l) with
  | Some c =>
      (match e_val c with
       | None => None
       | Some v => if token <=? e_tok c then Some v else None
       end, with_store l (c :: lru_del k (store l)))
  | None => (None, l)
  end.
Definition get (k : key) (l : lru) := get_tok k 0 l.

(* l.store.Remove(key) inside Clear; onEvict appends to the queue when the key was present *)
Definition remove_key (acc : list entry * list evicted) (k : key) : list entry * list evicted :=
  (lru_del k (fst acc),
   snd acc ++ match lru_find k (fst acc) with Some e => [(k, e_deps e)] | None => [] end).

(* multiset equality of eviction records (the order in which Clear ranges over Go maps is
   not determined by the program) *)
Definition evicted_eqb (a b : evicted) : bool :=
  (fst a =? fst b) && list_eqb N.eqb (snd a) (snd b).
Fixpoint remove1 (a : evicted) (l : list evicted) : option (list evicted) :=
  match l with
  | [] => None
  | b :: r => if evicted_eqb a b then Some r
              else match remove1 a r with Some r' => Some (b :: r') | None => None end
  end.
Fixpoint perm_eqb (l1 l2 : list evicted) : bool :=
  match l1 with
  | [] => match l2 with [] => true | _ => false end
  | a :: r => match remove1 a l2 with Some l2' => perm_eqb r l2' | None => false end
  end.

(* Clear(configs) at wall-clock time [now].  The two nested `range` loops (over the config set
   and over configIndex[hc]) are a single left fold over the concatenation of the looked-up key
   sets: deleting configIndex[hc] does not change the lookup of any other hc, and a repeated
   hash finds keys that are already gone.  [ord] is the order in which this execution appended
   the eviction records (Go map iteration order); it is used when it is a permutation of the
   records the loops produce, so every iteration order is a behaviour of the model. *)
Definition clear (cfgs : list cfg) (now : stamp) (ord : list evicted) (l : lru) : lru :=
  let r := fold_left remove_key (flat_map (fun hc => idx_lookup hc (idx l)) cfgs) (store l, []) in
  {| cap := cap l; store := fst r; tok := now;
     idx := fold_left (fun ix hc => idx_delete hc ix) cfgs (idx l);
     queue := queue l ++ (if perm_eqb ord (snd r) then ord else snd r) |}.

(* ClearAll() at wall-clock time [now] *)
Definition clear_all (now : stamp) (l : lru) : lru :=
  {| cap := cap l; store := []; tok := now; idx := []; queue := [] |}.

(* clearConfigIndex(k, dependentConfigs): note l.store.Get(k) refreshes k's recency *)
Definition clear_config_index (l : lru) (kc : evicted) : lru :=
  let k := fst kc in
  match lru_find k (store l) with
  | Some c =>
      let ds := filter (fun d => negb (memN d (e_deps c))) (snd kc) in   (* old \ new *)
      {| cap := cap l; store := c :: lru_del k (store l); tok := tok l;
         idx := fold_left (fun ix d => idx_remove d k ix) ds (idx l); queue := queue l |}
  | None =>
      {| cap := cap l; store := store l; tok := tok l;
         idx := fold_left (fun ix d => idx_remove d k ix) (snd kc) (idx l); queue := queue l |}
  end.

(* Flush() *)
Definition flush (l : lru) : lru :=
  let l' := fold_left clear_config_index (queue l) l in
  {| cap := cap l'; store := store l'; tok := tok l'; idx := idx l'; queue := [] |}.

(* ---------------------------------------------------------------- operations and runs *)

Inductive op :=
| OAdd (k : key) (deps : list cfg) (start : option stamp) (v : option value)
| OGet (k : key)
| OClear (cfgs : list cfg) (now : stamp) (ord : list evicted)
| OClearAll (now : stamp)
| OFlush.

(* Every method takes l.mu for its whole body, so a concurrent execution is a sequence of ops. *)
Definition step (o : op) (l : lru) : lru * option value :=
  match o with
  | OAdd k deps start v => (add k deps start v l, None)
  | OGet k => let r := get k l in (snd r, fst r)
  | OClear cfgs now ord => (clear cfgs now ord l, None)
  | OClearAll now => (clear_all now l, None)
  | OFlush => (flush l, None)
  end.

Definition run (ops : list op) (l : lru) : lru := fold_left (fun l o => fst (step o l)) ops l.

(* ---------------------------------------------------------------- invariants (spec level) *)

(* every stored (k, deps) is reachable from the reverse index of each of its deps *)
Definition index_complete (l : lru) : Prop :=
  forall e, In e (store l) -> forall d, In d (e_deps e) -> idx_mem d (e_key e) (idx l) = true.

Definition index_complete_b (st : list entry) (ix : index) : bool :=
  forallb (fun e => forallb (fun d => idx_mem d (e_key e) ix) (e_deps e)) st.

Definition bounded (l : lru) : Prop :=
  (List.length (store l) <= cap l)%nat /\ NoDup (map e_key (store l)).

Fixpoint nodupb (l : list N) : bool :=
  match l with [] => true | x :: r => negb (memN x r) && nodupb r end.

Definition no_dependents_b (cfgs : list cfg) (st : list entry) : bool :=
  forallb (fun e => forallb (fun d => negb (memN d cfgs)) (e_deps e)) st.

(* ---------------------------------------------------------------- ghost world and discipline *)

(* The world is versioned by accepted changes: Clear/ClearAll is the point at which a change is
   accepted (dropCacheForRequest after InitContext; clearCacheForService after the shard
   update).  [lastchg d] = version of the last accepted change of config d; [clears] = the
   (wall-clock stamp, version) of every invalidation so far. *)
Record ghost := { wv : N; lastchg : cfg -> N; clears : list (stamp * N) }.

Definition ghost0 : ghost := {| wv := 0; lastchg := fun _ => 0; clears := [] |}.

Definition gstep (o : op) (g : ghost) : ghost :=
  match o with
  | OClear cfgs now _ =>
      {| wv := wv g + 1;
         lastchg := fun d => if memN d cfgs then wv g + 1 else lastchg g d;
         clears := (now, wv g + 1) :: clears g |}
  | OClearAll now =>
      {| wv := wv g + 1; lastchg := fun _ => wv g + 1; clears := (now, wv g + 1) :: clears g |}
  | _ => g
  end.

(* Discipline of the callers (ads.go / discovery.go):
   - clock: invalidation stamps never decrease (time.Now() of successive Clear calls);
   - writer: a writer whose data predates an accepted change (gver < version of that clear)
     carries a push start time before that clear's stamp — strictly ([strict = true]) or only
     weakly ([strict = false], i.e. a merely non-decreasing clock with ties). *)
Definition wf_op (strict : bool) (g : ghost) (o : op) : bool :=
  match o with
  | OAdd _ _ (Some s) (Some v) =>
      forallb (fun c => (snd c <=? gver v) || (if strict then s <? fst c else s <=? fst c)) (clears g)
  | OClear _ now _ | OClearAll now => forallb (fun c => fst c <=? now) (clears g)
  | _ => true
  end.

Fixpoint wf_trace (strict : bool) (g : ghost) (ops : list op) : bool :=
  match ops with
  | [] => true
  | o :: r => wf_op strict g o && wf_trace strict (gstep o g) r
  end.

(* a stored / returned entry is fresh when no dependency changed after the version it was
   generated from *)
Definition fresh_b (g : ghost) (deps : list cfg) (v : option value) : bool :=
  match v with
  | None => true
  | Some v => forallb (fun d => lastchg g d <=? gver v) deps
  end.

Definition store_fresh (g : ghost) (l : lru) : Prop :=
  forall e, In e (store l) -> fresh_b g (e_deps e) (e_val e) = true.

(* all Gets of a run return fresh values (the entry hit is the one stored under the key) *)
Fixpoint gets_fresh (g : ghost) (l : lru) (ops : list op) : Prop :=
  match ops with
  | [] => True
  | o :: r =>
      match o with
      | OGet k =>
          match lru_find k (store l) with
          | Some c => fst (get k l) = e_val c /\ fresh_b g (e_deps c) (fst (get k l)) = true
          | None => fst (get k l) = None
          end
      | _ => True
      end /\ gets_fresh (gstep o g) (fst (step o l)) r
  end.

(* provenance: what a Get returns for key k was Added under key k earlier in the run *)
Fixpoint added_before (k : key) (v : value) (ops : list op) : bool :=
  match ops with
  | [] => false
  | OAdd k' _ _ (Some v') :: r =>
      ((k' =? k) && (vid v' =? vid v) && (gver v' =? gver v)) || added_before k v r
  | _ :: r => added_before k v r
  end.

(* ---------------------------------------------------------------- XdsCacheImpl (xds_cache.go) *)

Inductive xtype := CDS | EDS | RDS | SDS.

Record xcache := { x_cds : lru; x_eds : lru; x_rds : lru; x_sds : lru }.

Definition x_sel (t : xtype) (x : xcache) : lru :=
  match t with CDS => x_cds x | EDS => x_eds x | RDS => x_rds x | SDS => x_sds x end.

Definition x_upd (t : xtype) (f : lru -> lru) (x : xcache) : xcache :=
  match t with
  | CDS => {| x_cds := f (x_cds x); x_eds := x_eds x; x_rds := x_rds x; x_sds := x_sds x |}
  | EDS => {| x_cds := x_cds x; x_eds := f (x_eds x); x_rds := x_rds x; x_sds := x_sds x |}
  | RDS => {| x_cds := x_cds x; x_eds := x_eds x; x_rds := f (x_rds x); x_sds := x_sds x |}
  | SDS => {| x_cds := x_cds x; x_eds := x_eds x; x_rds := x_rds x; x_sds := f (x_sds x) |}
  end.

(* XdsCacheImpl.Add: gated by entry.Cacheable(), dispatched on entry.Type() *)
Definition x_add (t : xtype) (cacheable : bool) k deps start v (x : xcache) : xcache :=
  if cacheable then x_upd t (add k deps start v) x else x.

Definition x_get (t : xtype) (cacheable : bool) k (x : xcache) : option value * xcache :=
  if cacheable then (fst (get k (x_sel t x)), x_upd t (fun l => snd (get k l)) x) else (None, x).

(* XdsCacheImpl.Clear: a PeerAuthentication among the configs clears ALL of EDS.  The four
   typed caches read time.Now() separately: one stamp each. *)
Definition x_clear (cfgs : list cfg) (has_pa : bool) (n_cds n_eds n_rds n_sds : stamp)
           (o_cds o_eds o_rds o_sds : list evicted) (x : xcache) : xcache :=
  {| x_cds := clear cfgs n_cds o_cds (x_cds x);
     x_eds := if has_pa then clear_all n_eds (x_eds x) else clear cfgs n_eds o_eds (x_eds x);
     x_rds := clear cfgs n_rds o_rds (x_rds x);
     x_sds := clear cfgs n_sds o_sds (x_sds x) |}.

Definition x_clear_all (n_cds n_eds n_rds n_sds : stamp) (x : xcache) : xcache :=
  {| x_cds := clear_all n_cds (x_cds x); x_eds := clear_all n_eds (x_eds x);
     x_rds := clear_all n_rds (x_rds x); x_sds := clear_all n_sds (x_sds x) |}.
