(* C06 proofs: invariants of the lruCache model over all op sequences. *)
From Coq Require Import Lia ZifyBool ZifyNat ZifyN.
From V Require Import lib.Verdict C06.Model.
Open Scope N_scope.

(* ------------------------------------------------------------------ booleans *)

Lemma memN_In x l : memN x l = true <-> In x l.
Proof.
  unfold memN. rewrite existsb_exists. split.
  - intros [y [Hy He]]. apply N.eqb_eq in He. subst. exact Hy.
  - intros H. exists x. split; [exact H|apply N.eqb_refl].
Qed.

Lemma memN_false x l : memN x l = false <-> ~ In x l.
Proof.
  rewrite <- memN_In. destruct (memN x l); split; intros; try discriminate; auto.
  exfalso; auto.
Qed.

(* ------------------------------------------------------------------ simplelru *)

Lemma lru_find_In k st e : lru_find k st = Some e -> In e st /\ e_key e = k.
Proof.
  induction st as [|a r IH]; cbn [lru_find]; [discriminate|].
  destruct (e_key a =? k) eqn:E.
  - intros H. inversion H; subst. apply N.eqb_eq in E. split; [left; reflexivity|exact E].
  - intros H. destruct (IH H). split; [right; assumption|assumption].
Qed.

Lemma lru_find_None k st : lru_find k st = None -> ~ In k (map e_key st).
Proof.
  induction st as [|a r IH]; cbn [lru_find map]; [intros _ []|].
  destruct (e_key a =? k) eqn:E; [discriminate|].
  intros H [Ha|Hr]; [apply N.eqb_neq in E; auto|exact (IH H Hr)].
Qed.

Lemma lru_del_In k st e : In e (lru_del k st) <-> In e st /\ e_key e <> k.
Proof.
  unfold lru_del. rewrite filter_In. split; intros [H1 H2]; split; auto.
  - apply negb_true_iff in H2. apply N.eqb_neq in H2. exact H2.
  - apply negb_true_iff. apply N.eqb_neq. exact H2.
Qed.

Lemma lru_del_keys k st : ~ In k (map e_key (lru_del k st)).
Proof.
  intros H. apply in_map_iff in H. destruct H as [e [He Hin]].
  apply lru_del_In in Hin. destruct Hin. auto.
Qed.

Lemma NoDup_map_filter {A B} (f : A -> B) (p : A -> bool) l :
  NoDup (map f l) -> NoDup (map f (filter p l)).
Proof.
  induction l as [|a r IH]; cbn [map filter]; [auto|].
  intros H. inversion H; subst. destruct (p a); cbn [map]; [|auto].
  constructor; [|auto]. intros Hin. apply H2.
  apply in_map_iff in Hin. destruct Hin as [x [Hx Hin]]. apply filter_In in Hin.
  apply in_map_iff. exists x. tauto.
Qed.

Lemma lru_del_NoDup k st : NoDup (map e_key st) -> NoDup (map e_key (lru_del k st)).
Proof. apply NoDup_map_filter. Qed.

Lemma lru_del_length k st : (List.length (lru_del k st) <= List.length st)%nat.
Proof. unfold lru_del. induction st as [|a r IH]; cbn [filter List.length]; [lia|]. destruct (negb _); cbn [List.length]; lia. Qed.

Lemma lru_del_length_found k st e :
  In e st -> e_key e = k -> (S (List.length (lru_del k st)) <= List.length st)%nat.
Proof.
  unfold lru_del. induction st as [|a r IH]; cbn [filter List.length In]; [intros []|].
  intros [Ha|Hr] Hk.
  - subst a. rewrite Hk, N.eqb_refl. cbn [negb]. pose proof (lru_del_length k r). unfold lru_del in H. lia.
  - specialize (IH Hr Hk). destruct (negb _); cbn [List.length]; lia.
Qed.

Lemma lru_find_unique st e :
  NoDup (map e_key st) -> In e st -> lru_find (e_key e) st = Some e.
Proof.
  induction st as [|a r IH]; cbn [map lru_find In]; [intros _ []|].
  intros H Hin. inversion H; subst. destruct Hin as [->|Hr].
  - rewrite N.eqb_refl. reflexivity.
  - destruct (e_key a =? e_key e) eqn:E.
    + apply N.eqb_eq in E. exfalso. apply H2. rewrite E. apply in_map. exact Hr.
    + apply IH; assumption.
Qed.

Lemma split_last_app st r x : split_last st = Some (r, x) -> st = r ++ [x].
Proof.
  revert r x. induction st as [|a t IH]; cbn [split_last]; [discriminate|].
  intros r x. destruct (split_last t) as [[r' y]|] eqn:E.
  - intros H. inversion H; subst. rewrite (IH r' x eq_refl). reflexivity.
  - intros H. inversion H; subst. destruct t; [reflexivity|].
    cbn [split_last] in E. destruct (split_last t) as [[? ?]|]; discriminate.
Qed.

Lemma split_last_some a t : exists r x, split_last (a :: t) = Some (r, x).
Proof.
  revert a. induction t as [|b t IH]; intros a; cbn [split_last].
  - eauto.
  - destruct (IH b) as [r [x E]]. cbn [split_last] in E. rewrite E. eauto.
Qed.

(* store' of the three simplelru mutators is made of old elements (plus the added one) *)
Lemma lru_touch_In k st e : In e (lru_touch k st) -> In e st.
Proof.
  unfold lru_touch. destruct (lru_find k st) as [c|] eqn:E; [|auto].
  intros [<-|H]; [apply (lru_find_In _ _ _ E)|apply lru_del_In in H; tauto].
Qed.

Lemma lru_put_In c e st x : In x (fst (lru_put c e st)) -> x = e \/ In x st.
Proof.
  unfold lru_put. destruct (lru_find (e_key e) st) as [o|] eqn:E; cbn [fst].
  - intros [<-|H]; [auto|apply lru_del_In in H; tauto].
  - destruct (Nat.ltb c (List.length (e :: st))).
    + destruct (split_last_some e st) as [r [y Hs]]. rewrite Hs. cbn [fst].
      intros H. apply split_last_app in Hs.
      assert (In x (e :: st)) as [<-|Hx] by (rewrite Hs; apply in_or_app; auto); auto.
    + cbn [fst]. intros [<-|H]; auto.
Qed.

(* ------------------------------------------------------------------ bounded *)

Lemma NoDup_app_l {A} (l l' : list A) : NoDup (l ++ l') -> NoDup l.
Proof.
  induction l as [|a r IH]; cbn [app]; [constructor|].
  intros H. inversion H; subst. constructor; [|auto].
  intros Hin. apply H2. apply in_or_app. left. exact Hin.
Qed.

Definition binv (c : nat) (st : list entry) : Prop :=
  (List.length st <= c)%nat /\ NoDup (map e_key st).

Lemma binv_del c k st : binv c st -> binv c (lru_del k st).
Proof. intros [H1 H2]. split; [pose proof (lru_del_length k st); lia|apply lru_del_NoDup; exact H2]. Qed.

Lemma binv_touch c k st : binv c st -> binv c (lru_touch k st).
Proof.
  intros [H1 H2]. unfold lru_touch. destruct (lru_find k st) as [e|] eqn:E; [|split; auto].
  destruct (lru_find_In _ _ _ E) as [Hin Hk]. split.
  - cbn [List.length]. pose proof (lru_del_length_found k st e Hin Hk). lia.
  - cbn [map]. constructor; [rewrite Hk; apply lru_del_keys|apply lru_del_NoDup; exact H2].
Qed.

Lemma binv_put c e st : binv c st -> binv c (fst (lru_put c e st)).
Proof.
  intros [H1 H2]. unfold lru_put. destruct (lru_find (e_key e) st) as [o|] eqn:E; cbn [fst].
  - destruct (lru_find_In _ _ _ E) as [Hin Hk]. split.
    + cbn [List.length]. pose proof (lru_del_length_found _ st o Hin Hk). lia.
    + cbn [map]. constructor; [apply lru_del_keys|apply lru_del_NoDup; exact H2].
  - assert (Hnd : NoDup (map e_key (e :: st))).
    { cbn [map]. constructor; [apply lru_find_None; exact E|exact H2]. }
    destruct (Nat.ltb c (List.length (e :: st))) eqn:L.
    + destruct (split_last_some e st) as [r [y Hs]]. rewrite Hs. cbn [fst].
      apply split_last_app in Hs. split.
      * assert (List.length (e :: st) = List.length (r ++ [y])) by (rewrite Hs; reflexivity).
        rewrite app_length in H. cbn [List.length] in H. lia.
      * rewrite Hs, map_app in Hnd. apply NoDup_app_l in Hnd. exact Hnd.
    + cbn [fst]. apply Nat.ltb_ge in L. split; [exact L|exact Hnd].
Qed.

Lemma remove_key_fold_binv c ks acc :
  binv c (fst acc) -> binv c (fst (fold_left remove_key ks acc)).
Proof.
  revert acc. induction ks as [|k r IH]; intros acc H; cbn [fold_left]; [exact H|].
  apply IH. unfold remove_key. cbn [fst]. apply binv_del. exact H.
Qed.

Lemma cci_fold_store_binv c q l :
  binv c (store l) -> binv c (store (fold_left clear_config_index q l)).
Proof.
  revert l. induction q as [|kc r IH]; intros l H; cbn [fold_left]; [exact H|].
  apply IH. unfold clear_config_index.
  destruct (lru_find (fst kc) (store l)) as [e|] eqn:E; cbn [store]; [|exact H].
  pose proof (binv_touch c (fst kc) (store l) H) as B. unfold lru_touch in B. rewrite E in B. exact B.
Qed.

Lemma cci_fold_cap q l : cap (fold_left clear_config_index q l) = cap l.
Proof.
  revert l. induction q as [|kc r IH]; intros l; cbn [fold_left]; [reflexivity|].
  rewrite IH. unfold clear_config_index. destruct (lru_find _ _); reflexivity.
Qed.

Lemma step_cap o l : cap (fst (step o l)) = cap l.
Proof.
  destruct o; cbn [step fst snd]; try reflexivity.
  - unfold add. destruct start as [t|]; [|reflexivity].
    destruct (t <? tok l); [reflexivity|].
    destruct (match lru_find k (store l) with Some c => t <=? e_tok c | None => false end); [reflexivity|].
    destruct (lru_put _ _ _). reflexivity.
  - unfold get, get_tok. destruct (lru_find k (store l)); reflexivity.
  - unfold flush. cbn [cap]. apply cci_fold_cap.
Qed.

Lemma step_binv o l : binv (cap l) (store l) -> binv (cap l) (store (fst (step o l))).
Proof.
  intros H. destruct o; cbn [step fst snd].
  - unfold add. destruct start as [t|]; [|exact H].
    destruct (t <? tok l); [exact H|].
    destruct (match lru_find k (store l) with Some c => t <=? e_tok c | None => false end).
    + cbn [with_store store]. apply binv_touch. exact H.
    + pose proof (binv_put (cap l) {| e_key := k; e_val := v; e_tok := t; e_deps := deps |}
                          (lru_touch k (store l)) (binv_touch _ k _ H)) as B.
      destruct (lru_put _ _ _) as [st2 ev]. cbn [store]. exact B.
  - unfold get, get_tok. destruct (lru_find k (store l)) as [c|] eqn:E; cbn [snd with_store store]; [|exact H].
    pose proof (binv_touch _ k _ H) as B. unfold lru_touch in B. rewrite E in B. exact B.
  - unfold clear. cbn [store]. apply remove_key_fold_binv. exact H.
  - cbn [clear_all store]. split; [cbn; lia|constructor].
  - unfold flush. cbn [store]. apply cci_fold_store_binv. exact H.
Qed.

Lemma run_cap ops l : cap (run ops l) = cap l.
Proof.
  revert l. induction ops as [|o r IH]; intros l; cbn [run fold_left]; [reflexivity|].
  change (cap (run r (fst (step o l))) = cap l). rewrite IH. apply step_cap.
Qed.

Lemma run_binv ops l : binv (cap l) (store l) -> binv (cap l) (store (run ops l)).
Proof.
  revert l. induction ops as [|o r IH]; intros l H; cbn [run fold_left]; [exact H|].
  change (binv (cap l) (store (run r (fst (step o l))))).
  rewrite <- (step_cap o l). apply IH. rewrite step_cap. apply step_binv. exact H.
Qed.

Lemma bounded_all cp ops : bounded (run ops (init cp)).
Proof.
  unfold bounded. rewrite run_cap. cbn [init cap].
  apply (run_binv ops (init cp)). split; [cbn; lia|constructor].
Qed.

(* ------------------------------------------------------------------ config index *)

Definition ixin (d : cfg) (k : key) (ix : index) : Prop := In k (idx_lookup d ix).

Lemma idx_mem_ixin d k ix : idx_mem d k ix = true <-> ixin d k ix.
Proof. apply memN_In. Qed.

Lemma ixin_cons d k p r :
  ixin d k (p :: r) <-> (fst p = d /\ In k (snd p)) \/ ixin d k r.
Proof.
  unfold ixin, idx_lookup. cbn [flat_map]. rewrite in_app_iff. unfold cfg, key in *.
  destruct (fst p =? d) eqn:E.
  - apply N.eqb_eq in E. tauto.
  - apply N.eqb_neq in E. cbn [In]. tauto.
Qed.

Lemma ixin_insert_same d k ix : ixin d k (idx_insert d k ix).
Proof.
  induction ix as [|[d' ks] r IH]; cbn [idx_insert].
  - apply ixin_cons. left. cbn. auto.
  - destruct (d' =? d) eqn:E.
    + apply N.eqb_eq in E. apply ixin_cons. left. cbn [fst snd]. split; [exact E|].
      destruct (memN k ks) eqn:M; [apply memN_In; exact M|left; reflexivity].
    + apply ixin_cons. right. exact IH.
Qed.

Lemma ixin_insert_mono d k d' k' ix : ixin d' k' ix -> ixin d' k' (idx_insert d k ix).
Proof.
  induction ix as [|[d0 ks] r IH]; cbn [idx_insert]; intros H.
  - destruct H.
  - apply ixin_cons in H. cbn [fst snd] in H. destruct (d0 =? d) eqn:E.
    + apply ixin_cons. cbn [fst snd]. destruct H as [[H1 H2]|H]; [left|right; exact H].
      split; [exact H1|]. destruct (memN k ks); [exact H2|right; exact H2].
    + apply ixin_cons. cbn [fst snd]. destruct H as [H|H]; [left; exact H|right; apply IH; exact H].
Qed.

Lemma ixin_remove_other d k d' k' ix :
  ixin d' k' ix -> (d' <> d \/ k' <> k) -> ixin d' k' (idx_remove d k ix).
Proof.
  intros H Hne. induction ix as [|[d0 ks] r IH]; cbn [idx_remove]; [destruct H|].
  apply ixin_cons in H. cbn [fst snd] in H. destruct (d0 =? d) eqn:E.
  - apply N.eqb_eq in E. subst d0.
    destruct H as [[H1 H2]|H].
    + (* the pair lives in this bucket: so d' = d and hence k' <> k *)
      subst d'. assert (Hk : k' <> k) by (destruct Hne; [congruence|assumption]).
      assert (Hf : In k' (filter (fun x => negb (x =? k)) ks)).
      { apply filter_In. split; [exact H2|]. apply negb_true_iff. apply N.eqb_neq. exact Hk. }
      destruct (filter (fun x => negb (x =? k)) ks) as [|a t] eqn:F; [destruct Hf|].
      apply ixin_cons. left. cbn [fst snd]. split; [reflexivity|exact Hf].
    + destruct (filter (fun x => negb (x =? k)) ks); [exact H|apply ixin_cons; right; exact H].
  - apply ixin_cons. cbn [fst snd]. destruct H as [H|H]; [left; exact H|right; apply IH; exact H].
Qed.

Lemma ixin_delete_other d d' k' ix : ixin d' k' ix -> d' <> d -> ixin d' k' (idx_delete d ix).
Proof.
  intros H Hne. induction ix as [|[d0 ks] r IH]; cbn [idx_delete filter]; [destruct H|].
  apply ixin_cons in H. cbn [fst snd] in H. cbn [fst]. destruct (d0 =? d) eqn:E; cbn [negb].
  - apply N.eqb_eq in E. subst d0. destruct H as [[H1 _]|H]; [congruence|apply IH; exact H].
  - apply ixin_cons. cbn [fst snd]. destruct H as [H|H]; [left; exact H|right; apply IH; exact H].
Qed.

Lemma uci_mono k deps d' k' ix : ixin d' k' ix -> ixin d' k' (update_config_index k deps ix).
Proof.
  unfold update_config_index. revert ix. induction deps as [|d r IH]; intros ix H; cbn [fold_left]; [exact H|].
  apply IH. apply ixin_insert_mono. exact H.
Qed.

Lemma uci_has k deps d ix : In d deps -> ixin d k (update_config_index k deps ix).
Proof.
  unfold update_config_index. revert ix. induction deps as [|d0 r IH]; intros ix H; cbn [fold_left]; [destruct H|].
  destruct H as [->|H]; [|apply IH; exact H].
  apply (uci_mono k r d k). apply ixin_insert_same.
Qed.

Lemma delete_fold_other cfgs d' k' ix :
  ixin d' k' ix -> ~ In d' cfgs -> ixin d' k' (fold_left (fun ix hc => idx_delete hc ix) cfgs ix).
Proof.
  revert ix. induction cfgs as [|c r IH]; intros ix H Hn; cbn [fold_left]; [exact H|].
  apply IH; [apply ixin_delete_other; [exact H|intros ->; apply Hn; left; reflexivity]|].
  intros Hr. apply Hn. right. exact Hr.
Qed.

Lemma remove_fold_keep ds k d' k' ix :
  ixin d' k' ix -> (k' <> k \/ ~ In d' ds) ->
  ixin d' k' (fold_left (fun ix d => idx_remove d k ix) ds ix).
Proof.
  revert ix. induction ds as [|d r IH]; intros ix H Hn; cbn [fold_left]; [exact H|].
  apply IH.
  - apply ixin_remove_other; [exact H|]. destruct Hn as [Hn|Hn]; [right; exact Hn|].
    left. intros ->. apply Hn. left. reflexivity.
  - destruct Hn as [Hn|Hn]; [left; exact Hn|right]. intros Hr. apply Hn. right. exact Hr.
Qed.

(* ------------------------------------------------------------------ Clear: what survives *)

Lemma remove_key_fold_In ks acc e :
  In e (fst (fold_left remove_key ks acc)) <-> In e (fst acc) /\ ~ In (e_key e) ks.
Proof.
  revert acc. induction ks as [|k r IH]; intros acc; cbn [fold_left].
  - cbn [In]. tauto.
  - rewrite IH. unfold remove_key at 1. cbn [fst]. rewrite lru_del_In. cbn [In]. split.
    + intros [[H1 H2] H3]. split; [exact H1|]. intros [Hk|Hr]; [apply H2; symmetry; exact Hk|exact (H3 Hr)].
    + intros [H1 H2]. split; [split; [exact H1|]|]; intros Hx; apply H2; [left; symmetry; exact Hx|right; exact Hx].
Qed.

Lemma clear_store_In cfgs now ord l e :
  In e (store (clear cfgs now ord l)) <->
  In e (store l) /\ forall hc, In hc cfgs -> ~ ixin hc (e_key e) (idx l).
Proof.
  unfold clear. cbn [store]. rewrite remove_key_fold_In. cbn [fst].
  split; intros [H1 H2]; (split; [exact H1|]).
  - intros hc Hc Hin. apply H2. apply in_flat_map. exists hc. split; [exact Hc|exact Hin].
  - intros Hin. apply in_flat_map in Hin. destruct Hin as [hc [Hc Hin]]. exact (H2 hc Hc Hin).
Qed.

(* ------------------------------------------------------------------ index completeness *)

Definition icomp (l : lru) : Prop :=
  forall e, In e (store l) -> forall d, In d (e_deps e) -> ixin d (e_key e) (idx l).

Lemma icomp_index_complete l : icomp l <-> index_complete l.
Proof.
  unfold icomp, index_complete. split; intros H e He d Hd; [apply idx_mem_ixin|apply idx_mem_ixin]; auto.
Qed.

Lemma clear_removes l cfgs now ord e d :
  icomp l -> In e (store (clear cfgs now ord l)) -> In d cfgs -> ~ In d (e_deps e).
Proof.
  intros Hc He Hd Hdep. apply clear_store_In in He. destruct He as [He Hn].
  exact (Hn d Hd (Hc e He d Hdep)).
Qed.

Lemma icomp_add k deps start v l : binv (cap l) (store l) -> icomp l -> icomp (add k deps start v l).
Proof.
  intros HB H. unfold add. destruct start as [t|]; [|exact H].
  destruct (t <? tok l); [exact H|].
  destruct (match lru_find k (store l) with Some c => t <=? e_tok c | None => false end).
  - intros e He d Hd. cbn [with_store store idx] in *. apply lru_touch_In in He. exact (H e He d Hd).
  - pose proof (lru_put_In (cap l) {| e_key := k; e_val := v; e_tok := t; e_deps := deps |} (lru_touch k (store l))) as P.
    destruct (lru_put _ _ _) as [st2 ev]. cbn [fst] in P.
    intros e He d Hd. cbn [store idx] in *. destruct (P e He) as [->|Ho].
    + cbn [e_key e_deps] in *. apply uci_has. exact Hd.
    + apply uci_mono. apply lru_touch_In in Ho. exact (H e Ho d Hd).
Qed.

Lemma icomp_clear cfgs now ord l : icomp l -> icomp (clear cfgs now ord l).
Proof.
  intros H e He d Hd.
  assert (Hn : ~ In d cfgs) by (intros Hc; exact (clear_removes l cfgs now ord e d H He Hc Hd)).
  apply clear_store_In in He. destruct He as [He _].
  unfold clear. cbn [idx]. apply delete_fold_other; [exact (H e He d Hd)|exact Hn].
Qed.

Lemma icomp_cci l kc : NoDup (map e_key (store l)) -> icomp l -> icomp (clear_config_index l kc).
Proof.
  intros ND H. unfold clear_config_index.
  destruct (lru_find (fst kc) (store l)) as [c|] eqn:E; intros e He d Hd; cbn [store idx] in *.
  - destruct (lru_find_In _ _ _ E) as [Hc Hk].
    assert (Hin : In e (store l)) by (destruct He as [<-|He]; [exact Hc|apply lru_del_In in He; tauto]).
    apply remove_fold_keep; [exact (H e Hin d Hd)|].
    destruct (N.eq_dec (e_key e) (fst kc)) as [Heq|Hne]; [right|left; exact Hne].
    (* same key: by uniqueness e is the entry found, and only old\new is removed *)
    assert (e = c).
    { pose proof (lru_find_unique (store l) e ND Hin) as U. rewrite Heq, E in U. inversion U. reflexivity. }
    subst e. intros Hf. apply filter_In in Hf. destruct Hf as [_ Hf].
    apply negb_true_iff in Hf. apply memN_false in Hf. exact (Hf Hd).
  - apply remove_fold_keep; [exact (H e He d Hd)|left].
    intros Heq. apply (lru_find_None _ _ E). rewrite <- Heq. apply in_map. exact He.
Qed.

Lemma icomp_cci_fold q l :
  binv (cap l) (store l) -> icomp l ->
  icomp (fold_left clear_config_index q l) /\ binv (cap l) (store (fold_left clear_config_index q l)).
Proof.
  revert l. induction q as [|kc r IH]; intros l HB H; cbn [fold_left]; [split; assumption|].
  assert (HB' : binv (cap l) (store (clear_config_index l kc))).
  { pose proof (cci_fold_store_binv (cap l) [kc] l HB) as B. exact B. }
  assert (Hcap : cap (clear_config_index l kc) = cap l) by (apply (cci_fold_cap [kc] l)).
  destruct (IH (clear_config_index l kc)) as [I1 I2].
  - rewrite Hcap. exact HB'.
  - apply icomp_cci; [exact (proj2 HB)|exact H].
  - rewrite Hcap in I2. split; assumption.
Qed.

Lemma icomp_step o l : binv (cap l) (store l) -> icomp l -> icomp (fst (step o l)).
Proof.
  intros HB H. destruct o; cbn [step fst snd].
  - apply icomp_add; assumption.
  - unfold get, get_tok. destruct (lru_find k (store l)) as [c|] eqn:E; cbn [snd]; [|exact H].
    intros e He d Hd. cbn [with_store store idx] in *.
    assert (In e (store l)).
    { destruct He as [<-|He]; [apply (lru_find_In _ _ _ E)|apply lru_del_In in He; tauto]. }
    exact (H e H0 d Hd).
  - apply icomp_clear. exact H.
  - intros e He. destruct He.
  - destruct (icomp_cci_fold (queue l) l HB H) as [I _].
    intros e He d Hd. unfold flush in *. cbn [store idx] in *. exact (I e He d Hd).
Qed.

(* the joint invariant over runs *)
Definition inv (l : lru) : Prop := binv (cap l) (store l) /\ icomp l.

Lemma inv_init cp : inv (init cp).
Proof. split; [split; [cbn; lia|constructor]|intros e []]. Qed.

Lemma inv_step o l : inv l -> inv (fst (step o l)).
Proof.
  intros [HB HI]. split; [rewrite step_cap; apply step_binv; exact HB|apply icomp_step; assumption].
Qed.

Lemma inv_run ops l : inv l -> inv (run ops l).
Proof.
  revert l. induction ops as [|o r IH]; intros l H; cbn [run fold_left]; [exact H|].
  change (inv (run r (fst (step o l)))). apply IH. apply inv_step. exact H.
Qed.

Lemma index_complete_all cp ops : index_complete (run ops (init cp)).
Proof. apply icomp_index_complete. apply (inv_run ops (init cp)). apply inv_init. Qed.

Lemma clear_removes_all cp ops cfgs now ord e d :
  In e (store (clear cfgs now ord (run ops (init cp)))) -> In d cfgs -> ~ In d (e_deps e).
Proof. apply clear_removes. apply (inv_run ops (init cp)). apply inv_init. Qed.

Lemma clear_all_empties now l : store (clear_all now l) = [].
Proof. reflexivity. Qed.
