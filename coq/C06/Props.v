(* C06 property theorems only.  Model: coq/C06/Model.v (lruCache of typed_xds_cache.go on
   simplelru, XdsCacheImpl.Clear of xds_cache.go).  All statements quantify over every
   capacity and every sequence of Add/Get/Clear/ClearAll/Flush — since each method holds l.mu
   for its whole body, that is every interleaving of concurrent callers, including capacity
   evictions (inside Add) and every Go map iteration order of Clear (the [ord] argument). *)
From V Require Import lib.Verdict C06.Model C06.Proofs C06.Stale.
Open Scope N_scope.

(* Every stored entry is reachable through the reverse index of each of its dependent configs
   (across eviction, re-add with other dependents, and the deferred Flush). *)
Theorem C06_index_complete : forall cp ops, index_complete (run ops (init cp)).
Proof. exact index_complete_all. Qed.
Print Assumptions C06_index_complete.

(* After Clear(cfgs) no stored entry depends on any of cfgs, in any reachable state. *)
Theorem C06_clear_removes_dependents : forall cp ops cfgs now ord e d,
  In e (store (clear cfgs now ord (run ops (init cp)))) -> In d cfgs -> ~ In d (e_deps e).
Proof. exact clear_removes_all. Qed.
Print Assumptions C06_clear_removes_dependents.

Theorem C06_clear_all_empties : forall now l, store (clear_all now l) = [].
Proof. exact clear_all_empties. Qed.
Print Assumptions C06_clear_all_empties.

(* XdsCacheImpl.Clear: whatever the four typed caches went through, afterwards none of them
   holds an entry depending on the cleared configs (EDS is emptied on a PeerAuthentication). *)
Theorem C06_xds_clear_covers_all_types :
  forall cp oc oe orr os cfgs has_pa n1 n2 n3 n4 o1 o2 o3 o4 t e d,
  let x := {| x_cds := run oc (init cp); x_eds := run oe (init cp);
              x_rds := run orr (init cp); x_sds := run os (init cp) |} in
  In e (store (x_sel t (x_clear cfgs has_pa n1 n2 n3 n4 o1 o2 o3 o4 x))) ->
  In d cfgs -> ~ In d (e_deps e).
Proof. exact x_clear_removes. Qed.
Print Assumptions C06_xds_clear_covers_all_types.

(* |store| <= capacity and one value per key. *)
Theorem C06_bounded : forall cp ops, bounded (run ops (init cp)).
Proof. exact bounded_all. Qed.
Print Assumptions C06_bounded.

(* A writer stamped before the cache token is dropped without any effect. *)
Theorem C06_stale_writer_dropped : forall l k deps s v, s < tok l -> add k deps (Some s) v l = l.
Proof. exact stale_writer_dropped. Qed.
Print Assumptions C06_stale_writer_dropped.

(* No stale read — full statement as in the property text (non-decreasing clock: a writer whose
   data predates an invalidation may carry a start EQUAL to that invalidation's stamp) is FALSE
   of the faithful model: Add tests token < l.token strictly.  Witness = harness case 1. *)
Theorem C06_no_stale_read_refuted :
  exists cp ops, wf_trace false ghost0 ops = true /\ ~ gets_fresh ghost0 (init cp) ops.
Proof. exact no_stale_read_tie_refuted. Qed.
Print Assumptions C06_no_stale_read_refuted.

(* ... and TRUE when such writers are stamped strictly before the invalidation (strictly
   increasing clock between a StartPush and a later Clear): every Get of every run returns a
   value generated from a world version >= the last accepted change of each of its dependent
   configs. *)
Theorem C06_no_stale_read_partial : forall cp ops,
  wf_trace true ghost0 ops = true -> gets_fresh ghost0 (init cp) ops.
Proof. exact no_stale_read_all. Qed.
Print Assumptions C06_no_stale_read_partial.

(* Never shared across keys: what Get k returns was Added under key k earlier in the run. *)
Theorem C06_get_returns_added : forall cp ops k v,
  fst (get k (run ops (init cp))) = Some v -> added_before k v ops = true.
Proof. exact get_returns_added. Qed.
Print Assumptions C06_get_returns_added.

(* Transparency: with H_key (generation for a key reads only the declared dependent configs;
   validated by sampling in the harness) and honest writers, every cache hit equals what a fresh
   generation would produce at that moment. *)
Theorem C06_cache_transparent : forall gen depsof cp ops,
  wf_trace true ghost0 ops = true -> honest_trace gen depsof ghost0 ops ->
  gets_transparent gen ghost0 (init cp) ops.
Proof. exact cache_transparent_all. Qed.
Print Assumptions C06_cache_transparent.

(* hypotheses are satisfiable and the conclusion is not vacuous: a disciplined run with a hit
   after an invalidation, and one where the stale writer is dropped *)
Example C06_disciplined_hit :
  let ops := [OAdd 7 [1] (Some 1) (Some {| vid := 1; gver := 0 |}); OClear [1] 5 [(7, [1])];
              OAdd 7 [1] (Some 3) (Some {| vid := 2; gver := 0 |});      (* stale: dropped *)
              OAdd 7 [1] (Some 6) (Some {| vid := 3; gver := 1 |})] in
  wf_trace true ghost0 ops = true /\
  fst (get 7 (run ops (init 2))) = Some {| vid := 3; gver := 1 |}.
Proof. split; reflexivity. Qed.

Example C06_transparent_hyps_satisfiable :
  let gen := fun n (k : key) => n in          (* bytes = the version itself: every change matters *)
  let depsof := fun (_ : key) => [1] in
  let ops := [OAdd 7 [1] (Some 1) (Some {| vid := 0; gver := 0 |}); OGet 7] in
  wf_trace true ghost0 ops = true /\ honest_trace gen depsof ghost0 ops.
Proof.
  split; [reflexivity|]. cbn. repeat split; try reflexivity.
  all: intros k n Hn _; cbn in *; apply N.le_0_r in Hn; exact Hn.
Qed.
