(* C16 proofs, part 2: dependencyState.update / delete keep the reverse index consistent. *)
From Coq Require Import List NArith Bool Lia.
From V Require Import C16.Model C16.ProofsBase.
Import ListNotations.
Open Scope N_scope.
Arguments extr_mem : simpl never.

Lemma rev_upd_other rv c t k f c' t' k' :
  (c', t', k') <> (c, t, k) -> rev_upd rv c t k f c' t' k' = rv c' t' k'.
Proof.
  intros H. unfold rev_upd.
  destruct (N.eqb c' c) eqn:E1; cbn; [|reflexivity].
  destruct (ityp_eqb t' t) eqn:E2; cbn; [|reflexivity].
  destruct (N.eqb k' k) eqn:E3; [|reflexivity].
  exfalso. apply H. apply N.eqb_eq in E1, E3. apply ityp_eqb_eq in E2. congruence.
Qed.
Lemma rev_upd_same rv c t k f : rev_upd rv c t k f c t k = f (rv c t k).
Proof.
  unfold rev_upd. rewrite !N.eqb_refl. assert (ityp_eqb t t = true) by (apply ityp_eqb_eq; reflexivity).
  rewrite H. reflexivity.
Qed.

(* a set transformer that keeps b *)
Definition keeps (b : key) (f : list key -> list key) := forall l, In b l -> In b (f l).

Lemma rev_upd_keeps rv c t k f b c' t' k' :
  keeps b f -> In b (rv c' t' k') -> In b (rev_upd rv c t k f c' t' k').
Proof.
  intros Hk H. unfold rev_upd.
  destruct (N.eqb c' c && ityp_eqb t' t && N.eqb k' k); [apply Hk|]; exact H.
Qed.
Lemma fold_rev_upd_keeps c t f b c' t' k' : keeps b f -> forall ks rv,
  In b (rv c' t' k') -> In b (fold_left (fun r k => rev_upd r c t k f) ks rv c' t' k').
Proof.
  intros Hk ks. induction ks as [|k ks IH]; intros rv H; cbn; [exact H|].
  apply IH. apply rev_upd_keeps; assumption.
Qed.
Lemma fold_rev_upd_adds c t a : forall ks rv k,
  In k ks -> In a (fold_left (fun r k => rev_upd r c t k (addk a)) ks rv c t k).
Proof.
  induction ks as [|k0 ks IH]; intros rv k H; [destruct H|].
  cbn. destruct H as [->|H]; [|apply IH; exact H].
  apply fold_rev_upd_keeps.
  - intros l Hl. apply addk_In. right. exact Hl.
  - rewrite rev_upd_same. apply addk_In. left. reflexivity.
Qed.

Lemma keeps_addk a b : keeps b (addk a).
Proof. intros l H. apply addk_In. right. exact H. Qed.
Lemma keeps_remk a b : b <> a -> keeps b (remk a).
Proof. intros Hne l H. apply remk_In. split; assumption. Qed.

Lemma rev_del_dep_keeps a b d rv c t k : b <> a -> In b (rv c t k) -> In b (rev_del_dep a rv d c t k).
Proof.
  intros Hne H. unfold rev_del_dep. destruct (rev_key (d_filter d)) as [[ks t0]|]; [|exact H].
  apply fold_rev_upd_keeps; [apply keeps_remk; exact Hne|exact H].
Qed.
Lemma fold_rev_del_keeps a b c t k : b <> a -> forall ds rv,
  In b (rv c t k) -> In b (fold_left (rev_del_dep a) ds rv c t k).
Proof.
  intros Hne ds. induction ds as [|d ds IH]; intros rv H; cbn; [exact H|].
  apply IH. apply rev_del_dep_keeps; assumption.
Qed.
Lemma rev_add_dep_keeps a b d rv c t k : In b (rv c t k) -> In b (rev_add_dep a rv d c t k).
Proof.
  intros H. unfold rev_add_dep. destruct (rev_key (d_filter d)) as [[ks t0]|]; [|exact H].
  apply fold_rev_upd_keeps; [apply keeps_addk|exact H].
Qed.
Lemma fold_rev_add_keeps a b c t k : forall ds rv,
  In b (rv c t k) -> In b (fold_left (rev_add_dep a) ds rv c t k).
Proof.
  induction ds as [|d ds IH]; intros rv H; cbn; [exact H|].
  apply IH. apply rev_add_dep_keeps; assumption.
Qed.
Lemma fold_rev_add_adds a : forall ds rv d ks t k,
  In d ds -> rev_key (d_filter d) = Some (ks, t) -> In k ks ->
  In a (fold_left (rev_add_dep a) ds rv (d_id d) t k).
Proof.
  induction ds as [|d0 ds IH]; intros rv d ks t k Hd Hr Hk; [destruct Hd|].
  cbn. destruct Hd as [->|Hd]; [|eapply IH; eauto].
  apply fold_rev_add_keeps. unfold rev_add_dep. rewrite Hr.
  apply fold_rev_upd_adds. exact Hk.
Qed.

Lemma extr_add_dep_mono e d ex : extr_mem e ex = true -> extr_mem e (extr_add_dep ex d) = true.
Proof.
  intros H. unfold extr_add_dep. destruct (rev_key (d_filter d)) as [[ks t]|]; apply extr_add_mono; exact H.
Qed.
Lemma fold_extr_mono e : forall ds ex, extr_mem e ex = true -> extr_mem e (fold_left extr_add_dep ds ex) = true.
Proof.
  induction ds as [|d ds IH]; intros ex H; cbn; [exact H|]. apply IH. apply extr_add_dep_mono. exact H.
Qed.
Lemma fold_extr_adds : forall ds ex d, In d ds ->
  extr_mem (d_id d, match rev_key (d_filter d) with Some (_, t) => t | None => NoIndexT end)
    (fold_left extr_add_dep ds ex) = true.
Proof.
  induction ds as [|d0 ds IH]; intros ex d Hd; [destruct Hd|].
  cbn [fold_left]. destruct Hd as [->|Hd]; [|apply IH; exact Hd].
  apply fold_extr_mono. unfold extr_add_dep.
  destruct (rev_key (d_filter d)) as [[ks t]|]; apply extr_add_self.
Qed.

(* field views of dep_delete / dep_update *)
Lemma dep_delete_deps D a b : d_deps (dep_delete D a) b = if N.eqb b a then None else d_deps D b.
Proof.
  unfold dep_delete. destruct (d_deps D a) eqn:E; cbn.
  - unfold fset. reflexivity.
  - destruct (N.eqb b a) eqn:Eb; [apply N.eqb_eq in Eb; subst; exact E|reflexivity].
Qed.
Lemma dep_delete_other D a :
  d_maps (dep_delete D a) = d_maps D /\ d_outputs (dep_delete D a) = d_outputs D /\
  d_inputs (dep_delete D a) = d_inputs D /\ d_cols (dep_delete D a) = d_cols D /\
  d_handlers (dep_delete D a) = d_handlers D /\ d_okeys (dep_delete D a) = d_okeys D /\
  d_index (dep_delete D a) = d_index D.
Proof. unfold dep_delete. destruct (d_deps D a); cbn; repeat split; reflexivity. Qed.
Lemma dep_update_deps D a ds b : d_deps (dep_update D a ds) b = if N.eqb b a then Some ds else d_deps D b.
Proof.
  unfold dep_update. cbn. unfold fset. destruct (N.eqb b a) eqn:E; [reflexivity|].
  rewrite dep_delete_deps, E. reflexivity.
Qed.
Lemma dep_update_other D a ds :
  d_maps (dep_update D a ds) = d_maps D /\ d_outputs (dep_update D a ds) = d_outputs D /\
  d_inputs (dep_update D a ds) = d_inputs D /\ d_cols (dep_update D a ds) = d_cols D /\
  d_handlers (dep_update D a ds) = d_handlers D /\ d_okeys (dep_update D a ds) = d_okeys D /\
  d_index (dep_update D a ds) = d_index D.
Proof. unfold dep_update. cbn. apply dep_delete_other. Qed.

Lemma rev_inv_delete D a : rev_inv D -> rev_inv (dep_delete D a).
Proof.
  intros [Hr Hi]. unfold dep_delete. destruct (d_deps D a) as [old|] eqn:Ea; [|split; assumption].
  split; cbn.
  - intros b ds d Hb Hd. unfold fset in Hb. destruct (N.eqb b a) eqn:Eb; [discriminate|].
    apply N.eqb_neq in Eb. specialize (Hr b ds d Hb Hd).
    destruct (rev_key (d_filter d)) as [[ks t]|]; [|exact Hr].
    destruct Hr as [H1 H2]. split; [|exact H2].
    intros k Hk. apply fold_rev_del_keeps; [exact Eb|apply H1; exact Hk].
  - intros b ds Hb. unfold fset in Hb. destruct (N.eqb b a) eqn:Eb; [discriminate|].
    apply N.eqb_neq in Eb. apply remk_In. split; [eapply Hi; eauto|exact Eb].
Qed.

Lemma rev_inv_update D a ds : rev_inv D -> rev_inv (dep_update D a ds).
Proof.
  intros H. apply (rev_inv_delete D a) in H. destruct H as [Hr Hi].
  unfold dep_update. set (D1 := dep_delete D a) in *. split; cbn.
  - intros b ds' d Hb Hd. unfold fset in Hb. destruct (N.eqb b a) eqn:Eb.
    + apply N.eqb_eq in Eb. subst b. inversion Hb; subst ds'. clear Hb.
      pose proof (fold_extr_adds ds (d_extr D1) d Hd) as Hex.
      destruct (rev_key (d_filter d)) as [[ks t]|] eqn:Erk; [|exact Hex].
      split; [|exact Hex].
      intros k Hk. eapply fold_rev_add_adds; eauto.
    + specialize (Hr b ds' d Hb Hd).
      destruct (rev_key (d_filter d)) as [[ks t]|].
      * destruct Hr as [H1 H2]. split; [|apply fold_extr_mono; exact H2].
        intros k Hk. apply fold_rev_add_keeps. apply H1. exact Hk.
      * apply fold_extr_mono. exact Hr.
  - intros b ds' Hb. unfold fset in Hb. apply addk_In. destruct (N.eqb b a) eqn:Eb.
    + left. apply N.eqb_eq. exact Eb.
    + right. eapply Hi; eauto.
Qed.
