(* C16 — executable models of the joined shapes (pkg/kube/krt/join.go, mergejoin.go). Definitions only.
   Sub-collections are StaticCollections of (key, value) objects: a mutation changes the sub-collection at once
   and queues one event for the joined collection on that sub-collection's listener (FIFO per sub-collection);
   the joined collection processes the events later and then reads the LIVE sub-collections. *)
From Coq Require Import List NArith Bool.
From V Require Import C16.Model.
Import ListNotations.
Open Scope N_scope.

(* a StaticCollection event: Add = (None, Some), Update = (Some, Some), Delete = (Some, None) *)
Record jev := { je_key : key; je_old : option N; je_new : option N }.

Definition qpush {A} (q : N -> list A) (i : N) (x : A) : N -> list A :=
  fun i' => if N.eqb i' i then q i ++ [x] else q i'.
Definition qpop {A} (q : N -> list A) (i : N) : N -> list A :=
  fun i' => if N.eqb i' i then tl (q i) else q i'.
Definition sset (subs : N -> fmap N) (i : N) (k : key) (v : option N) : N -> fmap N :=
  fun i' => if N.eqb i' i then fset (subs i) k v else subs i'.

(* first sub-collection (in the given index order) holding k *)
Fixpoint firstin (subs : N -> fmap N) (idxs : list N) (k : key) : option N :=
  match idxs with
  | [] => None
  | i :: r => match subs i k with Some v => Some v | None => firstin subs r k end
  end.
Definition idx_range (lo len : nat) : list N := map N.of_nat (seq lo len).

(* JoinCollection forwards its sub-collections' events without comparing old and new (taking over a key with
   an equal object yields Update(o, o)): its streams are checked without the "no no-op Update" clause *)
Definition ev_wf_weak (m : fmap N) (e : oev) : bool :=
  match e with
  | EUpd k o _ => match m k with Some x => N.eqb x o | None => false end
  | _ => ev_wf m e
  end.
Fixpoint stream_wf_weak (m : fmap N) (evs : list oev) : bool :=
  match evs with [] => true | e :: r => ev_wf_weak m e && stream_wf_weak (apply_ev m e) r end.

Section Join.
Variable n : nat.                                    (* number of sub-collections, priority = index *)

(* join.GetKey / join.List (checked mode): the first collection holding the key wins *)
Definition join_get (subs : N -> fmap N) (k : key) : option N := firstin subs (idx_range 0 n) k.

Record jworld := {
  jw_subs : N -> fmap N;
  jw_q : N -> list jev;                               (* events in flight, per sub-collection *)
  jw_proc : fmap N; jw_pkeys : list key;              (* join.processedState *)
  jw_handlers : list (N * list oev) }.

(* join.refreshEvents for one event of sub-collection i, against the live sub-collections *)
Definition jrefresh (subs : N -> fmap N) (i : nat) (e : jev) : option oev :=
  let k := je_key e in
  match firstin subs (idx_range 0 i) k with
  | Some _ => None                                     (* a higher-priority collection owns the key: drop *)
  | None =>
      let lower := firstin subs (idx_range (S i) (n - S i)) k in
      match je_new e with
      | None =>                                        (* Delete *)
          let old := match je_old e with Some o => o | None => 0 end in
          match lower with
          | Some fb => Some (EUpd k old fb)            (* fall back to the lower-priority copy *)
          | None => Some (EDel k old)
          end
      | Some nv =>
          match lower, je_old e with
          | Some lo, None => Some (EUpd k lo nv)       (* Add replacing a lower-priority copy *)
          | _, None => Some (EAdd k nv)
          | _, Some ov => Some (EUpd k ov nv)
          end
      end
  end.

Definition jdistribute (hs : list (N * list oev)) (evs : list oev) : list (N * list oev) :=
  match evs with [] => hs | _ => map (fun h => (fst h, snd h ++ evs)) hs end.

Inductive jact :=
| JAPut (i : N) (k : key) (v : N)       (* StaticCollection.UpdateObject on sub-collection i *)
| JADel (i : N) (k : key)               (* DeleteObject *)
| JADeliver (i : N)                     (* sub-collection i's listener hands its oldest event to the join *)
| JARegister (h : N).                   (* RegisterBatch(f, true) *)

(* join.handleSubCollectionEvents + RegisterBatch *)
Definition jexec (W : jworld) (x : jact) : jworld :=
  match x with
  | JAPut i k v =>
      {| jw_subs := sset (jw_subs W) i k (Some v);
         jw_q := qpush (jw_q W) i {| je_key := k; je_old := jw_subs W i k; je_new := Some v |};
         jw_proc := jw_proc W; jw_pkeys := jw_pkeys W; jw_handlers := jw_handlers W |}
  | JADel i k =>
      match jw_subs W i k with
      | None => W
      | Some old =>
          {| jw_subs := sset (jw_subs W) i k None;
             jw_q := qpush (jw_q W) i {| je_key := k; je_old := Some old; je_new := None |};
             jw_proc := jw_proc W; jw_pkeys := jw_pkeys W; jw_handlers := jw_handlers W |}
      end
  | JADeliver i =>
      match jw_q W i with
      | [] => W
      | e :: _ =>
          match jrefresh (jw_subs W) (N.to_nat i) e with
          | None => {| jw_subs := jw_subs W; jw_q := qpop (jw_q W) i; jw_proc := jw_proc W;
                       jw_pkeys := jw_pkeys W; jw_handlers := jw_handlers W |}
          | Some ev =>
              {| jw_subs := jw_subs W; jw_q := qpop (jw_q W) i;
                 jw_proc := apply_ev (jw_proc W) ev;      (* Delete removes, Add/Update store ev.New *)
                 jw_pkeys := addk (je_key e) (jw_pkeys W);
                 jw_handlers := jdistribute (jw_handlers W) [ev] |}
          end
      end
  | JARegister h =>
      let init := flat_map (fun k => match jw_proc W k with Some v => [EAdd k v] | None => [] end) (jw_pkeys W) in
      {| jw_subs := jw_subs W; jw_q := jw_q W; jw_proc := jw_proc W; jw_pkeys := jw_pkeys W;
         jw_handlers := jw_handlers W ++ [(h, init)] |}
  end.
Definition jw0 : jworld :=
  {| jw_subs := fun _ => fempty; jw_q := fun _ => []; jw_proc := fempty; jw_pkeys := []; jw_handlers := [] |}.
Definition jrun (W : jworld) (xs : list jact) : jworld := fold_left jexec xs W.

(* ---------------------------------------------------------------- merge join *)
(* the merge function, on the values of the holders in collection order (the key is kept) *)
Variable mg : list N -> N.

Fixpoint holders_of (subs : N -> fmap N) (idxs : list N) (k : key) : list N :=
  match idxs with
  | [] => []
  | i :: r => match subs i k with Some v => v :: holders_of subs r k | None => holders_of subs r k end
  end.
(* mergejoin.calculateMerged *)
Definition merged (subs : N -> fmap N) (k : key) : option N :=
  match holders_of subs (idx_range 0 n) k with [] => None | vs => Some (mg vs) end.

Record mworld := {
  mw_subs : N -> fmap N; mw_q : N -> list jev;
  mw_out : fmap N; mw_okeys : list key;               (* mergejoin.outputs *)
  mw_handlers : list (N * list oev) }.

(* mergejoin.onSubCollectionEventHandler for one event (refreshEventsLocked + the loop body).  In the Delete
   branch the event built from the cached object is appended and then the common tail appends the refreshed
   input event as well. *)
Definition mprocess (subs : N -> fmap N) (out : fmap N) (e : jev) : fmap N * list oev :=
  let k := je_key e in
  match merged subs k with
  | None =>
      match out k with
      | None => (out, [])                              (* "invalid event, deletion of non-existent object" *)
      | Some c =>
          let raw := match je_old e with Some o => o | None => match je_new e with Some x => x | None => 0 end end in
          (fset out k None, [EDel k c; EDel k raw])
      end
  | Some m =>
      match out k with
      | None => (fset out k (Some m), [EAdd k m])
      | Some c => if N.eqb m c then (out, []) else (fset out k (Some m), [EUpd k c m])
      end
  end.

Definition mexec (W : mworld) (x : jact) : mworld :=
  match x with
  | JAPut i k v =>
      {| mw_subs := sset (mw_subs W) i k (Some v);
         mw_q := qpush (mw_q W) i {| je_key := k; je_old := mw_subs W i k; je_new := Some v |};
         mw_out := mw_out W; mw_okeys := mw_okeys W; mw_handlers := mw_handlers W |}
  | JADel i k =>
      match mw_subs W i k with
      | None => W
      | Some old =>
          {| mw_subs := sset (mw_subs W) i k None;
             mw_q := qpush (mw_q W) i {| je_key := k; je_old := Some old; je_new := None |};
             mw_out := mw_out W; mw_okeys := mw_okeys W; mw_handlers := mw_handlers W |}
      end
  | JADeliver i =>
      match mw_q W i with
      | [] => W
      | e :: _ =>
          let '(out, evs) := mprocess (mw_subs W) (mw_out W) e in
          {| mw_subs := mw_subs W; mw_q := qpop (mw_q W) i; mw_out := out;
             mw_okeys := addk (je_key e) (mw_okeys W); mw_handlers := jdistribute (mw_handlers W) evs |}
      end
  | JARegister h =>
      let init := flat_map (fun k => match mw_out W k with Some v => [EAdd k v] | None => [] end) (mw_okeys W) in
      {| mw_subs := mw_subs W; mw_q := mw_q W; mw_out := mw_out W; mw_okeys := mw_okeys W;
         mw_handlers := mw_handlers W ++ [(h, init)] |}
  end.
Definition mw0 : mworld :=
  {| mw_subs := fun _ => fempty; mw_q := fun _ => []; mw_out := fempty; mw_okeys := []; mw_handlers := [] |}.
Definition mrun (W : mworld) (xs : list jact) : mworld := fold_left mexec xs W.
End Join.
