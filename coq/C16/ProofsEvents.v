(* C16 proofs, part 6: every subscriber's event stream replays to the collection's contents. *)
From Coq Require Import List NArith Bool Lia.
From V Require Import C16.Model C16.ProofsBase C16.ProofsDep C16.ProofsCommit.
Import ListNotations.
Open Scope N_scope.
Arguments extr_mem : simpl never.

Definition eqm (m m' : fmap N) : Prop := forall k, m k = m' k.
Lemma eqm_refl m : eqm m m. Proof. intros k. reflexivity. Qed.
Lemma eqm_trans a b c : eqm a b -> eqm b c -> eqm a c.
Proof. intros H1 H2 k. rewrite H1. apply H2. Qed.
Lemma apply_ev_eqm m m' e : eqm m m' -> eqm (apply_ev m e) (apply_ev m' e).
Proof. intros H k. destruct e; cbn; unfold fset; destruct (N.eqb k k0); auto. Qed.
Lemma fold_apply_eqm evs : forall m m', eqm m m' -> eqm (fold_left apply_ev evs m) (fold_left apply_ev evs m').
Proof. induction evs as [|e evs IH]; intros m m' H; cbn; [exact H|]. apply IH. apply apply_ev_eqm. exact H. Qed.

(* key 0 (the key of a zero object) is never stored, and okeys covers the stored keys *)
Definition Zo (D : dstate) : Prop :=
  d_outputs D 0 = None /\ forall k v, d_outputs D k = Some v -> In k (d_okeys D).
(* De' extends De by events that, replayed over De's contents, give De''s contents *)
Definition step_ok (De De' : dstate * list oev) : Prop :=
  Zo (fst De') /\ d_handlers (fst De') = d_handlers (fst De) /\
  exists new, snd De' = snd De ++ new /\
              eqm (fold_left apply_ev new (d_outputs (fst De))) (d_outputs (fst De')).

Lemma step_ok_refl A : Zo (fst A) -> step_ok A A.
Proof. intros H. split; [exact H|split; [reflexivity|]]. exists []. rewrite app_nil_r. split; [reflexivity|apply eqm_refl]. Qed.
Lemma step_ok_trans A B C : step_ok A B -> step_ok B C -> step_ok A C.
Proof.
  intros (_&h1&n1&H1&H2) (Z&h2&n2&H3&H4). split; [exact Z|split; [congruence|]].
  exists (n1 ++ n2). split; [rewrite H3, H1, app_assoc; reflexivity|].
  rewrite fold_left_app. eapply eqm_trans; [apply fold_apply_eqm; exact H2|exact H4].
Qed.
Lemma fold_step_ok (f : dstate * list oev -> key -> dstate * list oev) :
  (forall De k, Zo (fst De) -> step_ok De (f De k)) ->
  forall L De, Zo (fst De) -> step_ok De (fold_left f L De).
Proof.
  intros Hs L. induction L as [|k L IH]; intros De HZ; cbn [fold_left]; [apply step_ok_refl; exact HZ|].
  pose proof (Hs De k HZ) as H1. eapply step_ok_trans; [exact H1|]. apply IH. apply H1.
Qed.

Lemma commit_upd_evs D evs i (r : list dep * list (key * N)) :
  Zo D -> (forall k v, In (k, v) (snd r) -> k <> 0) -> step_ok (D, evs) (commit_upd (D, evs) i r).
Proof.
  intros HZ Hnz. unfold commit_upd. cbn zeta.
  set (a := fst i). set (D1 := dep_update D a (fst r)).
  destruct (dep_update_other D a (fst r)) as (M1&M2&M3&M4&M5&M6&M7). fold D1 in M1, M2, M3, M4, M5, M6, M7.
  set (newKeys := gkeys (snd r)).
  set (oldKeys := match d_maps D1 a with Some l => l | None => [] end).
  set (D2 := set_inputs (set_maps D1 (fset (d_maps D1) a (Some newKeys))) (fset (d_inputs D1) a (Some i))).
  assert (E2out : d_outputs D2 = d_outputs D) by (rewrite <- M2; reflexivity).
  assert (E2ok : d_okeys D2 = d_okeys D) by (rewrite <- M6; reflexivity).
  assert (E2h : d_handlers D2 = d_handlers D) by (rewrite <- M5; reflexivity).
  set (allKeys := newKeys ++ filter (fun k => negb (memb k newKeys)) oldKeys).
  clearbody D2 D1 oldKeys.
  match goal with |- context [fold_left ?f allKeys (D2, evs)] => set (F := f) end.
  assert (Hstep : forall De k, Zo (fst De) -> step_ok De (F De k)).
  { intros [D0 e0] k [Z1 Z2]. unfold F. cbn [fst] in *.
    destruct (gfind (snd r) k) as [nv|] eqn:Eg; destruct (d_outputs D0 k) as [ov|] eqn:Eo.
    - destruct (N.eqb nv ov) eqn:En; [apply step_ok_refl; split; assumption|].
      assert (Hk : k <> 0) by (eapply Hnz; apply gfind_Some; exact Eg).
      split; [|split; [reflexivity|]].
      + split; cbn.
        * rewrite fset_neq by (intros X; apply Hk; symmetry; exact X). exact Z1.
        * intros k' v. unfold fset. destruct (N.eqb k' k) eqn:E; [|apply Z2].
          intros _. apply N.eqb_eq in E. subst. eapply Z2; eauto.
      + exists [EUpd k ov nv]. split; [reflexivity|]. cbn. apply eqm_refl.
    - assert (Hk : k <> 0) by (eapply Hnz; apply gfind_Some; exact Eg).
      split; [|split; [reflexivity|]].
      + split; cbn.
        * rewrite fset_neq by (intros X; apply Hk; symmetry; exact X). exact Z1.
        * intros k' v. unfold fset. destruct (N.eqb k' k) eqn:E.
          -- intros _. apply N.eqb_eq in E. subst. apply addk_In. left. reflexivity.
          -- intros H. apply addk_In. right. eapply Z2; eauto.
      + exists [EAdd k nv]. split; [reflexivity|]. cbn. apply eqm_refl.
    - split; [|split; [reflexivity|]].
      + split; cbn.
        * unfold fset. destruct (N.eqb 0 k); [reflexivity|exact Z1].
        * intros k' v. unfold fset. destruct (N.eqb k' k); [discriminate|apply Z2].
      + exists [EDel k ov]. split; [reflexivity|]. cbn. apply eqm_refl.
    - split; [|split; [reflexivity|]].
      + split; cbn; assumption.
      + exists [EDel 0 0]. split; [reflexivity|]. cbn. intros k'. unfold fset.
        destruct (N.eqb k' 0) eqn:E; [|reflexivity]. apply N.eqb_eq in E. subst. symmetry. exact Z1. }
  assert (HZ2 : Zo (fst (D2, evs))).
  { destruct HZ as [Z1 Z2]. split; cbn [fst]; [rewrite E2out; exact Z1|].
    intros k v. rewrite E2out, E2ok. apply Z2. }
  destruct (fold_step_ok F Hstep allKeys (D2, evs) HZ2) as (Z&h&new&H1&H2).
  split; [exact Z|split; [cbn [fst] in *; congruence|]]. exists new. split; [exact H1|].
  cbn [fst] in *. rewrite E2out in H2. exact H2.
Qed.

Lemma commit_del_evs D evs a : Zo D -> step_ok (D, evs) (commit_del (D, evs) a).
Proof.
  intros HZ. unfold commit_del. cbn zeta.
  set (ks := match d_maps D a with Some l => l | None => [] end).
  match goal with |- context [fold_left ?f ks (D, evs)] => set (F := f) end.
  assert (Hstep : forall De k, Zo (fst De) -> step_ok De (F De k)).
  { intros [D0 e0] k [Z1 Z2]. unfold F. cbn [fst] in *.
    destruct (d_outputs D0 k) as [ov|] eqn:Eo; [|apply step_ok_refl; split; assumption].
    split; [|split; [reflexivity|]].
    - split; cbn.
      + unfold fset. destruct (N.eqb 0 k); [reflexivity|exact Z1].
      + intros k' v. unfold fset. destruct (N.eqb k' k); [discriminate|apply Z2].
    - exists [EDel k ov]. split; [reflexivity|]. cbn. apply eqm_refl. }
  destruct (fold_step_ok F Hstep ks (D, evs) HZ) as (Z&h&new&H1&H2).
  destruct (fold_left F ks (D, evs)) as [D1 evs1]. cbn [fst snd] in *.
  set (D2 := set_inputs (set_maps D1 (fset (d_maps D1) a None)) (fset (d_inputs D1) a None)).
  destruct (dep_delete_other D2 a) as (M1&M2&M3&M4&M5&M6&M7).
  split; [|split].
  - destruct Z as [Z1 Z2]. split; cbn [fst]; rewrite M2; [exact Z1|]. rewrite M6. exact Z2.
  - cbn [fst]. rewrite M5. exact h.
  - exists new. split; [exact H1|]. cbn [fst]. rewrite M2. exact H2.
Qed.

Section Events.
Variable univ : list key.
Variable tr : iobj -> (N -> filt -> list sobj) -> list dep * list (key * N).
Variable valid : iobj -> Prop.
(* no valid input emits the key of the zero object *)
Hypothesis H_nozero : forall i phi k v, valid i -> In (k, v) (snd (tr i phi)) -> k <> 0.

Lemma fold_commit_evs S : forall items De,
  (forall i, In (ItemUpd i) items -> valid i) -> Zo (fst De) ->
  step_ok De (fold_left (commit univ tr S) items De).
Proof.
  induction items as [|it items IH]; intros De Hv HZ; cbn [fold_left]; [apply step_ok_refl; exact HZ|].
  assert (H1 : step_ok De (commit univ tr S De it)).
  { destruct De as [D evs]. destruct it as [a|i]; cbn [commit].
    - apply commit_del_evs. exact HZ.
    - apply commit_upd_evs; [exact HZ|]. intros k v. apply H_nozero. apply Hv. left. reflexivity. }
  eapply step_ok_trans; [exact H1|]. apply IH; [intros i Hi; apply Hv; right; exact Hi|apply H1].
Qed.

Definition Hinv (D : dstate) : Prop :=
  Zo D /\ forall h evs, In (h, evs) (d_handlers D) -> eqm (replay evs) (d_outputs D).

Lemma handle_items_evs S D items :
  (forall i, In (ItemUpd i) items -> valid i) -> Hinv D -> Hinv (handle_items univ tr S D items).
Proof.
  intros Hv [HZ Hh]. rewrite handle_items_unfold.
  destruct (phase1_spec univ tr S items D) as (a1&a2&a3&a4&a5&a6&a7&a8&a9).
  assert (HZ1 : Zo (fst (phase1 univ tr S D items, @nil oev))).
  { cbn [fst]. destruct HZ as [Z1 Z2]. split; [rewrite a3; exact Z1|].
    intros k v. rewrite a3. intros H.
    assert (E : d_okeys (phase1 univ tr S D items) = d_okeys D).
    { clear. revert D. induction items as [|it items IH]; intros D; [reflexivity|].
      unfold phase1. cbn [fold_left]. fold (phase1 univ tr S).
      destruct it; [apply IH|]. etransitivity; [apply IH|reflexivity]. }
    rewrite E. eapply Z2; eauto. }
  destruct (fold_commit_evs S items _ Hv HZ1) as (Z&h&new&H1&H2).
  set (Df := fst (fold_left (commit univ tr S) items (phase1 univ tr S D items, []))) in *.
  set (ev := snd (fold_left (commit univ tr S) items (phase1 univ tr S D items, []))) in *.
  cbn [fst snd] in *. rewrite app_nil_l in H1. rewrite a3 in H2.
  unfold distribute. destruct ev as [|e0 ev'] eqn:Eev.
  - split; [exact Z|]. intros hh evs Hin. rewrite h, a7 in Hin.
    subst new. cbn in H2. eapply eqm_trans; [apply (Hh hh evs Hin)|exact H2].
  - split; [exact Z|]. cbn [d_handlers set_handlers d_outputs]. intros hh evs Hin.
    apply in_map_iff in Hin. destruct Hin as [[h0 old] [Hx Hin]]. inversion Hx; subst hh evs. cbn [fst snd].
    rewrite h, a7 in Hin. unfold replay. rewrite fold_left_app.
    eapply eqm_trans; [apply fold_apply_eqm; apply (Hh h0 old Hin)|]. rewrite H1. exact H2.
Qed.

Lemma replay_init (out : fmap N) : forall (ks : list key) m,
  (forall k, m k = None \/ m k = out k) ->
  forall k, fold_left apply_ev (flat_map (fun k => match out k with Some v => [EAdd k v] | None => [] end) ks) m k
            = if memb k ks then out k else m k.
Proof.
  induction ks as [|k0 ks IH]; intros m Hm k; cbn [flat_map fold_left memb existsb]; [reflexivity|].
  fold (memb k ks). rewrite fold_left_app.
  set (m1 := fold_left apply_ev (match out k0 with Some v => [EAdd k0 v] | None => [] end) m).
  assert (Hm1 : forall k', m1 k' = if N.eqb k' k0 then (match out k0 with Some v => Some v | None => m k0 end) else m k').
  { intros k'. unfold m1. destruct (out k0) as [v|]; cbn; unfold fset; destruct (N.eqb k' k0) eqn:E; try reflexivity.
    apply N.eqb_eq in E. subst. reflexivity. }
  rewrite IH.
  - rewrite Hm1. destruct (memb k ks) eqn:Em; [rewrite orb_true_r; reflexivity|rewrite orb_false_r].
    destruct (N.eqb k k0) eqn:E; [|reflexivity]. apply N.eqb_eq in E. subst.
    destruct (out k0) eqn:Eo; [reflexivity|]. destruct (Hm k0) as [H|H]; congruence.
  - intros k'. rewrite Hm1. destruct (N.eqb k' k0) eqn:E; [|apply Hm].
    apply N.eqb_eq in E. subst. destruct (out k0) eqn:Eo; [right; reflexivity|].
    destruct (Hm k0) as [H|H]; [left; exact H|right; rewrite H; exact Eo].
Qed.

Definition Pvalid (W : world) : Prop := forall a i, wP W a = Some i -> valid i.
Definition act_valid (x : act) : Prop :=
  match x with APPut i => valid i | APReset l => forall i, In i l -> valid i | _ => True end.

Lemma reset_map_in l a i : reset_map l a = Some i -> In i l.
Proof.
  unfold reset_map. destruct (find (fun i : N * N => N.eqb (fst i) a) (rev l)) as [j|] eqn:E; [|discriminate].
  intros H. inversion H; subst. apply find_some in E. apply in_rev. apply E.
Qed.

Lemma Einv_exec W x : act_valid x -> Pvalid W /\ Hinv (wD W) ->
  Pvalid (exec univ tr W x) /\ Hinv (wD (exec univ tr W x)).
Proof.
  intros Hx [Hv HH]. destruct x; cbn [exec act_valid] in *.
  - split; [|exact HH]. intros a j. cbn. unfold fset. destruct (N.eqb a (fst i)); [|apply Hv].
    intros H. inversion H; subst. exact Hx.
  - destruct (wP W a) eqn:E; [|split; assumption]. split; [|exact HH].
    intros b j. cbn. unfold fset. destruct (N.eqb b a); [discriminate|apply Hv].
  - split; [|exact HH]. intros a j. cbn. intros H. apply Hx. eapply reset_map_in; eauto.
  - destruct (memb k univ); split; assumption.
  - destruct (cget univ (wS W c) k); split; assumption.
  - destruct (qP W) as [|b q]; [split; assumption|]. split; [exact Hv|]. cbn [wD].
    apply handle_items_evs; [|exact HH]. intros i Hi. unfold primary_items in Hi.
    apply in_map_iff in Hi. destruct Hi as [x [Hx1 _]].
    destruct (wP W (fst x)) as [j|] eqn:Ej; [|discriminate]. destruct (snd x); [discriminate|].
    inversion Hx1; subst. eapply Hv; eauto.
  - destruct (qS W) as [|[c evs] q]; [split; assumption|]. split; [exact Hv|]. cbn [wD].
    apply handle_items_evs; [|exact HH]. intros i Hi. unfold secondary_items in Hi.
    apply in_flat_map in Hi. destruct Hi as [a [_ Hi]]. destruct (wP W a) as [j|] eqn:Ej.
    + destruct Hi as [Hi|[]]. inversion Hi; subst. eapply Hv; eauto.
    + apply in_flat_map in Hi. destruct Hi as [k [_ Hi]]. destruct (d_outputs (wD W) k); [|destruct Hi].
      destruct Hi as [Hi|[]]. discriminate.
  - split; [exact Hv|]. destruct HH as [[Z1 Z2] Hh]. split; [split; assumption|].
    cbn [wD set_D d_handlers set_handlers d_outputs]. intros hh evs Hin. apply in_app_iff in Hin.
    destruct Hin as [Hin|[Hin|[]]]; [eapply Hh; eauto|]. inversion Hin; subst hh evs.
    intros k. unfold replay. rewrite (replay_init (d_outputs (wD W)) (d_okeys (wD W)) fempty).
    + destruct (memb k (d_okeys (wD W))) eqn:Em; [reflexivity|].
      destruct (d_outputs (wD W) k) as [v|] eqn:Eo; [|reflexivity].
      apply Z2 in Eo. apply memb_In in Eo. congruence.
    + intros k'. left. reflexivity.
Qed.

(* Replaying the events a subscriber has been sent (initial Adds included for a late subscriber) reproduces
   the collection's contents, after any history and schedule; no ownership hypothesis is needed. *)
Theorem events_replay : forall xs,
  Forall act_valid xs ->
  let W := run univ tr w0 xs in
  forall h evs, In (h, evs) (d_handlers (wD W)) -> forall k, replay evs k = d_outputs (wD W) k.
Proof.
  intros xs Hval.
  assert (H : Pvalid (run univ tr w0 xs) /\ Hinv (wD (run univ tr w0 xs))).
  { unfold run. assert (H0 : Pvalid w0 /\ Hinv (wD w0)).
    { split; [intros a i H; discriminate|]. split; [split; [reflexivity|intros k v H; discriminate]|].
      intros h evs []. }
    revert H0. generalize w0. induction xs as [|x xs IH]; intros W H0; cbn [fold_left]; [exact H0|].
    inversion Hval; subst. apply IH; [assumption|]. apply Einv_exec; assumption. }
  cbn zeta. destruct H as [_ [_ Hh]]. intros h evs Hin k. apply (Hh h evs Hin).
Qed.
End Events.
