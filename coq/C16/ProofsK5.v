(* C16 proofs, part 5: the table-driven transformations satisfy the purity hypothesis; ownership is
   satisfiable; and the K5 witnesses: with only "at every instant each key has one producer" the contents
   of the derived collection can differ from the transformation of the inputs. *)
From Coq Require Import List NArith Bool Lia Arith Compare_dec.
From V Require Import C16.Model C16.ProofsBase.
Import ListNotations.
Open Scope N_scope.

Lemma tr_dsl_pure progs i phi psi :
  (forall d, In d (fst (tr_dsl progs i phi)) -> phi (d_id d) (d_filter d) = psi (d_id d) (d_filter d)) ->
  tr_dsl progs i phi = tr_dsl progs i psi.
Proof.
  unfold tr_dsl. cbn [fst]. intros H.
  assert (E : map (fun d => phi (d_id d) (d_filter d)) (p_fetches (progs (snd i))) =
              map (fun d => psi (d_id d) (d_filter d)) (p_fetches (progs (snd i)))).
  { apply map_ext_in. intros d Hd. apply H. exact Hd. }
  rewrite E. reflexivity.
Qed.

Fixpoint nodupb (l : list key) : bool :=
  match l with [] => true | x :: r => negb (memb x r) && nodupb r end.

(* at this instant no output key is produced by two inputs *)
Definition unique_nowb (univ : list key) tr (W : world) : bool :=
  nodupb (flat_map (fun a => gkeys (out_of univ tr W a))
            (filter (fun a => match wP W a with Some _ => true | None => false end) (wPdom W))).

Definition lookup_prog (ps : list (N * prog)) (n : N) : prog :=
  match find (fun x => N.eqb (fst x) n) ps with
  | Some x => snd x
  | None => {| p_fetches := []; p_outs := [] |}
  end.

(* --- witness 1: the key moves between two inputs inside ONE Reset batch (public API, deterministic) *)
Definition k5_progs_reset : list (N * prog) :=
  [ (11, {| p_fetches := []; p_outs := [OConst 40 7] |}); (12, {| p_fetches := []; p_outs := [] |});
    (21, {| p_fetches := []; p_outs := [OConst 40 7] |}); (22, {| p_fetches := []; p_outs := [] |}) ].
Definition k5_acts_reset : list act :=
  [ APPut (1, 11); APPut (2, 22); ADeliverP; ADeliverP;
    APReset [(2, 21); (1, 12)];          (* one atomic step: input 2 starts emitting key 40, input 1 stops *)
    ADeliverP ].

(* --- witness 2: a fetched owner object decides which single input emits key 40 *)
Definition mkf s g := {| f_sel := s; f_label := None; f_generic := g; f_suppress := None |}.
Definition k5_progs_owner : list (N * prog) :=
  [ (10, {| p_fetches := [ {| d_id := 0; d_filter := mkf (SKeys [1]) (Some 1) |} ]; p_outs := [OIfAny 0 40 7] |});
    (20, {| p_fetches := [ {| d_id := 0; d_filter := mkf (SKeys [1]) (Some 2) |} ]; p_outs := [OIfAny 0 40 7] |}) ].
Definition k5_acts_owner : list act :=
  [ ASPut 0 1 {| s_val := 1; s_ns := 0; s_lab := 0 |}; APPut (1, 10); APPut (2, 20); ADeliverP; ADeliverP;
    ASPut 0 1 {| s_val := 2; s_ns := 0; s_lab := 0 |};      (* the owner object now names input 2 *)
    ADeliverS [2; 1] ].                                     (* set iteration visits the new parent first *)

Definition refutes (univ : list key) (ps : list (N * prog)) (xs : list act) : Prop :=
  let tr := tr_dsl (lookup_prog ps) in
  (forall n, unique_nowb univ tr (run univ tr w0 (firstn n xs)) = true) /\
  let W := run univ tr w0 xs in
  qP W = [] /\ qS W = [] /\
  exists a i k v, wP W a = Some i /\ In (k, v) (snd (tr i (fetcher univ (wS W)))) /\ d_outputs (wD W) k = None.

Lemma all_prefixes (P : nat -> bool) (len : nat) :
  forallb P (seq 0 (S len)) = true -> (forall n, (len <= n)%nat -> P n = P len) -> forall n, P n = true.
Proof.
  intros H Hbig n. rewrite forallb_forall in H.
  destruct (le_lt_dec len n) as [Hl|Hl].
  - rewrite (Hbig n Hl). apply H. apply in_seq. lia.
  - apply H. apply in_seq. lia.
Qed.

Lemma k5_reset_refutes : refutes [1; 2; 3] k5_progs_reset k5_acts_reset.
Proof.
  split.
  - apply (all_prefixes (fun n => unique_nowb _ _ (run _ _ w0 (firstn n k5_acts_reset))) (length k5_acts_reset)).
    + vm_compute. reflexivity.
    + intros n Hn. rewrite firstn_all2 by exact Hn. rewrite firstn_all. reflexivity.
  - cbn zeta. split; [vm_compute; reflexivity|]. split; [vm_compute; reflexivity|].
    exists 2, (2, 21), 40, 7. split; [vm_compute; reflexivity|]. split; [vm_compute; left; reflexivity|].
    vm_compute. reflexivity.
Qed.

Lemma k5_owner_refutes : refutes [1; 2; 3] k5_progs_owner k5_acts_owner.
Proof.
  split.
  - apply (all_prefixes (fun n => unique_nowb _ _ (run _ _ w0 (firstn n k5_acts_owner))) (length k5_acts_owner)).
    + vm_compute. reflexivity.
    + intros n Hn. rewrite firstn_all2 by exact Hn. rewrite firstn_all. reflexivity.
  - cbn zeta. split; [vm_compute; reflexivity|]. split; [vm_compute; reflexivity|].
    exists 2, (2, 20), 40, 7. split; [vm_compute; reflexivity|]. split; [vm_compute; left; reflexivity|].
    vm_compute. reflexivity.
Qed.

(* the other iteration order gives the right answer: the loss depends on Go's set iteration order *)
Lemma k5_owner_other_order :
  let tr := tr_dsl (lookup_prog k5_progs_owner) in
  d_outputs (wD (run [1; 2; 3] tr w0 (firstn 6 k5_acts_owner ++ [ADeliverS [1; 2]]))) 40 = Some 7.
Proof. vm_compute. reflexivity. Qed.

(* ownership is satisfiable by table-driven transformations that do fetch: inputs (a, 100 + a) emit only 50 + a *)
Definition owned_progs (n : N) : prog :=
  {| p_fetches := [ {| d_id := 0; d_filter := mkf SAll None |} ]; p_outs := [OAgg 0 (n - 50)] |}.
Definition owned_valid (i : iobj) : Prop := snd i = fst i + 100.
Lemma owned_example : forall i phi k v,
  owned_valid i -> In (k, v) (snd (tr_dsl owned_progs i phi)) -> (fun k => k - 50) k = fst i.
Proof.
  intros [a n] phi k v Hv H. unfold owned_valid in Hv. cbn in *. destruct H as [H|[]].
  inversion H; subst. lia.
Qed.
