(* C16 proofs, part 8: under static key ownership every subscriber's stream is per-key well-formed
   (Add only of an absent key, Update/Delete only of a present key carrying its current value, no no-op
   Update), for every history and schedule. *)
From Coq Require Import List NArith Bool Lia.
From V Require Import C16.Model C16.ProofsBase C16.ProofsDep C16.ProofsCommit C16.ProofsEvents C16.ProofsInv.
Import ListNotations.
Open Scope N_scope.
Arguments extr_mem : simpl never.

Lemma ev_wf_eqm m m' e : eqm m m' -> ev_wf m e = ev_wf m' e.
Proof. intros H. destruct e; cbn; rewrite (H k); reflexivity. Qed.
Lemma stream_wf_eqm evs : forall m m', eqm m m' -> stream_wf m evs = stream_wf m' evs.
Proof.
  induction evs as [|e evs IH]; intros m m' H; cbn; [reflexivity|].
  rewrite (ev_wf_eqm m m' e H). f_equal. apply IH. apply apply_ev_eqm. exact H.
Qed.
Lemma stream_wf_app a : forall m b, stream_wf m (a ++ b) = stream_wf m a && stream_wf (fold_left apply_ev a m) b.
Proof.
  induction a as [|e a IH]; intros m b; cbn; [reflexivity|]. rewrite IH. apply andb_assoc.
Qed.

Definition step_wf (De De' : dstate * list oev) : Prop :=
  (NoDup (d_okeys (fst De)) -> NoDup (d_okeys (fst De'))) /\
  exists new, snd De' = snd De ++ new /\ stream_wf (d_outputs (fst De)) new = true /\
              eqm (fold_left apply_ev new (d_outputs (fst De))) (d_outputs (fst De')).

Lemma step_wf_refl A : step_wf A A.
Proof. split; [auto|]. exists []. rewrite app_nil_r. split; [reflexivity|]. split; [reflexivity|apply eqm_refl]. Qed.
Lemma step_wf_trans A B C : step_wf A B -> step_wf B C -> step_wf A C.
Proof.
  intros (n1&x1&H1&W1&E1) (n2&x2&H2&W2&E2). split; [auto|].
  exists (x1 ++ x2). split; [rewrite H2, H1, app_assoc; reflexivity|]. split.
  - rewrite stream_wf_app, W1. cbn. rewrite (stream_wf_eqm x2 _ _ E1). exact W2.
  - rewrite fold_left_app. eapply eqm_trans; [apply fold_apply_eqm; exact E1|exact E2].
Qed.

Lemma fold_wf (f : dstate * list oev -> key -> dstate * list oev) (g : key -> option N) :
  (forall De k, (g k = None -> d_outputs (fst De) k <> None) ->
     (forall k', d_outputs (fst (f De k)) k' = if N.eqb k' k then g k else d_outputs (fst De) k') /\
     step_wf De (f De k)) ->
  forall L, NoDup L -> forall De,
    (forall k, In k L -> g k = None -> d_outputs (fst De) k <> None) -> step_wf De (fold_left f L De).
Proof.
  intros Hs L. induction L as [|k L IH]; intros Hnd De Hpre; cbn [fold_left]; [apply step_wf_refl|].
  inversion Hnd as [|? ? Hnin Hnd']; subst.
  destruct (Hs De k (Hpre k (or_introl eq_refl))) as [Ho Hw].
  eapply step_wf_trans; [exact Hw|]. apply IH; [exact Hnd'|].
  intros k' Hk' Hg. rewrite Ho. destruct (N.eqb k' k) eqn:E.
  - apply N.eqb_eq in E. subst. contradiction.
  - apply Hpre; [right; exact Hk'|exact Hg].
Qed.

Lemma NoDup_snoc (k : key) l : NoDup l -> ~ In k l -> NoDup (l ++ [k]).
Proof.
  induction l as [|x l IH]; intros H Hn; cbn; [constructor; [intros []|constructor]|].
  inversion H; subst. constructor.
  - rewrite in_app_iff. intros [Hx|[Hx|[]]]; [contradiction|]. subst. apply Hn. left. reflexivity.
  - apply IH; [assumption|]. intros Hk. apply Hn. right. exact Hk.
Qed.
Lemma NoDup_addk k l : NoDup l -> NoDup (addk k l).
Proof.
  intros H. unfold addk. destruct (memb k l) eqn:E; [exact H|].
  apply memb_false in E. apply NoDup_snoc; assumption.
Qed.
Lemma NoDup_gkeys l : NoDup (gkeys l).
Proof.
  unfold gkeys. assert (H : forall (l : list (key * N)) acc, NoDup acc -> NoDup (fold_left (fun acc kv => addk (fst kv) acc) l acc)).
  { induction l0 as [|x l0 IH]; intros acc Ha; cbn; [exact Ha|]. apply IH. apply NoDup_addk. exact Ha. }
  apply H. constructor.
Qed.
Lemma NoDup_filter {A} (p : A -> bool) l : NoDup l -> NoDup (filter p l).
Proof.
  induction l as [|x l IH]; intros H; cbn; [constructor|]. inversion H; subst.
  destruct (p x); [constructor; [rewrite filter_In; tauto|auto]|auto].
Qed.
Lemma NoDup_app_disj (a b : list key) : NoDup a -> NoDup b -> (forall k, In k a -> ~ In k b) -> NoDup (a ++ b).
Proof.
  induction a as [|x a IH]; intros Ha Hb Hd; cbn; [exact Hb|]. inversion Ha; subst. constructor.
  - rewrite in_app_iff. intros [H|H]; [contradiction|]. apply (Hd x); [left; reflexivity|exact H].
  - apply IH; [assumption|assumption|]. intros k Hk. apply Hd. right. exact Hk.
Qed.

(* mappings only list stored keys, without repetition *)
Definition subD (D : dstate) : Prop :=
  forall a ks k, d_maps D a = Some ks -> In k ks -> d_outputs D k <> None.
Definition ndD (D : dstate) : Prop := forall a ks, d_maps D a = Some ks -> NoDup ks.

Lemma commit_upd_wf D evs i (r : list dep * list (key * N)) :
  subD D -> ndD D -> step_wf (D, evs) (commit_upd (D, evs) i r).
Proof.
  intros Hsub Hnd. unfold commit_upd. cbn zeta.
  set (a := fst i). set (D1 := dep_update D a (fst r)).
  destruct (dep_update_other D a (fst r)) as (M1&M2&M3&M4&M5&M6&M7). fold D1 in M1, M2, M3, M4, M5, M6, M7.
  set (newKeys := gkeys (snd r)).
  set (oldKeys := match d_maps D1 a with Some l => l | None => [] end).
  assert (Hold : oldKeys = match d_maps D a with Some l => l | None => [] end) by (unfold oldKeys; rewrite M1; reflexivity).
  set (D2 := set_inputs (set_maps D1 (fset (d_maps D1) a (Some newKeys))) (fset (d_inputs D1) a (Some i))).
  assert (E2out : d_outputs D2 = d_outputs D) by (rewrite <- M2; reflexivity).
  assert (E2ok : d_okeys D2 = d_okeys D) by (rewrite <- M6; reflexivity).
  set (allKeys := newKeys ++ filter (fun k => negb (memb k newKeys)) oldKeys).
  clearbody D2 D1 oldKeys.
  match goal with |- context [fold_left ?f allKeys (D2, evs)] => set (F := f) end.
  assert (Hstep : forall De k, (gfind (snd r) k = None -> d_outputs (fst De) k <> None) ->
     (forall k', d_outputs (fst (F De k)) k' = if N.eqb k' k then gfind (snd r) k else d_outputs (fst De) k') /\
     step_wf De (F De k)).
  { intros [D0 e0] k Hpre. unfold F. cbn [fst] in *.
    destruct (gfind (snd r) k) as [nv|] eqn:Eg; destruct (d_outputs D0 k) as [ov|] eqn:Eo.
    - destruct (N.eqb nv ov) eqn:En.
      + split; [|apply step_wf_refl]. intros k'. cbn [fst]. destruct (N.eqb k' k) eqn:E; [|reflexivity].
        apply N.eqb_eq in E, En. subst. exact Eo.
      + split; [intros k'; cbn; unfold fset; reflexivity|].
        split; [cbn; auto|]. exists [EUpd k ov nv]. split; [reflexivity|]. split; [|cbn; apply eqm_refl].
        cbn. rewrite Eo, N.eqb_refl. cbn. rewrite N.eqb_sym, En. reflexivity.
    - split; [intros k'; cbn; unfold fset; reflexivity|].
      split; [cbn; apply NoDup_addk|]. exists [EAdd k nv]. split; [reflexivity|]. split; [|cbn; apply eqm_refl].
      cbn. rewrite Eo. reflexivity.
    - split; [intros k'; cbn; unfold fset; reflexivity|].
      split; [cbn; auto|]. exists [EDel k ov]. split; [reflexivity|]. split; [|cbn; apply eqm_refl].
      cbn. rewrite Eo, N.eqb_refl. reflexivity.
    - exfalso. apply (Hpre eq_refl). reflexivity. }
  assert (Hnd_all : NoDup allKeys).
  { unfold allKeys. apply NoDup_app_disj.
    - apply NoDup_gkeys.
    - apply NoDup_filter. rewrite Hold. destruct (d_maps D a) as [l|] eqn:El; [eapply Hnd; eauto|constructor].
    - intros k Hk Hf. apply filter_In in Hf. destruct Hf as [_ Hf]. apply negb_true_iff in Hf.
      apply memb_false in Hf. contradiction. }
  assert (Hpre : forall k, In k allKeys -> gfind (snd r) k = None -> d_outputs (fst (D2, evs)) k <> None).
  { intros k Hk Hg. cbn [fst]. rewrite E2out. unfold allKeys in Hk. apply in_app_iff in Hk.
    destruct Hk as [Hk|Hk]; [exfalso; exact (gfind_None _ _ Hg Hk)|].
    apply filter_In in Hk. destruct Hk as [Hk _]. rewrite Hold in Hk.
    destruct (d_maps D a) as [l|] eqn:El; [|destruct Hk]. eapply Hsub; eauto. }
  destruct (fold_wf F (gfind (snd r)) Hstep allKeys Hnd_all (D2, evs) Hpre) as (N1&new&H1&H2&H3).
  cbn [fst snd] in *. split; [rewrite E2ok in N1; exact N1|].
  exists new. rewrite E2out in H2, H3. auto.
Qed.

Lemma commit_del_wf D evs a : step_wf (D, evs) (commit_del (D, evs) a).
Proof.
  unfold commit_del. cbn zeta.
  set (ks := match d_maps D a with Some l => l | None => [] end).
  match goal with |- context [fold_left ?f ks (D, evs)] => set (F := f) end.
  assert (Hstep : forall De k, step_wf De (F De k)).
  { intros [D0 e0] k. unfold F. cbn [fst].
    destruct (d_outputs D0 k) as [ov|] eqn:Eo; [|apply step_wf_refl].
    split; [cbn; auto|]. exists [EDel k ov]. split; [reflexivity|]. split; [|cbn; apply eqm_refl].
    cbn. rewrite Eo, N.eqb_refl. reflexivity. }
  assert (Hfold : forall L De, step_wf De (fold_left F L De)).
  { induction L as [|k L IH]; intros De; cbn [fold_left]; [apply step_wf_refl|].
    eapply step_wf_trans; [apply Hstep|apply IH]. }
  destruct (Hfold ks (D, evs)) as (N1&new&H1&H2&H3).
  destruct (fold_left F ks (D, evs)) as [D1 evs1]. cbn [fst snd] in *.
  set (D2 := set_inputs (set_maps D1 (fset (d_maps D1) a None)) (fset (d_inputs D1) a None)).
  destruct (dep_delete_other D2 a) as (M1&M2&M3&M4&M5&M6&M7).
  split; [cbn [fst]; rewrite M6; exact N1|]. exists new. cbn [fst]. rewrite M2. auto.
Qed.

Lemma commit_del_maps D evs a : d_maps (fst (commit_del (D, evs) a)) a = None.
Proof.
  unfold commit_del. cbn zeta.
  match goal with |- context [fold_left ?f ?ks (D, evs)] => destruct (fold_left f ks (D, evs)) as [D1 evs1] end.
  cbn [fst].
  set (D2 := set_inputs (set_maps D1 (fset (d_maps D1) a None)) (fset (d_inputs D1) a None)).
  destruct (dep_delete_other D2 a) as (M1&_). rewrite M1. unfold D2. cbn. apply fset_eq.
Qed.

Section Wf.
Variable univ : list key.
Variable tr : iobj -> (N -> filt -> list sobj) -> list dep * list (key * N).
Variable owner : key -> key.
Variable valid : iobj -> Prop.
Hypothesis H_owned : forall i phi k v, valid i -> In (k, v) (snd (tr i phi)) -> owner k = fst i.
Hypothesis H_pure : forall i phi psi,
  (forall d, In d (fst (tr i phi)) -> phi (d_id d) (d_filter d) = psi (d_id d) (d_filter d)) ->
  tr i phi = tr i psi.
Hypothesis H_supp : forall i phi d, In d (fst (tr i phi)) -> supp_wf (d_filter d).
Hypothesis H_nozero : forall i phi k v, valid i -> In (k, v) (snd (tr i phi)) -> k <> 0.

Notation Dinv := (Dinv owner).

Lemma gfind_of_gkeys (l : list (key * N)) k : In k (gkeys l) -> gfind l k <> None.
Proof. intros H Hn. exact (gfind_None l k Hn H). Qed.

(* one commit keeps subD / ndD *)
Lemma commit_keeps S D evs it :
  Dinv D -> subD D -> ndD D ->
  (forall i, it = ItemUpd i -> valid i /\ forall d, In d (fst (tr i (fetcher univ S))) -> In (d_id d) (d_cols D)) ->
  let D' := fst (commit univ tr S (D, evs) it) in
  subD D' /\ ndD D'.
Proof.
  intros HD Hsub Hnd Hit. destruct it as [a|i]; cbn [commit].
  - pose proof (commit_del_spec univ tr owner S D evs a HD) as (HD'&Hrec&Hoth&_).
    pose proof (commit_del_maps D evs a) as Hm.
    set (D' := fst (commit_del (D, evs) a)) in *. split.
    + intros b ks k Hb Hk. destruct (N.eq_dec b a) as [->|Hne]; [congruence|].
      destruct (Hoth b Hne) as (_&S2&S3). rewrite S2 in Hb. rewrite S3; [eapply Hsub; eauto|].
      destruct HD as (Hown&_). eapply Hown; eauto.
    + intros b ks Hb. destruct (N.eq_dec b a) as [->|Hne]; [congruence|].
      destruct (Hoth b Hne) as (_&S2&_). rewrite S2 in Hb. eapply Hnd; eauto.
  - destruct (Hit i eq_refl) as [Hv Hc].
    pose proof (commit_upd_spec univ tr owner valid H_owned S D evs i HD Hv Hc) as (HD'&Hrec&Hoth&_).
    set (D' := fst (commit_upd (D, evs) i (tr i (fetcher univ S)))) in *.
    cbn in Hrec. destruct Hrec as (_&Rm&Ro). split.
    + intros b ks k Hb Hk. destruct (N.eq_dec b (fst i)) as [->|Hne].
      * rewrite Rm in Hb. inversion Hb; subst ks. rewrite (Ro k Hk). apply gfind_of_gkeys. exact Hk.
      * destruct (Hoth b Hne) as (_&S2&S3). rewrite S2 in Hb. rewrite S3; [eapply Hsub; eauto|].
        destruct HD as (Hown&_). eapply Hown; eauto.
    + intros b ks Hb. destruct (N.eq_dec b (fst i)) as [->|Hne].
      * rewrite Rm in Hb. inversion Hb; subst ks. apply NoDup_gkeys.
      * destruct (Hoth b Hne) as (_&S2&_). rewrite S2 in Hb. eapply Hnd; eauto.
Qed.

Lemma fold_commit_wf S : forall items D0 evs,
  Dinv D0 -> subD D0 -> ndD D0 ->
  (forall i, In (ItemUpd i) items -> valid i) -> cols_ok univ tr S items D0 ->
  let De' := fold_left (commit univ tr S) items (D0, evs) in
  step_wf (D0, evs) De' /\ subD (fst De') /\ ndD (fst De').
Proof.
  induction items as [|it items IH]; intros D0 evs HD Hsub Hnd Hv Hc; cbn [fold_left].
  - split; [apply step_wf_refl|split; assumption].
  - assert (Hit : forall i, it = ItemUpd i -> valid i /\ forall d, In d (fst (tr i (fetcher univ S))) -> In (d_id d) (d_cols D0)).
    { intros i ->. split; [apply Hv; left; reflexivity|]. intros d Hd. eapply Hc; [left; reflexivity|exact Hd]. }
    pose proof (commit_keeps S D0 evs it HD Hsub Hnd Hit) as [Hsub1 Hnd1].
    assert (Hw : step_wf (D0, evs) (commit univ tr S (D0, evs) it)).
    { destruct it as [a|i]; cbn [commit]; [apply commit_del_wf|apply commit_upd_wf; assumption]. }
    assert (HD1 : Dinv (fst (commit univ tr S (D0, evs) it)) /\
                  d_cols (fst (commit univ tr S (D0, evs) it)) = d_cols D0).
    { destruct it as [a|i]; cbn [commit].
      - pose proof (commit_del_spec univ tr owner S D0 evs a HD) as (X1&_&_&X2&_). split; assumption.
      - destruct (Hit i eq_refl) as [Hvi Hci].
        pose proof (commit_upd_spec univ tr owner valid H_owned S D0 evs i HD Hvi Hci) as (X1&_&_&X2&_).
        split; assumption. }
    destruct HD1 as [HD1 Hcl].
    destruct (commit univ tr S (D0, evs) it) as [D1 evs1] eqn:Ec. cbn [fst] in *.
    assert (Hc1 : cols_ok univ tr S items D1).
    { intros i d Hi Hd. rewrite Hcl. eapply Hc; [right; exact Hi|exact Hd]. }
    destruct (IH D1 evs1 HD1 Hsub1 Hnd1 (fun i Hi => Hv i (or_intror Hi)) Hc1) as (W1&S1&N1).
    split; [eapply step_wf_trans; eauto|split; assumption].
Qed.

Definition hwf (D : dstate) : Prop := forall h evs, In (h, evs) (d_handlers D) -> stream_wf fempty evs = true.

Lemma handle_items_wf S D items :
  Dinv D -> Hinv D -> subD D -> ndD D -> NoDup (d_okeys D) -> hwf D ->
  (forall i, In (ItemUpd i) items -> valid i) ->
  let D' := handle_items univ tr S D items in
  subD D' /\ ndD D' /\ NoDup (d_okeys D') /\ hwf D'.
Proof.
  intros HD [HZ Hh] Hsub Hnd Hok Hw Hv. cbn zeta. rewrite handle_items_unfold.
  destruct (phase1_spec univ tr S items D) as (a1&a2&a3&a4&a5&a6&a7&a8&a9).
  pose proof (Dinv_phase1 univ tr owner S D items HD) as HD1.
  set (D1 := phase1 univ tr S D items) in *.
  assert (Eok : d_okeys D1 = d_okeys D).
  { unfold D1. clear. revert D. induction items as [|it items IH]; intros D; [reflexivity|].
    unfold phase1. cbn [fold_left]. fold (phase1 univ tr S).
    destruct it; [apply IH|]. etransitivity; [apply IH|reflexivity]. }
  assert (Hsub1 : subD D1) by (intros a ks k; rewrite a2, a3; apply Hsub).
  assert (Hnd1 : ndD D1) by (intros a ks; rewrite a2; apply Hnd).
  destruct (fold_commit_wf S items D1 [] HD1 Hsub1 Hnd1 Hv a9) as ((N1&new&H1&H2&H3)&S1&N2).
  set (Df := fst (fold_left (commit univ tr S) items (D1, []))) in *.
  set (ev := snd (fold_left (commit univ tr S) items (D1, []))) in *.
  cbn [fst snd] in *. rewrite app_nil_l in H1. rewrite a3 in H2, H3. rewrite Eok in N1.
  assert (Hhd : d_handlers Df = d_handlers D).
  { destruct (fold_commit_spec univ tr owner valid H_owned S D items D1 [] (fun _ => None) HD1) as (_&_&X); auto.
    - intros a. unfold same_rec. rewrite a1, a2, a3. auto.
    - intros a i H. discriminate.
    - fold Df in X. rewrite X. exact a7. }
  unfold distribute. destruct ev as [|e0 ev'] eqn:Eev.
  - repeat split; auto. intros h evs Hin. rewrite Hhd in Hin. eapply Hw; eauto.
  - cbn [d_maps d_outputs d_okeys d_handlers set_handlers]. repeat split; auto.
    intros h evs Hin. cbn [d_handlers set_handlers] in Hin. apply in_map_iff in Hin.
    destruct Hin as [[h0 old] [Hx Hin]]. inversion Hx; subst h evs. cbn [fst snd].
    rewrite Hhd in Hin. rewrite stream_wf_app, (Hw h0 old Hin). cbn [andb].
    rewrite (stream_wf_eqm _ _ _ (Hh h0 old Hin)). rewrite H1. exact H2.
Qed.

Lemma init_wf (out : fmap N) : forall (ks : list key) m,
  NoDup ks -> (forall k, In k ks -> m k = None) ->
  stream_wf m (flat_map (fun k => match out k with Some v => [EAdd k v] | None => [] end) ks) = true.
Proof.
  induction ks as [|k0 ks IH]; intros m Hnd Hm; cbn [flat_map]; [reflexivity|].
  inversion Hnd; subst. rewrite stream_wf_app.
  destruct (out k0) as [v|]; cbn.
  - rewrite (Hm k0 (or_introl eq_refl)). cbn. apply IH; [assumption|].
    intros k Hk. rewrite fset_neq; [apply Hm; right; exact Hk|]. intros ->. contradiction.
  - apply IH; [assumption|]. intros k Hk. apply Hm. right. exact Hk.
Qed.

Notation Inv := (Inv univ tr owner valid).
Definition Winv (W : world) : Prop :=
  Inv W /\ Hinv (wD W) /\ subD (wD W) /\ ndD (wD W) /\ NoDup (d_okeys (wD W)) /\ hwf (wD W).

Lemma act_valid_same x : ProofsInv.act_valid valid x -> ProofsEvents.act_valid valid x.
Proof. destruct x; auto. Qed.

Lemma Winv_exec W x : ProofsInv.act_valid valid x -> Winv W -> Winv (exec univ tr W x).
Proof.
  intros Hx (HI&HH&Hsub&Hnd&Hok&Hw).
  pose proof (Inv_exec univ tr owner valid H_owned H_pure H_supp W x Hx HI) as HI'.
  assert (HPv : ProofsEvents.Pvalid valid W).
  { destruct HI as (_&_&_&_&Hv&_). exact Hv. }
  pose proof (Einv_exec univ tr valid H_nozero W x (act_valid_same x Hx) (conj HPv HH)) as [_ HH'].
  split; [exact HI'|split; [exact HH'|]].
  destruct HI as (HD&_&Hk&_&Hv&_).
  destruct x; cbn [exec] in *.
  - auto.
  - destruct (wP W a); auto.
  - auto.
  - destruct (memb k univ); auto.
  - destruct (cget univ (wS W c) k); auto.
  - destruct (qP W) as [|b q]; [auto|]. cbn [wD].
    apply handle_items_wf; auto. intros i Hi. unfold primary_items in Hi.
    apply in_map_iff in Hi. destruct Hi as [y [Hy1 _]].
    destruct (wP W (fst y)) as [j|] eqn:Ej; [|discriminate]. destruct (snd y); [discriminate|].
    inversion Hy1; subst. eapply Hv; eauto.
  - destruct (qS W) as [|[c evs] q]; [auto|]. cbn [wD].
    apply handle_items_wf; auto. intros i Hi.
    destruct (secondary_item_src _ _ _ _ Hk Hi) as [a' (_&_&Ha3)]. eapply Hv; eauto.
  - cbn [wD set_D d_maps d_outputs d_okeys d_handlers set_handlers]. repeat split; auto.
    intros hh evs Hin. cbn [d_handlers set_handlers] in Hin. apply in_app_iff in Hin.
    destruct Hin as [Hin|[Hin|[]]]; [eapply Hw; eauto|]. inversion Hin; subst hh evs.
    apply init_wf; [exact Hok|]. intros; reflexivity.
Qed.

(* Every subscriber's stream, early or late, is per-key well-formed and replays to the contents. *)
Theorem events_consistent : forall xs,
  Forall (ProofsInv.act_valid valid) xs ->
  let W := run univ tr w0 xs in
  forall h evs, In (h, evs) (d_handlers (wD W)) ->
    stream_wf fempty evs = true /\ forall k, replay evs k = d_outputs (wD W) k.
Proof.
  intros xs Hval.
  assert (H : Winv (run univ tr w0 xs)).
  { unfold run. assert (H0 : Winv w0).
    { split; [apply Inv_w0|]. split; [split; [split; [reflexivity|intros k v H; discriminate]|intros h evs []]|].
      split; [intros a ks k H; discriminate|]. split; [intros a ks H; discriminate|].
      split; [constructor|intros h evs []]. }
    revert H0. generalize w0. induction xs as [|x xs IH]; intros W H0; cbn [fold_left]; [exact H0|].
    inversion Hval; subst. apply IH; [assumption|]. apply Winv_exec; assumption. }
  cbn zeta. destruct H as (_&[_ Hh]&_&_&_&Hw). intros h evs Hin. split; [eapply Hw; eauto|].
  intros k. apply (Hh h evs Hin).
Qed.
End Wf.
