(* C16 proofs, part 1: sets-as-lists, function maps, Fetch vs. Matches, soundness of changedInputKeys. *)
From Coq Require Import List NArith Bool Lia.
From V Require Import C16.Model.
Import ListNotations.
Open Scope N_scope.

(* ---------------------------------------------------------------- basics *)
Lemma memb_In k l : memb k l = true <-> In k l.
Proof.
  unfold memb. rewrite existsb_exists. split.
  - intros [x [Hx He]]. apply N.eqb_eq in He. subst. exact Hx.
  - intros H. exists k. split; [exact H|apply N.eqb_refl].
Qed.
Lemma memb_false k l : memb k l = false <-> ~ In k l.
Proof.
  rewrite <- memb_In. destruct (memb k l); split; intros; try congruence.
Qed.
Lemma addk_In x k l : In x (addk k l) <-> x = k \/ In x l.
Proof.
  unfold addk. destruct (memb k l) eqn:E.
  - apply memb_In in E. split; [auto|]. intros [->|H]; auto.
  - rewrite in_app_iff. cbn. split; [intros [H|[H|[]]]; auto|intros [H|H]; auto].
Qed.
Lemma remk_In x k l : In x (remk k l) <-> In x l /\ x <> k.
Proof.
  unfold remk. rewrite filter_In. rewrite negb_true_iff, N.eqb_neq. tauto.
Qed.
Lemma fset_eq {V} (m : fmap V) k v : fset m k v k = v.
Proof. unfold fset. rewrite N.eqb_refl. reflexivity. Qed.
Lemma fset_neq {V} (m : fmap V) k v k' : k' <> k -> fset m k v k' = m k'.
Proof. intros H. unfold fset. apply N.eqb_neq in H. rewrite H. reflexivity. Qed.

Lemma fold_mono {B} (f : list key -> B -> list key) (a : key) :
  (forall acc y, In a acc -> In a (f acc y)) ->
  forall l acc, In a acc -> In a (fold_left f l acc).
Proof.
  intros Hm l. induction l as [|y l IH]; intros acc H; cbn; auto.
Qed.
Lemma fold_hit {B} (f : list key -> B -> list key) (a : key) :
  (forall acc y, In a acc -> In a (f acc y)) ->
  forall l acc y, In y l -> (forall acc, In a (f acc y)) -> In a (fold_left f l acc).
Proof.
  intros Hm l. induction l as [|z l IH]; intros acc y Hy Hf; [destruct Hy|].
  cbn. destruct Hy as [->|Hy].
  - apply fold_mono; auto.
  - eapply IH; eauto.
Qed.

Lemma filter_filter {A} (p q : A -> bool) l :
  filter p (filter q l) = filter (fun x => q x && p x) l.
Proof.
  induction l as [|x l IH]; cbn; [reflexivity|].
  destruct (q x); cbn; [destruct (p x); rewrite IH; reflexivity|exact IH].
Qed.
Lemma filter_flat_map_ext {A B} (p : B -> bool) (g g' : A -> list B) l :
  (forall x, In x l -> filter p (g' x) = filter p (g x)) ->
  filter p (flat_map g' l) = filter p (flat_map g l).
Proof.
  induction l as [|x l IH]; intros H; cbn; [reflexivity|].
  rewrite !filter_app. rewrite (H x (or_introl eq_refl)). rewrite IH; [reflexivity|].
  intros y Hy. apply H. right. exact Hy.
Qed.

(* ---------------------------------------------------------------- Fetch result vs. the change test *)
Section Fetch.
Variable univ : list key.

Lemma matches_pre_mono f o : matches f o false = true -> matches f o true = true.
Proof.
  unfold matches. cbn [orb]. intros H.
  apply andb_true_iff in H. destruct H as [H H3]. apply andb_true_iff in H. destruct H as [_ H2].
  rewrite H2, H3. reflexivity.
Qed.
Lemma matches_sel f o : sel_ok (f_sel f) o = true -> matches f o true = matches f o false.
Proof. unfold matches. intros ->. reflexivity. Qed.

(* If neither the old nor the new object at key k matches the filter (the test objectChanged applies on a
   full scan), the Fetch result is unchanged. *)
Lemma fetch_unaffected f (C : coll) k (np : option spay) :
  (forall p, cget univ C k = Some p -> matches f (k, p) false = false) ->
  (forall p, np = Some p -> matches f (k, p) false = false) ->
  memb k univ = true ->
  fetch_raw univ f (fset C k np) = fetch_raw univ f C.
Proof.
  intros Hold Hnew Hu. unfold fetch_raw.
  assert (Hc : cget univ C k = C k) by (unfold cget; rewrite Hu; reflexivity).
  destruct (f_sel f) eqn:Es; cbn [prelist].
  - (* SAll *)
    unfold elements. apply filter_flat_map_ext. intros x _.
    destruct (N.eq_dec x k) as [->|Hne]; [|rewrite fset_neq by exact Hne; reflexivity].
    rewrite fset_eq.
    assert (Hs : forall p, sel_ok (f_sel f) (k, p) = true) by (intros; rewrite Es; reflexivity).
    destruct np as [p|]; destruct (C k) as [q|] eqn:Eq; cbn;
      repeat match goal with
      | |- context [matches f (k, ?p) true] =>
          rewrite (matches_sel f (k, p) (Hs p));
          first [rewrite (Hnew p eq_refl)|rewrite (Hold p) by (rewrite Hc; reflexivity)]
      end; reflexivity.
  - (* SKeys *)
    apply filter_flat_map_ext. intros x Hx.
    destruct (N.eq_dec x k) as [->|Hne].
    + assert (Hs : forall p, sel_ok (f_sel f) (k, p) = true).
      { intros. rewrite Es. cbn. apply memb_In. exact Hx. }
      unfold cget. rewrite Hu, fset_eq.
      destruct np as [p|]; destruct (C k) as [q|] eqn:Eq; cbn;
        repeat match goal with
        | |- context [matches f (k, ?p) true] =>
            rewrite (matches_sel f (k, p) (Hs p));
            first [rewrite (Hnew p eq_refl)|rewrite (Hold p) by (rewrite Hc; reflexivity)]
        end; reflexivity.
    + unfold cget. rewrite fset_neq by exact Hne. reflexivity.
  - (* SIndex *)
    rewrite !filter_filter. unfold elements. apply filter_flat_map_ext. intros x _.
    destruct (N.eq_dec x k) as [->|Hne]; [|rewrite fset_neq by exact Hne; reflexivity].
    rewrite fset_eq.
    assert (Hs : forall p, N.eqb (s_ns p) n = true -> sel_ok (f_sel f) (k, p) = true)
      by (intros p Hp; rewrite Es; exact Hp).
    destruct np as [p|]; destruct (C k) as [q|] eqn:Eq; cbn;
      repeat match goal with
      | |- context [N.eqb (s_ns ?p) n && matches f (k, ?p) true] =>
          destruct (N.eqb (s_ns p) n) eqn:?; cbn [andb];
          [rewrite (matches_sel f (k, p)) by (apply Hs; assumption);
           first [rewrite (Hnew p eq_refl)|rewrite (Hold p) by (rewrite Hc; reflexivity)]|]
      end; reflexivity.
Qed.

Lemma fetch_unaffected' f (C : coll) k (np : option spay) :
  (forall p, cget univ C k = Some p -> matches f (k, p) false = false) ->
  (forall p, np = Some p -> matches f (k, p) false = false) ->
  memb k univ = true ->
  fetch univ f (fset C k np) = fetch univ f C.
Proof. intros H1 H2 H3. unfold fetch. rewrite (fetch_unaffected f C k np H1 H2 H3). reflexivity. Qed.

(* a suppressing (PartialFetch) filter is well-formed when what it selects on is part of what it projects:
   no label / generic predicate, and an index selector only together with the namespace projection *)
Definition supp_wf (f : filt) : Prop :=
  match f_suppress f with
  | None => True
  | Some n => f_label f = None /\ f_generic f = None /\ match f_sel f with SIndex _ => n = 0 | _ => True end
  end.

Lemma map_filter_flat_map_ext {A B C0} (g : B -> C0) (p : B -> bool) (h h' : A -> list B) l :
  (forall x, In x l -> map g (filter p (h' x)) = map g (filter p (h x))) ->
  map g (filter p (flat_map h' l)) = map g (filter p (flat_map h l)).
Proof.
  induction l as [|x l IH]; intros H; cbn; [reflexivity|].
  rewrite !filter_app, !map_app. rewrite (H x (or_introl eq_refl)). rewrite IH; [reflexivity|].
  intros y Hy. apply H. right. exact Hy.
Qed.

Lemma projn0_ns o p : projn 0 o = projn 0 p -> s_ns o = s_ns p.
Proof. cbn. intros H. inversion H. reflexivity. Qed.

(* an update that a well-formed PartialFetch dependency suppresses does not change its (projected) result *)
Lemma fetch_suppressed f (C : coll) k o p n :
  f_suppress f = Some n -> supp_wf f -> C k = Some o -> projn n o = projn n p ->
  fetch univ f (fset C k (Some p)) = fetch univ f C.
Proof.
  intros Hs Hwf Ho Hp. unfold supp_wf in Hwf. rewrite Hs in Hwf. destruct Hwf as (Hl&Hg&Hsel).
  unfold fetch. rewrite Hs. unfold fetch_raw.
  assert (Hm : forall q, matches f (k, q) true = true).
  { intros q. unfold matches. rewrite Hl, Hg. reflexivity. }
  destruct (f_sel f) eqn:Es; cbn [prelist].
  - unfold elements. apply map_filter_flat_map_ext. intros x _.
    destruct (N.eq_dec x k) as [->|Hne]; [|rewrite fset_neq by exact Hne; reflexivity].
    rewrite fset_eq, Ho. cbn. rewrite !Hm. cbn. rewrite Hp. reflexivity.
  - apply map_filter_flat_map_ext. intros x _. unfold cget. destruct (memb x univ); [|reflexivity].
    destruct (N.eq_dec x k) as [->|Hne]; [|rewrite fset_neq by exact Hne; reflexivity].
    rewrite fset_eq, Ho. cbn. rewrite !Hm. cbn. rewrite Hp. reflexivity.
  - assert (Hns : s_ns o = s_ns p).
    { pose proof Hp as Hp0. rewrite Hsel in Hp0. apply projn0_ns. exact Hp0. }
    rewrite !filter_filter. unfold elements. apply map_filter_flat_map_ext. intros x _.
    destruct (N.eq_dec x k) as [->|Hne]; [|rewrite fset_neq by exact Hne; reflexivity].
    rewrite fset_eq, Ho. cbn. rewrite !Hm, Hns.
    destruct (N.eqb (s_ns p) n0); cbn; [rewrite Hp|]; reflexivity.
Qed.
End Fetch.

(* ---------------------------------------------------------------- reverse index invariant *)
Definition rev_inv (D : dstate) : Prop :=
  (forall a ds d, d_deps D a = Some ds -> In d ds ->
     match rev_key (d_filter d) with
     | Some (ks, t) => (forall k, In k ks -> In a (d_rev D (d_id d) t k)) /\ extr_mem (d_id d, t) (d_extr D) = true
     | None => extr_mem (d_id d, NoIndexT) (d_extr D) = true
     end) /\
  (forall a ds, d_deps D a = Some ds -> In a (d_ikeys D)).

Lemma ityp_eqb_eq a b : ityp_eqb a b = true <-> a = b.
Proof. destruct a, b; cbn; split; intros; congruence. Qed.

Lemma extr_mem_In e l : extr_mem e l = true <-> In e l.
Proof.
  unfold extr_mem. rewrite existsb_exists. split.
  - intros [x [Hx He]]. apply andb_true_iff in He. destruct He as [H1 H2].
    apply N.eqb_eq in H1. apply ityp_eqb_eq in H2. destruct x, e. cbn in *. subst. exact Hx.
  - intros H. exists e. split; [exact H|]. rewrite N.eqb_refl. cbn.
    apply ityp_eqb_eq. reflexivity.
Qed.
Lemma extr_add_mono e x l : extr_mem e l = true -> extr_mem e (extr_add x l) = true.
Proof.
  unfold extr_add. destruct (extr_mem x l); [auto|].
  rewrite !extr_mem_In, in_app_iff. auto.
Qed.
Lemma extr_add_self x l : extr_mem x (extr_add x l) = true.
Proof.
  unfold extr_add. destruct (extr_mem x l) eqn:E; [exact E|].
  rewrite extr_mem_In, in_app_iff. right. left. reflexivity.
Qed.

Lemma object_changed_pre ds src e : object_changed ds src e false = true -> object_changed ds src e true = true.
Proof.
  unfold object_changed. rewrite !existsb_exists. intros [d [Hd H]]. exists d. split; [exact Hd|].
  apply andb_true_iff in H. destruct H as [H1 H2]. rewrite H1. cbn [andb].
  rewrite existsb_exists in *. destruct H2 as [o [Ho Hm]]. exists o. split; [exact Ho|].
  apply matches_pre_mono. exact Hm.
Qed.

Lemma changed_scan_mono D src e a acc : In a acc -> In a (changed_scan D src e acc).
Proof.
  unfold changed_scan. apply fold_mono. intros acc' y H.
  destruct (d_deps D y); [|exact H]. destruct (object_changed l src e false); [|exact H].
  apply addk_In. right. exact H.
Qed.

Lemma changed_rev_mono D src e ts a acc : In a acc -> In a (changed_rev D src e ts acc).
Proof.
  unfold changed_rev.
  apply fold_mono. intros acc1 t H1.
  apply fold_mono; [|exact H1]. intros acc2 item H2.
  apply fold_mono; [|exact H2]. intros acc3 k H3.
  apply fold_mono; [|exact H3]. intros acc4 b H4.
  destruct (memb b acc4); [exact H4|].
  destruct (d_deps D b).
  - destruct (object_changed l src e true); [apply in_app_iff; left; exact H4|exact H4].
  - cbn. exact H4.
Qed.

Lemma changed_mono D src evs a : forall acc,
  In a acc ->
  In a (fold_left (fun acc e => match extr_for D src with
                                | [] => changed_scan D src e acc
                                | _ => changed_rev D src e (extr_for D src) acc end) evs acc).
Proof.
  induction evs as [|e evs IH]; intros acc H; cbn; [exact H|].
  apply IH. destruct (extr_for D src); [apply changed_scan_mono|apply changed_rev_mono]; exact H.
Qed.

(* changedInputKeys finds every input one of whose recorded dependencies matches the old or the new
   version of a changed object — through the reverse index when one is usable, else by the full scan. *)
Lemma changed_sound D src evs a ds e :
  rev_inv D -> d_deps D a = Some ds -> In e evs -> object_changed ds src e false = true ->
  In a (changed_input_keys D src evs).
Proof.
  intros [Hrev Hik] Hds He Hch. unfold changed_input_keys.
  generalize (@nil key). induction evs as [|e' evs IH]; intros acc; [destruct He|].
  cbn. destruct He as [->|He]; [|apply IH; exact He].
  apply changed_mono.
  destruct (extr_for D src) as [|t0 ts0] eqn:Ets.
  - (* full scan *)
    unfold changed_scan.
    apply (fold_hit _ a) with (y := a).
    + intros acc' y H. destruct (d_deps D y); [|exact H].
      destruct (object_changed l src e false); [apply addk_In; right|]; exact H.
    + eapply Hik; eauto.
    + intros acc'. rewrite Hds, Hch. apply addk_In. left. reflexivity.
  - (* reverse index *)
    rewrite <- Ets.
    unfold object_changed in Hch. apply existsb_exists in Hch. destruct Hch as [d [Hd Hm]].
    apply andb_true_iff in Hm. destruct Hm as [Hid Hm]. apply andb_true_iff in Hid. destruct Hid as [Hid Hsup].
    apply N.eqb_eq in Hid.
    apply existsb_exists in Hm. destruct Hm as [o [Ho Hm]].
    specialize (Hrev a ds d Hds Hd).
    assert (Hno : extr_mem (src, NoIndexT) (d_extr D) = false).
    { unfold extr_for in Ets. destruct (extr_mem (src, NoIndexT) (d_extr D)); [discriminate|reflexivity]. }
    destruct (rev_key (d_filter d)) as [[ks t]|] eqn:Erk; [|rewrite Hid, Hno in Hrev; discriminate].
    destruct Hrev as [Hin Hex]. rewrite Hid in *.
    assert (Ht : In t (extr_for D src)).
    { unfold extr_for. rewrite Hno. apply in_map_iff. exists (src, t). split; [reflexivity|].
      apply filter_In. split; [apply extr_mem_In; exact Hex|cbn; apply N.eqb_refl]. }
    assert (Hk : exists k, In k (extract t o) /\ In k ks).
    { unfold rev_key in Erk. unfold matches in Hm. cbn [orb] in Hm.
      apply andb_true_iff in Hm. destruct Hm as [Hm _]. apply andb_true_iff in Hm. destruct Hm as [Hs _].
      destruct (f_sel (d_filter d)) as [|l|n]; [discriminate| |].
      - destruct l as [|k0 l]; [discriminate|]. inversion Erk; subst. cbn in Hs.
        exists (fst o). split; [left; reflexivity|]. apply memb_In. exact Hs.
      - inversion Erk; subst. cbn in Hs. apply N.eqb_eq in Hs.
        exists n. split; [left; exact Hs|left; reflexivity]. }
    destruct Hk as [k [Hk1 Hk2]].
    unfold changed_rev.
    apply (fold_hit _ a) with (y := t); [| exact Ht |].
    { intros acc1 t1 H1.
      apply fold_mono; [|exact H1]. intros acc2 item H2.
      apply fold_mono; [|exact H2]. intros acc3 k3 H3.
      apply fold_mono; [|exact H3]. intros acc4 b H4.
      destruct (memb b acc4); [exact H4|]. destruct (d_deps D b); [|exact H4].
      destruct (object_changed l src e true); [apply in_app_iff; left|]; exact H4. }
    intros acc1.
    apply (fold_hit _ a) with (y := o); [| exact Ho |].
    { intros acc2 item H2.
      apply fold_mono; [|exact H2]. intros acc3 k3 H3.
      apply fold_mono; [|exact H3]. intros acc4 b H4.
      destruct (memb b acc4); [exact H4|]. destruct (d_deps D b); [|exact H4].
      destruct (object_changed l src e true); [apply in_app_iff; left|]; exact H4. }
    intros acc2.
    apply (fold_hit _ a) with (y := k); [| exact Hk1 |].
    { intros acc3 k3 H3.
      apply fold_mono; [|exact H3]. intros acc4 b H4.
      destruct (memb b acc4); [exact H4|]. destruct (d_deps D b); [|exact H4].
      destruct (object_changed l src e true); [apply in_app_iff; left|]; exact H4. }
    intros acc3.
    apply (fold_hit _ a) with (y := a); [| apply Hin; exact Hk2 |].
    { intros acc4 b H4.
      destruct (memb b acc4); [exact H4|]. destruct (d_deps D b); [|exact H4].
      destruct (object_changed l src e true); [apply in_app_iff; left|]; exact H4. }
    intros acc4. destruct (memb a acc4) eqn:Em; [apply memb_In; exact Em|].
    rewrite Hds.
    assert (Hc : object_changed ds src e true = true).
    { apply object_changed_pre. unfold object_changed. apply existsb_exists. exists d. split; [exact Hd|].
      rewrite Hid, N.eqb_refl, Hsup. cbn [andb]. apply existsb_exists. exists o. split; [exact Ho|exact Hm]. }
    rewrite Hc. apply in_app_iff. right. left. reflexivity.
Qed.
