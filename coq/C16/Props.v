(* C16 property theorems only. *)
From V Require Import lib.Verdict C16.Model C16.Proofs.
Open Scope N_scope.

(* Headline.  For every finite key space, every transformation tr that (H_owned) only emits keys owned by its
   input, (H_pure) depends on the sources only through the Fetch calls it reports and (H_supp) uses PartialFetch
   only with selectors that are part of the projection, after ANY sequence of
   source mutations (add/update/no-op update/delete/Reset on the primary, add/update/delete on the fetched
   collections), queue deliveries in any interleaving, any iteration order of the changed-input set, and
   handler registrations: once the derived collection's queues are empty, its contents are exactly tr applied
   to the current inputs. *)
Theorem C16_state_is_function :
  forall (univ : list N) (tr : iobj -> (N -> filt -> list sobj) -> list dep * list (N * N))
         (owner : N -> N) (valid : iobj -> Prop),
    (forall i phi k v, valid i -> In (k, v) (snd (tr i phi)) -> owner k = fst i) ->
    (forall i phi psi,
        (forall d, In d (fst (tr i phi)) -> phi (d_id d) (d_filter d) = psi (d_id d) (d_filter d)) ->
        tr i phi = tr i psi) ->
    (forall i phi d, In d (fst (tr i phi)) -> supp_wf (d_filter d)) ->
    forall xs, Forall (ProofsInv.act_valid valid) xs ->
    let W := run univ tr w0 xs in
    qP W = [] -> qS W = [] ->
    forall k, d_outputs (wD W) k =
              match wP W (owner k) with
              | Some i => gfind (snd (tr i (fetcher univ (wS W)))) k
              | None => None
              end.
Proof. exact state_is_function. Qed.
Print Assumptions C16_state_is_function.

(* Ownership cannot be weakened to "at every instant each key is produced by at most one input" (K5):
   a fetched owner object hands key 40 from input 1 to input 2; when the changed-input set is iterated new
   parent first, the collection ends without key 40 although input 2 produces it. *)
Theorem C16_owned_needed_refuted : refutes [1; 2; 3] k5_progs_owner k5_acts_owner.
Proof. exact k5_owner_refutes. Qed.
Print Assumptions C16_owned_needed_refuted.

(* Same loss, deterministically, when the key moves between two inputs inside one Reset batch. *)
Theorem C16_key_moves_in_batch_refuted : refutes [1; 2; 3] k5_progs_reset k5_acts_reset.
Proof. exact k5_reset_refutes. Qed.
Print Assumptions C16_key_moves_in_batch_refuted.

(* Dependency tracking, for EVERY transformation (no ownership, no purity): on every reachable state, if an
   object of a secondary batch matches (old or new version) a filter recorded for input a, then
   changedInputKeys returns a — through the reverse index for key/index filters, by the full scan otherwise.
   (So K5 is a defect of the output diffing, not of the dependency tracking.) *)
Theorem C16_dependency_sound :
  forall (univ : list N) (tr : iobj -> (N -> filt -> list sobj) -> list dep * list (N * N)) xs,
    let W := run univ tr w0 xs in
    forall c evs e a ds,
      d_deps (wD W) a = Some ds -> In e evs -> object_changed ds c e false = true ->
      In a (changed_input_keys (wD W) c evs).
Proof. exact dependency_sound_all. Qed.
Print Assumptions C16_dependency_sound.

(* ... and that test is the right one: if neither the old nor the new version of the object at key k matches a
   filter, the filtered Fetch result does not change (so an input that is not recomputed saw nothing change). *)
Theorem C16_fetch_only_changes_on_match :
  forall univ f (C : coll) k (np : option spay),
    (forall p, cget univ C k = Some p -> matches f (k, p) false = false) ->
    (forall p, np = Some p -> matches f (k, p) false = false) ->
    memb k univ = true ->
    fetch univ f (fset C k np) = fetch univ f C.
Proof. exact fetch_unaffected'. Qed.
Print Assumptions C16_fetch_only_changes_on_match.

(* PartialFetch: an update that leaves the projection unchanged (the case objectChanged skips for that
   dependency, and only for that dependency) does not change the projected result. *)
Theorem C16_partial_fetch_unchanged_when_suppressed :
  forall univ f (C : coll) k o p n,
    f_suppress f = Some n -> supp_wf f -> C k = Some o -> projn n o = projn n p ->
    fetch univ f (fset C k (Some p)) = fetch univ f C.
Proof. exact fetch_suppressed. Qed.
Print Assumptions C16_partial_fetch_unchanged_when_suppressed.

(* Event streams, under ownership: every subscriber's stream (early or late registration) is per-key
   well-formed — Add only of an absent key, Update/Delete only of a present key with its current value, no
   no-op Update — and replaying it reproduces the contents; for every history and schedule.
   RegisterBatch(f, true) is ONE atomic model step (snapshot + insertion, as the real code does under h.mu); the
   atomicity of the real call is validated by the late-registration-under-churn cases (schedule sampling). *)
Theorem C16_events_consistent :
  forall (univ : list N) (tr : iobj -> (N -> filt -> list sobj) -> list dep * list (N * N))
         (owner : N -> N) (valid : iobj -> Prop),
    (forall i phi k v, valid i -> In (k, v) (snd (tr i phi)) -> owner k = fst i) ->
    (forall i phi psi,
        (forall d, In d (fst (tr i phi)) -> phi (d_id d) (d_filter d) = psi (d_id d) (d_filter d)) ->
        tr i phi = tr i psi) ->
    (forall i phi d, In d (fst (tr i phi)) -> supp_wf (d_filter d)) ->
    (forall i phi k v, valid i -> In (k, v) (snd (tr i phi)) -> k <> 0) ->
    forall xs, Forall (ProofsInv.act_valid valid) xs ->
    let W := run univ tr w0 xs in
    forall h evs, In (h, evs) (d_handlers (wD W)) ->
      stream_wf fempty evs = true /\ forall k, replay evs k = d_outputs (wD W) k.
Proof. exact events_consistent. Qed.
Print Assumptions C16_events_consistent.

(* Without ownership the replay half still holds (K5 histories included): *)
(* for every subscriber, replaying what it was sent reproduces the contents, after any history and schedule. *)
Theorem C16_events_replay :
  forall (univ : list N) (tr : iobj -> (N -> filt -> list sobj) -> list dep * list (N * N)) (valid : iobj -> Prop),
    (forall i phi k v, valid i -> In (k, v) (snd (tr i phi)) -> k <> 0) ->
    forall xs, Forall (ProofsEvents.act_valid valid) xs ->
    let W := run univ tr w0 xs in
    forall h evs, In (h, evs) (d_handlers (wD W)) -> forall k, replay evs k = d_outputs (wD W) k.
Proof. exact events_replay. Qed.
Print Assumptions C16_events_replay.

(* The table-driven transformations used by the correspondence harness satisfy the purity hypothesis. *)
Theorem C16_table_transformations_pure :
  forall progs i phi psi,
    (forall d, In d (fst (tr_dsl progs i phi)) -> phi (d_id d) (d_filter d) = psi (d_id d) (d_filter d)) ->
    tr_dsl progs i phi = tr_dsl progs i psi.
Proof. exact tr_dsl_pure. Qed.
Print Assumptions C16_table_transformations_pure.

(* hypotheses are satisfiable by a transformation that fetches: inputs (a, 100 + a) emit key 50 + a *)
Example C16_ownership_satisfiable : forall i phi k v,
  owned_valid i -> In (k, v) (snd (tr_dsl owned_progs i phi)) -> (fun k => k - 50) k = fst i.
Proof. exact owned_example. Qed.
(* and with the other iteration order the K5 history gives the right contents *)
Example C16_k5_depends_on_iteration_order :
  d_outputs (wD (run [1; 2; 3] (tr_dsl (lookup_prog k5_progs_owner)) w0
                   (firstn 6 k5_acts_owner ++ [ADeliverS [1; 2]]))) 40 = Some 7.
Proof. exact k5_owner_other_order. Qed.
