(* C16 property theorems only. *)
From V Require Import lib.Verdict C16.Model C16.Proofs.
Open Scope N_scope.

(* Headline.  For every finite key space, every transformation tr that (H_owned) only emits keys owned by its
   input, (H_pure) depends on the sources only through the Fetch calls it reports and (H_supp) uses PartialFetch
   only with selectors that are part of the projection, after ANY sequence of
   source mutations (add/update/no-op update/delete/Reset on the primary, add/update/delete on the fetched
   collections), queue deliveries in any interleaving, any iteration order of the changed-input set, and
   handler registrations: once the derived collection's queues are empty, its contents are exactly tr applied
   to the current inputs. *)
Theorem C16_state_is_function :
  forall (univ : list N) (tr : iobj -> (N -> filt -> list sobj) -> list dep * list (N * N))
         (owner : N -> N) (valid : iobj -> Prop),
    (forall i phi k v, valid i -> In (k, v) (snd (tr i phi)) -> owner k = fst i) ->
    (forall i phi psi,
        (forall d, In d (fst (tr i phi)) -> phi (d_id d) (d_filter d) = psi (d_id d) (d_filter d)) ->
        tr i phi = tr i psi) ->
    (forall i phi d, In d (fst (tr i phi)) -> supp_wf (d_filter d)) ->
    forall xs, Forall (ProofsInv.act_valid valid) xs ->
    let W := run univ tr w0 xs in
    qP W = [] -> qS W = [] ->
    forall k, d_outputs (wD W) k =
              match wP W (owner k) with
              | Some i => gfind (snd (tr i (fetcher univ (wS W)))) k
              | None => None
              end.
Proof. exact state_is_function. Qed.
Print Assumptions C16_state_is_function.

(* Ownership cannot be weakened to "at every instant each key is produced by at most one input" (K5):
   a fetched owner object hands key 40 from input 1 to input 2; when the changed-input set is iterated new
   parent first, the collection ends without key 40 although input 2 produces it. *)
Theorem C16_owned_needed_refuted : refutes [1; 2; 3] k5_progs_owner k5_acts_owner.
Proof. exact k5_owner_refutes. Qed.
Print Assumptions C16_owned_needed_refuted.

(* Same loss, deterministically, when the key moves between two inputs inside one Reset batch. *)
Theorem C16_key_moves_in_batch_refuted : refutes [1; 2; 3] k5_progs_reset k5_acts_reset.
Proof. exact k5_reset_refutes. Qed.
Print Assumptions C16_key_moves_in_batch_refuted.

(* Dependency tracking, for EVERY transformation (no ownership, no purity): on every reachable state, if an
   object of a secondary batch matches (old or new version) a filter recorded for input a, then
   changedInputKeys returns a — through the reverse index for key/index filters, by the full scan otherwise.
   (So K5 is a defect of the output diffing, not of the dependency tracking.) *)
Theorem C16_dependency_sound :
  forall (univ : list N) (tr : iobj -> (N -> filt -> list sobj) -> list dep * list (N * N)) xs,
    let W := run univ tr w0 xs in
    forall c evs e a ds,
      d_deps (wD W) a = Some ds -> In e evs -> object_changed ds c e false = true ->
      In a (changed_input_keys (wD W) c evs).
Proof. exact dependency_sound_all. Qed.
Print Assumptions C16_dependency_sound.

(* ... and that test is the right one: if neither the old nor the new version of the object at key k matches a
   filter, the filtered Fetch result does not change (so an input that is not recomputed saw nothing change). *)
Theorem C16_fetch_only_changes_on_match :
  forall univ f (C : coll) k (np : option spay),
    (forall p, cget univ C k = Some p -> matches f (k, p) false = false) ->
    (forall p, np = Some p -> matches f (k, p) false = false) ->
    memb k univ = true ->
    fetch univ f (fset C k np) = fetch univ f C.
Proof. exact fetch_unaffected'. Qed.
Print Assumptions C16_fetch_only_changes_on_match.

(* PartialFetch: an update that leaves the projection unchanged (the case objectChanged skips for that
   dependency, and only for that dependency) does not change the projected result. *)
Theorem C16_partial_fetch_unchanged_when_suppressed :
  forall univ f (C : coll) k o p n,
    f_suppress f = Some n -> supp_wf f -> C k = Some o -> projn n o = projn n p ->
    fetch univ f (fset C k (Some p)) = fetch univ f C.
Proof. exact fetch_suppressed. Qed.
Print Assumptions C16_partial_fetch_unchanged_when_suppressed.

(* Event streams, under ownership: every subscriber's stream (early or late registration) is per-key
   well-formed — Add only of an absent key, Update/Delete only of a present key with its current value, no
   no-op Update — and replaying it reproduces the contents; for every history and schedule.
   RegisterBatch(f, true) is ONE atomic model step (snapshot + insertion, as the real code does under h.mu); the
   atomicity of the real call is validated by the late-registration-under-churn cases (schedule sampling). *)
Theorem C16_events_consistent :
  forall (univ : list N) (tr : iobj -> (N -> filt -> list sobj) -> list dep * list (N * N))
         (owner : N -> N) (valid : iobj -> Prop),
    (forall i phi k v, valid i -> In (k, v) (snd (tr i phi)) -> owner k = fst i) ->
    (forall i phi psi,
        (forall d, In d (fst (tr i phi)) -> phi (d_id d) (d_filter d) = psi (d_id d) (d_filter d)) ->
        tr i phi = tr i psi) ->
    (forall i phi d, In d (fst (tr i phi)) -> supp_wf (d_filter d)) ->
    (forall i phi k v, valid i -> In (k, v) (snd (tr i phi)) -> k <> 0) ->
    forall xs, Forall (ProofsInv.act_valid valid) xs ->
    let W := run univ tr w0 xs in
    forall h evs, In (h, evs) (d_handlers (wD W)) ->
      stream_wf fempty evs = true /\ forall k, replay evs k = d_outputs (wD W) k.
Proof. exact events_consistent. Qed.
Print Assumptions C16_events_consistent.

(* Without ownership the replay half still holds (K5 histories included): *)
(* for every subscriber, replaying what it was sent reproduces the contents, after any history and schedule. *)
Theorem C16_events_replay :
  forall (univ : list N) (tr : iobj -> (N -> filt -> list sobj) -> list dep * list (N * N)) (valid : iobj -> Prop),
    (forall i phi k v, valid i -> In (k, v) (snd (tr i phi)) -> k <> 0) ->
    forall xs, Forall (ProofsEvents.act_valid valid) xs ->
    let W := run univ tr w0 xs in
    forall h evs, In (h, evs) (d_handlers (wD W)) -> forall k, replay evs k = d_outputs (wD W) k.
Proof. exact events_replay. Qed.
Print Assumptions C16_events_replay.

(* ---- joined shapes (join.go, mergejoin.go) *)

(* JoinWithMergeCollection: for every merge function, every event sequence on the sub-collections and every
   interleaving of their listeners, once nothing is in flight the contents are the merge of the holders in
   collection order. *)
Theorem C16_mergejoin_state_is_function :
  forall (n : nat) (mg : list N -> N) xs,
    let W := mrun n mg mw0 xs in
    (forall i, mw_q W i = []) -> forall k, mw_out W k = merged n mg (mw_subs W) k.
Proof. exact mergejoin_state_is_function. Qed.
Print Assumptions C16_mergejoin_state_is_function.

(* ... and every subscriber (late ones start with Adds of the current contents) replays to the contents. *)
Theorem C16_mergejoin_events_replay :
  forall (n : nat) (mg : list N -> N) xs,
    let W := mrun n mg mw0 xs in
    forall h evs, In (h, evs) (mw_handlers W) -> forall k, replay evs k = mw_out W k.
Proof. exact mergejoin_events_replay. Qed.
Print Assumptions C16_mergejoin_events_replay.

(* but its streams are NOT well-formed: the Delete of the last holder is emitted twice
   (finding mergejoin-delete-emitted-twice; reproduced on the real krt by the class-mergejoin-with-full-delete cases) *)
Theorem C16_mergejoin_stream_wellformed_refuted :
  let W := mrun 1 (fun vs => fold_left (fun acc v => acc * 10 + v + 1) vs 0) mw0 mj_witness in
  mw_handlers W = [(1, [EAdd 7 1; EDel 7 1; EDel 7 0])] /\
  stream_wf_weak fempty [EAdd 7 1; EDel 7 1; EDel 7 0] = false.
Proof. exact mergejoin_double_delete. Qed.
Print Assumptions C16_mergejoin_stream_wellformed_refuted.

(* JoinCollection (conflict resolving): for every event sequence and interleaving, once nothing is in flight
   processedState — what a late RegisterBatch(f, true) replays — and the replay of every subscriber's stream equal
   the contents, i.e. the first collection holding a key wins. *)
Theorem C16_join_converges :
  forall (n : nat) xs, Forall (jact_ok n) xs ->
    let W := jrun n jw0 xs in
    (forall i, jw_q W i = []) ->
    (forall k, jw_proc W k = join_get n (jw_subs W) k) /\
    (forall h evs, In (h, evs) (jw_handlers W) -> forall k, replay evs k = join_get n (jw_subs W) k).
Proof. exact join_converges. Qed.
Print Assumptions C16_join_converges.

Theorem C16_join_events_replay :
  forall (n : nat) xs, Forall (jact_ok n) xs ->
    let W := jrun n jw0 xs in
    forall h evs, In (h, evs) (jw_handlers W) -> forall k, replay evs k = jw_proc W k.
Proof. exact join_events_replay. Qed.
Print Assumptions C16_join_events_replay.

(* but a join's stream is NOT well-formed for every schedule: refreshEvents reads the live sub-collections, so
   with two Adds of one key in flight the subscriber's first event for the key is an Update
   (finding join-inflight-unknown-key; harness/c16/join_inflight_demo_test.go hits it on the real krt) *)
Theorem C16_join_stream_wellformed_refuted :
  let W := jrun 2 jw0 join_inflight_witness in
  jw_handlers W = [(1, [EUpd 7 2 1])] /\ stream_wf_weak fempty [EUpd 7 2 1] = false /\
  (forall i, In i [0; 1] -> jw_q W i = []).
Proof. exact join_inflight_unknown_key. Qed.
Print Assumptions C16_join_stream_wellformed_refuted.

(* The table-driven transformations used by the correspondence harness satisfy the purity hypothesis. *)
Theorem C16_table_transformations_pure :
  forall progs i phi psi,
    (forall d, In d (fst (tr_dsl progs i phi)) -> phi (d_id d) (d_filter d) = psi (d_id d) (d_filter d)) ->
    tr_dsl progs i phi = tr_dsl progs i psi.
Proof. exact tr_dsl_pure. Qed.
Print Assumptions C16_table_transformations_pure.

(* hypotheses are satisfiable by a transformation that fetches: inputs (a, 100 + a) emit key 50 + a *)
Example C16_ownership_satisfiable : forall i phi k v,
  owned_valid i -> In (k, v) (snd (tr_dsl owned_progs i phi)) -> (fun k => k - 50) k = fst i.
Proof. exact owned_example. Qed.
(* and with the other iteration order the K5 history gives the right contents *)
Example C16_k5_depends_on_iteration_order :
  d_outputs (wD (run [1; 2; 3] (tr_dsl (lookup_prog k5_progs_owner)) w0
                   (firstn 6 k5_acts_owner ++ [ADeliverS [1; 2]]))) 40 = Some 7.
Proof. exact k5_owner_other_order. Qed.
