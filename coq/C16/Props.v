(* C16 property theorems only. *)
From V Require Import lib.Verdict C16.Model C16.Proofs.
