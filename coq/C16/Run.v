(* Evaluation of harness cases for C16.  One case = one history on a fresh pipeline
   P (static) + S 0, S 1 (static) -> D = NewManyCollection(P, table-driven transformation). *)
From V Require Export lib.Verdict C16.Model C16.JoinModel.
Open Scope N_scope.

(* what the harness observed on the real collection at a quiescent point *)
Record obs := {
  o_list : list (key * N);                 (* D.List() *)
  o_gets : list (key * option N);          (* D.GetKey(k) probes *)
  o_index : list (key * list key);         (* Index(val mod 3).Lookup(n) -> keys *)
  o_fetch : list key;                      (* FetchOrList(D, FilterGeneric(val odd)) -> keys *)
  o_events : list (N * list oev)           (* per handler: events received since the previous observation *)
}.

Inductive ract :=
| RAct (x : act)                           (* a source mutation or a handler registration *)
| RDeliverP | RDeliverS                    (* D's queue processes the oldest P / S batch *)
| RDrain                                   (* ... until both queues are empty (P batches first) *)
| RTrace (l : list key)                    (* input keys in the order the real transformation was invoked
                                              between this point and the next observation *)
| RObs (o : obs).

(* joined shapes: mutations of the sub-collections (one at a time, each followed by quiescence), handler
   registrations, observations of the joined collection *)
Inductive jstep :=
| JPut (sub k v : N) | JDel (sub k : N) | JRegister (h : N)
| JObs (l : list (key * N)) (gets : list (key * option N)) (evs : list (N * list oev)).

Inductive case :=
| JoinHist (id kind nsubs : N) (steps : list jstep)   (* kind 0 JoinCollection, 1 WithJoinUnchecked, 2 JoinWithMergeCollection *)
| Hist (id : N) (univ : list key) (progs : list (N * prog)) (acts : list ract)
(* late registration under churn: final contents, and per handler (kept until quiescence?, its whole stream) *)
| Churn (id : N) (final : list (key * N)) (streams : list (bool * list oev)).
Definition case_id c := match c with Hist id _ _ _ => id | Churn id _ _ => id | JoinHist id _ _ _ => id end.

Definition prog_of (ps : list (N * prog)) (n : N) : prog :=
  match find (fun x => N.eqb (fst x) n) ps with
  | Some x => snd x
  | None => {| p_fetches := []; p_outs := [] |}
  end.

(* ---- small list utilities *)
Definition keys_eqb (a b : list key) := list_eqb N.eqb a b.
Definition subset (a b : list key) := forallb (fun k => memb k b) a.
Definition same_set (a b : list key) := subset a b && subset b a && Nat.eqb (List.length a) (List.length b).
Fixpoint nodupb (l : list key) : bool :=
  match l with [] => true | x :: r => negb (memb x r) && nodupb r end.

Definition oev_key (e : oev) := match e with EAdd k _ => k | EUpd k _ _ => k | EDel k _ => k end.
Definition oev_eqb (a b : oev) : bool :=
  match a, b with
  | EAdd k v, EAdd k' v' => N.eqb k k' && N.eqb v v'
  | EUpd k o n, EUpd k' o' n' => N.eqb k k' && N.eqb o o' && N.eqb n n'
  | EDel k o, EDel k' o' => N.eqb k k' && N.eqb o o'
  | _, _ => false
  end.
(* event order across different keys inside one batch follows Go set iteration: compare per key *)
Definition proj (k : key) (l : list oev) := filter (fun e => N.eqb (oev_key e) k) l.
Definition same_per_key (a b : list oev) : bool :=
  Nat.eqb (List.length a) (List.length b) &&
  forallb (fun k => list_eqb oev_eqb (proj k a) (proj k b)) (map oev_key a ++ map oev_key b).

Definition present_keys (D : dstate) : list key :=
  filter (fun k => match d_outputs D k with Some _ => true | None => false end) (d_okeys D).

Definition optN_eqb (a b : option N) := option_eqb N.eqb a b.

(* ---- evaluation state *)
Record rst := {
  r_w : world; r_trace : list key;
  r_seen : list (N * nat);                 (* per handler: how many model events were already compared *)
  r_hist : list (N * list oev);            (* per handler: all observed events so far *)
  r_hyp : bool;                            (* no key has had two producing inputs at any instant so far *)
  r_model : bool; r_prop : bool }.

Definition seen_of (l : list (N * nat)) (h : N) : nat :=
  match find (fun x => N.eqb (fst x) h) l with Some x => snd x | None => O end.
Definition hist_of (l : list (N * list oev)) (h : N) : list oev :=
  match find (fun x => N.eqb (fst x) h) l with Some x => snd x | None => [] end.

Section Eval.
Variable univ : list key.
Variable progs : N -> prog.
Let tr := tr_dsl progs.

(* model side of one observation *)
Definition obs_model_ok (W : world) (seen : list (N * nat)) (o : obs) : bool :=
  let D := wD W in
  forallb (fun kv => optN_eqb (d_outputs D (fst kv)) (Some (snd kv))) (o_list o) &&
  Nat.eqb (List.length (o_list o)) (List.length (present_keys D)) && nodupb (map fst (o_list o)) &&
  forallb (fun kv => optN_eqb (d_outputs D (fst kv)) (snd kv)) (o_gets o) &&
  forallb (fun nl => same_set (snd nl) (index_lookup D (fst nl)) && nodupb (snd nl)) (o_index o) &&
  same_set (o_fetch o) (filter (fun k => match d_outputs D k with Some v => N.odd v | None => false end) (present_keys D)) &&
  nodupb (o_fetch o) &&
  Nat.eqb (List.length (o_events o)) (List.length (d_handlers D)) &&
  forallb (fun he => same_per_key (snd he) (skipn (seen_of seen (fst he)) (hist_of (d_handlers D) (fst he)))) (o_events o).

(* independent recomputation: the union over the current primary inputs of tr(input, current secondaries) *)
Definition spec_pairs (W : world) : list (key * N) :=
  flat_map (fun a =>
    let l := out_of univ tr W a in
    map (fun k => (k, match gfind l k with Some v => v | None => 0 end)) (gkeys l))
    (filter (fun a => match wP W a with Some _ => true | None => false end) (wPdom W)).
Definition spec_get (sp : list (key * N)) (k : key) : option N :=
  match find (fun kv => N.eqb (fst kv) k) sp with Some kv => Some (snd kv) | None => None end.

(* property oracle on one observation; hist = all events each handler has received so far *)
Definition obs_prop_ok (W : world) (hist : list (N * list oev)) (o : obs) : bool :=
  let sp := spec_pairs W in
  if negb (nodupb (map fst sp)) then true            (* two inputs produce one key now: outside the property *)
  else
    forallb (fun kv => optN_eqb (spec_get sp (fst kv)) (Some (snd kv))) (o_list o) &&
    Nat.eqb (List.length (o_list o)) (List.length sp) && nodupb (map fst (o_list o)) &&
    forallb (fun kv => optN_eqb (spec_get sp (fst kv)) (snd kv)) (o_gets o) &&
    forallb (fun nl => same_set (snd nl) (map fst (filter (fun kv => N.eqb (oidx (snd kv)) (fst nl)) sp)) && nodupb (snd nl))
      (o_index o) &&
    same_set (o_fetch o) (map fst (filter (fun kv => N.odd (snd kv)) sp)) && nodupb (o_fetch o) &&
    forallb (fun he =>
      stream_wf fempty (snd he) &&
      forallb (fun kv => optN_eqb (replay (snd he) (fst kv)) (Some (snd kv))) sp &&
      forallb (fun e => match replay (snd he) (oev_key e) with
                        | Some v => optN_eqb (spec_get sp (oev_key e)) (Some v)
                        | None => true end) (snd he)) hist.

Definition count_upd (its : list item) : list key :=
  flat_map (fun it => match it with ItemUpd i => [fst i] | ItemDel _ => [] end) its.

Definition rstep1 (s : rst) (x : ract) : rst :=
  match x with
  | RDrain => s
  | RAct a =>
      {| r_w := exec univ tr (r_w s) a; r_trace := r_trace s; r_seen := r_seen s;
         r_hist := match a with ARegister h => r_hist s ++ [(h, [])] | _ => r_hist s end;
         r_hyp := r_hyp s && nodupb (map fst (spec_pairs (exec univ tr (r_w s) a)));
         r_model := r_model s; r_prop := r_prop s |}
  | RTrace l =>
      {| r_w := r_w s; r_trace := l; r_seen := r_seen s; r_hist := r_hist s; r_hyp := r_hyp s;
         r_model := r_model s && match r_trace s with [] => true | _ => false end; r_prop := r_prop s |}
  | RDeliverP =>
      let W := r_w s in
      match qP W with
      | [] => {| r_w := W; r_trace := r_trace s; r_seen := r_seen s; r_hist := r_hist s; r_hyp := r_hyp s; r_model := false; r_prop := r_prop s |}
      | b :: _ =>
          let want := count_upd (primary_items (wP W) b) in
          let n := List.length want in
          {| r_w := exec univ tr W ADeliverP; r_trace := skipn n (r_trace s); r_seen := r_seen s; r_hist := r_hist s; r_hyp := r_hyp s;
             r_model := r_model s && keys_eqb (firstn n (r_trace s)) want; r_prop := r_prop s |}
      end
  | RDeliverS =>
      let W := r_w s in
      match qS W with
      | [] => {| r_w := W; r_trace := r_trace s; r_seen := r_seen s; r_hist := r_hist s; r_hyp := r_hyp s; r_model := false; r_prop := r_prop s |}
      | (c, evs) :: _ =>
          let ch := changed_input_keys (wD W) c evs in
          let live := filter (fun a => match wP W a with Some _ => true | None => false end) ch in
          let n := List.length live in
          let order := firstn n (r_trace s) in
          {| r_w := exec univ tr W (ADeliverS order); r_trace := skipn n (r_trace s); r_seen := r_seen s; r_hist := r_hist s; r_hyp := r_hyp s;
             r_model := r_model s && same_set order live && nodupb order; r_prop := r_prop s |}
      end
  | RObs o =>
      let W := r_w s in
      let hist := map (fun h => (fst h, snd h ++ hist_of (o_events o) (fst h))) (r_hist s) in
      {| r_w := W; r_trace := r_trace s;
         r_seen := map (fun h => (fst h, List.length (snd h))) (d_handlers (wD W));
         r_hist := hist; r_hyp := r_hyp s;
         r_model := r_model s && obs_model_ok W (r_seen s) o &&
                    match r_trace s with [] => true | _ => false end &&
                    match qP W, qS W with [], [] => true | _, _ => false end;
         r_prop := r_prop s && (negb (r_hyp s) || obs_prop_ok W hist o) |}
  end.

Definition rstep (s : rst) (x : ract) : rst :=
  match x with
  | RDrain =>
      fold_left (fun s _ => match qP (r_w s), qS (r_w s) with
                            | _ :: _, _ => rstep1 s RDeliverP
                            | [], _ :: _ => rstep1 s RDeliverS
                            | [], [] => s end)
        (repeat tt (List.length (qP (r_w s)) + List.length (qS (r_w s)))) s
  | _ => rstep1 s x
  end.

Definition reval (acts : list ract) : rst :=
  fold_left rstep acts {| r_w := w0; r_trace := []; r_seen := []; r_hist := []; r_hyp := true; r_model := true; r_prop := true |}.
End Eval.

(* every stream is a per-key well-formed chain from the empty view (initial Adds first, no gap, nothing for an
   unknown key); a handler kept until quiescence replays to the final contents *)
Definition churn_ok (final : list (key * N)) (streams : list (bool * list oev)) : bool :=
  forallb (fun ks =>
    stream_wf fempty (snd ks) &&
    (negb (fst ks) ||
     (forallb (fun kv => optN_eqb (replay (snd ks) (fst kv)) (Some (snd kv))) final &&
      forallb (fun e => match replay (snd ks) (oev_key e) with
                        | Some _ => memb (oev_key e) (map fst final) | None => true end) (snd ks)))) streams.

(* ---- joined shapes: independent recomputation from the sub-collections' contents *)
Definition merge_vals (vs : list N) : N := fold_left (fun acc v => acc * 10 + v + 1) vs 0.
Definition holders (subs : N -> fmap N) (n : nat) (k : key) : list N :=
  flat_map (fun i => match subs (N.of_nat i) k with Some v => [v] | None => [] end) (seq 0 n).
Definition jspec (kind : N) (subs : N -> fmap N) (n : nat) (k : key) : option N :=
  match holders subs n k with
  | [] => None
  | v :: r => if N.eqb kind 2 then Some (merge_vals (v :: r)) else Some v      (* first collection wins *)
  end.
Record jst := { j_subs : N -> fmap N; j_keys : list key; j_hist : list (N * list oev); j_ok : bool }.
Definition jstep_eval (kind : N) (n : nat) (s : jst) (x : jstep) : jst :=
  match x with
  | JPut i k v => {| j_subs := fun i' => if N.eqb i' i then fset (j_subs s i) k (Some v) else j_subs s i';
                     j_keys := addk k (j_keys s); j_hist := j_hist s; j_ok := j_ok s |}
  | JDel i k => {| j_subs := fun i' => if N.eqb i' i then fset (j_subs s i) k None else j_subs s i';
                   j_keys := j_keys s; j_hist := j_hist s; j_ok := j_ok s |}
  | JRegister h => {| j_subs := j_subs s; j_keys := j_keys s; j_hist := j_hist s ++ [(h, [])]; j_ok := j_ok s |}
  | JObs l gets evs =>
      let sp := jspec kind (j_subs s) n in
      let hist := map (fun h => (fst h, snd h ++ hist_of evs (fst h))) (j_hist s) in
      let present := filter (fun k => match sp k with Some _ => true | None => false end) (j_keys s) in
      {| j_subs := j_subs s; j_keys := j_keys s; j_hist := hist;
         j_ok := j_ok s &&
           forallb (fun kv => optN_eqb (sp (fst kv)) (Some (snd kv))) l &&
           Nat.eqb (List.length l) (List.length present) && nodupb (map fst l) &&
           forallb (fun kv => optN_eqb (sp (fst kv)) (snd kv)) gets &&
           Nat.eqb (List.length evs) (List.length (j_hist s)) &&
           forallb (fun he =>
             (if N.eqb kind 2 then stream_wf fempty (snd he) else stream_wf_weak fempty (snd he)) &&
             forallb (fun k => optN_eqb (replay (snd he) k) (sp k)) (j_keys s) &&
             forallb (fun e => optN_eqb (replay (snd he) (oev_key e)) (sp (oev_key e))) (snd he)) hist |}
  end.
Definition join_ok (kind nsubs : N) (steps : list jstep) : bool :=
  j_ok (fold_left (jstep_eval kind (N.to_nat nsubs)) steps
          {| j_subs := fun _ => fempty; j_keys := []; j_hist := []; j_ok := true |}).

(* ---- joined shapes: the models of JoinModel.v predict every observation (each mutation is delivered
   before the next one, as the harness does) *)
Record jmst := { jm_j : jworld; jm_m : mworld; jm_seen : list (N * nat); jm_ok : bool }.
Definition jm_step (kind : N) (n : nat) (s : jmst) (x : jstep) : jmst :=
  let acts := match x with
              | JPut i k v => [JAPut i k v; JADeliver i]
              | JDel i k => [JADel i k; JADeliver i]
              | JRegister h => [JARegister h]
              | JObs _ _ _ => []
              end in
  let J := jrun n (jm_j s) acts in
  let M := mrun n merge_vals (jm_m s) acts in
  match x with
  | JObs l gets evs =>
      let get := if N.eqb kind 2 then mw_out M else join_get n (jw_subs J) in
      let hs := if N.eqb kind 2 then mw_handlers M else jw_handlers J in
      {| jm_j := J; jm_m := M; jm_seen := map (fun h => (fst h, List.length (snd h))) hs;
         jm_ok := jm_ok s &&
           forallb (fun kv => optN_eqb (get (fst kv)) (Some (snd kv))) l &&
           forallb (fun kv => optN_eqb (get (fst kv)) (snd kv)) gets &&
           Nat.eqb (List.length evs) (List.length hs) &&
           forallb (fun he => same_per_key (snd he) (skipn (seen_of (jm_seen s) (fst he)) (hist_of hs (fst he)))) evs |}
  | _ => {| jm_j := J; jm_m := M; jm_seen := jm_seen s; jm_ok := jm_ok s |}
  end.
Definition join_model_ok (kind nsubs : N) (steps : list jstep) : bool :=
  jm_ok (fold_left (jm_step kind (N.to_nat nsubs)) steps {| jm_j := jw0; jm_m := mw0; jm_seen := []; jm_ok := true |}).

Definition eval_case (c : case) : rst :=
  match c with
  | JoinHist _ kind nsubs steps =>
      {| r_w := w0; r_trace := []; r_seen := []; r_hist := []; r_hyp := true;
         r_model := join_model_ok kind nsubs steps;
         r_prop := join_ok kind nsubs steps |}
  | Hist _ u ps acts => reval u (prog_of ps) acts
  | Churn _ final streams =>
      {| r_w := w0; r_trace := []; r_seen := []; r_hist := []; r_hyp := true; r_model := true;
         r_prop := churn_ok final streams |}
  end.

(* model_ok: the model predicts every observation (state, lookups, per-key event streams, and the set of
   inputs the real code recomputed on each secondary event) *)
Definition model_ok (c : case) : bool := r_model (eval_case c).
(* prop_ok: the observed contents equal the independent recomputation from the current inputs, and every
   handler's stream is well-formed and replays to the observed contents *)
Definition prop_ok (c : case) : bool := r_prop (eval_case c).

Definition mismatches := check_all case_id model_ok prop_ok.
