(* C16 proofs, part 3: what one run of handleChangedPrimaryInputEvents establishes, under static key
   ownership (every output key belongs to one fixed input). *)
From Coq Require Import List NArith Bool Lia.
From V Require Import C16.Model C16.ProofsBase C16.ProofsDep.
Import ListNotations.
Open Scope N_scope.
Arguments extr_mem : simpl never.

(* ---- GroupUnique *)
Lemma gkeys_fold k : forall (l : list (key * N)) acc,
  In k (fold_left (fun acc kv => addk (fst kv) acc) l acc) <-> In k acc \/ exists v, In (k, v) l.
Proof.
  induction l as [|[k0 v0] l IH]; intros acc; cbn [fold_left].
  - split; [auto|intros [H|[v []]]; exact H].
  - rewrite IH. cbn [fst]. rewrite addk_In. split.
    + intros [[->|H]|[v H]]; [right; exists v0; left; reflexivity|left; exact H|right; exists v; right; exact H].
    + intros [H|[v [H|H]]]; [left; right; exact H|inversion H; subst; left; left; reflexivity|right; exists v; exact H].
Qed.
Lemma gkeys_In l k : In k (gkeys l) <-> exists v, In (k, v) l.
Proof. unfold gkeys. rewrite gkeys_fold. split; [intros [[]|H]; exact H|auto]. Qed.
Lemma gfind_Some l k v : gfind l k = Some v -> In (k, v) l.
Proof.
  unfold gfind. destruct (find (fun kv : N * N => N.eqb (fst kv) k) (rev l)) as [[k0 v0]|] eqn:E; cbn; [|discriminate].
  intros H. inversion H; subst. apply find_some in E. destruct E as [E1 E2].
  cbn in E2. apply N.eqb_eq in E2. subst. apply in_rev. exact E1.
Qed.
Lemma gfind_None l k : gfind l k = None -> ~ In k (gkeys l).
Proof.
  unfold gfind. destruct (find (fun kv : N * N => N.eqb (fst kv) k) (rev l)) as [kv|] eqn:E; cbn; [discriminate|].
  intros _ H. apply gkeys_In in H. destruct H as [v H].
  apply in_rev in H. apply (find_none _ _ E (k, v)) in H.
  cbn in H. rewrite N.eqb_refl in H. discriminate.
Qed.

(* fields the output loops never touch *)
Definition frame (D D' : dstate) : Prop :=
  d_deps D' = d_deps D /\ d_maps D' = d_maps D /\ d_rev D' = d_rev D /\ d_extr D' = d_extr D /\
  d_ikeys D' = d_ikeys D /\ d_cols D' = d_cols D /\ d_handlers D' = d_handlers D /\ d_inputs D' = d_inputs D.
Lemma frame_refl D : frame D D.
Proof. unfold frame. repeat split; reflexivity. Qed.
Lemma frame_trans D1 D2 D3 : frame D1 D2 -> frame D2 D3 -> frame D1 D3.
Proof.
  unfold frame. intros (a1&a2&a3&a4&a5&a6&a7&a8) (b1&b2&b3&b4&b5&b6&b7&b8).
  repeat split; congruence.
Qed.

Lemma fold_outputs_spec (f : dstate * list oev -> key -> dstate * list oev) (g : key -> option N) :
  (forall De k, (forall k', d_outputs (fst (f De k)) k' = if N.eqb k' k then g k else d_outputs (fst De) k') /\
                frame (fst De) (fst (f De k))) ->
  forall L De,
    (forall k', d_outputs (fst (fold_left f L De)) k' = if memb k' L then g k' else d_outputs (fst De) k') /\
    frame (fst De) (fst (fold_left f L De)).
Proof.
  intros Hs L. induction L as [|k L IH]; intros De; cbn [fold_left].
  - split; [intros; reflexivity|apply frame_refl].
  - destruct (IH (f De k)) as [H1 H2]. destruct (Hs De k) as [H3 H4]. split.
    + intros k'. rewrite H1. cbn [memb existsb]. fold (memb k' L).
      destruct (memb k' L) eqn:Em.
      * rewrite orb_true_r. reflexivity.
      * rewrite orb_false_r. rewrite H3. destruct (N.eqb k' k) eqn:E; [|reflexivity].
        apply N.eqb_eq in E. subst. reflexivity.
    + eapply frame_trans; eauto.
Qed.

Section Commit.
Variable univ : list key.
Variable tr : iobj -> (N -> filt -> list sobj) -> list dep * list (key * N).
Variable owner : key -> key.
(* the inputs the property speaks about (e.g. "object of kind K"); everything put into P must be valid *)
Variable valid : iobj -> Prop.
Hypothesis H_owned : forall i phi k v, valid i -> In (k, v) (snd (tr i phi)) -> owner k = fst i.

Definition Dinv (D : dstate) : Prop :=
  (forall a ks k, d_maps D a = Some ks -> In k ks -> owner k = a) /\
  (forall k v, d_outputs D k = Some v -> exists ks, d_maps D (owner k) = Some ks /\ In k ks) /\
  rev_inv D /\
  (forall a ds d, d_deps D a = Some ds -> In d ds -> In (d_id d) (d_cols D)).

Definition same_rec (a : key) (D D' : dstate) : Prop :=
  d_deps D' a = d_deps D a /\ d_maps D' a = d_maps D a /\
  forall k, owner k = a -> d_outputs D' k = d_outputs D k.

(* D's record of input a is exactly what the transformation yields now *)
Definition rec_ok (S : N -> coll) (D : dstate) (a : key) (oi : option iobj) : Prop :=
  match oi with
  | Some i =>
      let r := tr i (fetcher univ S) in
      d_deps D a = Some (fst r) /\ d_maps D a = Some (gkeys (snd r)) /\
      forall k, In k (gkeys (snd r)) -> d_outputs D k = gfind (snd r) k
  | None => forall ks k, d_maps D a = Some ks -> In k ks -> d_outputs D k = None
  end.

Lemma same_rec_refl a D : same_rec a D D.
Proof. unfold same_rec. auto. Qed.
Lemma same_rec_trans a D1 D2 D3 : same_rec a D1 D2 -> same_rec a D2 D3 -> same_rec a D1 D3.
Proof.
  unfold same_rec. intros (a1&a2&a3) (b1&b2&b3). repeat split; try congruence.
  intros k Hk. rewrite b3, a3; auto.
Qed.

Lemma rec_ok_same S D D' b oi :
  Dinv D -> same_rec b D D' -> (forall i, oi = Some i -> fst i = b /\ valid i) -> rec_ok S D b oi -> rec_ok S D' b oi.
Proof.
  intros (Hown&_) (H1&H2&H3) Hk Hr. destruct oi as [i|]; cbn in *.
  - destruct Hr as (R1&R2&R3). rewrite H1, H2. repeat split; try assumption.
    intros k Hin. rewrite H3; [apply R3; exact Hin|].
    apply gkeys_In in Hin. destruct Hin as [v Hv]. destruct (Hk i eq_refl) as [Hk1 Hk2].
    rewrite (H_owned _ _ _ _ Hk2 Hv). exact Hk1.
  - intros ks k Hm Hin. rewrite H2 in Hm. rewrite H3; [eapply Hr; eauto|]. eapply Hown; eauto.
Qed.

(* ---- Add/Update branch *)
Lemma commit_upd_spec S D evs i :
  let r := tr i (fetcher univ S) in
  Dinv D -> valid i -> (forall d, In d (fst r) -> In (d_id d) (d_cols D)) ->
  let D' := fst (commit_upd (D, evs) i r) in
  Dinv D' /\ rec_ok S D' (fst i) (Some i) /\ (forall b, b <> fst i -> same_rec b D D') /\
  d_cols D' = d_cols D /\ d_handlers D' = d_handlers D.
Proof.
  intros r (Hown&Hout&Hrev&Hcols) Hvalid Hc.
  unfold commit_upd. cbn zeta. cbn [fst snd].
  set (a := fst i).
  set (D1 := dep_update D a (fst r)).
  destruct (dep_update_other D a (fst r)) as (M1&M2&M3&M4&M5&M6&M7). fold D1 in M1, M2, M3, M4, M5, M6, M7.
  set (newKeys := gkeys (snd r)).
  set (oldKeys := match d_maps D1 a with Some l => l | None => [] end).
  set (D2 := set_inputs (set_maps D1 (fset (d_maps D1) a (Some newKeys))) (fset (d_inputs D1) a (Some i))).
  set (allKeys := newKeys ++ filter (fun k => negb (memb k newKeys)) oldKeys).
  assert (Hold : oldKeys = match d_maps D a with Some l => l | None => [] end).
  { unfold oldKeys. rewrite M1. reflexivity. }
  assert (Hd1 : forall b, d_deps D1 b = if N.eqb b a then Some (fst r) else d_deps D b)
    by (intros b; apply dep_update_deps).
  pose proof (rev_inv_update D a (fst r) Hrev) as HR1. fold D1 in HR1.
  assert (E2deps : d_deps D2 = d_deps D1) by reflexivity.
  assert (E2maps : d_maps D2 = fset (d_maps D1) a (Some newKeys)) by reflexivity.
  assert (E2out : d_outputs D2 = d_outputs D1) by reflexivity.
  assert (E2rev : d_rev D2 = d_rev D1) by reflexivity.
  assert (E2extr : d_extr D2 = d_extr D1) by reflexivity.
  assert (E2ik : d_ikeys D2 = d_ikeys D1) by reflexivity.
  assert (E2cols : d_cols D2 = d_cols D1) by reflexivity.
  assert (E2h : d_handlers D2 = d_handlers D1) by reflexivity.
  clearbody D2 D1 oldKeys.
  match goal with |- context [fold_left ?f allKeys (D2, evs)] => set (F := f) end.
  assert (Hstep : forall De k,
    (forall k', d_outputs (fst (F De k)) k' = if N.eqb k' k then gfind (snd r) k else d_outputs (fst De) k') /\
    frame (fst De) (fst (F De k))).
  { intros [D0 e0] k. unfold F. cbn [fst].
    destruct (gfind (snd r) k) as [nv|] eqn:Eg; destruct (d_outputs D0 k) as [ov|] eqn:Eo.
    - destruct (N.eqb nv ov) eqn:En; cbn [fst].
      + split; [|apply frame_refl]. intros k'. destruct (N.eqb k' k) eqn:E; [|reflexivity].
        apply N.eqb_eq in E, En. subst. exact Eo.
      + split; [|unfold frame; cbn; repeat split; reflexivity].
        intros k'. cbn. unfold fset. reflexivity.
    - cbn [fst]. split; [|unfold frame; cbn; repeat split; reflexivity].
      intros k'. cbn. unfold fset. reflexivity.
    - cbn [fst]. split; [|unfold frame; cbn; repeat split; reflexivity].
      intros k'. cbn. unfold fset. reflexivity.
    - cbn [fst]. split; [|unfold frame; cbn; repeat split; reflexivity].
      intros k'. cbn. destruct (N.eqb k' k) eqn:E; [|reflexivity].
      apply N.eqb_eq in E. subst. exact Eo. }
  destruct (fold_outputs_spec F (gfind (snd r)) Hstep allKeys (D2, evs)) as [Ho Hf].
  cbn [fst] in Ho, Hf. set (D' := fst (fold_left F allKeys (D2, evs))) in *.
  destruct Hf as (F1&F2&F3&F4&F5&F6&F7&F8).
  assert (Hdeps : forall b, d_deps D' b = if N.eqb b a then Some (fst r) else d_deps D b).
  { intros b. rewrite F1, E2deps. apply Hd1. }
  assert (Hmaps : forall b, d_maps D' b = if N.eqb b a then Some newKeys else d_maps D b).
  { intros b. rewrite F2, E2maps. unfold fset. rewrite M1. reflexivity. }
  assert (Houts : forall k, d_outputs D' k = if memb k allKeys then gfind (snd r) k else d_outputs D k).
  { intros k. rewrite Ho, E2out, M2. reflexivity. }
  assert (Hnew_own : forall k, In k newKeys -> owner k = a).
  { intros k Hk. apply gkeys_In in Hk. destruct Hk as [v Hv]. eapply H_owned; eauto. }
  assert (Hall_own : forall k, In k allKeys -> owner k = a).
  { intros k Hk. unfold allKeys in Hk. apply in_app_iff in Hk. destruct Hk as [Hk|Hk]; [auto|].
    apply filter_In in Hk. destruct Hk as [Hk _]. rewrite Hold in Hk.
    destruct (d_maps D a) as [l|] eqn:El; [|destruct Hk]. eapply Hown; eauto. }
  assert (Hall_new : forall k, In k newKeys -> In k allKeys).
  { intros k Hk. unfold allKeys. apply in_app_iff. left. exact Hk. }
  assert (Hrev' : rev_inv D').
  { destruct HR1 as [R1 R2].
    split.
    - intros b ds d Hb Hd. rewrite F3, F4, E2rev, E2extr. apply (R1 b ds d); [|exact Hd].
      rewrite F1, E2deps in Hb. exact Hb.
    - intros b ds Hb. rewrite F5, E2ik. apply (R2 b ds).
      rewrite F1, E2deps in Hb. exact Hb. }
  assert (Hcols' : d_cols D' = d_cols D).
  { rewrite F6, E2cols. exact M4. }
  split; [|split; [|split; [|split]]].
  - (* Dinv *)
    split; [|split; [|split]].
    + intros b ks k Hm Hk. rewrite Hmaps in Hm. destruct (N.eqb b a) eqn:Eb.
      * apply N.eqb_eq in Eb. subst b. inversion Hm; subst ks. auto.
      * eapply Hown; eauto.
    + intros k v Hk. rewrite Houts in Hk. rewrite Hmaps.
      destruct (memb k allKeys) eqn:Em.
      * apply memb_In in Em. rewrite (Hall_own k Em), N.eqb_refl.
        exists newKeys. split; [reflexivity|].
        destruct (in_dec N.eq_dec k newKeys) as [Hi|Hn]; [exact Hi|].
        exfalso. apply gfind_Some in Hk. apply Hn. apply gkeys_In. eauto.
      * destruct (Hout k v Hk) as [ks [Hks Hin]].
        destruct (N.eqb (owner k) a) eqn:Eo; [|eauto].
        apply N.eqb_eq in Eo. rewrite Eo in Hks.
        exfalso. apply memb_false in Em. apply Em. unfold allKeys. apply in_app_iff.
        destruct (memb k newKeys) eqn:En; [left; apply memb_In; exact En|].
        right. apply filter_In. rewrite En. split; [|reflexivity]. rewrite Hold, Hks. exact Hin.
    + exact Hrev'.
    + intros b ds d Hb Hd. rewrite Hcols'. rewrite Hdeps in Hb. destruct (N.eqb b a) eqn:Eb.
      * inversion Hb; subst ds. auto.
      * eapply Hcols; eauto.
  - (* rec_ok *)
    cbn. fold r. fold a. rewrite Hdeps, Hmaps, N.eqb_refl. repeat split.
    intros k Hk. rewrite Houts. fold newKeys in Hk.
    assert (Hm : memb k allKeys = true) by (apply memb_In; auto). rewrite Hm. reflexivity.
  - intros b Hb. unfold same_rec. rewrite Hdeps, Hmaps.
    assert (E : N.eqb b a = false) by (apply N.eqb_neq; exact Hb). rewrite E. repeat split.
    intros k Hk. rewrite Houts. destruct (memb k allKeys) eqn:Em; [|reflexivity].
    apply memb_In in Em. apply Hall_own in Em. congruence.
  - exact Hcols'.
  - rewrite F7, E2h. exact M5.
Qed.

(* ---- Delete branch *)
Lemma commit_del_spec S D evs a :
  Dinv D ->
  let D' := fst (commit_del (D, evs) a) in
  Dinv D' /\ rec_ok S D' a None /\ (forall b, b <> a -> same_rec b D D') /\
  d_cols D' = d_cols D /\ d_handlers D' = d_handlers D.
Proof.
  intros (Hown&Hout&Hrev&Hcols).
  unfold commit_del. cbn zeta.
  set (ks := match d_maps D a with Some l => l | None => [] end).
  match goal with |- context [fold_left ?f ks (D, evs)] => set (F := f) end.
  assert (Hstep : forall De k,
    (forall k', d_outputs (fst (F De k)) k' = if N.eqb k' k then None else d_outputs (fst De) k') /\
    frame (fst De) (fst (F De k))).
  { intros [D0 e0] k. unfold F. cbn [fst].
    destruct (d_outputs D0 k) as [ov|] eqn:Eo; cbn [fst].
    - split; [|unfold frame; cbn; repeat split; reflexivity]. intros k'. cbn. unfold fset. reflexivity.
    - split; [|apply frame_refl]. intros k'. destruct (N.eqb k' k) eqn:E; [|reflexivity].
      apply N.eqb_eq in E. subst. exact Eo. }
  destruct (fold_outputs_spec F (fun _ => None) Hstep ks (D, evs)) as [Ho Hf].
  destruct (fold_left F ks (D, evs)) as [D1 evs1] eqn:Efold. cbn [fst] in *.
  destruct Hf as (F1&F2&F3&F4&F5&F6&F7&F8).
  set (D2 := set_inputs (set_maps D1 (fset (d_maps D1) a None)) (fset (d_inputs D1) a None)).
  destruct (dep_delete_other D2 a) as (M1&M2&M3&M4&M5&M6&M7).
  set (D' := dep_delete D2 a) in *.
  assert (Hdeps : forall b, d_deps D' b = if N.eqb b a then None else d_deps D b).
  { intros b. unfold D'. rewrite dep_delete_deps. unfold D2. cbn. rewrite F1. reflexivity. }
  assert (Hmaps : forall b, d_maps D' b = if N.eqb b a then None else d_maps D b).
  { intros b. rewrite M1. unfold D2. cbn. unfold fset. rewrite F2. reflexivity. }
  assert (Houts : forall k, d_outputs D' k = if memb k ks then None else d_outputs D k).
  { intros k. rewrite M2. unfold D2. cbn. apply Ho. }
  assert (Hks_own : forall k, In k ks -> owner k = a).
  { intros k Hk. unfold ks in Hk. destruct (d_maps D a) as [l|] eqn:El; [|destruct Hk]. eapply Hown; eauto. }
  assert (Hcols' : d_cols D' = d_cols D).
  { rewrite M4. unfold D2. cbn. exact F6. }
  split; [|split; [|split; [|split]]].
  - split; [|split; [|split]].
    + intros b l k Hm Hk. rewrite Hmaps in Hm. destruct (N.eqb b a); [discriminate|]. eapply Hown; eauto.
    + intros k v Hk. rewrite Houts in Hk. destruct (memb k ks) eqn:Em; [discriminate|].
      destruct (Hout k v Hk) as [l [Hl Hin]]. rewrite Hmaps.
      destruct (N.eqb (owner k) a) eqn:Eo; [|eauto].
      apply N.eqb_eq in Eo. rewrite Eo in Hl. exfalso. apply memb_false in Em. apply Em.
      unfold ks. rewrite Hl. exact Hin.
    + assert (Hr2 : rev_inv D2).
      { destruct Hrev as [R1 R2]. split.
        - intros b ds d Hb Hd. unfold D2 in *. cbn in *. rewrite F1 in Hb. rewrite F3, F4. eapply R1; eauto.
        - intros b ds Hb. unfold D2 in *. cbn in *. rewrite F1 in Hb. rewrite F5. eapply R2; eauto. }
      apply rev_inv_delete. exact Hr2.
    + intros b ds d Hb Hd. rewrite Hcols'. rewrite Hdeps in Hb. destruct (N.eqb b a); [discriminate|].
      eapply Hcols; eauto.
  - cbn. intros l k Hm. rewrite Hmaps, N.eqb_refl in Hm. discriminate.
  - intros b Hb. unfold same_rec. rewrite Hdeps, Hmaps.
    assert (E : N.eqb b a = false) by (apply N.eqb_neq; exact Hb). rewrite E. repeat split.
    intros k Hk. rewrite Houts. destruct (memb k ks) eqn:Em; [|reflexivity].
    apply memb_In in Em. apply Hks_own in Em. congruence.
  - exact Hcols'.
  - rewrite M5. unfold D2. cbn. exact F7.
Qed.

(* ---- a whole run of handleChangedPrimaryInputEvents *)
Definition item_key (it : item) : key := match it with ItemDel a => a | ItemUpd i => fst i end.
Definition lastf (items : list item) (la : key -> option item) : key -> option item :=
  fold_left (fun la it => fun a => if N.eqb (item_key it) a then Some it else la a) items la.

Definition St (S : N -> coll) (D D0 : dstate) (la : key -> option item) : Prop :=
  forall a, match la a with
            | None => same_rec a D D0
            | Some (ItemUpd i) => fst i = a -> rec_ok S D0 a (Some i)
            | Some (ItemDel _) => rec_ok S D0 a None
            end.

Definition commit (S : N -> coll) (De : dstate * list oev) (it : item) : dstate * list oev :=
  match it with
  | ItemDel a => commit_del De a
  | ItemUpd i => commit_upd De i (tr i (fetcher univ S))
  end.

Definition cols_ok (S : N -> coll) (items : list item) (D : dstate) : Prop :=
  forall i d, In (ItemUpd i) items -> In d (fst (tr i (fetcher univ S))) -> In (d_id d) (d_cols D).

Lemma fold_commit_spec S D : forall items D0 evs la,
  Dinv D0 -> St S D D0 la -> cols_ok S items D0 ->
  (forall i, In (ItemUpd i) items -> valid i) -> (forall a i, la a = Some (ItemUpd i) -> valid i) ->
  let D' := fst (fold_left (commit S) items (D0, evs)) in
  Dinv D' /\ St S D D' (lastf items la) /\ d_handlers D' = d_handlers D0.
Proof.
  induction items as [|it items IH]; intros D0 evs la Hinv Hst Hc Hiv Hlv; cbn [fold_left lastf].
  - auto.
  - destruct (commit S (D0, evs) it) as [D1 evs1] eqn:Ec.
    assert (Hone : Dinv D1 /\ rec_ok S D1 (item_key it)
                     (match it with ItemDel _ => None | ItemUpd i => Some i end) /\
                   (forall b, b <> item_key it -> same_rec b D0 D1) /\ d_cols D1 = d_cols D0 /\
                   d_handlers D1 = d_handlers D0).
    { destruct it as [a|i]; cbn [commit] in Ec.
      - pose proof (commit_del_spec S D0 evs a Hinv) as H. rewrite Ec in H. exact H.
      - assert (Hci : forall d, In d (fst (tr i (fetcher univ S))) -> In (d_id d) (d_cols D0)).
        { intros d Hd. eapply Hc; [left; reflexivity|exact Hd]. }
        pose proof (commit_upd_spec S D0 evs i Hinv (Hiv i (or_introl eq_refl)) Hci) as H. rewrite Ec in H. exact H. }
    destruct Hone as (Hinv1&Hrec&Hoth&Hcl&Hh).
    assert (Hst1 : St S D D1 (fun a => if N.eqb (item_key it) a then Some it else la a)).
    { intros a. destruct (N.eqb (item_key it) a) eqn:E.
      - apply N.eqb_eq in E. subst a. destruct it; [exact Hrec|intros _; exact Hrec].
      - apply N.eqb_neq in E. assert (Hs : same_rec a D0 D1) by (apply Hoth; congruence).
        specialize (Hst a). destruct (la a) as [[a0|i0]|] eqn:Ela.
        + apply (rec_ok_same S D0 D1 a None Hinv Hs); [intros i1 H1; discriminate|exact Hst].
        + intros Hk. apply (rec_ok_same S D0 D1 a (Some i0) Hinv Hs); [|exact (Hst Hk)].
          intros i1 H1. injection H1 as <-. split; [exact Hk|]. apply (Hlv a). exact Ela.
        + eapply same_rec_trans; eauto. }
    assert (Hc1 : cols_ok S items D1).
    { intros i d Hi Hd. rewrite Hcl. eapply Hc; [right; exact Hi|exact Hd]. }
    assert (Hiv1 : forall i, In (ItemUpd i) items -> valid i) by (intros i Hi; apply Hiv; right; exact Hi).
    assert (Hlv1 : forall a i, (if N.eqb (item_key it) a then Some it else la a) = Some (ItemUpd i) -> valid i).
    { intros a i. destruct (N.eqb (item_key it) a); [|apply Hlv].
      intros H. inversion H; subst. apply Hiv. left. reflexivity. }
    destruct (IH D1 evs1 _ Hinv1 Hst1 Hc1 Hiv1 Hlv1) as (R1&R2&R3).
    split; [exact R1|split; [exact R2|congruence]].
Qed.

Lemma lastf_none items : forall la a,
  (forall it, In it items -> item_key it <> a) -> lastf items la a = la a.
Proof.
  unfold lastf. induction items as [|it items IH]; intros la a H; cbn [fold_left]; [reflexivity|].
  etransitivity; [apply IH; intros it' Hi; apply H; right; exact Hi|].
  cbn beta.
  assert (E : N.eqb (item_key it) a = false) by (apply N.eqb_neq; apply H; left; reflexivity).
  rewrite E. reflexivity.
Qed.
Lemma lastf_cases items : forall la a,
  lastf items la a = la a \/ exists it, In it items /\ item_key it = a /\ lastf items la a = Some it.
Proof.
  unfold lastf. induction items as [|it items IH]; intros la a; cbn [fold_left]; [left; reflexivity|].
  destruct (IH (fun a0 => if N.eqb (item_key it) a0 then Some it else la a0) a) as [H|[it' (H1&H2&H3)]].
  - destruct (N.eqb (item_key it) a) eqn:E.
    + right. exists it. split; [left; reflexivity|]. split; [apply N.eqb_eq; exact E|].
      etransitivity; [exact H|]. cbn beta; try rewrite E; reflexivity.
    + left. etransitivity; [exact H|]. cbn beta; try rewrite E; reflexivity.
  - right. exists it'. split; [right; exact H1|]. split; assumption.
Qed.
(* the last item for a really is last: nothing for a follows it *)
Lemma lastf_app items1 items2 la a :
  lastf (items1 ++ items2) la a = lastf items2 (lastf items1 la) a.
Proof. unfold lastf. rewrite fold_left_app. reflexivity. Qed.

(* phase 1 only registers collections *)
Definition phase1 (S : N -> coll) (D : dstate) (items : list item) : dstate :=
  fold_left (fun D it =>
    match it with
    | ItemDel _ => D
    | ItemUpd i => set_cols D (fold_left (fun cs d => addk (d_id d) cs) (fst (tr i (fetcher univ S))) (d_cols D))
    end) items D.

Lemma fold_addk_mono c : forall (ds : list dep) cs, In c cs -> In c (fold_left (fun cs d => addk (d_id d) cs) ds cs).
Proof. induction ds as [|d ds IH]; intros cs H; cbn; [exact H|]. apply IH. apply addk_In. right. exact H. Qed.
Lemma fold_addk_adds : forall (ds : list dep) cs d, In d ds -> In (d_id d) (fold_left (fun cs d => addk (d_id d) cs) ds cs).
Proof.
  induction ds as [|d0 ds IH]; intros cs d H; [destruct H|]. cbn. destruct H as [->|H]; [|apply IH; exact H].
  apply fold_addk_mono. apply addk_In. left. reflexivity.
Qed.

Lemma phase1_spec S : forall items D,
  let D1 := phase1 S D items in
  d_deps D1 = d_deps D /\ d_maps D1 = d_maps D /\ d_outputs D1 = d_outputs D /\ d_rev D1 = d_rev D /\
  d_extr D1 = d_extr D /\ d_ikeys D1 = d_ikeys D /\ d_handlers D1 = d_handlers D /\
  (forall c, In c (d_cols D) -> In c (d_cols D1)) /\ cols_ok S items D1.
Proof.
  induction items as [|it items IH]; intros D; cbn [phase1 fold_left].
  - repeat split; auto. intros i d [].
  - fold (phase1 S (match it with ItemDel _ => D
        | ItemUpd i => set_cols D (fold_left (fun cs d => addk (d_id d) cs) (fst (tr i (fetcher univ S))) (d_cols D)) end) items).
    destruct it as [a|i].
    + destruct (IH D) as (a1&a2&a3&a4&a5&a6&a7&a8&a9). repeat split; auto.
      intros i d [Hi|Hi] Hd; [discriminate|eapply a9; eauto].
    + set (D0 := set_cols D _).
      destruct (IH D0) as (a1&a2&a3&a4&a5&a6&a7&a8&a9). repeat split; auto.
      * intros c Hc. apply a8. unfold D0. cbn. apply fold_addk_mono. exact Hc.
      * intros i' d [Hi|Hi] Hd; [|eapply a9; eauto]. inversion Hi; subst i'.
        apply a8. unfold D0. cbn. apply fold_addk_adds. exact Hd.
Qed.

Lemma Dinv_phase1 S D items : Dinv D -> Dinv (phase1 S D items).
Proof.
  intros (H1&H2&H3&H4). destruct (phase1_spec S items D) as (a1&a2&a3&a4&a5&a6&a7&a8&a9).
  split; [|split; [|split]].
  - intros a ks k. rewrite a2. apply H1.
  - intros k v. rewrite a3, a2. apply H2.
  - destruct H3 as [R1 R2]. split.
    + intros a ds d. rewrite a1, a4, a5. apply R1.
    + intros a ds. rewrite a1, a6. apply R2.
  - intros a ds d Ha Hd. apply a8. rewrite a1 in Ha. eapply H4; eauto.
Qed.

Lemma handle_items_unfold S D items :
  handle_items univ tr S D items =
  distribute (fst (fold_left (commit S) items (phase1 S D items, [])))
             (snd (fold_left (commit S) items (phase1 S D items, []))).
Proof.
  unfold handle_items. fold (phase1 S D items).
  change (fold_left (fun De it => match it with ItemDel a => commit_del De a
            | ItemUpd i => commit_upd De i (tr i (fetcher univ S)) end) items (phase1 S D items, []))
    with (fold_left (commit S) items (phase1 S D items, [])).
  destruct (fold_left (commit S) items (phase1 S D items, [])); reflexivity.
Qed.

Lemma distribute_fields D evs :
  d_deps (distribute D evs) = d_deps D /\ d_maps (distribute D evs) = d_maps D /\
  d_outputs (distribute D evs) = d_outputs D /\ d_rev (distribute D evs) = d_rev D /\
  d_extr (distribute D evs) = d_extr D /\ d_ikeys (distribute D evs) = d_ikeys D /\
  d_cols (distribute D evs) = d_cols D.
Proof. unfold distribute. destruct evs; cbn; repeat split; reflexivity. Qed.

Lemma handle_items_spec S D items :
  Dinv D -> (forall i, In (ItemUpd i) items -> valid i) ->
  let D' := handle_items univ tr S D items in
  Dinv D' /\ St S D D' (lastf items (fun _ => None)).
Proof.
  intros Hinv Hiv. cbn zeta. rewrite handle_items_unfold.
  pose proof (Dinv_phase1 S D items Hinv) as Hinv1.
  destruct (phase1_spec S items D) as (a1&a2&a3&a4&a5&a6&a7&a8&a9).
  assert (Hst0 : St S D (phase1 S D items) (fun _ => None)).
  { intros a. unfold same_rec. rewrite a1, a2, a3. auto. }
  destruct (fold_commit_spec S D items (phase1 S D items) [] (fun _ => None) Hinv1 Hst0 a9 Hiv) as (R1&R2&_).
  { intros a i H. discriminate. }
  set (Df := fst (fold_left (commit S) items (phase1 S D items, []))) in *.
  set (ev := snd (fold_left (commit S) items (phase1 S D items, []))).
  destruct (distribute_fields Df ev) as (d1&d2&d3&d4&d5&d6&d7).
  split.
  - destruct R1 as (H1&H2&H3&H4). split; [|split; [|split]].
    + intros a ks k. rewrite d2. apply H1.
    + intros k v. rewrite d3, d2. apply H2.
    + destruct H3 as [X1 X2]. split.
      * intros a ds d. rewrite d1, d4, d5. apply X1.
      * intros a ds. rewrite d1, d6. apply X2.
    + intros a ds d. rewrite d1, d7. apply H4.
  - intros a. specialize (R2 a). destruct (lastf items (fun _ => None) a) as [[a0|i0]|].
    + cbn in *. intros ks k. rewrite d2, d3. apply R2.
    + intros Hk. specialize (R2 Hk). cbn in *. rewrite d1, d2. destruct R2 as (x1&x2&x3).
      repeat split; try assumption. intros k Hin. rewrite d3. apply x3. exact Hin.
    + unfold same_rec in *. rewrite d1, d2. destruct R2 as (x1&x2&x3). repeat split; try assumption.
      intros k Hk. rewrite d3. apply x3. exact Hk.
Qed.
End Commit.
