(* C16 proofs. *)
From Coq Require Import List NArith Bool Lia.
From V Require Import C16.Model.
Import ListNotations.
Open Scope N_scope.
