(* C16 proofs: aggregation of the parts.
   ProofsBase   sets-as-lists, Fetch vs. Matches (fetch_unaffected), soundness of changedInputKeys (changed_sound)
   ProofsDep    dependencyState.update/delete keep the reverse index consistent
   ProofsCommit what one run of handleChangedPrimaryInputEvents establishes under static key ownership
   ProofsInv    invariant over all interleavings of mutations and deliveries; state_is_function
   ProofsEvents every subscriber's stream replays to the contents
   ProofsRev    the reverse-index invariant and changedInputKeys soundness for EVERY transformation
   ProofsWf     per-key well-formedness of every subscriber's stream under ownership
   JoinProofs   merge join: contents = merge over the holders, replay, the double Delete
   JoinProofs2  conflict-resolving join: processedState and replays converge to first-wins; the in-flight witness
   ProofsK5     purity of the table-driven transformations, satisfiable ownership, K5 witnesses *)
From V Require Export C16.Model C16.ProofsBase C16.ProofsDep C16.ProofsCommit C16.ProofsInv C16.ProofsEvents C16.ProofsRev C16.ProofsWf C16.ProofsK5 C16.JoinModel C16.JoinProofs C16.JoinProofs2.
