(* C16 proofs, part 10: the conflict-resolving JoinCollection. *)
From Coq Require Import List NArith Bool Lia Arith.
From V Require Import C16.Model C16.JoinModel C16.ProofsBase C16.ProofsCommit C16.ProofsEvents C16.JoinProofs.
Import ListNotations.
Open Scope N_scope.

Definition lastev (k : key) (es : list jev) (acc : option jev) : option jev :=
  fold_left (fun acc e => if N.eqb (je_key e) k then Some e else acc) es acc.
Lemma lastev_app k es1 es2 acc : lastev k (es1 ++ es2) acc = lastev k es2 (lastev k es1 acc).
Proof. unfold lastev. apply fold_left_app. Qed.
Lemma lastev_cases k : forall es acc e, lastev k es acc = Some e ->
  (In e es /\ je_key e = k) \/ (acc = Some e /\ forall e', In e' es -> je_key e' <> k).
Proof.
  unfold lastev. induction es as [|x es IH]; intros acc e H; cbn [fold_left] in H.
  - right. split; [exact H|intros e' []].
  - apply IH in H. destruct H as [[H1 H2]|[H1 H2]].
    + left. split; [right; exact H1|exact H2].
    + destruct (N.eqb (je_key x) k) eqn:E.
      * inversion H1; subst. left. split; [left; reflexivity|apply N.eqb_eq; exact E].
      * right. split; [exact H1|]. intros e' [->|He']; [apply N.eqb_neq; exact E|apply H2; exact He'].
Qed.
Lemma lastev_none k : forall es acc, (forall e, In e es -> je_key e <> k) -> lastev k es acc = acc.
Proof.
  unfold lastev. induction es as [|x es IH]; intros acc H; cbn [fold_left]; [reflexivity|].
  rewrite IH by (intros e He; apply H; right; exact He).
  assert (E : N.eqb (je_key x) k = false) by (apply N.eqb_neq; apply H; left; reflexivity).
  cbn beta. rewrite E. reflexivity.
Qed.
Lemma lastev_indep k : forall es acc acc', (exists e, In e es /\ je_key e = k) -> lastev k es acc = lastev k es acc'.
Proof.
  unfold lastev. induction es as [|x es IH]; intros acc acc' [e [He Hk]]; [destruct He|].
  cbn [fold_left]. destruct (N.eqb (je_key x) k) eqn:E; [reflexivity|].
  destruct He as [->|He]; [apply N.eqb_neq in E; contradiction|]. apply IH. exists e. split; assumption.
Qed.

(* ---- index ranges *)
Lemma firstin_app subs a b k :
  firstin subs (a ++ b) k = match firstin subs a k with Some v => Some v | None => firstin subs b k end.
Proof. induction a as [|i a IH]; cbn; [reflexivity|]. destruct (subs i k); [reflexivity|exact IH]. Qed.
Lemma In_idx j lo len : In j (idx_range lo len) <-> (lo <= N.to_nat j < lo + len)%nat.
Proof.
  unfold idx_range. rewrite in_map_iff. split.
  - intros [x [Hx Hin]]. apply in_seq in Hin. subst j. rewrite Nnat.Nat2N.id. exact Hin.
  - intros H. exists (N.to_nat j). split; [apply Nnat.N2Nat.id|apply in_seq; exact H].
Qed.
Lemma idx_split_at a b : (a <= b)%nat -> idx_range 0 b = idx_range 0 a ++ idx_range a (b - a).
Proof.
  intros H. unfold idx_range. rewrite <- map_app. f_equal.
  replace b with (a + (b - a))%nat at 1 by lia. apply seq_app.
Qed.
Lemma idx_split i n : (i < n)%nat -> idx_range 0 n = idx_range 0 i ++ N.of_nat i :: idx_range (S i) (n - S i).
Proof.
  intros H. rewrite (idx_split_at i n) by lia. f_equal. unfold idx_range.
  replace (n - i)%nat with (S (n - S i)) by lia. reflexivity.
Qed.
Lemma firstin_sset_notin subs i k v k' : forall idxs, ~ In i idxs ->
  firstin (sset subs i k v) idxs k' = firstin subs idxs k'.
Proof.
  induction idxs as [|j r IH]; intros H; cbn; [reflexivity|]. rewrite sset_get.
  assert (E : N.eqb j i = false) by (apply N.eqb_neq; intros ->; apply H; left; reflexivity).
  rewrite E. cbn. rewrite IH by (intros X; apply H; right; exact X). reflexivity.
Qed.
Lemma firstin_prefix subs a b k v : (a <= b)%nat ->
  firstin subs (idx_range 0 a) k = Some v -> firstin subs (idx_range 0 b) k = Some v.
Proof. intros H E. rewrite (idx_split_at a b H), firstin_app, E. reflexivity. Qed.

Section JoinP.
Variable n : nat.

Definition nolow (subs : N -> fmap N) (i : N) (k : key) : Prop := firstin subs (idx_range 0 (N.to_nat i)) k = None.
Lemma join_get_at subs i k : (N.to_nat i < n)%nat -> nolow subs i k ->
  join_get n subs k = match subs i k with Some v => Some v
                      | None => firstin subs (idx_range (S (N.to_nat i)) (n - S (N.to_nat i))) k end.
Proof.
  intros Hi Hn. unfold join_get. rewrite (idx_split (N.to_nat i) n Hi), firstin_app. unfold nolow in Hn. rewrite Hn.
  cbn. rewrite Nnat.N2Nat.id. reflexivity.
Qed.
Lemma nolow_sset subs i k v i0 k0 :
  (N.to_nat i0 <= N.to_nat i)%nat \/ k0 <> k -> (nolow (sset subs i k v) i0 k0 <-> nolow subs i0 k0).
Proof.
  intros H. unfold nolow. destruct H as [H|H].
  - rewrite firstin_sset_notin; [tauto|]. intros Hin. apply In_idx in Hin. lia.
  - rewrite firstin_sset_otherkey by exact H. tauto.
Qed.

Definition jact_ok (x : jact) : Prop :=
  match x with JAPut i _ _ | JADel i _ | JADeliver i => (N.to_nat i < n)%nat | JARegister _ => True end.

Definition Ainv (W : jworld) : Prop :=
  forall i k e, lastev k (jw_q W i) None = Some e -> je_new e = jw_subs W i k.
Definition jcover (W : jworld) (k : key) : Prop :=
  exists i e, (N.to_nat i < n)%nat /\ nolow (jw_subs W) i k /\ In e (jw_q W i) /\ je_key e = k.
Definition Jinv (W : jworld) : Prop :=
  Ainv W /\
  (forall k, jw_proc W k = join_get n (jw_subs W) k \/ jcover W k) /\
  (forall k v, jw_proc W k = Some v -> In k (jw_pkeys W)) /\
  (forall h evs, In (h, evs) (jw_handlers W) -> eqm (replay evs) (jw_proc W)).

Definition okey (e : oev) : key := match e with EAdd k _ => k | EUpd k _ _ => k | EDel k _ => k end.
Lemma jrefresh_key subs i e ev : jrefresh n subs i e = Some ev -> okey ev = je_key e.
Proof.
  unfold jrefresh. destruct (firstin subs (idx_range 0 i) (je_key e)); [discriminate|].
  destruct (je_new e); destruct (firstin subs (idx_range (S i) (n - S i)) (je_key e)); destruct (je_old e);
    intros H; inversion H; reflexivity.
Qed.
Lemma apply_ev_other m ev k : k <> okey ev -> apply_ev m ev k = m k.
Proof. intros H. destruct ev; cbn in *; apply fset_neq; exact H. Qed.

(* a mutation of sub-collection i at key k *)
Lemma Jinv_mutate W i k (v : option N) :
  (N.to_nat i < n)%nat -> Jinv W ->
  Jinv {| jw_subs := sset (jw_subs W) i k v;
          jw_q := qpush (jw_q W) i {| je_key := k; je_old := jw_subs W i k; je_new := v |};
          jw_proc := jw_proc W; jw_pkeys := jw_pkeys W; jw_handlers := jw_handlers W |}.
Proof.
  intros Hi (HA&HB&HP&HH). set (ne := {| je_key := k; je_old := jw_subs W i k; je_new := v |}).
  split; [|split; [|split]]; unfold Ainv, jcover; cbn [jw_subs jw_q jw_proc jw_pkeys jw_handlers]; auto.
  - (* Ainv *)
    intros i0 k0 e H. rewrite sset_get. unfold qpush in H.
    destruct (N.eqb i0 i) eqn:Ei; cbn [andb].
    + apply N.eqb_eq in Ei. subst i0. rewrite lastev_app in H. cbn in H.
      destruct (N.eqb k k0) eqn:Ek.
      * apply N.eqb_eq in Ek. subst k0. inversion H; subst e. rewrite N.eqb_refl. reflexivity.
      * rewrite N.eqb_sym, Ek. apply HA. exact H.
    + apply HA. exact H.
  - (* cover *)
    intros k0. destruct (N.eq_dec k0 k) as [->|Hne].
    + destruct (firstin (jw_subs W) (idx_range 0 (N.to_nat i)) k) as [w|] eqn:Elow.
      * (* a higher-priority holder exists: the joined value is unchanged *)
        assert (Hsame : join_get n (sset (jw_subs W) i k v) k = join_get n (jw_subs W) k).
        { unfold join_get. rewrite (idx_split_at (N.to_nat i) n) by lia. rewrite !firstin_app.
          rewrite firstin_sset_notin by (intros Hin; apply In_idx in Hin; lia). rewrite Elow. reflexivity. }
        rewrite Hsame. destruct (HB k) as [H|(i0&e0&H1&H2&H3&H4)]; [left; exact H|].
        right. exists i0, e0. split; [exact H1|]. split; [|split; [apply qpush_In; exact H3|exact H4]].
        destruct (le_lt_dec (N.to_nat i0) (N.to_nat i)) as [Hle|Hlt].
        -- apply nolow_sset; [left; exact Hle|exact H2].
        -- exfalso. unfold nolow in H2. rewrite (firstin_prefix _ (N.to_nat i) (N.to_nat i0) k w) in H2; [discriminate|lia|exact Elow].
      * right. exists i, ne. split; [exact Hi|]. split; [|split; [apply qpush_new|reflexivity]].
        apply nolow_sset; [left; lia|exact Elow].
    + assert (Hg : join_get n (sset (jw_subs W) i k v) k0 = join_get n (jw_subs W) k0).
      { unfold join_get. apply firstin_sset_otherkey. exact Hne. }
      rewrite Hg. destruct (HB k0) as [H|(i0&e0&H1&H2&H3&H4)]; [left; exact H|].
      right. exists i0, e0. split; [exact H1|]. split; [|split; [apply qpush_In; exact H3|exact H4]].
      apply nolow_sset; [right; exact Hne|exact H2].
Qed.

Lemma Jinv_exec W x : jact_ok x -> Jinv W -> Jinv (jexec n W x).
Proof.
  intros Hx HJ. destruct x as [i k v|i k|i|h]; cbn [jexec jact_ok] in *.
  - apply (Jinv_mutate W i k (Some v) Hx HJ).
  - destruct (jw_subs W i k) as [old|] eqn:Eo; [|exact HJ].
    pose proof (Jinv_mutate W i k None Hx HJ) as H. rewrite Eo in H. exact H.
  - destruct (jw_q W i) as [|e q] eqn:Eq; [exact HJ|].
    destruct HJ as (HA&HB&HP&HH).
    assert (HA' : forall i0 k0 e0, lastev k0 (qpop (jw_q W) i i0) None = Some e0 -> je_new e0 = jw_subs W i0 k0).
    { intros i0 k0 e0 H. unfold qpop in H. destruct (N.eqb i0 i) eqn:Ei; [|apply HA; exact H].
      apply N.eqb_eq in Ei. subst i0. rewrite Eq in H. cbn [tl] in H. apply HA. rewrite Eq.
      change (e :: q) with ([e] ++ q). rewrite lastev_app.
      destruct (lastev_cases k0 q None e0 H) as [[X1 X2]|[X1 _]]; [|discriminate].
      rewrite (lastev_indep k0 q _ None); [exact H|]. exists e0. split; assumption. }
    assert (Hpend : forall k0 i0 e0, k0 <> je_key e -> In e0 (jw_q W i0) -> je_key e0 = k0 -> In e0 (qpop (jw_q W) i i0)).
    { intros k0 i0 e0 Hne Hin Hk. unfold qpop. destruct (N.eqb i0 i) eqn:Ei; [|exact Hin].
      apply N.eqb_eq in Ei. subst i0. rewrite Eq in *. cbn [tl]. destruct Hin as [Hin|Hin]; [|exact Hin].
      exfalso. apply Hne. rewrite <- Hk, <- Hin. reflexivity. }
    destruct (jrefresh n (jw_subs W) (N.to_nat i) e) as [ev|] eqn:Er.
    + (* forwarded *)
      pose proof (jrefresh_key _ _ _ _ Er) as Hkey.
      split; [|split; [|split]]; unfold Ainv, jcover; cbn [jw_subs jw_q jw_proc jw_pkeys jw_handlers].
      * exact HA'.
      * intros k0. destruct (N.eq_dec k0 (je_key e)) as [->|Hne].
        -- unfold jrefresh in Er.
           destruct (firstin (jw_subs W) (idx_range 0 (N.to_nat i)) (je_key e)) eqn:Elow; [discriminate|].
           destruct (existsb (fun e0 => N.eqb (je_key e0) (je_key e)) q) eqn:Ex.
           ++ right. apply existsb_exists in Ex. destruct Ex as [e0 [He0 Hk0]]. apply N.eqb_eq in Hk0.
              exists i, e0. split; [exact Hx|]. split; [exact Elow|]. split; [|exact Hk0].
              unfold qpop. rewrite N.eqb_refl, Eq. exact He0.
           ++ left.
              assert (Hnone : forall e0, In e0 q -> je_key e0 <> je_key e).
              { intros e0 He0 Hk0. assert (existsb (fun e0 => N.eqb (je_key e0) (je_key e)) q = true).
                { apply existsb_exists. exists e0. split; [exact He0|apply N.eqb_eq; exact Hk0]. } congruence. }
              assert (Hlive : je_new e = jw_subs W i (je_key e)).
              { apply HA. rewrite Eq. change (e :: q) with ([e] ++ q). rewrite lastev_app.
                rewrite lastev_none by exact Hnone. cbn. rewrite N.eqb_refl. reflexivity. }
              rewrite (join_get_at (jw_subs W) i (je_key e) Hx Elow). rewrite <- Hlive.
              destruct (je_new e) as [nv|];
                destruct (firstin (jw_subs W) (idx_range (S (N.to_nat i)) (n - S (N.to_nat i))) (je_key e));
                destruct (je_old e); inversion Er; subst ev; cbn; apply fset_eq.
        -- rewrite apply_ev_other by (rewrite Hkey; exact Hne).
           destruct (HB k0) as [H|(i0&e0&H1&H2&H3&H4)]; [left; exact H|].
           right. exists i0, e0. split; [exact H1|]. split; [exact H2|]. split; [|exact H4]. eapply Hpend; eauto.
      * intros k0 v0 H. apply addk_In. destruct (N.eq_dec k0 (je_key e)) as [->|Hne]; [left; reflexivity|].
        right. rewrite apply_ev_other in H by (rewrite Hkey; exact Hne). eapply HP; eauto.
      * intros h evs Hin. cbn in Hin. apply in_map_iff in Hin. destruct Hin as [[h0 old] [Hy Hin]].
        inversion Hy; subst h evs. cbn [fst snd]. unfold replay. rewrite fold_left_app. cbn [fold_left].
        apply apply_ev_eqm. apply (HH h0 old Hin).
    + (* dropped: a higher-priority collection holds the key *)
      split; [|split; [|split]]; unfold Ainv, jcover; cbn [jw_subs jw_q jw_proc jw_pkeys jw_handlers]; auto.
      intros k0. destruct (HB k0) as [H|(i0&e0&H1&H2&H3&H4)]; [left; exact H|].
      right. exists i0, e0. split; [exact H1|]. split; [exact H2|]. split; [|exact H4].
      destruct (N.eq_dec k0 (je_key e)) as [->|Hne]; [|eapply Hpend; eauto].
      unfold jrefresh in Er.
      destruct (firstin (jw_subs W) (idx_range 0 (N.to_nat i)) (je_key e)) as [w|] eqn:Elow.
      * unfold qpop. destruct (N.eqb i0 i) eqn:Ei; [|exact H3].
        apply N.eqb_eq in Ei. subst i0. unfold nolow in H2. congruence.
      * exfalso. destruct (je_new e); destruct (firstin (jw_subs W) (idx_range (S (N.to_nat i)) (n - S (N.to_nat i))) (je_key e));
          destruct (je_old e); discriminate.
  - destruct HJ as (HA&HB&HP&HH).
    split; [|split; [|split]]; unfold Ainv, jcover; cbn [jw_subs jw_q jw_proc jw_pkeys jw_handlers]; auto.
    intros h0 evs Hin. apply in_app_iff in Hin. destruct Hin as [Hin|[Hin|[]]]; [eapply HH; eauto|].
    inversion Hin; subst h0 evs. intros k. unfold replay.
    rewrite (replay_init (jw_proc W) (jw_pkeys W) fempty) by (intros; left; reflexivity).
    destruct (memb k (jw_pkeys W)) eqn:Em; [reflexivity|].
    destruct (jw_proc W k) as [v|] eqn:Eo; [|reflexivity].
    apply HP in Eo. apply memb_In in Eo. congruence.
Qed.

Lemma Jinv_0 : Jinv jw0.
Proof.
  split; [|split; [|split]]; cbn.
  - intros i k e H. discriminate.
  - intros k. left. unfold join_get.
    assert (H : forall idxs, firstin (fun _ => fempty) idxs k = None) by (induction idxs; cbn; auto). rewrite H. reflexivity.
  - intros k v H. discriminate.
  - intros h evs [].
Qed.
Lemma Jinv_run : forall xs W, Forall jact_ok xs -> Jinv W -> Jinv (jrun n W xs).
Proof.
  unfold jrun. induction xs as [|x xs IH]; intros W Hv H; cbn; [exact H|].
  inversion Hv; subst. apply IH; [assumption|]. apply Jinv_exec; assumption.
Qed.

(* Once nothing is in flight, for every event sequence and every interleaving of the sub-collections'
   listeners: processedState (what a late RegisterBatch(f, true) replays) and the replay of every subscriber's
   stream are exactly the join's contents, i.e. first-collection-wins over the live sub-collections. *)
Theorem join_converges : forall xs,
  Forall jact_ok xs ->
  let W := jrun n jw0 xs in
  (forall i, jw_q W i = []) ->
  (forall k, jw_proc W k = join_get n (jw_subs W) k) /\
  (forall h evs, In (h, evs) (jw_handlers W) -> forall k, replay evs k = join_get n (jw_subs W) k).
Proof.
  intros xs Hv W Hq. destruct (Jinv_run xs jw0 Hv Jinv_0) as (_&HB&_&HH). fold W in HB, HH.
  assert (Hp : forall k, jw_proc W k = join_get n (jw_subs W) k).
  { intros k. destruct (HB k) as [H|(i&e&_&_&Hin&_)]; [exact H|]. rewrite Hq in Hin. destruct Hin. }
  split; [exact Hp|]. intros h evs Hin k. rewrite (HH h evs Hin k). apply Hp.
Qed.
(* at any time a subscriber's replay equals processedState, so a handler registered later starts from what the
   earlier ones have *)
Theorem join_events_replay : forall xs,
  Forall jact_ok xs ->
  let W := jrun n jw0 xs in
  forall h evs, In (h, evs) (jw_handlers W) -> forall k, replay evs k = jw_proc W k.
Proof.
  intros xs Hv W h evs Hin k. destruct (Jinv_run xs jw0 Hv Jinv_0) as (_&_&_&HH). exact (HH h evs Hin k).
Qed.
End JoinP.

(* refreshEvents reads the LIVE sub-collections: with the Adds of one key from two sub-collections both in
   flight, the lower-priority Add is dropped and the higher-priority one becomes an Update of a key no
   subscriber knows (finding join-inflight-unknown-key) *)
Definition join_inflight_witness : list jact :=
  [JARegister 1; JAPut 0 7 1; JAPut 1 7 2; JADeliver 0; JADeliver 1].
Lemma join_inflight_unknown_key :
  let W := jrun 2 jw0 join_inflight_witness in
  jw_handlers W = [(1, [EUpd 7 2 1])] /\ stream_wf_weak fempty [EUpd 7 2 1] = false /\
  (forall i, In i [0; 1] -> jw_q W i = []).
Proof. vm_compute. split; [reflexivity|split; [reflexivity|]]. intros i [<-|[<-|[]]]; reflexivity. Qed.
