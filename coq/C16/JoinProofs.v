(* C16 proofs, part 9: merge join (JoinWithMergeCollection). *)
From Coq Require Import List NArith Bool Lia.
From V Require Import C16.Model C16.JoinModel C16.ProofsBase C16.ProofsCommit C16.ProofsEvents.
Import ListNotations.
Open Scope N_scope.

Lemma sset_get subs i k v i' k' :
  sset subs i k v i' k' = if N.eqb i' i && N.eqb k' k then v else subs i' k'.
Proof.
  unfold sset, fset. destruct (N.eqb i' i) eqn:E; cbn; [|reflexivity].
  apply N.eqb_eq in E. subst. reflexivity.
Qed.
Lemma holders_sset_otherkey subs i k v k' : k' <> k -> forall idxs,
  holders_of (sset subs i k v) idxs k' = holders_of subs idxs k'.
Proof.
  intros Hne. induction idxs as [|j r IH]; cbn; [reflexivity|].
  rewrite sset_get. assert (E : N.eqb k' k = false) by (apply N.eqb_neq; exact Hne).
  rewrite E, andb_false_r, IH. reflexivity.
Qed.
Lemma firstin_sset_otherkey subs i k v k' : k' <> k -> forall idxs,
  firstin (sset subs i k v) idxs k' = firstin subs idxs k'.
Proof.
  intros Hne. induction idxs as [|j r IH]; cbn; [reflexivity|].
  rewrite sset_get. assert (E : N.eqb k' k = false) by (apply N.eqb_neq; exact Hne).
  rewrite E, andb_false_r, IH. reflexivity.
Qed.
Lemma qpush_In {A} (q : N -> list A) i x i' y : In y (q i') -> In y (qpush q i x i').
Proof. unfold qpush. destruct (N.eqb i' i) eqn:E; [|auto]. apply N.eqb_eq in E. subst. intros. apply in_app_iff. auto. Qed.
Lemma qpush_new {A} (q : N -> list A) i x : In x (qpush q i x i).
Proof. unfold qpush. rewrite N.eqb_refl. apply in_app_iff. right. left. reflexivity. Qed.

Section Merge.
Variable n : nat.
Variable mg : list N -> N.

Definition mpending (W : mworld) (k : key) : Prop := exists i e, In e (mw_q W i) /\ je_key e = k.
Definition Minv (W : mworld) : Prop :=
  (forall k, mw_out W k = merged n mg (mw_subs W) k \/ mpending W k) /\
  (forall k v, mw_out W k = Some v -> In k (mw_okeys W)) /\
  (forall h evs, In (h, evs) (mw_handlers W) -> eqm (replay evs) (mw_out W)).

Lemma merged_sset_otherkey subs i k v k' : k' <> k -> merged n mg (sset subs i k v) k' = merged n mg subs k'.
Proof. intros H. unfold merged. rewrite holders_sset_otherkey by exact H. reflexivity. Qed.

Lemma mprocess_spec subs out e :
  let r := mprocess n mg subs out e in
  fst r (je_key e) = merged n mg subs (je_key e) /\
  (forall k', k' <> je_key e -> fst r k' = out k') /\
  eqm (fold_left apply_ev (snd r) out) (fst r) /\
  (forall k v, fst r k = Some v -> out k = Some v \/ k = je_key e).
Proof.
  unfold mprocess. destruct (merged n mg subs (je_key e)) as [m|] eqn:Em; destruct (out (je_key e)) as [c|] eqn:Eo; cbn [fst snd].
  - destruct (N.eqb m c) eqn:E; cbn [fst snd].
    + apply N.eqb_eq in E. subst. (split; [|split; [|split]]); auto; try (cbn; apply eqm_refl).
    + split; [|split; [|split]].
      * apply fset_eq.
      * intros k' H. apply fset_neq. exact H.
      * cbn. apply eqm_refl.
      * intros k v. unfold fset. destruct (N.eqb k (je_key e)) eqn:Ek; [right; apply N.eqb_eq; exact Ek|auto].
  - split; [|split; [|split]].
    + apply fset_eq.
    + intros k' H. apply fset_neq. exact H.
    + cbn. apply eqm_refl.
    + intros k v. unfold fset. destruct (N.eqb k (je_key e)) eqn:Ek; [right; apply N.eqb_eq; exact Ek|auto].
  - split; [|split; [|split]].
    + apply fset_eq.
    + intros k' H. apply fset_neq. exact H.
    + cbn. intros k. unfold fset. destruct (N.eqb k (je_key e)); reflexivity.
    + intros k v. unfold fset. destruct (N.eqb k (je_key e)); [discriminate|auto].
  - (split; [|split; [|split]]); auto; try (cbn; apply eqm_refl).
Qed.

Lemma Minv_exec W x : Minv W -> Minv (mexec n mg W x).
Proof.
  intros (H1&H2&H3). destruct x as [i k v|i k|i|h]; cbn [mexec].
  - split; [|split]; cbn [mw_out mw_subs mw_q mw_okeys mw_handlers]; auto.
    intros k'. destruct (N.eq_dec k' k) as [->|Hne].
    + right. exists i, {| je_key := k; je_old := mw_subs W i k; je_new := Some v |}. split; [apply qpush_new|reflexivity].
    + rewrite merged_sset_otherkey by exact Hne. destruct (H1 k') as [H|(i0&e0&Ha&Hb)]; [left; exact H|].
      right. exists i0, e0. split; [apply qpush_In; exact Ha|exact Hb].
  - destruct (mw_subs W i k) as [old|] eqn:Eo; [|split; [|split]; assumption].
    split; [|split]; cbn [mw_out mw_subs mw_q mw_okeys mw_handlers]; auto.
    intros k'. destruct (N.eq_dec k' k) as [->|Hne].
    + right. exists i, {| je_key := k; je_old := Some old; je_new := None |}. split; [apply qpush_new|reflexivity].
    + rewrite merged_sset_otherkey by exact Hne. destruct (H1 k') as [H|(i0&e0&Ha&Hb)]; [left; exact H|].
      right. exists i0, e0. split; [apply qpush_In; exact Ha|exact Hb].
  - destruct (mw_q W i) as [|e q] eqn:Eq; [split; [|split]; assumption|].
    pose proof (mprocess_spec (mw_subs W) (mw_out W) e) as (P1&P2&P3&P4).
    destruct (mprocess n mg (mw_subs W) (mw_out W) e) as [out evs]. cbn [fst snd] in *.
    split; [|split]; cbn [mw_out mw_subs mw_q mw_okeys mw_handlers].
    + intros k'. destruct (N.eq_dec k' (je_key e)) as [->|Hne]; [left; exact P1|].
      rewrite (P2 k' Hne). destruct (H1 k') as [H|(i0&e0&Ha&Hb)]; [left; exact H|].
      right. exists i0, e0. split; [|exact Hb]. cbn [mw_q]. unfold qpop. destruct (N.eqb i0 i) eqn:Ei; [|exact Ha].
      apply N.eqb_eq in Ei. subst i0. rewrite Eq in *. cbn [tl]. destruct Ha as [Ha|Ha]; [exfalso; apply Hne; rewrite <- Hb, <- Ha; reflexivity|exact Ha].
    + intros k v Hk. apply addk_In. destruct (P4 k v Hk) as [H|H]; [right; eapply H2; eauto|left; exact H].
    + intros h evs0 Hin. unfold jdistribute in Hin. destruct evs as [|e1 evs1].
      * cbn in P3. eapply eqm_trans; [apply (H3 h evs0 Hin)|exact P3].
      * apply in_map_iff in Hin. destruct Hin as [[h0 old] [Hx Hin]]. inversion Hx; subst h evs0. cbn [fst snd].
        unfold replay. rewrite fold_left_app.
        eapply eqm_trans; [apply fold_apply_eqm; apply (H3 h0 old Hin)|exact P3].
  - split; [|split]; cbn [mw_out mw_subs mw_q mw_okeys mw_handlers]; auto.
    intros h0 evs Hin. apply in_app_iff in Hin. destruct Hin as [Hin|[Hin|[]]]; [eapply H3; eauto|].
    inversion Hin; subst h0 evs. intros k. unfold replay.
    rewrite (replay_init (mw_out W) (mw_okeys W) fempty) by (intros; left; reflexivity).
    destruct (memb k (mw_okeys W)) eqn:Em; [reflexivity|].
    destruct (mw_out W k) as [v|] eqn:Eo; [|reflexivity].
    apply H2 in Eo. apply memb_In in Eo. congruence.
Qed.

Lemma Minv_run : forall xs W, Minv W -> Minv (mrun n mg W xs).
Proof. unfold mrun. induction xs as [|x xs IH]; intros W H; cbn; [exact H|]. apply IH. apply Minv_exec. exact H. Qed.
Lemma Minv_0 : Minv mw0.
Proof. split; [|split]; cbn; [intros k; left; unfold merged| |]; try discriminate.
  - assert (H : forall idxs, holders_of (fun _ => fempty) idxs k = []) by (induction idxs; cbn; auto). rewrite H. reflexivity.
  - intros h evs [].
Qed.

(* contents of the merge join = merge over the holders in collection order, for every merge function, every
   event sequence and every interleaving of deliveries, once nothing is in flight *)
Theorem mergejoin_state_is_function : forall xs,
  let W := mrun n mg mw0 xs in
  (forall i, mw_q W i = []) -> forall k, mw_out W k = merged n mg (mw_subs W) k.
Proof.
  intros xs W Hq k. destruct (Minv_run xs mw0 Minv_0) as (H1&_). fold W in H1.
  destruct (H1 k) as [H|(i&e&Ha&_)]; [exact H|]. rewrite Hq in Ha. destruct Ha.
Qed.
(* every subscriber's stream (initial Adds for a late one) replays to the cached contents, always *)
Theorem mergejoin_events_replay : forall xs,
  let W := mrun n mg mw0 xs in
  forall h evs, In (h, evs) (mw_handlers W) -> forall k, replay evs k = mw_out W k.
Proof.
  intros xs W h evs Hin k. destruct (Minv_run xs mw0 Minv_0) as (_&_&H3). exact (H3 h evs Hin k).
Qed.
End Merge.

(* the Delete is emitted twice (finding mergejoin-delete-emitted-twice): the stream is not well-formed *)
Definition mj_witness : list jact := [JARegister 1; JAPut 0 7 0; JADeliver 0; JADel 0 7; JADeliver 0].
Lemma mergejoin_double_delete :
  let W := mrun 1 (fun vs => fold_left (fun acc v => acc * 10 + v + 1) vs 0) mw0 mj_witness in
  mw_handlers W = [(1, [EAdd 7 1; EDel 7 1; EDel 7 0])] /\
  stream_wf_weak fempty [EAdd 7 1; EDel 7 1; EDel 7 0] = false.
Proof. vm_compute. split; reflexivity. Qed.
