(* C16 — executable model of krt's derived collections (pkg/kube/krt).
   Definitions only.  Each definition names the Go code it follows.

   Shape that is modelled: one derived collection D = NewManyCollection(P, tr) over a primary
   StaticCollection P; tr may Fetch from secondary StaticCollections S(cid) with the filter kinds
   FilterKey(s) / FilterIndex / FilterLabel / FilterGeneric; D has one internal index and any number of
   RegisterBatch handlers.  Sources are mutated synchronously (static.go), every mutation enqueues one
   notification batch for D (processor.go: per-listener FIFO), D consumes the batches later and then reads
   the CURRENT source state (collection.go onPrimaryInputEvent / onSecondaryDependencyEvent).
   Maps are total functions [key -> option _]; Go map/set iteration order is a parameter where it matters
   (order of recomputed inputs on a secondary event), otherwise list order. *)
From Coq Require Import List NArith Bool.
Import ListNotations.
Open Scope N_scope.

Notation key := N (only parsing).
Definition fmap (V : Type) := key -> option V.
Definition fempty {V : Type} : fmap V := fun _ => None.
Definition fset {V : Type} (m : fmap V) (k : key) (v : option V) : fmap V :=
  fun k' => if N.eqb k' k then v else m k'.

(* sets.Set[key] as duplicate-free lists *)
Definition memb (k : key) (l : list key) : bool := existsb (N.eqb k) l.
Definition addk (k : key) (l : list key) : list key := if memb k l then l else l ++ [k].
Definition remk (k : key) (l : list key) : list key := filter (fun x => negb (N.eqb x k)) l.

(* ---------------------------------------------------------------- secondary collections (static.go) *)
Record spay := { s_val : N; s_ns : N; s_lab : N }.
Definition sobj := (key * spay)%type.
Definition coll := fmap spay.

(* primary inputs: (key, program id); Equal = structural equality *)
Definition iobj := (key * N)%type.
Definition iobj_eqb (a b : iobj) := N.eqb (fst a) (fst b) && N.eqb (snd a) (snd b).

(* filter.go: filter{keys | index, labels, generic}.  keys and index are exclusive in the Go API
   (reverseIndexKey panics when both are set), so the selector is a sum type. *)
Inductive sel := SAll | SKeys (l : list key) | SIndex (n : N).
(* f_suppress = Some n: the dependency was registered by PartialFetch/PartialFetchComparable with projection n
   (fetch.go withUnsafeSuppressChange): updates that leave the projection unchanged are ignored for it *)
Record filt := { f_sel : sel; f_label : option N; f_generic : option N; f_suppress : option N }.
Record dep := { d_id : N; d_filter : filt }.          (* internal.go dependency *)

Definition opt_ok (o : option N) (x : N) : bool :=
  match o with None => true | Some y => N.eqb x y end.
Definition sel_ok (s : sel) (o : sobj) : bool :=
  match s with
  | SAll => true
  | SKeys l => memb (fst o) l
  | SIndex n => N.eqb (s_ns (snd o)) n
  end.
(* filter.go (f *filter) Matches(object, forList) *)
Definition matches (f : filt) (o : sobj) (forList : bool) : bool :=
  (forList || sel_ok (f_sel f) o) && opt_ok (f_label f) (s_lab (snd o)) && opt_ok (f_generic f) (s_val (snd o)).

(* the projections used with PartialFetchComparable: 0 keeps the namespace, 1 the label, anything else the value *)
Definition projn (n : N) (p : spay) : spay :=
  match n with
  | 0 => {| s_val := 0; s_ns := s_ns p; s_lab := 0 |}
  | 1 => {| s_val := 0; s_ns := 0; s_lab := s_lab p |}
  | _ => {| s_val := s_val p; s_ns := 0; s_lab := 0 |}
  end.
Definition spay_eqb (a b : spay) : bool :=
  N.eqb (s_val a) (s_val b) && N.eqb (s_ns a) (s_ns b) && N.eqb (s_lab a) (s_lab b).

(* secondary event: key, old, new (core.go Event; Items() = old then new) *)
Definition sev := (key * option spay * option spay)%type.
Definition sev_items (e : sev) : list sobj :=
  let '(k, o, n) := e in
  (match o with Some p => [(k, p)] | None => [] end) ++ (match n with Some p => [(k, p)] | None => [] end).

(* filter.go (f *filter) SuppressChange(ev): only for updates (old and new present) *)
Definition suppress (f : filt) (e : sev) : bool :=
  match f_suppress f, e with
  | Some n, (_, Some o, Some nw) => spay_eqb (projn n o) (projn n nw)
  | _, _ => false
  end.
(* collection.go objectChanged: dependencies in registration order; a dependency on another collection or a
   suppressed one is skipped (continue), the first remaining one that matches old or new decides *)
Definition object_changed (ds : list dep) (src : N) (e : sev) (pre : bool) : bool :=
  existsb (fun d => N.eqb (d_id d) src && negb (suppress (d_filter d) e) &&
                    existsb (fun o => matches (d_filter d) o pre) (sev_items e)) ds.

Inductive ityp := IndexT | GetKeyT | NoIndexT.
Definition ityp_eqb (a b : ityp) : bool :=
  match a, b with IndexT, IndexT | GetKeyT, GetKeyT | NoIndexT, NoIndexT => true | _, _ => false end.
(* filter.go reverseIndexKey *)
Definition rev_key (f : filt) : option (list key * ityp) :=
  match f_sel f with
  | SKeys (k :: l) => Some (k :: l, GetKeyT)
  | SIndex n => Some ([n], IndexT)
  | _ => None
  end.
(* the extractor stored for a reverse index: getKeyExtractor / index.extractKeys (one index per collection: by ns) *)
Definition extract (t : ityp) (o : sobj) : list key :=
  match t with GetKeyT => [fst o] | IndexT => [s_ns (snd o)] | NoIndexT => [] end.

(* output events (core.go Event[O]); EDel 0 0 is the Delete with a zero Old emitted when neither an old
   nor a new object exists (collection.go handleChangedPrimaryInputEvents, assertions disabled) *)
Inductive oev := EAdd (k : key) (v : N) | EUpd (k : key) (o n : N) | EDel (k : key) (o : N).

(* derived collection state: multiIndex + dependencyState + index + handlers (collection.go) *)
Record dstate := {
  d_inputs : fmap iobj;
  d_maps : fmap (list key);
  d_outputs : fmap N;
  d_okeys : list key;                       (* keys ever stored in outputs (enumeration for RegisterBatch) *)
  d_deps : fmap (list dep);                 (* objectDependencies *)
  d_ikeys : list key;                       (* domain of objectDependencies *)
  d_rev : N -> ityp -> key -> list key;     (* indexedDependencies *)
  d_extr : list (N * ityp);                 (* keys of indexedDependenciesExtractor *)
  d_cols : list N;                          (* collectionDependencies (listeners registered on S cid) *)
  d_index : fmap (list key);                (* collectionIndex.index *)
  d_handlers : list (N * list oev)          (* handlerSet: handler id, events delivered so far (FIFO) *)
}.

Definition d0 : dstate := {|
  d_inputs := fempty; d_maps := fempty; d_outputs := fempty; d_okeys := []; d_deps := fempty; d_ikeys := [];
  d_rev := fun _ _ _ => []; d_extr := []; d_cols := []; d_index := fempty; d_handlers := [] |}.

Definition set_inputs D x := {| d_inputs := x; d_maps := d_maps D; d_outputs := d_outputs D; d_okeys := d_okeys D;
  d_deps := d_deps D; d_ikeys := d_ikeys D; d_rev := d_rev D; d_extr := d_extr D; d_cols := d_cols D;
  d_index := d_index D; d_handlers := d_handlers D |}.
Definition set_maps D x := {| d_inputs := d_inputs D; d_maps := x; d_outputs := d_outputs D; d_okeys := d_okeys D;
  d_deps := d_deps D; d_ikeys := d_ikeys D; d_rev := d_rev D; d_extr := d_extr D; d_cols := d_cols D;
  d_index := d_index D; d_handlers := d_handlers D |}.
Definition set_outputs D x ok ix := {| d_inputs := d_inputs D; d_maps := d_maps D; d_outputs := x; d_okeys := ok;
  d_deps := d_deps D; d_ikeys := d_ikeys D; d_rev := d_rev D; d_extr := d_extr D; d_cols := d_cols D;
  d_index := ix; d_handlers := d_handlers D |}.
Definition set_depstate D dp ik rv ex := {| d_inputs := d_inputs D; d_maps := d_maps D; d_outputs := d_outputs D;
  d_okeys := d_okeys D; d_deps := dp; d_ikeys := ik; d_rev := rv; d_extr := ex; d_cols := d_cols D;
  d_index := d_index D; d_handlers := d_handlers D |}.
Definition set_cols D x := {| d_inputs := d_inputs D; d_maps := d_maps D; d_outputs := d_outputs D; d_okeys := d_okeys D;
  d_deps := d_deps D; d_ikeys := d_ikeys D; d_rev := d_rev D; d_extr := d_extr D; d_cols := x;
  d_index := d_index D; d_handlers := d_handlers D |}.
Definition set_handlers D x := {| d_inputs := d_inputs D; d_maps := d_maps D; d_outputs := d_outputs D; d_okeys := d_okeys D;
  d_deps := d_deps D; d_ikeys := d_ikeys D; d_rev := d_rev D; d_extr := d_extr D; d_cols := d_cols D;
  d_index := d_index D; d_handlers := x |}.

(* ---------------------------------------------------------------- dependencyState (collection.go) *)
Definition rev_upd (rv : N -> ityp -> key -> list key) (c : N) (t : ityp) (k : key) (f : list key -> list key) :=
  fun c' t' k' => if N.eqb c' c && ityp_eqb t' t && N.eqb k' k then f (rv c' t' k') else rv c' t' k'.

Definition extr_mem (e : N * ityp) (l : list (N * ityp)) : bool :=
  existsb (fun x => N.eqb (fst x) (fst e) && ityp_eqb (snd x) (snd e)) l.
Definition extr_add (e : N * ityp) (l : list (N * ityp)) := if extr_mem e l then l else l ++ [e].

(* dependencyState.delete *)
Definition rev_del_dep (a : key) (rv : N -> ityp -> key -> list key) (d : dep) :=
  match rev_key (d_filter d) with
  | Some (ks, t) => fold_left (fun r k => rev_upd r (d_id d) t k (remk a)) ks rv
  | None => rv
  end.
Definition dep_delete (D : dstate) (a : key) : dstate :=
  match d_deps D a with
  | None => D
  | Some old =>
      set_depstate D (fset (d_deps D) a None) (remk a (d_ikeys D))
        (fold_left (rev_del_dep a) old (d_rev D)) (d_extr D)
  end.
(* dependencyState.update *)
Definition rev_add_dep (a : key) (rv : N -> ityp -> key -> list key) (d : dep) :=
  match rev_key (d_filter d) with
  | Some (ks, t) => fold_left (fun r k => rev_upd r (d_id d) t k (addk a)) ks rv
  | None => rv
  end.
Definition extr_add_dep (ex : list (N * ityp)) (d : dep) :=
  match rev_key (d_filter d) with
  | Some (_, t) => extr_add (d_id d, t) ex
  | None => extr_add (d_id d, NoIndexT) ex
  end.
Definition dep_update (D : dstate) (a : key) (ds : list dep) : dstate :=
  let D1 := dep_delete D a in
  set_depstate D1 (fset (d_deps D1) a (Some ds)) (addk a (d_ikeys D1))
    (fold_left (rev_add_dep a) ds (d_rev D1)) (fold_left extr_add_dep ds (d_extr D1)).

(* dependencyState.changedInputKeys *)
Definition extr_for (D : dstate) (src : N) : list ityp :=
  if extr_mem (src, NoIndexT) (d_extr D) then []
  else map snd (filter (fun e => N.eqb (fst e) src) (d_extr D)).
Definition changed_rev (D : dstate) (src : N) (e : sev) (ts : list ityp) (acc : list key) : list key :=
  fold_left (fun acc t =>
    fold_left (fun acc item =>
      fold_left (fun acc k =>
        fold_left (fun acc a =>
          if memb a acc then acc
          else match d_deps D a with
               | Some ds => if object_changed ds src e true then acc ++ [a] else acc
               | None => if object_changed [] src e true then acc ++ [a] else acc
               end) (d_rev D src t k) acc) (extract t item) acc) (sev_items e) acc) ts acc.
Definition changed_scan (D : dstate) (src : N) (e : sev) (acc : list key) : list key :=
  fold_left (fun acc a =>
    match d_deps D a with
    | Some ds => if object_changed ds src e false then addk a acc else acc
    | None => acc
    end) (d_ikeys D) acc.
Definition changed_input_keys (D : dstate) (src : N) (evs : list sev) : list key :=
  let ts := extr_for D src in
  fold_left (fun acc e => match ts with [] => changed_scan D src e acc | _ => changed_rev D src e ts acc end) evs [].

(* ---------------------------------------------------------------- world *)
Record world := {
  wP : fmap iobj; wPdom : list key;          (* primary StaticCollection *)
  wS : N -> coll;                            (* secondary StaticCollections *)
  qP : list (list (key * bool));             (* batches queued for D from P's listener: key, was-a-Delete-event *)
  qS : list (N * list sev);                  (* batches queued for D from S listeners *)
  wD : dstate }.

Section Model.
(* finite key space of the secondary collections (List() enumerates it) *)
Variable univ : list key.
(* the transformation: input object, a fetcher (Fetch over the current secondaries) -> recorded dependencies
   (one per Fetch call) and produced (key, value) objects *)
Variable tr : iobj -> (N -> filt -> list sobj) -> list dep * list (key * N).

Definition cget (C : coll) (k : key) : option spay := if memb k univ then C k else None.
Definition elements (C : coll) : list sobj :=
  flat_map (fun k => match C k with Some p => [(k, p)] | None => [] end) univ.
(* fetch.go fetch: pre-list by keys / index / everything, then Matches(o, true) *)
Definition prelist (s : sel) (C : coll) : list sobj :=
  match s with
  | SAll => elements C
  | SKeys l => flat_map (fun k => match cget C k with Some p => [(k, p)] | None => [] end) l
  | SIndex n => filter (fun o => N.eqb (s_ns (snd o)) n) (elements C)
  end.
Definition fetch_raw (f : filt) (C : coll) : list sobj :=
  filter (fun o => matches f o true) (prelist (f_sel f) C).
(* PartialFetch maps the result through the projection *)
Definition fetch (f : filt) (C : coll) : list sobj :=
  match f_suppress f with
  | None => fetch_raw f C
  | Some n => map (fun o => (fst o, projn n (snd o))) (fetch_raw f C)
  end.
Definition fetcher (S : N -> coll) : N -> filt -> list sobj := fun c f => fetch f (S c).

(* slices.GroupUnique: last value wins; key order = first occurrence *)
Definition gkeys (l : list (key * N)) : list key := fold_left (fun acc kv => addk (fst kv) acc) l [].
Definition gfind (l : list (key * N)) (k : key) : option N :=
  match find (fun kv => N.eqb (fst kv) k) (rev l) with Some kv => Some (snd kv) | None => None end.

(* collectionIndex: extract(o) = [val mod 3] *)
Definition oidx (v : N) : key := N.modulo v 3.
Definition index_del (ix : fmap (list key)) (v : N) (k : key) : fmap (list key) :=
  match remk k (match ix (oidx v) with Some l => l | None => [] end) with
  | [] => fset ix (oidx v) None
  | l => fset ix (oidx v) (Some l)
  end.
Definition index_add (ix : fmap (list key)) (v : N) (k : key) : fmap (list key) :=
  fset ix (oidx v) (Some (addk k (match ix (oidx v) with Some l => l | None => [] end))).

Inductive item := ItemDel (a : key) | ItemUpd (i : iobj).

(* handleChangedPrimaryInputEvents, Delete branch *)
Definition commit_del (De : dstate * list oev) (a : key) : dstate * list oev :=
  let '(D, evs) := De in
  let ks := match d_maps D a with Some l => l | None => [] end in
  let '(D1, evs1) :=
    fold_left (fun (De : dstate * list oev) k =>
      let '(D, evs) := De in
      match d_outputs D k with
      | None => (D, evs)                                      (* "invalid event, deletion of non-existent object" *)
      | Some old => (set_outputs D (fset (d_outputs D) k None) (d_okeys D) (index_del (d_index D) old k),
                     evs ++ [EDel k old])
      end) ks (D, evs) in
  (dep_delete (set_inputs (set_maps D1 (fset (d_maps D1) a None)) (fset (d_inputs D1) a None)) a, evs1).

(* handleChangedPrimaryInputEvents, Add/Update branch (DiscardResult is not modelled) *)
Definition commit_upd (De : dstate * list oev) (i : iobj) (r : list dep * list (key * N)) : dstate * list oev :=
  let '(D, evs) := De in
  let a := fst i in
  let D1 := dep_update D a (fst r) in
  let newKeys := gkeys (snd r) in
  let oldKeys := match d_maps D1 a with Some l => l | None => [] end in
  let D2 := set_inputs (set_maps D1 (fset (d_maps D1) a (Some newKeys))) (fset (d_inputs D1) a (Some i)) in
  let allKeys := newKeys ++ filter (fun k => negb (memb k newKeys)) oldKeys in
  fold_left (fun (De : dstate * list oev) k =>
    let '(D, evs) := De in
    match gfind (snd r) k, d_outputs D k with
    | Some nv, Some ov =>
        if N.eqb nv ov then (D, evs)
        else (set_outputs D (fset (d_outputs D) k (Some nv)) (d_okeys D) (index_add (index_del (d_index D) ov k) nv k),
              evs ++ [EUpd k ov nv])
    | Some nv, None =>
        (set_outputs D (fset (d_outputs D) k (Some nv)) (addk k (d_okeys D)) (index_add (d_index D) nv k),
         evs ++ [EAdd k nv])
    | None, Some ov =>
        (set_outputs D (fset (d_outputs D) k None) (d_okeys D) (index_del (d_index D) ov k), evs ++ [EDel k ov])
    | None, None =>
        (set_outputs D (d_outputs D) (d_okeys D) (index_del (d_index D) 0 k), evs ++ [EDel 0 0])
    end) allKeys (D2, evs).

(* handlerSet.Distribute *)
Definition distribute (D : dstate) (evs : list oev) : dstate :=
  match evs with
  | [] => D
  | _ => set_handlers D (map (fun h => (fst h, snd h ++ evs)) (d_handlers D))
  end.

(* handleChangedPrimaryInputEvents: first all transformations (each Fetch registers its collection:
   collectionDependencyTracker.registerDependency), then the commits under the lock, then Distribute *)
Definition handle_items (S : N -> coll) (D : dstate) (items : list item) : dstate :=
  let D1 := fold_left (fun D it =>
              match it with
              | ItemDel _ => D
              | ItemUpd i => set_cols D (fold_left (fun cs d => addk (d_id d) cs) (fst (tr i (fetcher S))) (d_cols D))
              end) items D in
  let '(D2, evs) := fold_left (fun De it =>
              match it with
              | ItemDel a => commit_del De a
              | ItemUpd i => commit_upd De i (tr i (fetcher S))
              end) items (D1, []) in
  distribute D2 evs.

(* onPrimaryInputEvent: refresh every event from the parent's current state.  An event that was a Delete
   stays a Delete even when the parent has the object again (only ev.New is refreshed) *)
Definition primary_items (P : fmap iobj) (batch : list (key * bool)) : list item :=
  map (fun ad : key * bool => match P (fst ad) with
                 | None => ItemDel (fst ad)
                 | Some i => if snd ad then ItemDel (fst ad) else ItemUpd i end) batch.

(* onSecondaryDependencyEvent; [order] stands for the iteration order of the changedInputKeys set *)
Definition arrange (order changed : list key) : list key :=
  filter (fun a => memb a changed) order ++ filter (fun a => negb (memb a order)) changed.
Definition secondary_items (P : fmap iobj) (D : dstate) (l : list key) : list item :=
  flat_map (fun a =>
    match P a with
    | None => flat_map (fun k => match d_outputs D k with Some _ => [ItemDel a] | None => [] end)
                (match d_maps D a with Some ks => ks | None => [] end)
    | Some i => [ItemUpd i]
    end) l.

Definition set_D (W : world) (D : dstate) : world :=
  {| wP := wP W; wPdom := wPdom W; wS := wS W; qP := qP W; qS := qS W; wD := D |}.

(* ---------------------------------------------------------------- actions *)
Inductive act :=
| APPut (i : iobj)                         (* StaticCollection.UpdateObject on P *)
| APDel (a : key)                          (* DeleteObject on P *)
| APReset (l : list iobj)                  (* Reset on P: one batch *)
| ASPut (c : N) (k : key) (p : spay)       (* UpdateObject on S c *)
| ASDel (c : N) (k : key)                  (* DeleteObject on S c *)
| ADeliverP                                (* D's queue runs the oldest P batch *)
| ADeliverS (order : list key)             (* D's queue runs the oldest S batch *)
| ARegister (h : N).                       (* RegisterBatch(f, true) on D *)

Definition enqS (W : world) (c : N) (e : sev) : list (N * list sev) :=
  if memb c (d_cols (wD W)) then qS W ++ [(c, [e])] else qS W.

(* static.go Reset: adds/changed in argument order, then removals *)
Definition reset_batch (P : fmap iobj) (dom : list key) (l : list iobj) : list (key * bool) :=
  flat_map (fun i => match P (fst i) with
                     | Some o => if iobj_eqb o i then [] else [(fst i, false)]
                     | None => [(fst i, false)] end) l
  ++ map (fun a => (a, true))
       (filter (fun a => match P a with Some _ => negb (memb a (map fst l)) | None => false end) dom).
Definition reset_map (l : list iobj) : fmap iobj :=
  fun a => match find (fun i => N.eqb (fst i) a) (rev l) with Some i => Some i | None => None end.

Definition exec (W : world) (x : act) : world :=
  match x with
  | APPut i =>
      {| wP := fset (wP W) (fst i) (Some i); wPdom := addk (fst i) (wPdom W); wS := wS W;
         qP := qP W ++ [[(fst i, false)]]; qS := qS W; wD := wD W |}
  | APDel a =>
      match wP W a with
      | None => W
      | Some _ => {| wP := fset (wP W) a None; wPdom := wPdom W; wS := wS W;
                     qP := qP W ++ [[(a, true)]]; qS := qS W; wD := wD W |}
      end
  | APReset l =>
      let b := reset_batch (wP W) (wPdom W) l in
      {| wP := reset_map l; wPdom := fold_left (fun d i => addk (fst i) d) l (wPdom W); wS := wS W;
         qP := match b with [] => qP W | _ => qP W ++ [b] end; qS := qS W; wD := wD W |}
  | ASPut c k p =>
      if memb k univ then
        {| wP := wP W; wPdom := wPdom W;
           wS := fun c' => if N.eqb c' c then fset (wS W c) k (Some p) else wS W c';
           qP := qP W; qS := enqS W c (k, cget (wS W c) k, Some p); wD := wD W |}
      else W
  | ASDel c k =>
      match cget (wS W c) k with
      | None => W
      | Some old =>
        {| wP := wP W; wPdom := wPdom W;
           wS := fun c' => if N.eqb c' c then fset (wS W c) k None else wS W c';
           qP := qP W; qS := enqS W c (k, Some old, None); wD := wD W |}
      end
  | ADeliverP =>
      match qP W with
      | [] => W
      | b :: q =>
        {| wP := wP W; wPdom := wPdom W; wS := wS W; qP := q; qS := qS W;
           wD := handle_items (wS W) (wD W) (primary_items (wP W) b) |}
      end
  | ADeliverS order =>
      match qS W with
      | [] => W
      | (c, evs) :: q =>
        let ch := changed_input_keys (wD W) c evs in
        {| wP := wP W; wPdom := wPdom W; wS := wS W; qP := qP W; qS := q;
           wD := handle_items (wS W) (wD W) (secondary_items (wP W) (wD W) (arrange order ch)) |}
      end
  | ARegister h =>
      (* RegisterBatch(f, true): the current outputs as Adds, then every later batch *)
      let init := flat_map (fun k => match d_outputs (wD W) k with Some v => [EAdd k v] | None => [] end)
                    (d_okeys (wD W)) in
      set_D W (set_handlers (wD W) (d_handlers (wD W) ++ [(h, init)]))
  end.

Definition w0 : world := {| wP := fempty; wPdom := []; wS := fun _ => fempty; qP := []; qS := []; wD := d0 |}.
Definition run (W : world) (xs : list act) : world := fold_left exec xs W.

(* ---------------------------------------------------------------- specification side *)
(* what the transformation yields for input a under the current sources *)
Definition out_of (W : world) (a : key) : list (key * N) :=
  match wP W a with Some i => snd (tr i (fetcher (wS W))) | None => [] end.
(* replaying an event stream over a map *)
Definition apply_ev (m : fmap N) (e : oev) : fmap N :=
  match e with EAdd k v => fset m k (Some v) | EUpd k _ n => fset m k (Some n) | EDel k _ => fset m k None end.
Definition replay (evs : list oev) : fmap N := fold_left apply_ev evs fempty.
(* per-event well-formedness against the replayed state *)
Definition ev_wf (m : fmap N) (e : oev) : bool :=
  match e with
  | EAdd k _ => match m k with None => true | Some _ => false end
  | EUpd k o n => match m k with Some x => N.eqb x o && negb (N.eqb o n) | None => false end
  | EDel k o => match m k with Some x => N.eqb x o | None => false end
  end.
Fixpoint stream_wf (m : fmap N) (evs : list oev) : bool :=
  match evs with [] => true | e :: r => ev_wf m e && stream_wf (apply_ev m e) r end.
(* Index.Lookup: keys of the index entry whose object still exists *)
Definition index_lookup (D : dstate) (n : key) : list key :=
  filter (fun k => match d_outputs D k with Some _ => true | None => false end)
    (match d_index D n with Some l => l | None => [] end).

End Model.

(* ---------------------------------------------------------------- table-driven transformations *)
(* each primary input names a program; a program is a list of Fetch calls and a list of output rules *)
Inductive outspec :=
| OConst (k : key) (v : N)                 (* emit (k, v) *)
| OIfAny (j : nat) (k : key) (v : N)       (* emit (k, v) iff fetch j returned something *)
| OAgg (j : nat) (k : key)                 (* emit (k, 1000 * count + sum of values of fetch j) *)
| OEach (j : nat) (base : key).            (* for each object o of fetch j emit (base + key o, value o) *)
Record prog := { p_fetches : list dep; p_outs : list outspec }.

Definition agg (r : list sobj) : N := fold_left (fun acc o => acc + 1000 + s_val (snd o)) r 0.
Definition eval_out (rs : list (list sobj)) (o : outspec) : list (key * N) :=
  match o with
  | OConst k v => [(k, v)]
  | OIfAny j k v => match nth j rs [] with [] => [] | _ => [(k, v)] end
  | OAgg j k => [(k, agg (nth j rs []))]
  | OEach j base => map (fun o => (base + fst o, s_val (snd o))) (nth j rs [])
  end.
Definition tr_dsl (progs : N -> prog) (i : iobj) (phi : N -> filt -> list sobj) : list dep * list (key * N) :=
  let p := progs (snd i) in
  let rs := map (fun d => phi (d_id d) (d_filter d)) (p_fetches p) in
  (p_fetches p, flat_map (eval_out rs) (p_outs p)).
