(* C16 proofs, part 7: the reverse-index invariant holds on every reachable state for EVERY transformation
   (no ownership, no purity): dependency tracking is sound even where the output diffing is not (K5). *)
From Coq Require Import List NArith Bool Lia.
From V Require Import C16.Model C16.ProofsBase C16.ProofsDep C16.ProofsCommit.
Import ListNotations.
Open Scope N_scope.
Arguments extr_mem : simpl never.

Lemma rev_inv_frame D D' :
  d_deps D' = d_deps D -> d_rev D' = d_rev D -> d_extr D' = d_extr D -> d_ikeys D' = d_ikeys D ->
  rev_inv D -> rev_inv D'.
Proof.
  intros H1 H2 H3 H4 [R1 R2]. split.
  - intros a ds d. rewrite H1, H2, H3. apply R1.
  - intros a ds. rewrite H1, H4. apply R2.
Qed.

Lemma fold_frame (f : dstate * list oev -> key -> dstate * list oev) :
  (forall De k, frame (fst De) (fst (f De k))) -> forall L De, frame (fst De) (fst (fold_left f L De)).
Proof.
  intros Hs L. induction L as [|k L IH]; intros De; cbn [fold_left]; [apply frame_refl|].
  eapply frame_trans; [apply Hs|apply IH].
Qed.

Lemma commit_upd_rev D evs i r : rev_inv D -> rev_inv (fst (commit_upd (D, evs) i r)).
Proof.
  intros Hrev. unfold commit_upd. cbn zeta.
  set (a := fst i). set (D1 := dep_update D a (fst r)).
  pose proof (rev_inv_update D a (fst r) Hrev) as HR1. fold D1 in HR1.
  set (newKeys := gkeys (snd r)).
  set (oldKeys := match d_maps D1 a with Some l => l | None => [] end).
  set (D2 := set_inputs (set_maps D1 (fset (d_maps D1) a (Some newKeys))) (fset (d_inputs D1) a (Some i))).
  assert (HR2 : rev_inv D2) by (apply (rev_inv_frame D1 D2); auto).
  set (allKeys := newKeys ++ filter (fun k => negb (memb k newKeys)) oldKeys).
  clearbody D2 D1 oldKeys.
  match goal with |- context [fold_left ?f allKeys (D2, evs)] => set (F := f) end.
  assert (Hstep : forall De k, frame (fst De) (fst (F De k))).
  { intros [D0 e0] k. unfold F. cbn [fst].
    destruct (gfind (snd r) k) as [nv|]; destruct (d_outputs D0 k) as [ov|];
      [destruct (N.eqb nv ov)| | |]; cbn [fst]; try apply frame_refl; unfold frame; cbn; repeat split; reflexivity. }
  destruct (fold_frame F Hstep allKeys (D2, evs)) as (F1&F2&F3&F4&F5&_). cbn [fst] in *.
  apply (rev_inv_frame D2); assumption.
Qed.

Lemma commit_del_rev D evs a : rev_inv D -> rev_inv (fst (commit_del (D, evs) a)).
Proof.
  intros Hrev. unfold commit_del. cbn zeta.
  set (ks := match d_maps D a with Some l => l | None => [] end).
  match goal with |- context [fold_left ?f ks (D, evs)] => set (F := f) end.
  assert (Hstep : forall De k, frame (fst De) (fst (F De k))).
  { intros [D0 e0] k. unfold F. cbn [fst].
    destruct (d_outputs D0 k); cbn [fst]; [unfold frame; cbn; repeat split; reflexivity|apply frame_refl]. }
  destruct (fold_frame F Hstep ks (D, evs)) as (F1&F2&F3&F4&F5&_).
  destruct (fold_left F ks (D, evs)) as [D1 evs1]. cbn [fst] in *.
  apply rev_inv_delete. apply (rev_inv_frame D1); auto. apply (rev_inv_frame D); assumption.
Qed.

Section Rev.
Variable univ : list key.
Variable tr : iobj -> (N -> filt -> list sobj) -> list dep * list (key * N).

Lemma handle_items_rev S D items : rev_inv D -> rev_inv (handle_items univ tr S D items).
Proof.
  intros Hrev. rewrite handle_items_unfold.
  destruct (phase1_spec univ tr S items D) as (a1&a2&a3&a4&a5&a6&a7&a8&a9).
  assert (H1 : rev_inv (phase1 univ tr S D items)) by (apply (rev_inv_frame D); assumption).
  assert (H2 : forall its De, rev_inv (fst De) -> rev_inv (fst (fold_left (commit univ tr S) its De))).
  { induction its as [|it its IH]; intros De H; cbn [fold_left]; [exact H|]. apply IH.
    destruct De as [D0 e0]. destruct it as [a|i]; cbn [commit fst] in *;
      [apply commit_del_rev|apply commit_upd_rev]; exact H. }
  specialize (H2 items (phase1 univ tr S D items, []) H1).
  destruct (distribute_fields (fst (fold_left (commit univ tr S) items (phase1 univ tr S D items, [])))
             (snd (fold_left (commit univ tr S) items (phase1 univ tr S D items, [])))) as (d1&d2&d3&d4&d5&d6&d7).
  eapply rev_inv_frame; eauto.
Qed.

Lemma rev_inv_exec W x : rev_inv (wD W) -> rev_inv (wD (exec univ tr W x)).
Proof.
  intros H. destruct x; cbn [exec].
  - exact H.
  - destruct (wP W a); exact H.
  - exact H.
  - destruct (memb k univ); exact H.
  - destruct (cget univ (wS W c) k); exact H.
  - destruct (qP W); [exact H|]. cbn [wD]. apply handle_items_rev. exact H.
  - destruct (qS W) as [|[c evs] q]; [exact H|]. cbn [wD]. apply handle_items_rev. exact H.
  - cbn [wD set_D]. apply (rev_inv_frame (wD W)); auto.
Qed.

Lemma rev_inv_run : forall xs W0, rev_inv (wD W0) -> rev_inv (wD (run univ tr W0 xs)).
Proof.
  unfold run. induction xs as [|x xs IH]; intros W0 H0; cbn [fold_left]; [exact H0|].
  apply IH. apply rev_inv_exec. exact H0.
Qed.

Theorem dependency_sound_all : forall xs,
  let W := run univ tr w0 xs in
  forall c evs e a ds,
    d_deps (wD W) a = Some ds -> In e evs -> object_changed ds c e false = true ->
    In a (changed_input_keys (wD W) c evs).
Proof.
  intros xs W c evs e a ds H1 H2 H3.
  assert (Hrev : rev_inv (wD W)).
  { apply rev_inv_run. split; intros; discriminate. }
  eapply changed_sound; eauto.
Qed.
End Rev.
