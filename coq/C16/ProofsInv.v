(* C16 proofs, part 4: the invariant of the whole pipeline over every interleaving of source mutations and
   queue deliveries, and the headline theorem. *)
From Coq Require Import List NArith Bool Lia.
From V Require Import C16.Model C16.ProofsBase C16.ProofsDep C16.ProofsCommit.
Import ListNotations.
Open Scope N_scope.
Arguments extr_mem : simpl never.

(* ---- last queued entry of a primary key *)
Definition lastentry (a : key) (es : list (key * bool)) (acc : option (key * bool)) : option (key * bool) :=
  fold_left (fun acc e => if N.eqb (fst e) a then Some e else acc) es acc.

Lemma lastentry_app a es1 es2 acc : lastentry a (es1 ++ es2) acc = lastentry a es2 (lastentry a es1 acc).
Proof. unfold lastentry. apply fold_left_app. Qed.
Lemma lastentry_none a : forall es acc, (forall e, In e es -> fst e <> a) -> lastentry a es acc = acc.
Proof.
  unfold lastentry. induction es as [|x es IH]; intros acc H; cbn [fold_left]; [reflexivity|].
  rewrite IH by (intros e He; apply H; right; exact He).
  assert (E : N.eqb (fst x) a = false) by (apply N.eqb_neq; apply H; left; reflexivity).
  cbn beta. rewrite E. reflexivity.
Qed.
Lemma lastentry_cases a : forall es acc e, lastentry a es acc = Some e ->
  (In e es /\ fst e = a) \/ (acc = Some e /\ forall e', In e' es -> fst e' <> a).
Proof.
  unfold lastentry. induction es as [|x es IH]; intros acc e H; cbn [fold_left] in H.
  - right. split; [exact H|intros e' []].
  - apply IH in H. destruct H as [[H1 H2]|[H1 H2]].
    + left. split; [right; exact H1|exact H2].
    + destruct (N.eqb (fst x) a) eqn:E.
      * inversion H1; subst. left. split; [left; reflexivity|apply N.eqb_eq; exact E].
      * right. split; [exact H1|]. intros e' [->|He']; [apply N.eqb_neq; exact E|apply H2; exact He'].
Qed.
Lemma lastentry_indep a : forall es acc acc', (exists e, In e es /\ fst e = a) ->
  lastentry a es acc = lastentry a es acc'.
Proof.
  unfold lastentry. induction es as [|x es IH]; intros acc acc' [e [He Hk]]; [destruct He|].
  cbn [fold_left]. destruct (N.eqb (fst x) a) eqn:E; [reflexivity|].
  destruct He as [->|He]; [apply N.eqb_neq in E; contradiction|].
  apply IH. exists e. split; assumption.
Qed.

Section Inv.
Variable univ : list key.
Variable tr : iobj -> (N -> filt -> list sobj) -> list dep * list (key * N).
Variable owner : key -> key.
Variable valid : iobj -> Prop.
(* static key ownership: whatever a (valid) input emits belongs to that input *)
Hypothesis H_owned : forall i phi k v, valid i -> In (k, v) (snd (tr i phi)) -> owner k = fst i.
(* the transformation only depends on the sources through the Fetch calls it reports *)
Hypothesis H_pure : forall i phi psi,
  (forall d, In d (fst (tr i phi)) -> phi (d_id d) (d_filter d) = psi (d_id d) (d_filter d)) ->
  tr i phi = tr i psi.
(* PartialFetch dependencies select only on what they project (see supp_wf) *)
Hypothesis H_supp : forall i phi d, In d (fst (tr i phi)) -> supp_wf (d_filter d).

Notation Dinv := (Dinv owner).
Notation rec_ok := (rec_ok univ tr).
Notation same_rec := (same_rec owner).

Definition hasEntry (a : key) (q : list (list (key * bool))) : Prop :=
  exists e, In e (concat q) /\ fst e = a.
Definition Kinv (W : world) : Prop :=
  forall a e, lastentry a (concat (qP W)) None = Some e -> (snd e = true <-> wP W a = None).
Definition Pkey (W : world) : Prop := forall a i, wP W a = Some i -> fst i = a.
Definition Pdom (W : world) : Prop := forall a i, wP W a = Some i -> In a (wPdom W).
Definition Pvalid (W : world) : Prop := forall a i, wP W a = Some i -> valid i.
(* every object put into P is valid *)
Definition act_valid (x : act) : Prop :=
  match x with APPut i => valid i | APReset l => forall i, In i l -> valid i | _ => True end.
Definition pendingS (qs : list (N * list sev)) (D : dstate) (a : key) : Prop :=
  exists c evs e ds, In (c, evs) qs /\ In e evs /\ d_deps D a = Some ds /\ object_changed ds c e false = true.
Definition covered (W : world) (a : key) : Prop :=
  rec_ok (wS W) (wD W) a (wP W a) \/ hasEntry a (qP W) \/ pendingS (qS W) (wD W) a.
Definition Inv (W : world) : Prop :=
  Dinv (wD W) /\ Kinv W /\ Pkey W /\ Pdom W /\ Pvalid W /\ forall a, covered W a.

Lemma Inv_w0 : Inv w0.
Proof.
  split; [|split; [|split; [|split; [|split]]]].
  - split; [|split; [|split]].
    + intros a ks k H. discriminate.
    + intros k v H. discriminate.
    + split; intros a ds; [intros d H|intros H]; discriminate.
    + intros a ds d H. discriminate.
  - intros a e H. cbn in H. discriminate.
  - intros a i H. discriminate.
  - intros a i H. discriminate.
  - intros a i H. discriminate.
  - intros a. left. cbn. intros ks k H. discriminate.
Qed.

(* ---- appending one batch to P's queue *)
Lemma hasEntry_app a q b : hasEntry a q -> hasEntry a (q ++ [b]).
Proof.
  intros [e [H1 H2]]. exists e. split; [|exact H2]. rewrite concat_app. apply in_app_iff. left. exact H1.
Qed.
Lemma hasEntry_new a q b d : In (a, d) b -> hasEntry a (q ++ [b]).
Proof.
  intros H. exists (a, d). split; [|reflexivity]. rewrite concat_app. apply in_app_iff. right.
  cbn. rewrite app_nil_r. exact H.
Qed.

Lemma Kinv_push (W : world) (P' : fmap iobj) (b : list (key * bool)) :
  Kinv W ->
  (forall a d, In (a, d) b -> (d = true <-> P' a = None)) ->
  (forall a, (forall e, In e b -> fst e <> a) -> P' a = wP W a) ->
  forall a e, lastentry a (concat (qP W) ++ b) None = Some e -> (snd e = true <-> P' a = None).
Proof.
  intros HK Hb Hs a e H. rewrite lastentry_app in H. apply lastentry_cases in H.
  destruct H as [[H1 H2]|[H1 H2]].
  - destruct e as [a' d]. cbn in H2. subst a'. cbn. eapply Hb; eauto.
  - rewrite (Hs a H2). apply HK. exact H1.
Qed.

(* ---- one primary event refreshed against P *)
Definition pitem (P : fmap iobj) (ad : key * bool) : item :=
  match P (fst ad) with None => ItemDel (fst ad) | Some i => if snd ad then ItemDel (fst ad) else ItemUpd i end.
Lemma primary_items_map P b : primary_items P b = map (pitem P) b.
Proof. reflexivity. Qed.

Lemma lastf_map P (HP : forall a i, P a = Some i -> fst i = a) a : forall b la acc,
  la a = option_map (pitem P) acc ->
  lastf (map (pitem P) b) la a = option_map (pitem P) (lastentry a b acc).
Proof.
  unfold lastf, lastentry. induction b as [|x b IH]; intros la acc H; cbn [map fold_left]; [exact H|].
  apply IH. cbn beta.
  assert (Hk : item_key (pitem P x) = fst x).
  { unfold pitem. destruct (P (fst x)) as [i|] eqn:E; [|reflexivity].
    destruct (snd x); [reflexivity|]. cbn. eapply HP; eauto. }
  rewrite Hk. destruct (N.eqb (fst x) a); [reflexivity|exact H].
Qed.

(* ---- the step lemma *)
Lemma arrange_In order ch a : In a (arrange order ch) <-> In a ch.
Proof.
  unfold arrange. rewrite in_app_iff, !filter_In. split.
  - intros [[_ H]|[H _]]; [apply memb_In; exact H|exact H].
  - intros H. destruct (memb a order) eqn:E.
    + left. split; [apply memb_In; exact E|apply memb_In; exact H].
    + right. split; [exact H|reflexivity].
Qed.

Lemma lastf_hit : forall items la it, In it items ->
  exists it', In it' items /\ item_key it' = item_key it /\ lastf items la (item_key it) = Some it'.
Proof.
  induction items as [|x items IH]; intros la it Hin; [destruct Hin|].
  set (la' := fun a => if N.eqb (item_key x) a then Some x else la a).
  assert (Hunf : forall a, lastf (x :: items) la a = lastf items la' a) by reflexivity.
  destruct Hin as [->|Hin].
  - destruct (lastf_cases items la' (item_key it)) as [H|[it' (H1&H2&H3)]].
    + exists it. split; [left; reflexivity|]. split; [reflexivity|].
      rewrite Hunf, H. unfold la'. rewrite N.eqb_refl. reflexivity.
    + exists it'. split; [right; exact H1|]. split; [exact H2|]. rewrite Hunf. exact H3.
  - destruct (IH la' it Hin) as [it' (H1&H2&H3)].
    exists it'. split; [right; exact H1|]. split; [exact H2|]. rewrite Hunf. exact H3.
Qed.

(* P mutations *)
Lemma Inv_pput W i : valid i -> Inv W -> Inv (exec univ tr W (APPut i)).
Proof.
  intros Hvi (HD&HK&Hk&Hd&Hv&Hc). cbn [exec].
  split; [exact HD|split; [|split; [|split; [|split]]]]; unfold Pvalid; unfold Kinv, Pkey, Pdom, covered; cbn [wP wPdom wS qP qS wD].
  - intros a e H. rewrite concat_app in H. cbn [concat] in H. rewrite app_nil_r in H.
    revert a e H. apply (Kinv_push W); [exact HK| |].
    + intros a d [H|[]]. inversion H; subst. rewrite fset_eq. split; discriminate.
    + intros a H. apply fset_neq. intros ->. apply (H (fst i, false)); [left; reflexivity|reflexivity].
  - intros a j H. unfold fset in H. destruct (N.eqb a (fst i)) eqn:E; [|eapply Hk; eauto].
    inversion H; subst. symmetry. apply N.eqb_eq. exact E.
  - intros a j H. apply addk_In. unfold fset in H. destruct (N.eqb a (fst i)) eqn:E.
    + left. apply N.eqb_eq. exact E.
    + right. eapply Hd; eauto.
  - intros a j H. unfold fset in H. destruct (N.eqb a (fst i)); [inversion H; subst; exact Hvi|eapply Hv; eauto].
  - intros a. destruct (N.eq_dec a (fst i)) as [->|Hne].
    + right. left. eapply hasEntry_new. left. reflexivity.
    + destruct (Hc a) as [H|[H|H]].
      * left. cbn [wS wD wP]. rewrite fset_neq by exact Hne. exact H.
      * right. left. apply hasEntry_app. exact H.
      * right. right. exact H.
Qed.

Lemma Inv_pdel W a0 : Inv W -> Inv (exec univ tr W (APDel a0)).
Proof.
  intros HI. cbn [exec]. destruct (wP W a0) as [i0|] eqn:E0; [|exact HI].
  destruct HI as (HD&HK&Hk&Hd&Hv&Hc).
  split; [exact HD|split; [|split; [|split; [|split]]]]; unfold Kinv, Pkey, Pdom, Pvalid, covered; cbn [wP wPdom wS qP qS wD].
  - intros a e H. rewrite concat_app in H. cbn [concat] in H. rewrite app_nil_r in H.
    revert a e H. apply (Kinv_push W); [exact HK| |].
    + intros a d [H|[]]. inversion H; subst. rewrite fset_eq. split; reflexivity.
    + intros a H. apply fset_neq. intros ->. apply (H (a0, true)); [left; reflexivity|reflexivity].
  - intros a j H. unfold fset in H. destruct (N.eqb a a0); [discriminate|eapply Hk; eauto].
  - intros a j H. unfold fset in H. destruct (N.eqb a a0); [discriminate|eapply Hd; eauto].
  - intros a j H. unfold fset in H. destruct (N.eqb a a0); [discriminate|eapply Hv; eauto].
  - intros a. destruct (N.eq_dec a a0) as [->|Hne].
    + right. left. eapply hasEntry_new. left. reflexivity.
    + destruct (Hc a) as [H|[H|H]].
      * left. cbn [wS wD wP]. rewrite fset_neq by exact Hne. exact H.
      * right. left. apply hasEntry_app. exact H.
      * right. right. exact H.
Qed.

Lemma iobj_eqb_eq a b : iobj_eqb a b = true -> a = b.
Proof.
  unfold iobj_eqb. intros H. apply andb_true_iff in H. destruct H as [H1 H2].
  apply N.eqb_eq in H1, H2. destruct a, b. cbn in *. congruence.
Qed.

Lemma reset_map_Some l a i : reset_map l a = Some i -> In i l /\ fst i = a.
Proof.
  unfold reset_map. destruct (find (fun i : N * N => N.eqb (fst i) a) (rev l)) as [j|] eqn:E; [|discriminate].
  intros H. inversion H; subst. apply find_some in E. destruct E as [E1 E2].
  split; [apply in_rev; exact E1|apply N.eqb_eq; exact E2].
Qed.
Lemma reset_map_None l a : reset_map l a = None -> forall i, In i l -> fst i <> a.
Proof.
  unfold reset_map. destruct (find (fun i : N * N => N.eqb (fst i) a) (rev l)) as [j|] eqn:E; [discriminate|].
  intros _ i Hi. apply in_rev in Hi. apply (find_none _ _ E) in Hi. apply N.eqb_neq. exact Hi.
Qed.

Lemma reset_entry P dom l a d :
  In (a, d) (reset_batch P dom l) -> (d = true <-> reset_map l a = None).
Proof.
  unfold reset_batch. rewrite in_app_iff. intros [H|H].
  - apply in_flat_map in H. destruct H as [i [Hi H]].
    assert (Hd : d = false /\ a = fst i).
    { destruct (P (fst i)) as [o|]; [destruct (iobj_eqb o i); [destruct H|]|];
        destruct H as [H|[]]; inversion H; auto. }
    destruct Hd as [-> ->]. split; [discriminate|].
    intros Hn. exfalso. exact (reset_map_None l (fst i) Hn i Hi eq_refl).
  - apply in_map_iff in H. destruct H as [a' [H1 H2]]. inversion H1; subst.
    apply filter_In in H2. destruct H2 as [_ H2]. split; [|reflexivity]. intros _.
    destruct (reset_map l a) as [i|] eqn:E; [|reflexivity].
    apply reset_map_Some in E. destruct E as [E1 E2].
    destruct (P a); [|discriminate]. apply negb_true_iff in H2. apply memb_false in H2.
    exfalso. apply H2. apply in_map_iff. exists i. split; assumption.
Qed.

Lemma reset_noentry P dom l a :
  (forall b i, P b = Some i -> fst i = b) -> (forall b i, P b = Some i -> In b dom) ->
  (forall e, In e (reset_batch P dom l) -> fst e <> a) -> reset_map l a = P a.
Proof.
  intros Hk Hd H. destruct (reset_map l a) as [i|] eqn:E.
  - apply reset_map_Some in E. destruct E as [E1 E2].
    destruct (P a) as [o|] eqn:Ep.
    + destruct (iobj_eqb o i) eqn:Eq; [apply iobj_eqb_eq in Eq; subst o; reflexivity|].
      exfalso. apply (H (a, false)); [|reflexivity]. unfold reset_batch. apply in_app_iff. left.
      apply in_flat_map. exists i. split; [exact E1|]. rewrite E2, Ep, Eq. left. reflexivity.
    + exfalso. apply (H (a, false)); [|reflexivity]. unfold reset_batch. apply in_app_iff. left.
      apply in_flat_map. exists i. split; [exact E1|]. rewrite E2, Ep. left. reflexivity.
  - destruct (P a) as [o|] eqn:Ep; [|reflexivity].
    exfalso. apply (H (a, true)); [|reflexivity]. unfold reset_batch. apply in_app_iff. right.
    apply in_map_iff. exists a. split; [reflexivity|]. apply filter_In. split; [eapply Hd; eauto|].
    rewrite Ep. apply negb_true_iff. apply memb_false. intros Hin. apply in_map_iff in Hin.
    destruct Hin as [i [Hi1 Hi2]]. exact (reset_map_None l a E i Hi2 Hi1).
Qed.

Lemma fold_addk_dom : forall (l : list iobj) dom a,
  (In a dom \/ In a (map fst l)) -> In a (fold_left (fun d i => addk (fst i) d) l dom).
Proof.
  induction l as [|i l IH]; intros dom a H; cbn [fold_left].
  - destruct H as [H|[]]. exact H.
  - apply IH. destruct H as [H|[H|H]].
    + left. apply addk_In. right. exact H.
    + left. apply addk_In. left. symmetry. exact H.
    + right. exact H.
Qed.

Lemma Inv_preset W l : (forall i, In i l -> valid i) -> Inv W -> Inv (exec univ tr W (APReset l)).
Proof.
  intros Hvl (HD&HK&Hk&Hd&Hv&Hc). cbn [exec]. cbn zeta.
  set (b := reset_batch (wP W) (wPdom W) l).
  assert (Hq : concat (match b with [] => qP W | _ => qP W ++ [b] end) = concat (qP W) ++ b).
  { destruct b; [rewrite app_nil_r; reflexivity|]. rewrite concat_app. cbn. rewrite app_nil_r. reflexivity. }
  assert (Hne : forall a, (forall e, In e b -> fst e <> a) -> reset_map l a = wP W a).
  { intros a H. apply (reset_noentry (wP W) (wPdom W) l a Hk Hd H). }
  split; [exact HD|split; [|split; [|split; [|split]]]]; unfold Kinv, Pkey, Pdom, Pvalid, covered; cbn [wP wPdom wS qP qS wD].
  - intros a e H. rewrite Hq in H. revert a e H. apply (Kinv_push W); [exact HK| |exact Hne].
    intros a d H. eapply reset_entry; eauto.
  - intros a i H. apply reset_map_Some in H. apply H.
  - intros a i H. apply reset_map_Some in H. destruct H as [H1 H2]. apply fold_addk_dom. right.
    apply in_map_iff. exists i. split; assumption.
  - intros a i H. apply reset_map_Some in H. apply Hvl. apply H.
  - intros a.
    destruct (existsb (fun e => N.eqb (fst e) a) b) eqn:Ee.
    + right. left. apply existsb_exists in Ee. destruct Ee as [e [He1 He2]]. apply N.eqb_eq in He2.
      exists e. split; [|exact He2]. rewrite Hq. apply in_app_iff. right. exact He1.
    + assert (Hn : forall e, In e b -> fst e <> a).
      { intros e He Hk'. assert (existsb (fun e => N.eqb (fst e) a) b = true).
        { apply existsb_exists. exists e. split; [exact He|apply N.eqb_eq; exact Hk']. }
        congruence. }
      destruct (Hc a) as [H|[H|H]].
      * left. cbn [wS wD wP]. rewrite (Hne a Hn). exact H.
      * right. left. destruct H as [e [H1 H2]]. exists e. split; [|exact H2].
        rewrite Hq. apply in_app_iff. left. exact H1.
      * right. right. exact H.
Qed.

(* S mutations *)
Lemma enqS_incl W c e x : In x (qS W) -> In x (enqS W c e).
Proof. unfold enqS. destruct (memb c (d_cols (wD W))); [intros; apply in_app_iff; left|]; auto. Qed.

Lemma object_changed_false_inv ds c e d :
  object_changed ds c e false = false -> In d ds -> d_id d = c -> suppress (d_filter d) e = false ->
  forall o, In o (sev_items e) -> matches (d_filter d) o false = false.
Proof.
  unfold object_changed. intros H Hd Hc Hs o Ho.
  destruct (matches (d_filter d) o false) eqn:Em; [|reflexivity].
  assert (existsb (fun d => N.eqb (d_id d) c && negb (suppress (d_filter d) e) &&
                            existsb (fun o => matches (d_filter d) o false) (sev_items e)) ds = true).
  { apply existsb_exists. exists d. split; [exact Hd|]. rewrite Hc, N.eqb_refl, Hs. cbn.
    apply existsb_exists. exists o. split; assumption. }
  congruence.
Qed.

Lemma spay_eqb_eq a b : spay_eqb a b = true -> a = b.
Proof.
  unfold spay_eqb. intros H. apply andb_true_iff in H. destruct H as [H H3].
  apply andb_true_iff in H. destruct H as [H1 H2]. apply N.eqb_eq in H1, H2, H3.
  destruct a, b. cbn in *. congruence.
Qed.

Lemma Inv_schange W c k (np : option spay) :
  Inv W -> memb k univ = true ->
  let e := (k, cget univ (wS W c) k, np) in
  Inv {| wP := wP W; wPdom := wPdom W;
         wS := fun c' => if N.eqb c' c then fset (wS W c) k np else wS W c';
         qP := qP W; qS := enqS W c e; wD := wD W |}.
Proof.
  intros (HD&HK&Hk&Hd&Hv&Hc) Hu e.
  split; [exact HD|split; [exact HK|split; [exact Hk|split; [exact Hd|split; [exact Hv|]]]]].
  intros a. unfold covered. cbn [wP wS qP qS wD].
  destruct (Hc a) as [H|[H|H]].
  - destruct (wP W a) as [i|] eqn:Ep; [|left; exact H].
    set (r := tr i (fetcher univ (wS W))).
    destruct (object_changed (fst r) c e false) eqn:Ech.
    + right. right. destruct H as (H1&_).
      assert (Hcol : In c (d_cols (wD W))).
      { unfold object_changed in Ech. apply existsb_exists in Ech. destruct Ech as [d [Hd1 Hd2]].
        apply andb_true_iff in Hd2. destruct Hd2 as [Hd2 _]. apply andb_true_iff in Hd2. destruct Hd2 as [Hd2 _].
        apply N.eqb_eq in Hd2. subst c.
        destruct HD as (_&_&_&Hcols). eapply Hcols; eauto. }
      exists c, [e], e, (fst r). split; [|split; [left; reflexivity|split; [exact H1|exact Ech]]].
      unfold enqS. apply memb_In in Hcol. rewrite Hcol. apply in_app_iff. right. left. reflexivity.
    + left.
      assert (Heq : tr i (fetcher univ (fun c' => if N.eqb c' c then fset (wS W c) k np else wS W c')) = r).
      { symmetry. apply H_pure. intros d Hdd. unfold fetcher.
        destruct (N.eqb (d_id d) c) eqn:Ec; [|reflexivity].
        apply N.eqb_eq in Ec. rewrite Ec. symmetry.
        destruct (suppress (d_filter d) e) eqn:Esup.
        - (* the dependency ignores this update: its projected result is unchanged *)
          unfold suppress, e in Esup. destruct (f_suppress (d_filter d)) as [n|] eqn:Efs; [|discriminate].
          destruct (cget univ (wS W c) k) as [o|] eqn:Eo; [|discriminate].
          destruct np as [p|]; [|discriminate]. apply spay_eqb_eq in Esup.
          apply (fetch_suppressed univ (d_filter d) (wS W c) k o p n Efs); [|
            unfold cget in Eo; rewrite Hu in Eo; exact Eo|exact Esup].
          exact (H_supp i (fetcher univ (wS W)) d Hdd).
        - apply fetch_unaffected'; [| |exact Hu].
          + intros p Hp. apply (object_changed_false_inv _ _ _ d Ech Hdd Ec Esup).
            unfold e. cbn. rewrite Hp. left. reflexivity.
          + intros p Hp. apply (object_changed_false_inv _ _ _ d Ech Hdd Ec Esup).
            unfold e. cbn. subst np. apply in_app_iff. right. left. reflexivity. }
      cbn. rewrite Heq. exact H.
  - right. left. exact H.
  - right. right. destruct H as (c0&evs&e0&ds&H1&H2&H3&H4).
    exists c0, evs, e0, ds. split; [apply enqS_incl; exact H1|auto].
Qed.

Lemma Inv_sput W c k p : Inv W -> Inv (exec univ tr W (ASPut c k p)).
Proof.
  intros HI. cbn [exec]. destruct (memb k univ) eqn:Hu; [|exact HI].
  apply (Inv_schange W c k (Some p) HI Hu).
Qed.
Lemma Inv_sdel W c k : Inv W -> Inv (exec univ tr W (ASDel c k)).
Proof.
  intros HI. cbn [exec]. destruct (cget univ (wS W c) k) as [old|] eqn:Eo; [|exact HI].
  assert (Hu : memb k univ = true).
  { unfold cget in Eo. destruct (memb k univ); [reflexivity|discriminate]. }
  pose proof (Inv_schange W c k None HI Hu) as H. cbn zeta in H. rewrite Eo in H. exact H.
Qed.

Lemma Inv_register W h : Inv W -> Inv (exec univ tr W (ARegister h)).
Proof.
  intros (HD&HK&Hk&Hd&Hv&Hc). cbn [exec].
  split; [exact HD|split; [exact HK|split; [exact Hk|split; [exact Hd|split; [exact Hv|exact Hc]]]]].
Qed.

(* D's queue runs a P batch *)
Lemma lastentry_Some_acc a : forall es y, exists e', lastentry a es (Some y) = Some e'.
Proof.
  unfold lastentry. induction es as [|x es IH]; intros y; cbn [fold_left]; [eauto|].
  destruct (N.eqb (fst x) a); apply IH.
Qed.
Lemma lastentry_some a : forall es acc e, In e es -> fst e = a -> exists e', lastentry a es acc = Some e'.
Proof.
  induction es as [|x es IH]; intros acc e He Hk; [destruct He|].
  unfold lastentry. cbn [fold_left]. fold (lastentry a es (if N.eqb (fst x) a then Some x else acc)).
  destruct He as [->|He]; [|eapply IH; eauto].
  apply N.eqb_eq in Hk. rewrite Hk. apply lastentry_Some_acc.
Qed.
Lemma pitem_key P (HP : forall a i, P a = Some i -> fst i = a) x : item_key (pitem P x) = fst x.
Proof.
  unfold pitem. destruct (P (fst x)) as [i|] eqn:E; [|reflexivity].
  destruct (snd x); [reflexivity|]. cbn. eapply HP; eauto.
Qed.

Lemma Inv_deliverP W : Inv W -> Inv (exec univ tr W ADeliverP).
Proof.
  intros HI. cbn [exec]. destruct (qP W) as [|b q] eqn:Eq; [exact HI|].
  destruct HI as (HD&HK&Hk&Hd&Hv&Hc).
  assert (Hiv : forall i, In (ItemUpd i) (primary_items (wP W) b) -> valid i).
  { intros i Hi. rewrite primary_items_map in Hi. apply in_map_iff in Hi. destruct Hi as [x [Hx _]].
    unfold pitem in Hx. destruct (wP W (fst x)) as [j|] eqn:Ej; [|discriminate].
    destruct (snd x); [discriminate|]. inversion Hx; subst. eapply Hv; eauto. }
  destruct (handle_items_spec univ tr owner valid H_owned (wS W) (wD W) (primary_items (wP W) b) HD Hiv) as [HD' Hst].
  set (D' := handle_items univ tr (wS W) (wD W) (primary_items (wP W) b)) in *.
  split; [exact HD'|split; [|split; [exact Hk|split; [exact Hd|split; [exact Hv|]]]]]; unfold Kinv, Pkey, Pdom, covered; cbn [wP wPdom wS qP qS wD].
  - intros a e H. apply (HK a e). rewrite Eq. cbn [concat]. rewrite lastentry_app.
    destruct (lastentry_cases a _ _ _ H) as [[H1 H2]|[H1 _]]; [|discriminate].
    rewrite (lastentry_indep a (concat q) (lastentry a b None) None); [exact H|].
    exists e. split; assumption.
  - intros a.
    destruct (existsb (fun e : key * bool => N.eqb (fst e) a) (concat q)) eqn:Ee.
    { right. left. apply existsb_exists in Ee. destruct Ee as [e [He1 He2]].
      exists e. split; [exact He1|apply N.eqb_eq; exact He2]. }
    assert (Hn : forall e, In e (concat q) -> fst e <> a).
    { intros e He Hk'. assert (existsb (fun e : key * bool => N.eqb (fst e) a) (concat q) = true).
      { apply existsb_exists. exists e. split; [exact He|apply N.eqb_eq; exact Hk']. }
      congruence. }
    specialize (Hst a). rewrite primary_items_map in Hst.
    rewrite (lastf_map (wP W) Hk a b (fun _ => None) None eq_refl) in Hst.
    destruct (lastentry a b None) as [e|] eqn:El; cbn [option_map] in Hst.
    + left. cbn [wS wD wP].
      destruct (lastentry_cases a _ _ _ El) as [[He1 He2]|[X _]]; [|discriminate].
      assert (HKe : snd e = true <-> wP W a = None).
      { apply (HK a e). rewrite Eq. cbn [concat]. rewrite lastentry_app, El.
        apply lastentry_none. exact Hn. }
      unfold pitem in Hst. rewrite He2 in Hst.
      destruct (wP W a) as [i|] eqn:Ep.
      * destruct (snd e).
        -- destruct HKe as [X _]. specialize (X eq_refl). discriminate.
        -- apply Hst. eapply Hk; eauto.
      * exact Hst.
    + assert (Hnb : forall e, In e b -> fst e <> a).
      { intros e He Hk'. destruct (lastentry_some a b None e He Hk') as [e' He']. congruence. }
      assert (Hsame : same_rec a (wD W) D') by exact Hst.
      destruct (Hc a) as [H|[H|H]].
      * left. cbn [wS wD wP].
        apply (rec_ok_same univ tr owner valid H_owned (wS W) (wD W) D' a (wP W a) HD Hsame); [intros i Hi; split; [eapply Hk|eapply Hv]; eauto|exact H].
      * exfalso. destruct H as [e [He1 He2]]. rewrite Eq in He1. cbn [concat] in He1.
        apply in_app_iff in He1. destruct He1 as [He1|He1]; [exact (Hnb e He1 He2)|exact (Hn e He1 He2)].
      * right. right. destruct H as (c0&evs&e0&ds&H1&H2&H3&H4).
        exists c0, evs, e0, ds. repeat split; try assumption.
        destruct Hsame as (S1&_). cbn [wD]. rewrite S1. exact H3.
Qed.

(* D's queue runs an S batch *)
Lemma secondary_item_src P D L it :
  (forall a i, P a = Some i -> fst i = a) ->
  In it (secondary_items P D L) ->
  exists a, In a L /\ item_key it = a /\
    match it with ItemDel _ => P a = None | ItemUpd i => P a = Some i end.
Proof.
  intros HP H. unfold secondary_items in H. apply in_flat_map in H. destruct H as [a [Ha H]].
  exists a. split; [exact Ha|]. destruct (P a) as [i|] eqn:Ep.
  - destruct H as [H|[]]. subst it. cbn. split; [eapply HP; eauto|reflexivity].
  - apply in_flat_map in H. destruct H as [k [_ H]].
    destruct (d_outputs D k); [|destruct H]. destruct H as [H|[]]. subst it. cbn. auto.
Qed.

Lemma Inv_deliverS W order : Inv W -> Inv (exec univ tr W (ADeliverS order)).
Proof.
  intros HI. cbn [exec]. destruct (qS W) as [|[c evs] q] eqn:Eq; [exact HI|].
  destruct HI as (HD&HK&Hk&Hd&Hv&Hc). cbn zeta.
  set (ch := changed_input_keys (wD W) c evs).
  set (L := arrange order ch).
  set (items := secondary_items (wP W) (wD W) L).
  assert (Hiv : forall i, In (ItemUpd i) items -> valid i).
  { intros i Hi. destruct (secondary_item_src _ _ _ _ Hk Hi) as [a' (_&_&Ha3)]. eapply Hv; eauto. }
  destruct (handle_items_spec univ tr owner valid H_owned (wS W) (wD W) items HD Hiv) as [HD' Hst].
  set (D' := handle_items univ tr (wS W) (wD W) items) in *.
  split; [exact HD'|split; [exact HK|split; [exact Hk|split; [exact Hd|split; [exact Hv|]]]]]; unfold Kinv, Pkey, Pdom, covered; cbn [wP wPdom wS qP qS wD].
  intros a. specialize (Hst a).
  destruct (memb a ch) eqn:Em.
  - (* a is recomputed *)
    left. cbn [wS wD wP].
    assert (HaL : In a L) by (apply arrange_In; apply memb_In; exact Em).
    destruct (wP W a) as [i|] eqn:Ep.
    + assert (Hit : In (ItemUpd i) items).
      { unfold items, secondary_items. apply in_flat_map. exists a. split; [exact HaL|]. rewrite Ep. left. reflexivity. }
      destruct (lastf_hit items (fun _ => None) (ItemUpd i) Hit) as [it' (H1&H2&H3)].
      cbn [item_key] in H2, H3. rewrite (Hk a i Ep) in H2, H3. rewrite H3 in Hst.
      destruct (secondary_item_src _ _ _ _ Hk H1) as [a' (Ha1&Ha2&Ha3)].
      rewrite H2 in Ha2. subst a'. destruct it' as [a0|i'].
      * congruence.
      * assert (i' = i) by congruence. subst i'. apply Hst. eapply Hk; eauto.
    + destruct (lastf_cases items (fun _ => None) a) as [Hn|[it' (H1&H2&H3)]].
      * rewrite Hn in Hst.
        assert (Hr : rec_ok (wS W) (wD W) a None).
        { cbn. intros ks k Hm Hin. destruct (d_outputs (wD W) k) as [v|] eqn:Eo; [|reflexivity].
          exfalso.
          assert (Hit : In (ItemDel a) items).
          { unfold items, secondary_items. apply in_flat_map. exists a. split; [exact HaL|]. rewrite Ep, Hm.
            apply in_flat_map. exists k. split; [exact Hin|]. rewrite Eo. left. reflexivity. }
          destruct (lastf_hit items (fun _ => None) (ItemDel a) Hit) as [it' (_&_&H3)].
          cbn [item_key] in H3. congruence. }
        apply (rec_ok_same univ tr owner valid H_owned (wS W) (wD W) D' a None HD Hst); [intros; discriminate|exact Hr].
      * rewrite H3 in Hst. destruct it' as [a0|i']; [exact Hst|].
        exfalso. destruct (secondary_item_src _ _ _ _ Hk H1) as [a' (Ha1&Ha2&Ha3)].
        rewrite H2 in Ha2. subst a'. congruence.
  - (* a is not touched *)
    assert (Hno : forall it, In it items -> item_key it <> a).
    { intros it Hit Hka. destruct (secondary_item_src _ _ _ _ Hk Hit) as [a' (Ha1&Ha2&_)].
      rewrite Hka in Ha2. subst a'. apply arrange_In in Ha1. apply memb_In in Ha1. congruence. }
    rewrite lastf_none in Hst by exact Hno.
    destruct (Hc a) as [H|[H|H]].
    + left. cbn [wS wD wP].
      apply (rec_ok_same univ tr owner valid H_owned (wS W) (wD W) D' a (wP W a) HD Hst); [intros i Hi; split; [eapply Hk|eapply Hv]; eauto|exact H].
    + right. left. exact H.
    + right. right. destruct H as (c0&evs0&e0&ds&H1&H2&H3&H4).
      rewrite Eq in H1. destruct H1 as [H1|H1].
      * exfalso. inversion H1; subst c0 evs0.
        destruct HD as (_&_&Hrev&_).
        pose proof (changed_sound (wD W) c evs a ds e0 Hrev H3 H2 H4) as Hin.
        apply memb_In in Hin. fold ch in Hin. congruence.
      * exists c0, evs0, e0, ds. repeat split; try assumption.
        destruct Hst as (S1&_). cbn [wD]. rewrite S1. exact H3.
Qed.

Lemma Inv_exec W x : act_valid x -> Inv W -> Inv (exec univ tr W x).
Proof.
  destruct x; cbn [act_valid]; intros Hx.
  - apply Inv_pput. exact Hx.
  - apply Inv_pdel.
  - apply Inv_preset. exact Hx.
  - apply Inv_sput.
  - apply Inv_sdel.
  - apply Inv_deliverP.
  - apply Inv_deliverS.
  - apply Inv_register.
Qed.

Lemma Inv_run : forall xs W, Forall act_valid xs -> Inv W -> Inv (run univ tr W xs).
Proof.
  unfold run. induction xs as [|x xs IH]; intros W Hv H; cbn [fold_left]; [exact H|].
  inversion Hv; subst. apply IH; [assumption|]. apply Inv_exec; assumption.
Qed.

(* Headline: after ANY interleaving of source mutations, queue deliveries (with any iteration order of the
   changed-input set) and handler registrations, once D's queues are empty its contents are exactly the
   transformation applied to the current inputs. *)
Theorem state_is_function : forall xs,
  Forall act_valid xs ->
  let W := run univ tr w0 xs in
  qP W = [] -> qS W = [] ->
  forall k, d_outputs (wD W) k =
            match wP W (owner k) with
            | Some i => gfind (snd (tr i (fetcher univ (wS W)))) k
            | None => None
            end.
Proof.
  intros xs Hval W HqP HqS k.
  destruct (Inv_run xs w0 Hval Inv_w0) as (HD&_&Hk&_&_&Hc). fold W in HD, Hk, Hc.
  destruct HD as (Hown&Hout&_&_).
  assert (Hr : rec_ok (wS W) (wD W) (owner k) (wP W (owner k))).
  { destruct (Hc (owner k)) as [H|[H|H]]; [exact H| |].
    - destruct H as [e [He _]]. rewrite HqP in He. destruct He.
    - destruct H as (c&evs&e&ds&H1&_). rewrite HqS in H1. destruct H1. }
  destruct (wP W (owner k)) as [i|] eqn:Ep; cbn in Hr.
  - destruct Hr as (_&Hm&Ho).
    set (r := tr i (fetcher univ (wS W))) in *.
    destruct (in_dec N.eq_dec k (gkeys (snd r))) as [Hin|Hnin]; [apply Ho; exact Hin|].
    assert (Hg : gfind (snd r) k = None).
    { destruct (gfind (snd r) k) as [v|] eqn:Eg; [|reflexivity].
      exfalso. apply Hnin. apply gkeys_In. exists v. apply gfind_Some. exact Eg. }
    rewrite Hg. destruct (d_outputs (wD W) k) as [v|] eqn:Eo; [|reflexivity].
    exfalso. destruct (Hout k v Eo) as [ks [H1 H2]]. rewrite Hm in H1. inversion H1; subst ks. contradiction.
  - destruct (d_outputs (wD W) k) as [v|] eqn:Eo; [|reflexivity].
    exfalso. destruct (Hout k v Eo) as [ks [H1 H2]]. rewrite (Hr ks k H1 H2) in Eo. discriminate.
Qed.

(* the dependency-tracking core, restated on reachable states: whenever a queued secondary batch contains an
   object whose old or new version matches a filter recorded for input a, processing it recomputes a *)
Theorem dependency_sound : forall xs,
  Forall act_valid xs ->
  let W := run univ tr w0 xs in
  forall c evs e a ds,
    d_deps (wD W) a = Some ds -> In e evs -> object_changed ds c e false = true ->
    In a (changed_input_keys (wD W) c evs).
Proof.
  intros xs Hval W c evs e a ds H1 H2 H3.
  destruct (Inv_run xs w0 Hval Inv_w0) as ((_&_&Hrev&_)&_). fold W in Hrev.
  eapply changed_sound; eauto.
Qed.
End Inv.
