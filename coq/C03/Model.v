(* C03 model: delta xDS leaves a client in the same state as state-of-the-world xDS.

   The per-connection session state (WatchedResource table, shouldRespondDelta, deltaWatchedResources,
   sendDelta, the per-type tables) is the shared development C04/Session.v and is imported, not
   duplicated.  This file adds (definitions only; each names the Go code it models):

   1. the bookkeeping of pilot/pkg/xds/delta.go pushDeltaXds over an ABSTRACT generator (a function
      from the WatchedResource view it is given to what it returns), processDeltaRequest
      (ResourceDelta construction, forced EDS after CDS) and the loop of pushConnectionDelta;
      pushXds (the SotW twin);
   2. the generators that do their own name bookkeeping: WorkloadGenerator.GenerateDeltas (wildcard and
      on-demand) and WorkloadRBACGenerator.GenerateDeltas over an abstract address / policy index;
   3. the two clients (delta: upsert resources, delete removed_resources; SotW: replace for
      full-state types, upsert otherwise) and the closed system "world changes + client
      (un)subscriptions" the theorems are about.

   Abstractions: resource names are interned to N ("*" = 0), a resource is (name, version) where the
   version stands for the content; nonces are inputs (fresh per response in the code); a failing
   stream.Send ends the connection and is not modelled here (C04 covers sendDelta's failure branch);
   generator errors are not modelled (pushDeltaXds returns them before any bookkeeping). *)
From V Require Export C04.Session.
From Coq Require Import List NArith Bool.
Import ListNotations.
Open Scope N_scope.

(* ------------------------------------------------------------------ resources and generators *)

(* discovery.Resource: Name, Version (content) *)
Definition res := (N * N)%type.
Definition rnames (l : list res) : list N := map fst l.

(* what a generator is given: w.ResourceNames, w.Wildcard *)
Definition view := (list N * bool)%type.

(* what GenerateDeltas / Generate returned *)
Record gen_out := mkGen {
  g_res : option (list res);    (* model.Resources, None = nil *)
  g_del : option (list N);      (* model.DeletedResources, None = nil *)
  g_used : bool;                (* usedDelta (false for a plain XdsResourceGenerator) *)
  g_inc : bool;                 (* logdata.Incremental *)
  g_set : option (list N)       (* the generator's own assignment to w.ResourceNames (generateDeltasOndemand) *)
}.
Definition gen_none : gen_out := mkGen None None false false None.

(* model.ResourceDelta: Subscribed, Unsubscribed, InitialResourceVersions *)
Record rdelta := mkDelta { dl_sub : list N; dl_unsub : list N; dl_init : list res }.
Definition empty_delta : rdelta := mkDelta [] [] [].
(* pkg/xds/server.go ResourceDelta.IsEmpty *)
Definition delta_empty (d : rdelta) : bool := is_nil (dl_sub d) && is_nil (dl_unsub d).

(* discovery.DeltaDiscoveryResponse: Resources, RemovedResources *)
Record dresp := mkResp { rs_res : list res; rs_removed : list N }.

(* pilot/pkg/xds/delta.go neverRemoveDelta *)
Definition never_remove (t : xds_type) : bool := match t with ECDS => true | _ => false end.

Definition oget {A} (o : option (list A)) : list A := match o with Some l => l | None => [] end.

(* ------------------------------------------------------------------ pushDeltaXds *)

(* pilot/pkg/xds/delta.go pushDeltaXds with w = the proxy's own WatchedResource of type t (what
   processDeltaRequest, forceEDSPush and pushConnectionDelta pass).  Result: the view the generator
   was given, the response sent (None = nothing sent), the session state afterwards. *)
Definition push_delta_xds (st : watched) (t : xds_type) (d : rdelta) (g : view -> gen_out) (nonce : N)
  : option view * option dresp * watched :=
  match st t with
  | None => (None, None, st)                                   (* w == nil *)
  | Some w =>
    (* "if !req.Delta.IsEmpty() && !requiresResourceNamesModification": w becomes a copy holding
       only Delta.Subscribed (Wildcard is not copied) *)
    let filtered := negb (delta_empty d) && negb (requires_names_mod t) in
    let v := if filtered then (dl_sub d, false) else (names w, wildcard w) in
    let o := g v in
    (* a generator's write to w.ResourceNames lands in the proxy's record unless w is the copy *)
    let st1 := match g_set o with
               | Some ns => if filtered then st else upd st t (Some (set_names w ns))
               | None => st
               end in
    let wn := match g_set o with Some ns => ns | None => fst v end in
    match g_res o, g_del o with
    | None, None => (Some v, None, st1)                        (* res == nil && deletedRes == nil *)
    | _, _ =>
      let rs := oget (g_res o) in
      let removed0 :=
        if g_used o then oget (g_del o)
        else if negb (g_inc o) then diff wn (rnames rs)          (* "similar to sotw" *)
        else [] in
      let newnames :=
        if should_set_watched t then
          Some (if g_used o then rnames rs ++ diff wn removed0 else rnames rs)
        else None in
      let removed := if never_remove t then [] else removed0 in
      (Some v, Some (mkResp rs removed), send_delta st1 t nonce true newnames)
    end
  end.

(* the request a generator is serving *)
Inductive preq :=
| RqRequest (d : rdelta)      (* processDeltaRequest: Reason = ProxyRequest, Forced, Delta = d *)
| RqForce                     (* forceEDSPush: Reason = DependentResource, Forced *)
| RqPush.                     (* a push event (pushConnectionDelta) *)

(* s.findGenerator: None = no generator for the type *)
Definition generators := xds_type -> preq -> option (view -> gen_out).

(* one generator invocation as observed: type, view given, response sent *)
Definition event := (xds_type * view * option dresp)%type.

Definition push_one (st : watched) (t : xds_type) (rq : preq) (d : rdelta) (gens : generators) (nonce : N)
  : list event * watched :=
  match st t, gens t rq with
  | Some _, Some g =>
    match push_delta_xds st t d g nonce with
    | (Some v, rsp, st') => ([(t, v, rsp)], st')
    | (None, _, st') => ([], st')
    end
  | _, _ => ([], st)
  end.

(* the ResourceDelta processDeltaRequest builds: Subscribed = deltaWatchedResources(nil, req) names,
   Unsubscribed = unsubscribe names without "*", InitialResourceVersions kept only for the types whose
   generators manage names themselves *)
Definition request_delta (r : dreq) (initv : list res) : rdelta :=
  let '(subs, _, _) := delta_watched_resources [] r in
  mkDelta subs (del star (norm (d_unsub r))) (if requires_names_mod (d_ty r) then initv else []).

(* pilot/pkg/xds/delta.go processDeltaRequest for a non-debug, non-health type.  initv = the
   request's initial_resource_versions (d_init r = its keys); n1, n2 = the nonces of the responses *)
Definition process_delta_request (st : watched) (r : dreq) (initv : list res) (gens : generators) (n1 n2 : N)
  : list event * watched :=
  let t := d_ty r in
  match should_respond_delta st r with
  | (Resp true _, st1) =>
    let d := request_delta r initv in
    let '(ev1, st2) := push_one st1 t (RqRequest d) d gens n1 in
    match t with
    | CDS =>                                                   (* forceEDSPush *)
      let '(ev2, st3) := push_one st2 EDS RqForce empty_delta gens n2 in
      (ev1 ++ ev2, st3)
    | _ => (ev1, st2)
    end
  | (_, st1) => ([], st1)
  end.

(* the loop of pushConnectionDelta over con.watchedResourcesByOrder() = ts (unwatched types are
   skipped by push_one); nonce_of gives the nonce of each response *)
Fixpoint push_connection (st : watched) (ts : list xds_type) (gens : generators) (nonce_of : xds_type -> N)
  : list event * watched :=
  match ts with
  | [] => ([], st)
  | t :: ts' =>
    let '(ev1, st1) := push_one st t RqPush empty_delta gens (nonce_of t) in
    let '(ev2, st2) := push_connection st1 ts' gens nonce_of in
    (ev1 ++ ev2, st2)
  end.

(* pilot/pkg/xds/ads.go PushOrder, as far as Session.xds_type names the types
   (WorkloadAuthorizationType is OTHER 4 in the harness) *)
Definition push_order : list xds_type := [CDS; EDS; LDS; RDS; SDS; ADDR; WORKLOAD; OTHER 4].

(* pilot/pkg/xds/xdsgen.go pushXds (SotW twin; proxyless gRPC excluded): view given, resources sent *)
Definition push_xds (st : watched) (t : xds_type) (d : rdelta) (g : view -> gen_out) (nonce : N)
  : option view * option (list res) * watched :=
  match st t with
  | None => (None, None, st)
  | Some w =>
    let v := if negb (delta_empty d) then (dl_sub d, false) else (names w, wildcard w) in
    match g_res (g v) with
    | None => (Some v, None, st)
    | Some rs => (Some v, Some rs, send st t nonce true)
    end
  end.

(* ------------------------------------------------------------------ workload generators *)

(* one entry of the ambient address index: resource name, content version (0 = ""), the other
   keys it is found under (AddressInfo.Aliases), whether it is a Workload (vs a Service) *)
Record addr := mkAddr { a_name : N; a_ver : N; a_aliases : list N; a_wl : bool }.
Definition index := list addr.

Definition addr_matches (k : N) (a : addr) : bool := (k =? a_name a) || mem k (a_aliases a).

(* AmbientIndexes.AddressInformation: an empty key set means everything *)
Definition address_information (idx : index) (keys : list N) : list addr * list N :=
  if is_nil keys then (idx, [])
  else (filter (fun a => existsb (fun k => addr_matches k a) keys) idx,
        filter (fun k => negb (existsb (addr_matches k) idx)) keys).

Fixpoint lookup (n : N) (m : list res) : option N :=
  match m with
  | [] => None
  | (k, v) :: m' => if n =? k then Some v else lookup n m'
  end.

(* pilot/pkg/xds/workload.go appendAddress (the resource part; `have` gets a_name in any case) *)
Definition append_address (ty : xds_type) (retained : list res) (a : addr) : list res :=
  if negb (a_ver a =? 0) && (match lookup (a_name a) retained with Some v => v =? a_ver a | None => false end)
  then []
  else match ty with
       | WORKLOAD => if a_wl a then [(a_name a, a_ver a)] else []
       | _ => [(a_name a, a_ver a)]
       end.

Definition inter (a b : list N) : list N := filter (fun x => mem x b) a.

(* what the push request carries for the workload generators *)
Record wreq := mkWreq {
  w_isreq : bool;            (* req.IsRequest() *)
  w_updated : list N;        (* req.AddressesUpdated *)
  w_delta : rdelta;          (* req.Delta *)
  w_addl : list N            (* AmbientIndexes.AdditionalPodSubscriptions(...) *)
}.

(* pilot/pkg/xds/workload.go WorkloadGenerator.GenerateDeltas (and generateDeltasOndemand) *)
Definition wds_generate (idx : index) (ty : xds_type) (q : wreq) (v : view) : gen_out :=
  let '(wn, wild) := v in
  let d := w_delta q in
  if negb (w_isreq q) && is_nil (w_updated q) then gen_none
  else if negb wild then
    let addresses := norm ((if w_isreq q then dl_sub d else inter (w_updated q) wn) ++ w_addl q) in
    if is_nil addresses then
      (* a request is answered even with nothing to send - as a delta answer (usedDelta), so that
         pushDeltaXds does not take it for the full state (/repo fix 121b6aa) *)
      (if w_isreq q then mkGen (Some []) None true false None else gen_none)
    else
      let '(addrs, removed) := address_information idx addresses in
      mkGen (Some (flat_map (append_address ty (dl_init d)) addrs))
            (Some (diff removed (flat_map a_aliases addrs)))
            true false
            (Some (norm (wn ++ map a_name addrs)))
  else
    let '(addrs, removed) := address_information idx (if w_isreq q then [] else w_updated q) in
    let have := map a_name addrs in
    mkGen (Some (flat_map (append_address ty (dl_init d)) addrs))
          (Some (if w_isreq q then diff (dl_sub d) have ++ removed else removed))
          true false None.

(* pilot/pkg/xds/workload.go WorkloadRBACGenerator.GenerateDeltas; pols = the policies of the index,
   updated = the AuthorizationPolicy keys of ConfigsUpdated *)
Definition rbac_generate (pols : list res) (forced : bool) (updated : list N) (v : view) : gen_out :=
  if forced then
    mkGen (Some pols) (Some (diff (fst v) (rnames pols))) true false None
  else if is_nil updated then gen_none
  else
    let ps := filter (fun p => mem (fst p) updated) pols in
    mkGen (Some ps) (Some (diff updated (rnames ps))) true false None.

(* ------------------------------------------------------------------ clients *)

Definition c_remove (m : list res) (ns : list N) : list res :=
  filter (fun kv => negb (mem (fst kv) ns)) m.
Definition c_upsert (m rs : list res) : list res := rs ++ c_remove m (rnames rs).

(* a delta client applies removed_resources and resources of every response *)
Definition apply_delta (m : list res) (r : dresp) : list res :=
  c_upsert (c_remove m (rs_removed r)) (rs_res r).

(* a SotW client: CDS/LDS responses are the full state; other types update the named resources *)
Definition full_state (t : xds_type) : bool := match t with CDS | LDS => true | _ => false end.
Definition apply_sotw (t : xds_type) (m rs : list res) : list res :=
  if full_state t then rs else c_upsert m rs.

(* restriction of a map to a name set *)
Definition restrict (m : list res) (ns : list N) : list res := filter (fun kv => mem (fst kv) ns) m.

Definition oN_eqb (a b : option N) : bool :=
  match a, b with
  | None, None => true
  | Some x, Some y => x =? y
  | _, _ => false
  end.

(* the two maps agree on every name of dom *)
Definition agree_on (dom : list N) (m1 m2 : list res) : bool :=
  forallb (fun n => oN_eqb (lookup n m1) (lookup n m2)) dom.
Definition map_eqb (m1 m2 : list res) : bool := agree_on (rnames m1 ++ rnames m2) m1 m2.

(* ------------------------------------------------------------------ the closed system of the theorems *)

(* the world as a proxy sees it: per type the resources that exist for it *)
Definition world := xds_type -> list res.

(* how a type's generator answers a push event *)
Inductive gmode :=
| MFull                                          (* regenerates everything in scope *)
| MDelta (upd : list res) (del : list N)         (* delta-aware: usedDelta with this update/removal set *)
| MSkip.                                         (* returns nil (NeedsPush said no) *)

(* scope of a type's generator: every resource (wildcard types) or the names it is given *)
Definition in_scope (t : xds_type) (v : view) (n : N) : bool :=
  if should_set_watched t then true else mem n (fst v).

(* a generator that returns the full state in scope (Generate, or GenerateDeltas falling back) *)
Definition full_gen (t : xds_type) (gt : list res) (v : view) : gen_out :=
  mkGen (Some (filter (fun kv => in_scope t v (fst kv)) gt)) None false false None.

Definition delta_gen (upd : list res) (del : list N) (_ : view) : gen_out :=
  mkGen (Some upd) (Some del) true false None.

(* requests and forced pushes are answered in full (req.Forced); push events per mode *)
Definition lawful_gens (g : world) (mode : xds_type -> gmode) : generators :=
  fun t rq =>
    match rq with
    | RqPush =>
      match mode t with
      | MFull => Some (full_gen t (g t))
      | MDelta u dl => Some (delta_gen u dl)
      | MSkip => Some (fun _ => gen_none)
      end
    | _ => Some (full_gen t (g t))
    end.

(* history ops on one connection *)
Inductive hop :=
| HReq (t : xds_type) (nonce : N) (sub unsub : list N) (init : list res)
                                  (* a request: initial / spontaneous (nonce 0) or an ACK *)
| HWorld (g' : world) (mode : xds_type -> gmode) (ts : list xds_type). (* world change + push event *)

Record sys := mkSys {
  s_srv : watched;                 (* the server's session state *)
  s_cl : xds_type -> list res;     (* the delta client's resources *)
  s_world : world
}.

Definition apply_event (cl : xds_type -> list res) (e : event) : xds_type -> list res :=
  match e with
  | (t, _, Some r) => fun t' => if ty_eqb t t' then apply_delta (cl t) r else cl t'
  | (_, _, None) => cl
  end.
Definition apply_events (cl : xds_type -> list res) (evs : list event) : xds_type -> list res :=
  fold_left apply_event evs cl.

Definition hreq_dreq (t : xds_type) (nonce : N) (sub unsub : list N) (init : list res) : dreq :=
  mkDReq t sub unsub (rnames init) nonce None.

Definition hstep (s : sys) (o : hop) : sys :=
  match o with
  | HReq t nonce sub unsub init =>
    (* the client forgets what it unsubscribes from, then sends the request *)
    let cl0 := fun t' => if ty_eqb t t' then c_remove (s_cl s t) unsub else s_cl s t' in
    let '(evs, st') := process_delta_request (s_srv s) (hreq_dreq t nonce sub unsub init) init
                         (lawful_gens (s_world s) (fun _ => MFull)) 1 1 in
    mkSys st' (apply_events cl0 evs) (s_world s)
  | HWorld g' mode ts =>
    let '(evs, st') := push_connection (s_srv s) ts (lawful_gens g' mode) (fun _ => 1) in
    mkSys st' (apply_events (s_cl s) evs) g'
  end.

Definition hrun (s : sys) (ops : list hop) : sys := fold_left hstep ops s.

(* resource names are never "*" *)
Definition wf_world (g : world) : Prop := forall t, ~ In star (rnames (g t)).

(* H_delta and its siblings: what a generator may answer to a push event when the world of type t
   goes from g to g' and the client watches ns *)
Definition lawful_mode (t : xds_type) (ns : list N) (g g' : list res) (m : gmode) : Prop :=
  match m with
  | MFull => True
  | MSkip => forall n, (should_set_watched t = true \/ In n ns) -> lookup n g = lookup n g'
  | MDelta u dl =>
    if should_set_watched t
    then forall n, lookup n (c_upsert (c_remove g dl) u) = lookup n g'        (* H_delta *)
    else dl = [] /\ (forall n, In n (rnames u) -> In n ns) /\
         forall n, In n ns -> lookup n (c_upsert g u) = lookup n g'
  end.

(* what the theorems assume of a history step *)
Definition conformant (s : sys) (o : hop) : Prop :=
  match o with
  | HReq t nonce sub unsub init =>
    requires_names_mod t = false /\ is_debug t = false /\
    (* ACKs carry no subscription change (C04 finding K13 is about the ones that do) *)
    (nonce <> 0 -> sub = [] /\ unsub = [] /\ init = []) /\
    (* the first request of a type on a stream reports what the client retained *)
    (s_srv s t = None ->
     forall n, lookup n (s_cl s t) <> None -> In n (rnames init) /\ ~ In n unsub /\ n <> star)
  | HWorld g' mode ts =>
    wf_world g' /\ NoDup ts /\
    forall t w, s_srv s t = Some w -> requires_names_mod t = false -> is_debug t = false ->
      In t ts /\ lawful_mode t (names w) (s_world s t) (g' t) (mode t)
  end.

Fixpoint all_conformant (s : sys) (ops : list hop) : Prop :=
  match ops with
  | [] => True
  | o :: ops' => conformant s o /\ all_conformant (hstep s o) ops'
  end.

(* the state the property promises, per type: the server's record covers what the client holds;
   wildcard (server-tracked) types: the client holds exactly the world; named types: exactly the
   world restricted to the subscription; never-remove types: at least that *)
Definition inv_t (t : xds_type) (st : watched) (m g : list res) : Prop :=
  match st t with
  | None => True
  | Some w =>
    ~ In star (names w) /\
    if should_set_watched t then
      (forall n, lookup n m = lookup n g) /\ (forall n, lookup n m <> None -> In n (names w))
    else if never_remove t then
      forall n v, In n (names w) -> lookup n g = Some v -> lookup n m = Some v
    else
      forall n, lookup n m = if mem n (names w) then lookup n g else None
  end.

Definition Inv (s : sys) : Prop :=
  wf_world (s_world s) /\
  forall t, requires_names_mod t = false -> is_debug t = false ->
            inv_t t (s_srv s) (s_cl s t) (s_world s t).
