(* C03 proofs, part 4: the workload generators (their own removal bookkeeping). *)
From V Require Import C03.Model C03.Proofs C04.Proofs.
From Coq Require Import List NArith Bool Lia.
Import ListNotations.
Open Scope N_scope.

Definition exists_addr (idx : index) (x : N) : Prop := exists a, In a idx /\ a_name a = x.

(* AddressInformation never reports a key as removed under which an address is found *)
Lemma address_information_removed idx keys x :
  In x (snd (address_information idx keys)) -> ~ exists_addr idx x.
Proof.
  unfold address_information. destruct (is_nil keys); cbn [snd]; [intros []|].
  intros H. apply filter_In in H. destruct H as [_ H]. apply negb_true_iff in H.
  intros [a [Ha Hn]]. assert (E : existsb (addr_matches x) idx = true); [|congruence].
  apply existsb_exists. exists a. split; [exact Ha|]. unfold addr_matches. rewrite <- Hn, N.eqb_refl. reflexivity.
Qed.

(* the workload generator answers delta-aware whenever it answers at all *)
Lemma wds_answer_used idx ty q v :
  g_res (wds_generate idx ty q v) <> None \/ g_del (wds_generate idx ty q v) <> None ->
  g_used (wds_generate idx ty q v) = true.
Proof.
  unfold wds_generate. destruct v as [wn wild].
  destruct (negb (w_isreq q) && is_nil (w_updated q)); [cbn; intros [H|H]; congruence|].
  destruct wild; cbn [negb].
  - destruct (address_information idx (if w_isreq q then [] else w_updated q)). reflexivity.
  - destruct (is_nil _).
    + destruct (w_isreq q); cbn; [reflexivity|intros [H|H]; congruence].
    + destruct (address_information idx _). reflexivity.
Qed.

(* a push event or an on-demand request never tells the generator's caller to remove an address that exists *)
Lemma wds_del_sound idx ty q v x :
  (snd v = false \/ w_isreq q = false) ->         (* on-demand, or a push event *)
  In x (oget (g_del (wds_generate idx ty q v))) -> ~ exists_addr idx x.
Proof.
  unfold wds_generate. destruct v as [wn wild]. cbn [snd].
  destruct (negb (w_isreq q) && is_nil (w_updated q)); [cbn; intros _ []|].
  destruct wild; cbn [negb].
  - intros [H|H]; [discriminate|]. rewrite H.
    destruct (address_information idx (w_updated q)) as [addrs removed] eqn:E. cbn [g_del oget].
    intros Hx. apply (address_information_removed idx (w_updated q) x). rewrite E. exact Hx.
  - set (addresses := norm ((if w_isreq q then dl_sub (w_delta q) else inter (w_updated q) wn) ++ w_addl q)).
    destruct (is_nil addresses); [destruct (w_isreq q); cbn; intros _ []|].
    destruct (address_information idx addresses) as [addrs removed] eqn:E. cbn [g_del g_used oget].
    intros _ Hx. apply In_diff in Hx. destruct Hx as [Hx _].
    apply (address_information_removed idx addresses x). rewrite E. exact Hx.
Qed.

(* removed_sound for the workload types, at the level of the response pushDeltaXds sends: on an
   on-demand stream (requests and push events) and for push events on a wildcard stream, no address
   that exists is ever removed - whatever the session state, the ResourceDelta, the index *)
Theorem wds_removed_sound st t d idx q n v r x :
  given st t d = Some v ->
  (snd v = false \/ w_isreq q = false) ->
  resp_of (push_delta_xds st t d (wds_generate idx t q) n) = Some r ->
  In x (rs_removed r) -> ~ exists_addr idx x.
Proof.
  intros Hv Hk Hr Hx.
  assert (Hu : g_used (wds_generate idx t q v) = true).
  { apply wds_answer_used. revert Hr. unfold given in Hv. unfold push_delta_xds, resp_of.
    destruct (st t) as [w|]; [|discriminate]. injection Hv as Hv. rewrite Hv.
    destruct (g_res (wds_generate idx t q v)); [left; discriminate|].
    destruct (g_del (wds_generate idx t q v)); [right; discriminate|]. cbn. discriminate. }
  destruct (push_delta_removed st t d (wds_generate idx t q) n v r Hv Hu Hr) as [_ Hrem].
  rewrite Hrem in Hx. destruct (never_remove t); [destruct Hx|].
  apply (wds_del_sound idx t q v x Hk Hx).
Qed.

(* a wildcard request (connect / reconnect) removes exactly the reported names that do not exist *)
Theorem wds_wildcard_request_removed idx ty q wn x :
  w_isreq q = true ->
  (In x (oget (g_del (wds_generate idx ty q (wn, true)))) <->
   In x (dl_sub (w_delta q)) /\ ~ exists_addr idx x).
Proof.
  intros Hr. unfold wds_generate. rewrite Hr. cbn [negb andb is_nil address_information g_del oget].
  rewrite app_nil_r, In_diff. split; intros [A B]; (split; [exact A|]).
  - intros [a [Ha Hn]]. apply B. apply in_map_iff. exists a. auto.
  - intros H. apply in_map_iff in H. destruct H as [a [Hn Ha]]. apply B. exists a. auto.
Qed.

(* ------------------------------------------------------------------ the on-demand exchange of the former finding *)

(* one on-demand AddressType stream: index {w1 (name 11, version 1, alias 21)}; the client subscribes
   [11; 12], then unsubscribes [12].  Generators as in the harness: the workload generator model. *)
Definition k_idx : index := [mkAddr 11 1 [21] true].
Definition k_gens : generators :=
  fun t rq =>
    match t, rq with
    | ADDR, RqRequest d => Some (wds_generate k_idx ADDR (mkWreq true [] d []))
    | _, _ => None
    end.
Definition k_run : list event * watched :=
  let '(_, st1) := process_delta_request empty_watched (mkDReq ADDR [11; 12] [] [] 0 None) [] k_gens 1 2 in
  process_delta_request st1 (mkDReq ADDR [] [12] [] 0 None) [] k_gens 3 4.

(* the exchange that used to remove 11 (before /repo fix 121b6aa): the unsubscribe is answered with an
   empty delta and nothing is removed *)
Lemma ondemand_regression :
  exists v, fst k_run = [(ADDR, v, Some (mkResp [] []))] /\ In 11 (record (snd k_run) ADDR).
Proof. eexists. split; [vm_compute; reflexivity|]. vm_compute. left. reflexivity. Qed.

(* ------------------------------------------------------------------ the H_delta premise is necessary *)

(* clusters 6 and 7 (two clusters of one service port) and 4 exist; the port goes away and 4 changes;
   a delta-aware answer that updates 4 but removes only 6 (what BuildDeltaClusters did before /repo fix
   9e904ce when a port had a subset cluster next to the plain one) *)
Definition hd_g0 : world := fun t => match t with CDS => [(4, 1); (6, 1); (7, 1)] | _ => [] end.
Definition hd_g1 : world := fun t => match t with CDS => [(4, 2)] | _ => [] end.
Definition hd_ops : list hop :=
  [HReq CDS 0 [] [] [];
   HWorld hd_g1 (fun t => match t with CDS => MDelta [(4, 2)] [6] | _ => MFull end) [CDS]].

Lemma hdelta_needed :
  let s := hrun (mkSys empty_watched (fun _ => []) hd_g0) hd_ops in
  lookup 7 (s_world s CDS) = None /\ lookup 7 (s_cl s CDS) = Some 1 /\ In 7 (record (s_srv s) CDS) /\
  (* the answer violates H_delta and nothing else *)
  ~ (forall n, lookup n (c_upsert (c_remove (hd_g0 CDS) [6]) [(4, 2)]) = lookup n (hd_g1 CDS)).
Proof.
  split; [reflexivity|]. split; [vm_compute; reflexivity|]. split; [vm_compute; auto|].
  intros H. specialize (H 7). vm_compute in H. discriminate.
Qed.
