(* C03 proofs, part 1: maps, clients, one call of pushDeltaXds. *)
From V Require Import C03.Model C04.Proofs C04.ProofsDelta.
From Coq Require Import List NArith Bool Lia.
Import ListNotations.
Open Scope N_scope.

(* ------------------------------------------------------------------ maps *)

Lemma lookup_none n m : lookup n m = None <-> ~ In n (rnames m).
Proof.
  induction m as [|[k v] m IH]; cbn [lookup rnames map fst In]; [tauto|].
  destruct (N.eqb_spec n k) as [->|Hne].
  - split; [discriminate|intros H; exfalso; apply H; auto].
  - rewrite IH. unfold rnames. split; [intros H [E|E]; [congruence|auto]|auto].
Qed.

Lemma lookup_some_in n m v : lookup n m = Some v -> In n (rnames m).
Proof.
  intros H. destruct (in_dec N.eq_dec n (rnames m)) as [|Hn]; [assumption|].
  apply lookup_none in Hn. congruence.
Qed.

Lemma lookup_app n a b :
  lookup n (a ++ b) = match lookup n a with Some v => Some v | None => lookup n b end.
Proof.
  induction a as [|[k v] a IH]; cbn [app lookup]; [reflexivity|].
  destruct (n =? k); [reflexivity|exact IH].
Qed.

Lemma lookup_filter n (p : N -> bool) m :
  lookup n (filter (fun kv => p (fst kv)) m) = if p n then lookup n m else None.
Proof.
  induction m as [|[k v] m IH]; cbn [filter lookup fst]; [destruct (p n); reflexivity|].
  destruct (p k) eqn:Ek; cbn [lookup].
  - destruct (N.eqb_spec n k) as [->|Hne]; [rewrite Ek; reflexivity|exact IH].
  - destruct (N.eqb_spec n k) as [->|Hne]; [rewrite Ek in IH |- *; exact IH|exact IH].
Qed.

Lemma lookup_c_remove n m ns :
  lookup n (c_remove m ns) = if mem n ns then None else lookup n m.
Proof.
  unfold c_remove. rewrite (lookup_filter n (fun k => negb (mem k ns))).
  destruct (mem n ns); reflexivity.
Qed.

Lemma lookup_c_upsert n m rs :
  lookup n (c_upsert m rs) = match lookup n rs with Some v => Some v | None => lookup n m end.
Proof.
  unfold c_upsert. rewrite lookup_app. destruct (lookup n rs) eqn:E; [reflexivity|].
  rewrite lookup_c_remove. apply lookup_none in E.
  destruct (mem n (rnames rs)) eqn:Em; [apply mem_In in Em; contradiction|reflexivity].
Qed.

Lemma lookup_apply_delta n m r :
  lookup n (apply_delta m r) =
  match lookup n (rs_res r) with
  | Some v => Some v
  | None => if mem n (rs_removed r) then None else lookup n m
  end.
Proof. unfold apply_delta. rewrite lookup_c_upsert, lookup_c_remove. reflexivity. Qed.

Lemma lookup_restrict n m ns : lookup n (restrict m ns) = if mem n ns then lookup n m else None.
Proof. unfold restrict. apply (lookup_filter n (fun k => mem k ns)). Qed.

Lemma rnames_filter_in n (p : N -> bool) m :
  In n (rnames (filter (fun kv => p (fst kv)) m)) <-> In n (rnames m) /\ p n = true.
Proof.
  unfold rnames. rewrite in_map_iff. split.
  - intros [[k v] [E H]]. apply filter_In in H. cbn [fst] in *. subst k. destruct H as [H1 H2].
    split; [apply in_map_iff; exists (n, v); auto|exact H2].
  - intros [H Hp]. apply in_map_iff in H. destruct H as [[k v] [E H]]. cbn [fst] in E. subst k.
    exists (n, v). split; [reflexivity|]. apply filter_In. auto.
Qed.

Lemma mem_iff_In x l : mem x l = true <-> In x l.
Proof. apply mem_In. Qed.

Lemma mem_false_iff x l : mem x l = false <-> ~ In x l.
Proof. apply mem_false. Qed.

(* ------------------------------------------------------------------ one call of pushDeltaXds *)

(* the response of a call, if any *)
Definition resp_of (x : option view * option dresp * watched) : option dresp := snd (fst x).
Definition view_of (x : option view * option dresp * watched) : option view := fst (fst x).
Definition state_of (x : option view * option dresp * watched) : watched := snd x.

(* what the generator was given *)
Definition given (st : watched) (t : xds_type) (d : rdelta) : option view :=
  match st t with
  | None => None
  | Some w =>
    Some (if negb (delta_empty d) && negb (requires_names_mod t) then (dl_sub d, false)
          else (names w, wildcard w))
  end.

Lemma push_view st t d g n : view_of (push_delta_xds st t d g n) = given st t d.
Proof.
  unfold push_delta_xds, given, view_of. destruct (st t) as [w|]; [|reflexivity].
  destruct (g_res (g _)), (g_del (g _)); reflexivity.
Qed.

(* non-delta, non-incremental answers ("similar to sotw"): removed = given names not regenerated *)
Lemma push_full_removed st t d g n v r :
  given st t d = Some v ->
  g_used (g v) = false -> g_inc (g v) = false -> g_set (g v) = None ->
  resp_of (push_delta_xds st t d g n) = Some r ->
  rs_res r = oget (g_res (g v)) /\
  forall x, In x (rs_removed r) <->
            (never_remove t = false /\ In x (fst v) /\ ~ In x (rnames (rs_res r))).
Proof.
  unfold given, push_delta_xds, resp_of. destruct (st t) as [w|]; [|discriminate].
  intros Hv. injection Hv as Hv. rewrite Hv. intros Hu Hi Hs. rewrite Hu, Hi, Hs. cbn [negb].
  destruct (g_res (g v)) as [rs|] eqn:Er, (g_del (g v)) as [dl|] eqn:Ed; cbn [fst snd oget];
    try discriminate; intros H; injection H as <-; cbn [rs_res rs_removed];
    (split; [reflexivity|]); intros x; destruct (never_remove t); cbn [In];
    rewrite ?In_diff; intuition congruence.
Qed.

(* delta answers: removed is what the generator said, unless the type never removes *)
Lemma push_delta_removed st t d g n v r :
  given st t d = Some v ->
  g_used (g v) = true ->
  resp_of (push_delta_xds st t d g n) = Some r ->
  rs_res r = oget (g_res (g v)) /\
  rs_removed r = if never_remove t then [] else oget (g_del (g v)).
Proof.
  unfold given, push_delta_xds, resp_of. destruct (st t) as [w|]; [|discriminate].
  intros Hv. injection Hv as Hv. rewrite Hv. intros Hu. rewrite Hu.
  destruct (g_res (g v)) as [rs|] eqn:Er, (g_del (g v)) as [dl|] eqn:Ed; cbn [fst snd oget];
    try discriminate; intros H; injection H as <-; cbn [rs_res rs_removed]; auto.
Qed.

(* the record after a call: untouched for types whose names the server does not track *)
Lemma push_record_untracked st t d g n :
  should_set_watched t = false ->
  (forall v, g_set (g v) = None) ->
  record (state_of (push_delta_xds st t d g n)) t = record st t.
Proof.
  intros Ht Hs. unfold push_delta_xds, state_of. destruct (st t) as [w|] eqn:Ew; [|reflexivity].
  rewrite Hs, Ht. destruct (g_res (g _)), (g_del (g _)); cbn [snd]; try reflexivity;
    apply send_delta_none_record.
Qed.
