(* C03 proofs, part 2: the closed system (world changes + client requests) keeps the invariant. *)
From V Require Import C03.Model C03.Proofs C04.Proofs C04.ProofsDelta.
From Coq Require Import List NArith Bool Lia.
Import ListNotations.
Open Scope N_scope.

(* ------------------------------------------------------------------ send_delta on a watched type *)

Lemma send_delta_watched st t n nn w :
  st t = Some w -> is_debug t = false ->
  send_delta st t n true nn =
  upd st t (Some (set_sent (match nn with Some ns => set_names w (norm ns) | None => w end) n)).
Proof. intros Hw Hd. unfold send_delta. rewrite Hd, Hw. reflexivity. Qed.

(* ------------------------------------------------------------------ pushes with lawful generators *)

Definition gview (w : wr) (t : xds_type) (d : rdelta) : view :=
  if negb (delta_empty d) && negb (requires_names_mod t) then (dl_sub d, false) else (names w, wildcard w).

Definition full_rs (t : xds_type) (g : list res) (v : view) : list res :=
  filter (fun kv => in_scope t v (fst kv)) g.

Lemma push_full st t d g n w :
  st t = Some w -> is_debug t = false ->
  let v := gview w t d in
  let rs := full_rs t g v in
  push_delta_xds st t d (full_gen t g) n =
  (Some v,
   Some (mkResp rs (if never_remove t then [] else diff (fst v) (rnames rs))),
   upd st t (Some (set_sent (if should_set_watched t then set_names w (norm (rnames rs)) else w) n))).
Proof.
  intros Hw Hd v rs. unfold push_delta_xds. rewrite Hw. fold (gview w t d). fold v.
  unfold full_gen. cbn [g_res g_del g_used g_inc g_set oget negb]. fold (full_rs t g v). fold rs.
  rewrite (send_delta_watched st t n _ w Hw Hd).
  destruct (should_set_watched t); reflexivity.
Qed.

Lemma push_delta st t d u dl n w :
  st t = Some w -> is_debug t = false ->
  let v := gview w t d in
  push_delta_xds st t d (delta_gen u dl) n =
  (Some v,
   Some (mkResp u (if never_remove t then [] else dl)),
   upd st t (Some (set_sent (if should_set_watched t then set_names w (norm (rnames u ++ diff (fst v) dl)) else w) n))).
Proof.
  intros Hw Hd v. unfold push_delta_xds. rewrite Hw. fold (gview w t d). fold v.
  unfold delta_gen. cbn [g_res g_del g_used g_inc g_set oget negb].
  rewrite (send_delta_watched st t n _ w Hw Hd).
  destruct (should_set_watched t); reflexivity.
Qed.

Lemma push_skip st t d n w :
  st t = Some w ->
  push_delta_xds st t d (fun _ => gen_none) n = (Some (gview w t d), None, st).
Proof. intros Hw. unfold push_delta_xds. rewrite Hw. reflexivity. Qed.

(* the client after a full answer *)
Lemma lookup_full_rs x t g v : lookup x (full_rs t g v) = if in_scope t v x then lookup x g else None.
Proof. unfold full_rs. apply (lookup_filter x (fun k => in_scope t v k)). Qed.

Lemma apply_full x m t g v :
  lookup x (apply_delta m (mkResp (full_rs t g v) (if never_remove t then [] else diff (fst v) (rnames (full_rs t g v))))) =
  match (if in_scope t v x then lookup x g else None) with
  | Some y => Some y
  | None => if never_remove t then lookup x m else if mem x (fst v) then None else lookup x m
  end.
Proof.
  rewrite lookup_apply_delta. cbn [rs_res rs_removed]. rewrite lookup_full_rs.
  destruct (if in_scope t v x then lookup x g else None) eqn:E; [reflexivity|].
  destruct (never_remove t); [reflexivity|].
  destruct (mem x (fst v)) eqn:Em.
  - assert (H : mem x (diff (fst v) (rnames (full_rs t g v))) = true).
    { apply mem_In, In_diff. split; [apply mem_In; exact Em|].
      apply lookup_none. rewrite lookup_full_rs. exact E. }
    rewrite H. reflexivity.
  - assert (H : mem x (diff (fst v) (rnames (full_rs t g v))) = false).
    { apply mem_false. rewrite In_diff. intros [H _]. apply mem_In in H. congruence. }
    rewrite H. reflexivity.
Qed.

(* ------------------------------------------------------------------ a push event keeps the invariant of its type *)

Definition mode_gen (t : xds_type) (g' : list res) (mode : gmode) : view -> gen_out :=
  match mode with
  | MFull => full_gen t g'
  | MDelta u dl => delta_gen u dl
  | MSkip => fun _ => gen_none
  end.

Lemma tracked_not_never t : should_set_watched t = true -> never_remove t = false.
Proof. destruct t; cbn; congruence. Qed.

Lemma gview_empty w t : gview w t empty_delta = (names w, wildcard w).
Proof. reflexivity. Qed.

Lemma in_rnames_lookup x m : In x (rnames m) <-> lookup x m <> None.
Proof.
  split.
  - intros H E. apply lookup_none in E. contradiction.
  - intros H. destruct (in_dec N.eq_dec x (rnames m)) as [|Hn]; [assumption|].
    apply lookup_none in Hn. contradiction.
Qed.

Lemma rnames_full_rs_sub x t g v : In x (rnames (full_rs t g v)) -> In x (rnames g).
Proof. unfold full_rs. intros H. apply rnames_filter_in in H. tauto. Qed.

Definition after (m : list res) (rsp : option dresp) : list res :=
  match rsp with Some r => apply_delta m r | None => m end.

Lemma push_mode_inv t st m g g' mode n w :
  st t = Some w -> requires_names_mod t = false -> is_debug t = false ->
  ~ In star (rnames g') ->
  inv_t t st m g -> lawful_mode t (names w) g g' mode ->
  forall v rsp st', push_delta_xds st t empty_delta (mode_gen t g' mode) n = (v, rsp, st') ->
  inv_t t st' (after m rsp) g'.
Proof.
  intros Hw Hm Hd Hstar Hinv Hlaw v rsp st' E.
  unfold inv_t in Hinv. rewrite Hw in Hinv. destruct Hinv as [Hns Hinv].
  destruct mode as [|u dl|]; cbn [mode_gen] in E.
  - (* full *)
    rewrite (push_full st t empty_delta g' n w Hw Hd) in E. rewrite gview_empty in E. cbn zeta in E.
    injection E as <- <- <-. unfold inv_t. rewrite upd_same. cbn [after].
    pose (vv := (names w, wildcard w)). cbn [fst] in *.
    destruct (should_set_watched t) eqn:Et.
    + rewrite (tracked_not_never t Et). destruct Hinv as [Heq Hdom].
      cbn [names set_sent set_names].
      assert (Hm' : forall x, lookup x (apply_delta m (mkResp (full_rs t g' vv) (diff (names w) (rnames (full_rs t g' vv))))) = lookup x g').
      { intros x. pose proof (apply_full x m t g' vv) as A. rewrite (tracked_not_never t Et) in A. cbv beta iota in A. cbn [fst vv] in A.
        fold vv. rewrite A. unfold in_scope. rewrite Et. destruct (lookup x g') eqn:Eg; [reflexivity|].
        destruct (mem x (names w)) eqn:Em; [reflexivity|].
        destruct (lookup x m) eqn:Emx; [|reflexivity].
        exfalso. apply mem_false in Em. apply Em. apply Hdom. congruence. }
      split; [|split].
      * rewrite In_norm. intros H. apply rnames_full_rs_sub in H. contradiction.
      * exact Hm'.
      * intros x Hx. rewrite Hm' in Hx. rewrite In_norm. apply in_rnames_lookup.
        rewrite lookup_full_rs. unfold in_scope. rewrite Et. exact Hx.
    + cbn [names set_sent]. split; [exact Hns|].
      destruct (never_remove t) eqn:En.
      * intros x y Hx Hg. pose proof (apply_full x m t g' vv) as A. rewrite En in A. cbv beta iota in A. cbn [fst vv] in A. fold vv. rewrite A.
        unfold in_scope. rewrite Et. cbn [fst vv]. apply mem_In in Hx. rewrite Hx, Hg. reflexivity.
      * intros x. pose proof (apply_full x m t g' vv) as A. rewrite En in A. cbv beta iota in A. cbn [fst vv] in A. cbv beta iota. fold vv. rewrite A.
        unfold in_scope. rewrite Et. cbn [fst vv].
        destruct (mem x (names w)) eqn:Em.
        -- destruct (lookup x g'); reflexivity.
        -- rewrite Hinv, Em. reflexivity.
  - (* delta *)
    rewrite (push_delta st t empty_delta u dl n w Hw Hd) in E. rewrite gview_empty in E. cbn zeta in E.
    injection E as <- <- <-. unfold inv_t. rewrite upd_same. cbn [after lawful_mode] in *.
    destruct (should_set_watched t) eqn:Et.
    + rewrite (tracked_not_never t Et). destruct Hinv as [Heq Hdom]. cbn [names set_sent set_names fst].
      assert (Hm' : forall x, lookup x (apply_delta m (mkResp u dl)) = lookup x g').
      { intros x. rewrite <- Hlaw. rewrite lookup_apply_delta, lookup_c_upsert, lookup_c_remove.
        cbn [rs_res rs_removed]. rewrite Heq. reflexivity. }
      split; [|split].
      * rewrite In_norm, in_app_iff, In_diff. intros [H|[H _]]; [|contradiction].
        apply in_rnames_lookup in H. apply Hstar. apply in_rnames_lookup.
        rewrite <- Hlaw, lookup_c_upsert. destruct (lookup star u); congruence.
      * exact Hm'.
      * intros x Hx. rewrite In_norm, in_app_iff, In_diff.
        rewrite lookup_apply_delta in Hx. cbn [rs_res rs_removed] in Hx.
        destruct (lookup x u) eqn:Eu.
        -- left. apply in_rnames_lookup. congruence.
        -- right. destruct (mem x dl) eqn:Em; [congruence|]. apply mem_false in Em. auto.
    + destruct Hlaw as [-> [Hsub Hup]]. cbn [names set_sent]. split; [exact Hns|].
      assert (Hr : (if never_remove t then [] else []) = (@nil N)) by (destruct (never_remove t); reflexivity).
      rewrite Hr.
      assert (Hm' : forall x, lookup x (apply_delta m (mkResp u [])) =
                              match lookup x u with Some y => Some y | None => lookup x m end).
      { intros x. rewrite lookup_apply_delta. reflexivity. }
      destruct (never_remove t) eqn:En.
      * intros x y Hx Hg. rewrite Hm'. specialize (Hup x Hx). rewrite lookup_c_upsert in Hup.
        destruct (lookup x u); [congruence|]. apply Hinv; [exact Hx|congruence].
      * intros x. rewrite Hm'. destruct (mem x (names w)) eqn:Em.
        -- apply mem_In in Em. specialize (Hup x Em). rewrite lookup_c_upsert in Hup.
           destruct (lookup x u); [exact Hup|]. rewrite Hinv. apply mem_In in Em. rewrite Em. exact Hup.
        -- assert (Hu : lookup x u = None).
           { apply lookup_none. intros H. apply Hsub in H. apply mem_false in Em. contradiction. }
           rewrite Hu, Hinv, Em. reflexivity.
  - (* skip *)
    rewrite (push_skip st t empty_delta n w Hw) in E. injection E as <- <- <-.
    unfold inv_t. rewrite Hw. cbn [after lawful_mode] in *. split; [exact Hns|].
    destruct (should_set_watched t) eqn:Et.
    + destruct Hinv as [Heq Hdom]. split; [|exact Hdom]. intros x. rewrite Heq. apply Hlaw. auto.
    + destruct (never_remove t).
      * intros x y Hx Hg. apply Hinv; [exact Hx|]. rewrite Hlaw; auto.
      * intros x. rewrite Hinv. destruct (mem x (names w)) eqn:Em; [|reflexivity].
        apply Hlaw. right. apply mem_In. exact Em.
Qed.

(* ------------------------------------------------------------------ frame: a push touches only its type *)

Lemma send_delta_other st t n ok nn t' : t' <> t -> send_delta st t n ok nn t' = st t'.
Proof.
  intros H. unfold send_delta. destruct (ok && negb (is_debug t)); [|reflexivity].
  apply upd_other. congruence.
Qed.

Lemma push_delta_xds_other st t d g n t' :
  t' <> t -> snd (push_delta_xds st t d g n) t' = st t'.
Proof.
  intros H. unfold push_delta_xds. destruct (st t) as [w|] eqn:Ew; [|reflexivity].
  set (v := if negb (delta_empty d) && negb (requires_names_mod t) then (dl_sub d, false) else (names w, wildcard w)).
  assert (H1 : forall ns, (if negb (delta_empty d) && negb (requires_names_mod t) then st else upd st t (Some (set_names w ns))) t' = st t').
  { intros ns. destruct (negb (delta_empty d) && negb (requires_names_mod t)); [reflexivity|].
    apply upd_other. congruence. }
  destruct (g_set (g v)) as [ns|]; destruct (g_res (g v)), (g_del (g v)); cbn [snd];
    rewrite ?send_delta_other by exact H; auto.
Qed.

Lemma push_one_other st t rq d gens n t' :
  t' <> t -> snd (push_one st t rq d gens n) t' = st t'.
Proof.
  intros H. unfold push_one. destruct (st t); [|reflexivity]. destruct (gens t rq) as [g|]; [|reflexivity].
  pose proof (push_delta_xds_other st t d g n t' H) as P.
  destruct (push_delta_xds st t d g n) as [[[v|] rsp] st']; exact P.
Qed.

Lemma push_one_events st t rq d gens n e :
  In e (fst (push_one st t rq d gens n)) -> fst (fst e) = t.
Proof.
  unfold push_one. destruct (st t); [|intros []]. destruct (gens t rq) as [g|]; [|intros []].
  destruct (push_delta_xds st t d g n) as [[[v|] rsp] st']; cbn [fst]; [|intros []].
  intros [<-|[]]. reflexivity.
Qed.

Lemma apply_events_app cl e1 e2 : apply_events cl (e1 ++ e2) = apply_events (apply_events cl e1) e2.
Proof. unfold apply_events. apply fold_left_app. Qed.

Lemma apply_event_other cl e t' : fst (fst e) <> t' -> apply_event cl e t' = cl t'.
Proof.
  destruct e as [[t v] [r|]]; cbn [fst apply_event]; [|reflexivity].
  intros H. rewrite ty_eqb_neq by exact H. reflexivity.
Qed.

Lemma apply_events_other evs : forall cl t',
  (forall e, In e evs -> fst (fst e) <> t') -> apply_events cl evs t' = cl t'.
Proof.
  induction evs as [|e evs IH]; intros cl t' H; [reflexivity|].
  unfold apply_events. cbn [fold_left]. fold (apply_events (apply_event cl e) evs).
  rewrite IH by (intros e' He'; apply H; right; exact He').
  apply apply_event_other. apply H. left. reflexivity.
Qed.

Lemma push_connection_frame gens nf ts : forall st cl evs st' t,
  push_connection st ts gens nf = (evs, st') -> ~ In t ts ->
  st' t = st t /\ apply_events cl evs t = cl t.
Proof.
  induction ts as [|t0 ts IH]; intros st cl evs st' t E Hn; cbn [push_connection] in E.
  - injection E as <- <-. auto.
  - destruct (push_one st t0 RqPush empty_delta gens (nf t0)) as [ev1 st1] eqn:E1.
    destruct (push_connection st1 ts gens nf) as [ev2 st2] eqn:E2.
    injection E as <- <-.
    assert (Hne : t <> t0) by (intros ->; apply Hn; left; reflexivity).
    destruct (IH st1 (apply_events cl ev1) ev2 st2 t E2) as [A B]; [intros H; apply Hn; right; exact H|].
    split.
    + rewrite A. pose proof (push_one_other st t0 RqPush empty_delta gens (nf t0) t Hne) as P.
      rewrite E1 in P. exact P.
    + rewrite apply_events_app, B. apply apply_events_other.
      intros e He Hc. pose proof (push_one_events st t0 RqPush empty_delta gens (nf t0) e) as P.
      rewrite E1 in P. specialize (P He). congruence.
Qed.

Lemma lawful_gens_push g' mode t :
  lawful_gens g' mode t RqPush = Some (mode_gen t (g' t) (mode t)).
Proof. unfold lawful_gens, mode_gen. destruct (mode t); reflexivity. Qed.

Lemma inv_t_ext t st1 st2 m g : st1 t = st2 t -> inv_t t st1 m g -> inv_t t st2 m g.
Proof. unfold inv_t. intros ->. auto. Qed.

(* one push of one type under a world change *)
Lemma push_one_inv g g' mode n t st m :
  requires_names_mod t = false -> is_debug t = false -> ~ In star (rnames (g' t)) ->
  inv_t t st m g ->
  (forall w, st t = Some w -> lawful_mode t (names w) g (g' t) (mode t)) ->
  forall evs st' cl, cl t = m ->
  push_one st t RqPush empty_delta (lawful_gens g' mode) n = (evs, st') ->
  inv_t t st' (apply_events cl evs t) (g' t).
Proof.
  intros Hm Hd Hs Hinv Hlaw evs st' cl Hcl E. unfold push_one in E. rewrite lawful_gens_push in E.
  destruct (st t) as [w|] eqn:Ew.
  - destruct (push_delta_xds st t empty_delta (mode_gen t (g' t) (mode t)) n) as [[ov rsp] st1] eqn:Ep.
    pose proof (push_mode_inv t st m g (g' t) (mode t) n w Ew Hm Hd Hs Hinv (Hlaw w eq_refl) ov rsp st1 Ep) as P.
    assert (Hov : exists v, ov = Some v).
    { pose proof (push_view st t empty_delta (mode_gen t (g' t) (mode t)) n) as V. rewrite Ep in V.
      unfold view_of, given in V. cbn [fst] in V. rewrite Ew in V. eauto. }
    destruct Hov as [v ->]. injection E as <- <-.
    unfold apply_events. cbn [fold_left apply_event].
    destruct rsp as [r|]; cbn [after] in P.
    + rewrite ty_eqb_refl, Hcl. exact P.
    + rewrite Hcl. exact P.
  - injection E as <- <-. unfold inv_t. rewrite Ew. exact I.
Qed.

Lemma push_connection_inv g g' mode nf : wf_world g' ->
  forall ts st cl evs st', NoDup ts ->
  push_connection st ts (lawful_gens g' mode) nf = (evs, st') ->
  forall t, requires_names_mod t = false -> is_debug t = false -> In t ts ->
    inv_t t st (cl t) (g t) ->
    (forall w, st t = Some w -> lawful_mode t (names w) (g t) (g' t) (mode t)) ->
    inv_t t st' (apply_events cl evs t) (g' t).
Proof.
  intros Hwf. induction ts as [|t0 ts IH]; intros st cl evs st' Hnd E t Hm Hd Hin Hinv Hlaw; [destruct Hin|].
  cbn [push_connection] in E.
  destruct (push_one st t0 RqPush empty_delta (lawful_gens g' mode) (nf t0)) as [ev1 st1] eqn:E1.
  destruct (push_connection st1 ts (lawful_gens g' mode) nf) as [ev2 st2] eqn:E2.
  injection E as <- <-. inversion Hnd as [|? ? Hnotin Hnd']; subst.
  rewrite apply_events_app.
  destruct (ty_eqb t0 t) eqn:Et.
  - apply ty_eqb_eq in Et. subst t0.
    destruct (push_connection_frame _ _ _ st1 (apply_events cl ev1) ev2 st2 t E2 Hnotin) as [A B].
    rewrite B. apply (inv_t_ext t st1 st2); [symmetry; exact A|].
    apply (push_one_inv (g t) g' mode (nf t) t st (cl t) Hm Hd (Hwf t) Hinv Hlaw ev1 st1 cl eq_refl E1).
  - assert (Hne : t <> t0) by (intros ->; rewrite ty_eqb_refl in Et; discriminate).
    destruct Hin as [->|Hin]; [congruence|].
    pose proof (push_one_other st t0 RqPush empty_delta (lawful_gens g' mode) (nf t0) t Hne) as P1.
    rewrite E1 in P1. cbn [snd] in P1.
    assert (P2 : apply_events cl ev1 t = cl t).
    { apply apply_events_other. intros e He Hc.
      pose proof (push_one_events st t0 RqPush empty_delta (lawful_gens g' mode) (nf t0) e) as P.
      rewrite E1 in P. specialize (P He). congruence. }
    apply (IH st1 (apply_events cl ev1) ev2 st2 Hnd' E2 t Hm Hd Hin).
    + rewrite P2. apply (inv_t_ext t st st1); [symmetry; exact P1|exact Hinv].
    + intros w Hw. apply Hlaw. rewrite <- P1. exact Hw.
Qed.

(* ------------------------------------------------------------------ deltaWatchedResources: the changed flag *)

Lemma fold_ins_true l : forall res, snd (fold_left dwr_ins l (res, true)) = true.
Proof.
  induction l as [|y l IH]; intros res; cbn [fold_left]; [reflexivity|].
  unfold dwr_ins at 2. destruct (mem y res); apply IH.
Qed.

Lemma fold_del_true l : forall res, snd (fold_left dwr_del l (res, true)) = true.
Proof.
  induction l as [|y l IH]; intros res; cbn [fold_left]; [reflexivity|].
  unfold dwr_del at 2. destruct (mem y res); apply IH.
Qed.

Lemma fold_ins_unchanged l : forall res ch,
  snd (fold_left dwr_ins l (res, ch)) = false ->
  ch = false /\ fold_left dwr_ins l (res, ch) = (res, false) /\ forall x, In x l -> In x res.
Proof.
  induction l as [|y l IH]; intros res ch H; cbn [fold_left] in *.
  - cbn [snd] in H. subst. repeat split; auto. intros x [].
  - unfold dwr_ins at 2 in H. unfold dwr_ins at 2. destruct (mem y res) eqn:Em.
    + destruct (IH res ch H) as [A [B C]]. repeat split; auto.
      intros x [<-|Hx]; [apply mem_In; exact Em|auto].
    + rewrite fold_ins_true in H. discriminate.
Qed.

Lemma fold_del_unchanged l : forall res ch,
  snd (fold_left dwr_del l (res, ch)) = false ->
  ch = false /\ fold_left dwr_del l (res, ch) = (res, false) /\ forall x, In x l -> ~ In x res.
Proof.
  induction l as [|y l IH]; intros res ch H; cbn [fold_left] in *.
  - cbn [snd] in H. subst. repeat split; auto.
  - unfold dwr_del at 2 in H. unfold dwr_del at 2. destruct (mem y res) eqn:Em.
    + rewrite fold_del_true in H. discriminate.
    + destruct (IH res ch H) as [A [B C]]. repeat split; auto.
      intros x [<-|Hx]; [apply mem_false; exact Em|auto].
Qed.

Lemma dwr_unchanged ns r res wc :
  delta_watched_resources ns r = (res, wc, false) ->
  res = del star ns /\
  (forall x, In x (d_sub r) \/ In x (d_init r) -> In x ns) /\
  (forall x, In x (d_unsub r) -> ~ In x ns).
Proof.
  unfold delta_watched_resources. intros E.
  destruct (fold_left dwr_del (d_unsub r) (fold_left dwr_ins (d_init r) (fold_left dwr_ins (d_sub r) (ns, false))))
    as [res0 ch0] eqn:E0.
  injection E as E1 _ E2. subst ch0.
  destruct (fold_left dwr_ins (d_init r) (fold_left dwr_ins (d_sub r) (ns, false))) as [res1 ch1] eqn:E3.
  assert (H0 : snd (fold_left dwr_del (d_unsub r) (res1, ch1)) = false) by (rewrite E0; reflexivity).
  destruct (fold_del_unchanged _ _ _ H0) as [-> [B C]]. rewrite B in E0. injection E0 as <-.
  destruct (fold_left dwr_ins (d_sub r) (ns, false)) as [res2 ch2] eqn:E4.
  assert (H1 : snd (fold_left dwr_ins (d_init r) (res2, ch2)) = false) by (rewrite E3; reflexivity).
  destruct (fold_ins_unchanged _ _ _ H1) as [-> [B1 C1]]. rewrite B1 in E3. injection E3 as <-.
  assert (H2 : snd (fold_left dwr_ins (d_sub r) (ns, false)) = false) by (rewrite E4; reflexivity).
  destruct (fold_ins_unchanged _ _ _ H2) as [_ [B2 C2]]. rewrite B2 in E4. injection E4 as <-.
  repeat split; [symmetry; exact E1| |exact C].
  intros x [H|H]; auto.
Qed.

Lemma del_notin x l : ~ In x l -> del x l = l.
Proof.
  intros H. unfold del. induction l as [|y l IH]; [reflexivity|]. cbn [filter].
  destruct (N.eqb_spec x y) as [->|Hne]; [exfalso; apply H; left; reflexivity|].
  cbn [negb]. f_equal. apply IH. intros Hi. apply H. right. exact Hi.
Qed.

(* ------------------------------------------------------------------ a request answered in full keeps the invariant *)

Lemma inv_t_lookup_ext t st m1 m2 g :
  (forall x, lookup x m1 = lookup x m2) -> inv_t t st m1 g -> inv_t t st m2 g.
Proof.
  intros H. unfold inv_t. destruct (st t) as [w|]; [|auto]. intros [A B]. split; [exact A|].
  destruct (should_set_watched t).
  - destruct B as [B1 B2]. split; intros x; rewrite <- H; auto.
  - destruct (never_remove t); intros x; [intros y|]; rewrite <- H; auto.
Qed.

Lemma req_push_inv t st1 w1 m0 g d n :
  st1 t = Some w1 -> requires_names_mod t = false -> is_debug t = false ->
  ~ In star (rnames g) -> ~ In star (names w1) ->
  let vn := fst (gview w1 t d) in
  (if should_set_watched t then forall x, lookup x m0 <> None -> lookup x g <> None \/ In x vn
   else if never_remove t then
     forall x y, In x (names w1) -> ~ In x vn -> lookup x g = Some y -> lookup x m0 = Some y
   else forall x, ~ In x vn -> lookup x m0 = if mem x (names w1) then lookup x g else None) ->
  (forall x, In x vn -> In x (names w1)) ->
  forall ov rsp st2, push_delta_xds st1 t d (full_gen t g) n = (ov, rsp, st2) ->
  inv_t t st2 (after m0 rsp) g.
Proof.
  intros Hw Hm Hd Hsg Hsw vn Hcl Hsub ov rsp st2 E.
  rewrite (push_full st1 t d g n w1 Hw Hd) in E. cbn zeta in E. injection E as <- <- <-.
  unfold inv_t. rewrite upd_same. cbn [after]. set (v := gview w1 t d) in *.
  assert (A : forall x, lookup x (apply_delta m0 (mkResp (full_rs t g v) (if never_remove t then [] else diff (fst v) (rnames (full_rs t g v))))) =
            match (if in_scope t v x then lookup x g else None) with
            | Some y => Some y
            | None => if never_remove t then lookup x m0 else if mem x (fst v) then None else lookup x m0
            end) by (intros x; apply apply_full).
  destruct (should_set_watched t) eqn:Et.
  - pose proof (tracked_not_never t Et) as En. rewrite En in *. cbn [names set_sent set_names].
    assert (Hm' : forall x, lookup x (apply_delta m0 (mkResp (full_rs t g v) (diff (fst v) (rnames (full_rs t g v))))) = lookup x g).
    { intros x. rewrite A. unfold in_scope. rewrite Et. destruct (lookup x g) eqn:Eg; [reflexivity|].
      destruct (mem x (fst v)) eqn:Em; [reflexivity|].
      destruct (lookup x m0) eqn:Emx; [|reflexivity]. exfalso.
      destruct (Hcl x) as [H|H]; [congruence|congruence|]. apply mem_false in Em. contradiction. }
    split; [|split].
    + rewrite In_norm. intros H. apply rnames_full_rs_sub in H. contradiction.
    + exact Hm'.
    + intros x Hx. rewrite Hm' in Hx. rewrite In_norm. apply in_rnames_lookup.
      rewrite lookup_full_rs. unfold in_scope. rewrite Et. exact Hx.
  - cbn [names set_sent]. split; [exact Hsw|]. unfold in_scope in A. rewrite Et in A.
    destruct (never_remove t) eqn:En.
    + intros x y Hx Hg. rewrite A. destruct (mem x (fst v)) eqn:Em.
      * rewrite Hg. reflexivity.
      * apply (Hcl x y Hx); [apply mem_false; exact Em|exact Hg].
    + intros x. rewrite A. destruct (mem x (fst v)) eqn:Em.
      * apply mem_In in Em. apply Hsub in Em. apply mem_In in Em. rewrite Em.
        destruct (lookup x g); reflexivity.
      * apply Hcl. apply mem_false. exact Em.
Qed.

Lemma push_one_req_inv gens rq t st1 w1 m0 g d n :
  gens t rq = Some (full_gen t g) ->
  st1 t = Some w1 -> requires_names_mod t = false -> is_debug t = false ->
  ~ In star (rnames g) -> ~ In star (names w1) ->
  let vn := fst (gview w1 t d) in
  (if should_set_watched t then forall x, lookup x m0 <> None -> lookup x g <> None \/ In x vn
   else if never_remove t then
     forall x y, In x (names w1) -> ~ In x vn -> lookup x g = Some y -> lookup x m0 = Some y
   else forall x, ~ In x vn -> lookup x m0 = if mem x (names w1) then lookup x g else None) ->
  (forall x, In x vn -> In x (names w1)) ->
  forall evs st2 cl, cl t = m0 ->
  push_one st1 t rq d gens n = (evs, st2) ->
  inv_t t st2 (apply_events cl evs t) g.
Proof.
  intros Hg Hw Hm Hd Hsg Hsw vn Hcl Hsub evs st2 cl Hc E. unfold push_one in E. rewrite Hw, Hg in E.
  destruct (push_delta_xds st1 t d (full_gen t g) n) as [[ov rsp] st'] eqn:Ep.
  pose proof (req_push_inv t st1 w1 m0 g d n Hw Hm Hd Hsg Hsw Hcl Hsub ov rsp st' Ep) as P.
  assert (Hov : exists v, ov = Some v).
  { pose proof (push_view st1 t d (full_gen t g) n) as V. rewrite Ep in V.
    unfold view_of, given in V. cbn [fst] in V. rewrite Hw in V. eauto. }
  destruct Hov as [v ->]. injection E as <- <-.
  unfold apply_events. cbn [fold_left apply_event].
  destruct rsp as [r|]; cbn [after] in P.
  - rewrite ty_eqb_refl, Hc. exact P.
  - rewrite Hc. exact P.
Qed.

Lemma srd_other st r t' : t' <> d_ty r -> snd (should_respond_delta st r) t' = st t'.
Proof.
  intros H. assert (H' : d_ty r <> t') by congruence.
  unfold should_respond_delta. destruct (d_err r) as [e|].
  - unfold nack. destruct (st (d_ty r)); cbn [snd]; [apply upd_other; exact H'|reflexivity].
  - destruct (st (d_ty r)) as [w|].
    + destruct (negb (d_nonce r =? 0) && negb (d_nonce r =? nonce_sent w)); [reflexivity|].
      destruct (requires_names_mod (d_ty r) && wildcard w).
      * destruct (negb (negb (is_nil (d_sub r)) || negb (is_nil (d_unsub r)))); [destruct (always_respond w)|];
          cbn [snd]; apply upd_other; exact H'.
      * destruct (delta_watched_resources (names w) r) as [[res wc] ch].
        destruct (negb ch); [destruct (always_respond w)|]; cbn [snd]; apply upd_other; exact H'.
    + destruct (delta_watched_resources [] r) as [[res wc] ch]. cbn [snd]. apply upd_other. exact H'.
Qed.

Lemma lawful_gens_req g t d : lawful_gens g (fun _ => MFull) t (RqRequest d) = Some (full_gen t (g t)).
Proof. reflexivity. Qed.
Lemma lawful_gens_force g t : lawful_gens g (fun _ => MFull) t RqForce = Some (full_gen t (g t)).
Proof. reflexivity. Qed.

Lemma lookup_remove_nil x m : lookup x (c_remove m []) = lookup x m.
Proof. rewrite lookup_c_remove. reflexivity. Qed.

(* the request's own type *)
Lemma request_inv g t nonce sub unsub init st m :
  requires_names_mod t = false -> is_debug t = false -> ~ In star (rnames (g t)) ->
  inv_t t st m (g t) ->
  (nonce <> 0 -> sub = [] /\ unsub = [] /\ init = []) ->
  (st t = None -> forall x, lookup x m <> None -> In x (rnames init) /\ ~ In x unsub /\ x <> star) ->
  let r := hreq_dreq t nonce sub unsub init in
  let d := request_delta r init in
  forall resp st1, should_respond_delta st r = (resp, st1) ->
  match resp with
  | Resp true _ =>
    forall evs st2 cl, cl t = c_remove m unsub ->
      push_one st1 t (RqRequest d) d (lawful_gens g (fun _ => MFull)) 1 = (evs, st2) ->
      inv_t t st2 (apply_events cl evs t) (g t)
  | _ => inv_t t st1 (c_remove m unsub) (g t)
  end.
Proof.
  intros Hm Hd Hsg Hinv Hack Hfirst r d resp st1 E.
  assert (Hm0 : forall x, lookup x (c_remove m unsub) = if mem x unsub then None else lookup x m)
    by (intros; apply lookup_c_remove).
  (* the ResourceDelta of the request *)
  assert (Hd_sub : forall x, In x (dl_sub d) <-> (In x sub \/ In x (rnames init)) /\ ~ In x unsub /\ x <> star).
  { intros x. unfold d, request_delta. destruct (delta_watched_resources [] r) as [[subs wc0] ch0] eqn:E0.
    cbn [dl_sub]. rewrite (dwr_names_spec [] r subs wc0 ch0 E0 x). cbn [In r hreq_dreq d_sub d_init d_unsub]. tauto. }
  assert (Hd_empty : delta_empty d = true -> dl_sub d = [] /\ forall x, In x unsub -> x = star).
  { unfold delta_empty. intros H. apply andb_true_iff in H. destruct H as [H1 H2].
    apply is_nil_true in H1. apply is_nil_true in H2. split; [exact H1|].
    intros x Hx. destruct (N.eq_dec x star) as [|Hne]; [assumption|]. exfalso.
    assert (Hin : In x (dl_unsub d)).
    { unfold d, request_delta. destruct (delta_watched_resources [] r) as [[subs wc0] ch0].
      cbn [dl_unsub r hreq_dreq d_unsub]. apply In_del. split; [apply In_norm; exact Hx|exact Hne]. }
    rewrite H2 in Hin. exact Hin. }
  unfold should_respond_delta in E. cbn [r hreq_dreq d_err d_ty d_nonce] in E.
  fold r in E.
  destruct (st t) as [w|] eqn:Ew.
  - (* a watched type *)
    unfold inv_t in Hinv. rewrite Ew in Hinv. destruct Hinv as [Hns Hinv].
    destruct (negb (nonce =? 0) && negb (nonce =? nonce_sent w)) eqn:Est.
    + (* stale *)
      injection E as <- <-. apply andb_true_iff in Est. destruct Est as [Hnz _].
      apply negb_true_iff, N.eqb_neq in Hnz. destruct (Hack Hnz) as [_ [-> _]].
      apply (inv_t_lookup_ext t st m); [intros x; symmetry; apply lookup_remove_nil|].
      unfold inv_t. rewrite Ew. auto.
    + rewrite Hm in E. cbn [andb] in E.
      destruct (delta_watched_resources (names w) r) as [[res wc] ch] eqn:Edwr.
      pose proof (dwr_names_spec (names w) r res wc ch Edwr) as Hres.
      cbn [r hreq_dreq d_sub d_init d_unsub] in Hres.
      set (w' := mkWr res (wildcard w) (nonce_sent w) (if nonce =? 0 then nonce_acked w else nonce) false
                      (if nonce =? 0 then last_error w else 0)) in *.
      (* the answered case *)
      assert (Hans : forall evs st2 cl, cl t = c_remove m unsub ->
                push_one (upd st t (Some w')) t (RqRequest d) d (lawful_gens g (fun _ => MFull)) 1 = (evs, st2) ->
                inv_t t st2 (apply_events cl evs t) (g t)).
      { intros evs st2 cl Hc Ep.
        apply (push_one_req_inv (lawful_gens g (fun _ => MFull)) (RqRequest d) t (upd st t (Some w')) w'
                 (c_remove m unsub) (g t) d 1 (lawful_gens_req g t d) (upd_same st t _) Hm Hd Hsg); auto.
        - cbn [names w']. intros H. apply Hres in H. tauto.
        - (* the class hypothesis *)
          unfold gview. rewrite Hm. cbn [negb andb names w' wildcard].
          destruct (delta_empty d) eqn:Ede; cbn [negb andb fst].
          + destruct (Hd_empty eq_refl) as [Hsubs Hun].
            destruct (should_set_watched t) eqn:Et; [|destruct (never_remove t) eqn:En].
            * destruct Hinv as [Heq _]. intros x Hx. left. rewrite Hm0 in Hx.
              destruct (mem x unsub); [congruence|]. rewrite <- Heq. exact Hx.
            * intros x y Hx Hnx. contradiction.
            * intros x Hnx. apply mem_false in Hnx. rewrite Hnx. rewrite Hm0.
              destruct (mem x unsub) eqn:Eu; [reflexivity|]. rewrite Hinv.
              destruct (mem x (names w)) eqn:Ex; [|reflexivity]. exfalso.
              apply mem_false in Hnx. apply Hnx. apply Hres. apply mem_In in Ex. apply mem_false in Eu.
              repeat split; auto. intros ->. contradiction.
          + destruct (should_set_watched t) eqn:Et; [|destruct (never_remove t) eqn:En].
            * destruct Hinv as [Heq _]. intros x Hx. left. rewrite Hm0 in Hx.
              destruct (mem x unsub); [congruence|]. rewrite <- Heq. exact Hx.
            * intros x y Hx Hnx Hg. rewrite Hm0. apply Hres in Hx. destruct Hx as [Hx [Hu Hs]].
              apply mem_false in Hu. rewrite Hu. apply Hinv; [|exact Hg].
              destruct Hx as [Hx|Hx]; [exact Hx|]. exfalso. apply Hnx. apply Hd_sub. apply mem_false in Hu. tauto.
            * intros x Hnx. rewrite Hm0. destruct (mem x unsub) eqn:Eu.
              -- assert (Hr : mem x res = false).
                 { apply mem_false. intros H. apply Hres in H. apply mem_In in Eu. tauto. }
                 rewrite Hr. reflexivity.
              -- rewrite Hinv. apply mem_false in Eu.
                 destruct (mem x (names w)) eqn:Ex.
                 ++ assert (Hr : mem x res = true).
                    { apply mem_In. apply Hres. apply mem_In in Ex. repeat split; auto. intros ->. contradiction. }
                    rewrite Hr. reflexivity.
                 ++ assert (Hr : mem x res = false).
                    { apply mem_false. intros H. apply Hres in H. destruct H as [[H|H] [_ Hs]].
                      - apply mem_false in Ex. contradiction.
                      - apply Hnx. apply Hd_sub. tauto. }
                    rewrite Hr. reflexivity.
        - (* the view is within the record *)
          unfold gview. rewrite Hm. cbn [negb andb names w' wildcard].
          destruct (delta_empty d); cbn [negb andb fst]; [auto|].
          intros x Hx. apply Hd_sub in Hx. apply Hres. tauto. }
      destruct ch; cbn [negb] in E.
      * injection E as <- <-. exact Hans.
      * destruct (always_respond w); injection E as <- <-; [exact Hans|].
        (* silent: nothing changed *)
        destruct (dwr_unchanged (names w) r res wc Edwr) as [Hr [Hin Hout]].
        cbn [r hreq_dreq d_sub d_init d_unsub] in Hin, Hout.
        rewrite (del_notin star (names w) Hns) in Hr.
        unfold inv_t. rewrite upd_same. cbn [names w']. rewrite Hr. split; [exact Hns|].
        destruct (should_set_watched t) eqn:Et; [|destruct (never_remove t) eqn:En].
        -- destruct Hinv as [Heq Hdom].
           assert (Hsame : forall x, lookup x (c_remove m unsub) = lookup x m).
           { intros x. rewrite Hm0. destruct (mem x unsub) eqn:Eu; [|reflexivity].
             apply mem_In in Eu. apply Hout in Eu. destruct (lookup x m) eqn:Ex; [|reflexivity].
             exfalso. apply Eu. apply Hdom. congruence. }
           split; intros x; rewrite Hsame; auto.
        -- intros x y Hx Hg. rewrite Hm0. destruct (mem x unsub) eqn:Eu.
           ++ apply mem_In in Eu. apply Hout in Eu. contradiction.
           ++ apply Hinv; assumption.
        -- intros x. rewrite Hm0. destruct (mem x unsub) eqn:Eu; [|apply Hinv].
           apply mem_In in Eu. apply Hout in Eu. apply mem_false in Eu. rewrite Eu. reflexivity.
  - (* first request of the type *)
    destruct (delta_watched_resources [] r) as [[res0 wc0] ch0] eqn:E0.
    rewrite Hm in E. cbn [andb] in E. injection E as <- <-.
    pose proof (dwr_names_spec [] r res0 wc0 ch0 E0) as Hres.
    cbn [r hreq_dreq d_sub d_init d_unsub In] in Hres.
    assert (Hheld : forall x, lookup x (c_remove m unsub) <> None -> In x res0).
    { intros x Hx. rewrite Hm0 in Hx. destruct (mem x unsub); [congruence|].
      destruct (Hfirst eq_refl x Hx) as [A [B C]]. apply Hres. tauto. }
    assert (Hvn : fst (gview (mkWr res0 wc0 0 0 false 0) t d) = res0).
    { unfold gview. rewrite Hm. destruct (delta_empty d); cbn [negb andb fst names]; [reflexivity|].
      unfold d, request_delta. rewrite E0. reflexivity. }
    intros evs st2 cl Hc Ep.
    apply (push_one_req_inv (lawful_gens g (fun _ => MFull)) (RqRequest d) t (upd st t (Some (mkWr res0 wc0 0 0 false 0)))
             (mkWr res0 wc0 0 0 false 0) (c_remove m unsub) (g t) d 1 (lawful_gens_req g t d) (upd_same st t _) Hm Hd Hsg); auto.
    + cbn [names]. intros H. apply Hres in H. tauto.
    + rewrite Hvn. cbn [names].
      destruct (should_set_watched t); [|destruct (never_remove t)].
      * intros x Hx. right. apply Hheld. exact Hx.
      * intros x y Hx Hnx. contradiction.
      * intros x Hnx. apply mem_false in Hnx. rewrite Hnx.
        destruct (lookup x (c_remove m unsub)) eqn:Ex; [|reflexivity].
        exfalso. apply mem_false in Hnx. apply Hnx. apply Hheld. congruence.
    + rewrite Hvn. cbn [names]. auto.
Qed.

(* ------------------------------------------------------------------ one history step keeps the invariant *)

Lemma push_one_mode_inv gens rq g g' modet n t st m :
  gens t rq = Some (mode_gen t g' modet) ->
  requires_names_mod t = false -> is_debug t = false -> ~ In star (rnames g') ->
  inv_t t st m g ->
  (forall w, st t = Some w -> lawful_mode t (names w) g g' modet) ->
  forall evs st' cl, cl t = m ->
  push_one st t rq empty_delta gens n = (evs, st') ->
  inv_t t st' (apply_events cl evs t) g'.
Proof.
  intros Hg Hm Hd Hs Hinv Hlaw evs st' cl Hcl E. unfold push_one in E. rewrite Hg in E.
  destruct (st t) as [w|] eqn:Ew.
  - destruct (push_delta_xds st t empty_delta (mode_gen t g' modet) n) as [[ov rsp] st1] eqn:Ep.
    pose proof (push_mode_inv t st m g g' modet n w Ew Hm Hd Hs Hinv (Hlaw w eq_refl) ov rsp st1 Ep) as P.
    assert (Hov : exists v, ov = Some v).
    { pose proof (push_view st t empty_delta (mode_gen t g' modet) n) as V. rewrite Ep in V.
      unfold view_of, given in V. cbn [fst] in V. rewrite Ew in V. eauto. }
    destruct Hov as [v ->]. injection E as <- <-.
    unfold apply_events. cbn [fold_left apply_event].
    destruct rsp as [r|]; cbn [after] in P.
    + rewrite ty_eqb_refl, Hcl. exact P.
    + rewrite Hcl. exact P.
  - injection E as <- <-. unfold inv_t. rewrite Ew. exact I.
Qed.

Lemma match_cds {A} (t : xds_type) (x y : A) :
  t <> CDS -> match t with CDS => x | _ => y end = y.
Proof. destruct t; congruence. Qed.

Lemma push_one_events_other st t rq d gens n cl t' :
  t' <> t -> apply_events cl (fst (push_one st t rq d gens n)) t' = cl t'.
Proof.
  intros H. apply apply_events_other. intros e He Hc.
  apply push_one_events in He. congruence.
Qed.

Lemma request_step_inv g st cl t nonce sub unsub init :
  wf_world g ->
  (forall t', requires_names_mod t' = false -> is_debug t' = false -> inv_t t' st (cl t') (g t')) ->
  requires_names_mod t = false -> is_debug t = false ->
  (nonce <> 0 -> sub = [] /\ unsub = [] /\ init = []) ->
  (st t = None -> forall x, lookup x (cl t) <> None -> In x (rnames init) /\ ~ In x unsub /\ x <> star) ->
  forall evs st',
  process_delta_request st (hreq_dreq t nonce sub unsub init) init (lawful_gens g (fun _ => MFull)) 1 1 = (evs, st') ->
  forall t', requires_names_mod t' = false -> is_debug t' = false ->
  inv_t t' st' (apply_events (fun t' => if ty_eqb t t' then c_remove (cl t) unsub else cl t') evs t') (g t').
Proof.
  intros Hwf Hinv Hm Hd Hack Hfirst evs st' E t' Hm' Hd'.
  set (cl0 := fun t' => if ty_eqb t t' then c_remove (cl t) unsub else cl t') in *.
  assert (Hcl0t : cl0 t = c_remove (cl t) unsub) by (unfold cl0; rewrite ty_eqb_refl; reflexivity).
  assert (Hcl0o : forall u, u <> t -> cl0 u = cl u).
  { intros u Hu. unfold cl0. rewrite ty_eqb_neq by congruence. reflexivity. }
  unfold process_delta_request in E. cbn [d_ty hreq_dreq] in E.
  fold (hreq_dreq t nonce sub unsub init) in E.
  destruct (should_respond_delta st (hreq_dreq t nonce sub unsub init)) as [resp st1] eqn:Es.
  pose proof (request_inv g t nonce sub unsub init st (cl t) Hm Hd (Hwf t) (Hinv t Hm Hd) Hack Hfirst resp st1 Es) as R.
  assert (Hst1 : forall u, u <> t -> st1 u = st u).
  { intros u Hu. pose proof (srd_other st (hreq_dreq t nonce sub unsub init) u) as P.
    rewrite Es in P. apply P. exact Hu. }
  (* the silent outcomes *)
  assert (Hsilent : inv_t t st1 (c_remove (cl t) unsub) (g t) -> evs = [] -> st' = st1 ->
                    inv_t t' st' (apply_events cl0 evs t') (g t')).
  { intros R' -> ->. unfold apply_events. cbn [fold_left].
    destruct (ty_eqb t t') eqn:Et.
    - apply ty_eqb_eq in Et. subst t'. rewrite Hcl0t. exact R'.
    - assert (Hne : t' <> t) by (intros ->; rewrite ty_eqb_refl in Et; discriminate).
      rewrite (Hcl0o t' Hne). apply (inv_t_ext t' st st1); [symmetry; apply Hst1; exact Hne|].
      apply Hinv; assumption. }
  destruct resp as [|b sb|]; [injection E as <- <-; apply Hsilent; auto| |injection E as <- <-; apply Hsilent; auto].
  destruct b; [|injection E as <- <-; apply Hsilent; auto].
  set (d := request_delta (hreq_dreq t nonce sub unsub init) init) in *.
  destruct (push_one st1 t (RqRequest d) d (lawful_gens g (fun _ => MFull)) 1) as [ev1 st2] eqn:E1.
  pose proof (R ev1 st2 cl0 Hcl0t eq_refl) as R1.
  assert (Hst2 : forall u, u <> t -> st2 u = st u).
  { intros u Hu. pose proof (push_one_other st1 t (RqRequest d) d (lawful_gens g (fun _ => MFull)) 1 u Hu) as P.
    rewrite E1 in P. cbn [snd] in P. rewrite P. apply Hst1. exact Hu. }
  assert (Hcl1 : forall u, u <> t -> apply_events cl0 ev1 u = cl u).
  { intros u Hu. pose proof (push_one_events_other st1 t (RqRequest d) d (lawful_gens g (fun _ => MFull)) 1 cl0 u Hu) as P.
    rewrite E1 in P. cbn [fst] in P. rewrite P. apply Hcl0o. exact Hu. }
  (* without the forced EDS push *)
  assert (Hplain : inv_t t' st2 (apply_events cl0 ev1 t') (g t')).
  { destruct (ty_eqb t t') eqn:Et.
    - apply ty_eqb_eq in Et. subst t'. exact R1.
    - assert (Hne : t' <> t) by (intros ->; rewrite ty_eqb_refl in Et; discriminate).
      rewrite (Hcl1 t' Hne). apply (inv_t_ext t' st st2); [symmetry; apply Hst2; exact Hne|].
      apply Hinv; assumption. }
  destruct (ty_eqb t CDS) eqn:Ec.
  - apply ty_eqb_eq in Ec. subst t.
    destruct (push_one st2 EDS RqForce empty_delta (lawful_gens g (fun _ => MFull)) 1) as [ev2 st3] eqn:E2.
    injection E as <- <-. rewrite apply_events_app.
    destruct (ty_eqb EDS t') eqn:Ee.
    + apply ty_eqb_eq in Ee. subst t'.
      apply (push_one_mode_inv (lawful_gens g (fun _ => MFull)) RqForce (g EDS) (g EDS) MFull 1 EDS st2
               (apply_events cl0 ev1 EDS) (lawful_gens_force g EDS) Hm' Hd' (Hwf EDS)); auto.
      intros w _. exact I.
    + assert (Hne : t' <> EDS) by (intros ->; cbn in Ee; discriminate).
      pose proof (push_one_other st2 EDS RqForce empty_delta (lawful_gens g (fun _ => MFull)) 1 t' Hne) as P.
      rewrite E2 in P. cbn [snd] in P.
      pose proof (push_one_events_other st2 EDS RqForce empty_delta (lawful_gens g (fun _ => MFull)) 1 (apply_events cl0 ev1) t' Hne) as Q.
      rewrite E2 in Q. cbn [fst] in Q. rewrite Q.
      apply (inv_t_ext t' st2 st3); [symmetry; exact P|].
      exact Hplain.
  - assert (Hne : t <> CDS) by (intros ->; cbn in Ec; discriminate).
    rewrite (match_cds t _ (ev1, st2) Hne) in E. injection E as <- <-. exact Hplain.
Qed.

Lemma In_ty_dec (t : xds_type) ts : {In t ts} + {~ In t ts}.
Proof.
  destruct (existsb (ty_eqb t) ts) eqn:E.
  - left. apply existsb_exists in E. destruct E as [u [Hu He]]. apply ty_eqb_eq in He. subst. exact Hu.
  - right. intros H. assert (existsb (ty_eqb t) ts = true); [|congruence].
    apply existsb_exists. exists t. split; [exact H|apply ty_eqb_refl].
Qed.

Lemma hstep_inv s o : Inv s -> conformant s o -> Inv (hstep s o).
Proof.
  intros [Hwf Hinv] Hc. destruct o as [t nonce sub unsub init|g' mode ts]; cbn [hstep conformant] in *.
  - destruct Hc as [Hm [Hd [Hack Hfirst]]].
    destruct (process_delta_request (s_srv s) (hreq_dreq t nonce sub unsub init) init
                (lawful_gens (s_world s) (fun _ => MFull)) 1 1) as [evs st'] eqn:E.
    split; cbn [s_world s_srv s_cl]; [exact Hwf|].
    intros t' Hm' Hd'.
    apply (request_step_inv (s_world s) (s_srv s) (s_cl s) t nonce sub unsub init Hwf Hinv Hm Hd Hack Hfirst evs st' E t' Hm' Hd').
  - destruct Hc as [Hwf' [Hnd Hlaw]].
    destruct (push_connection (s_srv s) ts (lawful_gens g' mode) (fun _ => 1)) as [evs st'] eqn:E.
    split; cbn [s_world s_srv s_cl]; [exact Hwf'|].
    intros t Hm Hd. destruct (In_ty_dec t ts) as [Hin|Hnin].
    + apply (push_connection_inv (s_world s) g' mode (fun _ => 1) Hwf' ts (s_srv s) (s_cl s) evs st' Hnd E t Hm Hd Hin).
      * apply Hinv; assumption.
      * intros w Hw. apply (Hlaw t w Hw Hm Hd).
    + destruct (push_connection_frame _ _ ts (s_srv s) (s_cl s) evs st' t E Hnin) as [A B].
      rewrite B. unfold inv_t. rewrite A. destruct (s_srv s t) as [w|] eqn:Ew; [|exact I].
      exfalso. apply Hnin. apply (Hlaw t w Ew Hm Hd).
Qed.

Theorem hrun_inv ops : forall s, Inv s -> all_conformant s ops -> Inv (hrun s ops).
Proof.
  induction ops as [|o ops IH]; intros s Hi Hc; [exact Hi|].
  destruct Hc as [Hc1 Hc2]. unfold hrun. cbn [fold_left]. apply IH; [apply hstep_inv; assumption|exact Hc2].
Qed.

(* a fresh stream: nothing is watched, whatever the client retained *)
Lemma init_inv cl0 g : wf_world g -> Inv (mkSys empty_watched cl0 g).
Proof. intros H. split; [exact H|]. intros t _ _. exact I. Qed.
