(* C03 property theorems: delta xDS leaves a client in the same state as state-of-the-world xDS. *)
From V Require Import C03.Model C03.Proofs C03.ProofsHist C03.ProofsMain C03.ProofsWds.
From Coq Require Import List NArith Bool Lia.
Import ListNotations.
Open Scope N_scope.

(* Headline.  One delta stream, starting with no watches and a client that retained anything (cl0);
   any history of requests (initial / reconnect, spontaneous subscribe+unsubscribe, ACKs) and world
   changes followed by the push loop, where each type's generator answers a push in full, delta-aware
   (H_delta), or not at all when nothing in scope changed (lawful_mode), requests are answered in full.
   After EVERY prefix, for every watched type: wildcard types (CDS, LDS, ...) - the client holds exactly
   the world; named types (EDS, RDS, SDS) - exactly the world restricted to the subscription;
   never-remove types (ECDS) - at least that. *)
Theorem C03_delta_eq_spec :
  forall cl0 g0 ops,
    wf_world g0 -> all_conformant (start cl0 g0) ops ->
    let s := hrun (start cl0 g0) ops in
    forall t w, requires_names_mod t = false -> is_debug t = false -> s_srv s t = Some w ->
    client_ok t w (s_cl s t) (s_world s t).
Proof. exact delta_eq_spec. Qed.
Print Assumptions C03_delta_eq_spec.

(* the invariant behind it, including "the server's record covers everything the client holds" *)
Theorem C03_history_invariant :
  forall ops s, Inv s -> all_conformant s ops -> Inv (hrun s ops).
Proof. exact hrun_inv. Qed.
Print Assumptions C03_history_invariant.

(* CDS / LDS: the delta client's map equals what a SotW client holds after a SotW push (pushXds) of
   the same world, whatever the SotW client held before *)
Theorem C03_delta_eq_sotw :
  forall cl0 g0 ops,
    wf_world g0 -> all_conformant (start cl0 g0) ops ->
    let s := hrun (start cl0 g0) ops in
    forall t w, (t = CDS \/ t = LDS) -> s_srv s t = Some w ->
    forall sts ws ms, sts t = Some ws ->
    exists m', sotw_after t (s_world s t) sts ms = Some m' /\ forall n, lookup n (s_cl s t) = lookup n m'.
Proof. exact delta_eq_sotw_full_state. Qed.
Print Assumptions C03_delta_eq_sotw.

(* EDS / RDS / SDS: equal to the SotW client's map up to SotW's leftovers of resources that no
   longer exist *)
Theorem C03_delta_eq_sotw_named :
  forall cl0 g0 ops,
    wf_world g0 -> all_conformant (start cl0 g0) ops ->
    let s := hrun (start cl0 g0) ops in
    forall t w, requires_names_mod t = false -> is_debug t = false ->
    should_set_watched t = false -> never_remove t = false -> s_srv s t = Some w ->
    forall sts ws ms, sts t = Some ws ->
    (forall n, In n (names ws) <-> In n (names w)) ->
    (forall n, lookup n ms <> None -> In n (names ws)) ->
    exists m', sotw_after t (s_world s t) sts ms = Some m' /\
      forall n, lookup n (s_cl s t) = match lookup n (s_world s t) with Some _ => lookup n m' | None => None end.
Proof. exact delta_eq_sotw_named. Qed.
Print Assumptions C03_delta_eq_sotw_named.

(* removed_sound / removed_complete after every prefix *)
Theorem C03_removed_sound_complete :
  forall cl0 g0 ops,
    wf_world g0 -> all_conformant (start cl0 g0) ops ->
    let s := hrun (start cl0 g0) ops in
    forall t w, requires_names_mod t = false -> is_debug t = false -> s_srv s t = Some w ->
    (forall n v, (should_set_watched t = true \/ In n (names w)) -> lookup n (s_world s t) = Some v ->
                 lookup n (s_cl s t) = Some v) /\
    (never_remove t = false -> forall n, lookup n (s_world s t) = None -> lookup n (s_cl s t) = None).
Proof. exact removed_sound_complete. Qed.
Print Assumptions C03_removed_sound_complete.

(* One call of pushDeltaXds answered non-delta, non-incremental: removed = exactly the given names
   that were not regenerated (never-remove types: nothing).  Every state, type, delta, generator. *)
Theorem C03_full_push_removed_exact :
  forall st t d g n v r,
    given st t d = Some v ->
    g_used (g v) = false -> g_inc (g v) = false -> g_set (g v) = None ->
    resp_of (push_delta_xds st t d g n) = Some r ->
    rs_res r = oget (g_res (g v)) /\
    forall x, In x (rs_removed r) <->
              (never_remove t = false /\ In x (fst v) /\ ~ In x (rnames (rs_res r))).
Proof. exact push_full_removed. Qed.
Print Assumptions C03_full_push_removed_exact.

Theorem C03_delta_push_forwarded :
  forall st t d g n v r,
    given st t d = Some v ->
    g_used (g v) = true ->
    resp_of (push_delta_xds st t d g n) = Some r ->
    rs_res r = oget (g_res (g v)) /\
    rs_removed r = if never_remove t then [] else oget (g_del (g v)).
Proof. exact push_delta_removed. Qed.
Print Assumptions C03_delta_push_forwarded.

(* workload generator: a wildcard connect/reconnect removes exactly the reported names that do not exist *)
Theorem C03_wds_wildcard_request_removed :
  forall idx ty q wn x,
    w_isreq q = true ->
    (In x (oget (g_del (wds_generate idx ty q (wn, true)))) <->
     In x (dl_sub (w_delta q)) /\ ~ exists_addr idx x).
Proof. exact wds_wildcard_request_removed. Qed.
Print Assumptions C03_wds_wildcard_request_removed.

(* removed_sound for the workload types (Address / Workload), on the response pushDeltaXds actually
   sends: on an on-demand stream (requests and push events alike) and for push events on a wildcard
   stream, no address that exists is ever removed - for every session state, ResourceDelta, index and
   request.  (Full strength since /repo fix 121b6aa; before it an on-demand request resolving to no
   address was answered as full state and every watched name was removed.) *)
Theorem C03_removed_sound_ondemand :
  forall st t d idx q n v r x,
    given st t d = Some v ->
    (snd v = false \/ w_isreq q = false) ->
    resp_of (push_delta_xds st t d (wds_generate idx t q) n) = Some r ->
    In x (rs_removed r) -> ~ exists_addr idx x.
Proof. exact wds_removed_sound. Qed.
Print Assumptions C03_removed_sound_ondemand.

(* regression of the former finding: index {11}, subscribe [11; 12], then unsubscribe [12]: the answer
   is an empty delta, 11 stays subscribed and is not removed *)
Example C03_ondemand_unsubscribe_regression :
  exists v, fst k_run = [(ADDR, v, Some (mkResp [] []))] /\ In 11 (record (snd k_run) ADDR).
Proof. exact ondemand_regression. Qed.

(* The H_delta premise of C03_delta_eq_spec cannot be dropped: a delta-aware answer that forgets one
   removal leaves the client with a resource that does not exist, and the server still believes the
   client holds it.  (The real BuildDeltaClusters gave such answers for a removed service port with a
   plain and a subset cluster until /repo fix 9e904ce; the HDelta cases sample H_delta on that input.) *)
Theorem C03_hdelta_premise_necessary :
  let s := hrun (mkSys empty_watched (fun _ => []) hd_g0) hd_ops in
  lookup 7 (s_world s CDS) = None /\ lookup 7 (s_cl s CDS) = Some 1 /\ In 7 (record (s_srv s) CDS) /\
  ~ (forall n, lookup n (c_upsert (c_remove (hd_g0 CDS) [6]) [(4, 2)]) = lookup n (hd_g1 CDS)).
Proof. exact hdelta_needed. Qed.
Print Assumptions C03_hdelta_premise_necessary.

(* ------------------------------------------------------------------ hypotheses are satisfiable *)

Definition ex_world (v : N) : world := fun t => match t with CDS => [(1, v); (2, 1)] | EDS => [(1, 1)] | _ => [] end.
Definition ex_world2 : world := fun t => match t with CDS => [(1, 3)] | EDS => [(1, 1)] | _ => [] end.
Definition ex_ops : list hop :=
  [HReq CDS 0 [] [] [(5, 1)];
   HWorld ex_world2 (fun t => match t with CDS => MDelta [(1, 3)] [2] | _ => MFull end) [CDS; EDS];
   HReq EDS 0 [1; 4] [] []].
Definition ex_cl0 : xds_type -> list res := fun t => match t with CDS => [(5, 1)] | _ => [] end.

Lemma lookup_cases n : n = 1 \/ n = 2 \/ n = 5 \/ (n <> 1 /\ n <> 2 /\ n <> 5).
Proof. lia. Qed.

(* the hypotheses of the history theorems are satisfiable: a reconnecting client that retained a stale
   cluster, a world change answered delta-aware (H_delta instance), a later EDS subscription *)
Example C03_hypotheses_satisfiable : wf_world (ex_world 1) /\ all_conformant (start ex_cl0 (ex_world 1)) ex_ops.
Proof.
  split.
  - unfold wf_world. intros t. destruct t; cbn; intuition discriminate.
  - cbn [all_conformant ex_ops]. split; [|split; [|split; [|exact I]]].
    + cbn [conformant start s_srv s_cl ex_cl0]. split; [reflexivity|split; [reflexivity|split]].
      * intros H. exfalso. apply H. reflexivity.
      * intros _ n Hn. cbn in Hn |- *.
        destruct (N.eqb_spec n 5) as [E|Hne]; [subst n|exfalso; apply Hn; reflexivity].
        repeat split; auto; discriminate.
    + vm_compute hstep. cbn [conformant]. split; [unfold wf_world; intros t; destruct t; cbn; intuition discriminate|].
      split; [repeat constructor; cbn; intuition discriminate|].
      intros t w Hw Hm Hd. destruct t; cbn in Hw; try discriminate; injection Hw as <-.
      * split; [left; reflexivity|]. cbn. intros n.
        destruct (N.eqb_spec n 1) as [->|H1]; [reflexivity|].
        destruct (N.eqb_spec n 2) as [->|H2]; [reflexivity|]. cbn.
        destruct (N.eqb_spec 2 n); [congruence|]. cbn.
        destruct (N.eqb_spec 1 n); [congruence|]. reflexivity.
    + vm_compute hstep. cbn [conformant s_srv s_cl]. split; [reflexivity|split; [reflexivity|split]].
      * intros H. exfalso. apply H. reflexivity.
      * intros _ n Hn. exfalso. apply Hn. reflexivity.
Qed.

Example C03_history_example :
  let s := hrun (start ex_cl0 (ex_world 1)) ex_ops in
  s_cl s CDS = [(1, 3)] /\ s_cl s EDS = [(1, 1)] /\ record (s_srv s) CDS = [1] /\ record (s_srv s) EDS = [1; 4].
Proof. vm_compute. repeat split. Qed.

Example C03_full_push_example :
  resp_of (push_delta_xds (upd empty_watched RDS (Some (mkWr [1; 2; 3] false 0 0 false 0))) RDS empty_delta
             (fun _ => mkGen (Some [(2, 7)]) None false false None) 5)
  = Some (mkResp [(2, 7)] [1; 3]).
Proof. reflexivity. Qed.
