(* Evaluation of harness cases for C03. *)
From V Require Export lib.Verdict C03.Model.
Open Scope N_scope.

(* which generator served an invocation *)
Inductive ginfo :=
| GScript                                        (* a stub generator returning harness-chosen output *)
| GWds (q : wreq)                                (* the real WorkloadGenerator over the fake ambient index *)
| GRbac (forced : bool) (updated : list N).      (* the real WorkloadRBACGenerator *)

(* one generator invocation: type, generator, the WatchedResource view it was given, what it returned *)
Inductive call := Call (t : xds_type) (gi : ginfo) (v : view) (o : gen_out).

Inductive sop :=
| SReq (r : dreq) (initv : list res)             (* processDeltaRequest *)
| SPush (ts : list xds_type).                    (* the loop of pushConnectionDelta over watchedResourcesByOrder *)

(* one executed step: the op, the generator invocations, the responses put on the stream (type,
   nonce, content), names/wildcard of every universe type afterwards, and the world the step ran in
   (per-type resources for stub types, the address index, the policies) *)
Inductive obs :=
| Obs (op : sop) (calls : list call) (resps : list (xds_type * N * dresp))
      (after : list (xds_type * option view))
      (gw : list (xds_type * list res)) (idx : index) (pols : list res).

Inductive case :=
(* a history on one delta connection, starting with no watches and a client holding cl0.  lawful = the
   generators behaved as generators of the world gw/idx/pols (then the property oracle applies) *)
| Hist (id : N) (lawful : bool) (cl0 : list (xds_type * list res)) (steps : list obs)
(* hypothesis H_delta on the real cluster builder: prev = BuildClusters before the change,
   (updated, removed, used) = BuildDeltaClusters for the change, full = BuildClusters after it;
   watched = the names the delta builder was told the client watches *)
| HDelta (id : N) (prev updated full : list res) (removed : list N) (used : bool)
(* end to end on the fake discovery server: what a delta client and a SotW client hold for a type
   after the same history *)
| Pair (id : N) (t : xds_type) (dmap smap : list res).

Definition case_id c :=
  match c with Hist id _ _ _ => id | HDelta id _ _ _ _ _ => id | Pair id _ _ _ => id end.

(* ------------------------------------------------------------------ comparisons *)

Fixpoint nlist_eqb (a b : list N) : bool :=
  match a, b with
  | [], [] => true
  | x :: a', y :: b' => (x =? y) && nlist_eqb a' b'
  | _, _ => false
  end.
Definition res_eqb (a b : res) : bool := (fst a =? fst b) && (snd a =? snd b).
Definition rlist_eqb := list_eqb res_eqb.
Definition set_eqb (a b : list N) : bool := nlist_eqb (norm a) (norm b).
Definition view_eqb (a b : view) : bool := set_eqb (fst a) (fst b) && Bool.eqb (snd a) (snd b).
Definition oview_eqb (a b : option view) : bool := option_eqb view_eqb a b.

(* resources as a set of pairs (the real generators iterate Go maps) *)
Definition rset_sub (a b : list res) : bool := forallb (fun x => existsb (res_eqb x) b) a.
Definition rset_eqb (a b : list res) : bool := rset_sub a b && rset_sub b a && (List.length a =? List.length b)%nat.

Definition is_none {A} (o : option A) : bool := match o with None => true | _ => false end.

(* equality of generator outputs as pushDeltaXds can tell them apart; v = the view given *)
Definition gen_out_eqb (v : view) (a b : gen_out) : bool :=
  Bool.eqb (is_none (g_res a)) (is_none (g_res b)) && rset_eqb (oget (g_res a)) (oget (g_res b)) &&
  Bool.eqb (is_none (g_res a) && is_none (g_del a)) (is_none (g_res b) && is_none (g_del b)) &&
  set_eqb (oget (g_del a)) (oget (g_del b)) &&
  Bool.eqb (g_used a) (g_used b) && Bool.eqb (g_inc a) (g_inc b) &&
  set_eqb (match g_set a with Some ns => ns | None => fst v end)
          (match g_set b with Some ns => ns | None => fst v end).

Definition dresp_eqb (a b : dresp) : bool :=
  rlist_eqb (rs_res a) (rs_res b) && set_eqb (rs_removed a) (rs_removed b).

(* ------------------------------------------------------------------ model_ok *)

Definition call_ty (c : call) := match c with Call t _ _ _ => t end.
Definition call_view (c : call) := match c with Call _ _ v _ => v end.
Definition call_out (c : call) := match c with Call _ _ _ o => o end.

(* the generators of a step, scripted by what was observed *)
Definition scripted (calls : list call) : generators :=
  fun t _ => match find (fun c => ty_eqb t (call_ty c)) calls with
             | Some c => Some (fun _ => call_out c)
             | None => None
             end.

(* the real workload generators return what their model says *)
Definition call_ok (isreq : bool) (idx : index) (pols : list res) (c : call) : bool :=
  match c with
  | Call t GScript _ _ => true
  | Call t (GWds q) v o => Bool.eqb (w_isreq q) isreq && gen_out_eqb v (wds_generate idx t q v) o
  | Call t (GRbac forced upd) v o => gen_out_eqb v (rbac_generate pols forced upd v) o
  end.

Definition nonce_in (resps : list (xds_type * N * dresp)) (t : xds_type) : N :=
  match find (fun x => ty_eqb t (fst (fst x))) resps with
  | Some x => snd (fst x)
  | None => 0
  end.

(* model events against observed invocations and responses *)
Fixpoint events_ok (evs : list event) (calls : list call) (resps : list (xds_type * N * dresp)) : bool :=
  match evs, calls with
  | [], [] => is_nil resps
  | (t, v, rsp) :: evs', c :: calls' =>
    ty_eqb t (call_ty c) && view_eqb v (call_view c) &&
    match rsp, resps with
    | None, _ => events_ok evs' calls' resps
    | Some r, (t', _, r') :: resps' => ty_eqb t t' && dresp_eqb r r' && events_ok evs' calls' resps'
    | Some _, [] => false
    end
  | _, _ => false
  end.

(* the types the harness uses; [after] lists the watched ones, every other one has no watch *)
Definition universe : list xds_type := [CDS; EDS; LDS; RDS; ECDS; ADDR; WORKLOAD; OTHER 4; OTHER 1].
Definition after_ok (st : watched) (after : list (xds_type * option view)) : bool :=
  forallb (fun t =>
             oview_eqb (match st t with Some w => Some (names w, wildcard w) | None => None end)
                       (match find (fun x => ty_eqb t (fst x)) after with Some x => snd x | None => None end))
          universe.

(* known types come first in PushOrder order, every other type after them *)
Fixpoint rank_in (ord : list xds_type) (t : xds_type) : nat :=
  match ord with
  | [] => O
  | o :: ord' => if ty_eqb o t then O else S (rank_in ord' t)
  end.
Fixpoint ranks_sorted (l : list nat) : bool :=
  match l with
  | a :: ((b :: _) as l') => (a <=? b)%nat && ranks_sorted l'
  | _ => true
  end.
Definition order_ok (ord ts : list xds_type) : bool := ranks_sorted (map (rank_in ord) ts).

Definition step_model (st : watched) (o : obs) : bool * watched :=
  match o with
  | Obs op calls resps after gw idx pols =>
    let gens := scripted calls in
    let '(isreq, (evs, st')) :=
      match op with
      | SReq r initv =>
        (true, process_delta_request st r initv gens (nonce_in resps (d_ty r)) (nonce_in resps EDS))
      | SPush ts => (false, push_connection st ts gens (nonce_in resps))
      end in
    let ordok := match op with SPush ts => order_ok push_order ts | _ => true end in
    (* forceEDSPush is not a request: only the first invocation of a request step is *)
    let calls_ok :=
      match calls with
      | [] => true
      | c :: rest => call_ok isreq idx pols c && forallb (call_ok false idx pols) rest
      end in
    (ordok && calls_ok && events_ok evs calls resps && after_ok st' after, st')
  end.

Fixpoint hist_model (st : watched) (steps : list obs) : bool :=
  match steps with
  | [] => true
  | o :: rest => let '(ok, st') := step_model st o in ok && hist_model st' rest
  end.

(* ------------------------------------------------------------------ prop_ok: the property's oracle on
   the observed responses alone (no use of the model's step functions) *)

Definition assoc {A} (l : list (xds_type * A)) (t : xds_type) : option A :=
  match find (fun x => ty_eqb t (fst x)) l with Some x => Some (snd x) | None => None end.
Definition set_assoc {A} (l : list (xds_type * A)) (t : xds_type) (v : A) : list (xds_type * A) :=
  (t, v) :: filter (fun x => negb (ty_eqb t (fst x))) l.
Definition get_map (cl : list (xds_type * list res)) t := match assoc cl t with Some m => m | None => [] end.

(* the client's own subscription per type: (explicit names, wildcard) *)
Definition subs := list (xds_type * (list N * bool)).

(* the xDS delta subscription rules, client side: names are added and removed; a first request
   that names nothing, or "*", is a wildcard subscription *)
Definition track (sb : subs) (r : dreq) : subs :=
  let t := d_ty r in
  let adds := filter (fun n => negb (n =? star)) (d_sub r ++ d_init r) in
  match assoc sb t with
  | None =>
    set_assoc sb t (diff (norm adds) (d_unsub r),
                    (is_nil (d_sub r) || mem star (d_sub r)) && negb (mem star (d_unsub r)))
  | Some (ns, wc) =>
    set_assoc sb t (diff (norm (ns ++ adds)) (d_unsub r),
                    (wc || mem star (d_sub r)) && negb (mem star (d_unsub r)))
  end.

Definition all_addrs (t : xds_type) (idx : index) : list res :=
  flat_map (fun a => match t with
                     | WORKLOAD => if a_wl a then [(a_name a, a_ver a)] else []
                     | _ => [(a_name a, a_ver a)]
                     end) idx.

(* what the client must hold for type t: [exact m] = exactly m; [atleast m] = at least m and nothing
   that is not in [within] *)
Definition expect_ok (t : xds_type) (sb : list N * bool) (m : list res)
  (gw : list (xds_type * list res)) (idx : index) (pols : list res) : bool :=
  let '(ns, wc) := sb in
  match t with
  | ADDR | WORKLOAD =>
    let alls := all_addrs t idx in
    if wc then map_eqb m alls
    else
      (* on-demand: nothing stale or unknown is held, and every address found under a key the client
         subscribed to is held at its current version *)
      forallb (fun kv => oN_eqb (lookup (fst kv) alls) (Some (snd kv))) m &&
      forallb (fun a => negb (existsb (fun k => addr_matches k a) ns) ||
                        is_nil (all_addrs t [a]) ||
                        oN_eqb (lookup (a_name a) m) (Some (a_ver a))) idx
  | OTHER 4 => map_eqb m pols
  | ECDS =>
    (* never-remove: the client holds at least the subscribed resources that exist, current *)
    let g := get_map gw t in
    forallb (fun n => match lookup n g with Some v => oN_eqb (lookup n m) (Some v) | None => true end) ns
  | _ =>
    let g := get_map gw t in
    if should_set_watched t then map_eqb m g else map_eqb m (restrict g ns)
  end.

Definition apply_resps (cl : list (xds_type * list res)) (resps : list (xds_type * N * dresp)) :=
  fold_left (fun cl '(t, _, r) => set_assoc cl t (apply_delta (get_map cl t) r)) resps cl.

(* removed_sound on one response: nothing that exists for the client's subscription is removed *)
Definition removed_sound_ok (t : xds_type) (r : dresp) (gw : list (xds_type * list res)) (idx : index) (pols : list res) : bool :=
  let exists_now :=
    match t with
    | ADDR | WORKLOAD => rnames (all_addrs t idx)
    | OTHER 4 => rnames pols
    | _ => rnames (get_map gw t)
    end in
  forallb (fun n => negb (mem n exists_now) || mem n (rnames (rs_res r))) (rs_removed r).

Fixpoint hist_prop (cl : list (xds_type * list res)) (sb : subs) (steps : list obs) : bool :=
  match steps with
  | [] => true
  | Obs op calls resps after gw idx pols :: rest =>
    let '(cl1, sb1) :=
      match op with
      | SReq r _ =>
        (* only requests that are not ACK/NACKs change the subscription (harness: spontaneous or first) *)
        if (d_nonce r =? 0) && is_none (d_err r)
        then (set_assoc cl (d_ty r) (c_remove (get_map cl (d_ty r)) (d_unsub r)), track sb r)
        else (cl, sb)
      | SPush _ => (cl, sb)
      end in
    let cl2 := apply_resps cl1 resps in
    forallb (fun '(t, _, r) => removed_sound_ok t r gw idx pols) resps &&
    forallb (fun '(t, ov) =>
               match ov, assoc sb1 t with
               | Some _, Some s => expect_ok t s (get_map cl2 t) gw idx pols
               | _, _ => true
               end) after &&
    hist_prop cl2 sb1 rest
  end.

(* H_delta: (prev - removed) + updated = full, as maps name -> content *)
Definition hdelta_ok (prev updated full : list res) (removed : list N) : bool :=
  map_eqb (c_upsert (c_remove prev removed) updated) full.

Definition model_ok (c : case) : bool :=
  match c with
  | Hist _ _ _ steps => hist_model empty_watched steps
  | HDelta _ _ _ _ _ _ => true
  | Pair _ _ _ _ => true
  end.

Definition prop_ok (c : case) : bool :=
  match c with
  | Hist _ lawful cl0 steps => if lawful then hist_prop cl0 [] steps else true
  | HDelta _ prev updated full removed used =>
    (* a fallback to full generation must be the full state (pushDeltaXds then removes watched - generated) *)
    if used then hdelta_ok prev updated full removed else map_eqb updated full
  | Pair _ t dmap smap =>
    match t with
    | ECDS => map_eqb (restrict dmap (rnames smap)) smap    (* never-remove: delta holds at least the SotW set *)
    | _ => map_eqb dmap smap
    end
  end.

Definition mismatches := check_all case_id model_ok prop_ok.
