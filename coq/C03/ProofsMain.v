(* C03 proofs, part 3: the statements of Props.v about histories. *)
From V Require Import C03.Model C03.Proofs C03.ProofsHist C04.Proofs.
From Coq Require Import List NArith Bool Lia.
Import ListNotations.
Open Scope N_scope.

Definition start (cl0 : xds_type -> list res) (g0 : world) : sys := mkSys empty_watched cl0 g0.

(* what the delta client must hold for a watched type *)
Definition client_ok (t : xds_type) (w : wr) (m g : list res) : Prop :=
  if should_set_watched t then forall n, lookup n m = lookup n g
  else if never_remove t then forall n v, In n (names w) -> lookup n g = Some v -> lookup n m = Some v
  else forall n, lookup n m = lookup n (restrict g (names w)).

Theorem delta_eq_spec cl0 g0 ops :
  wf_world g0 -> all_conformant (start cl0 g0) ops ->
  let s := hrun (start cl0 g0) ops in
  forall t w, requires_names_mod t = false -> is_debug t = false -> s_srv s t = Some w ->
  client_ok t w (s_cl s t) (s_world s t).
Proof.
  intros Hwf Hc s t w Hm Hd Hw.
  destruct (hrun_inv ops (start cl0 g0) (init_inv cl0 g0 Hwf) Hc) as [_ Hinv].
  specialize (Hinv t Hm Hd). fold s in Hinv. unfold inv_t in Hinv. rewrite Hw in Hinv.
  destruct Hinv as [_ Hinv]. unfold client_ok.
  destruct (should_set_watched t); [tauto|]. destruct (never_remove t); [exact Hinv|].
  intros n. rewrite lookup_restrict. apply Hinv.
Qed.

(* every name the client holds is known to the server (so that it can be removed later) *)
Theorem record_covers_client cl0 g0 ops :
  wf_world g0 -> all_conformant (start cl0 g0) ops ->
  let s := hrun (start cl0 g0) ops in
  forall t w, requires_names_mod t = false -> is_debug t = false -> never_remove t = false ->
  s_srv s t = Some w ->
  forall n, lookup n (s_cl s t) <> None -> In n (names w).
Proof.
  intros Hwf Hc s t w Hm Hd Hn Hw.
  destruct (hrun_inv ops (start cl0 g0) (init_inv cl0 g0 Hwf) Hc) as [_ Hinv].
  specialize (Hinv t Hm Hd). fold s in Hinv. unfold inv_t in Hinv. rewrite Hw in Hinv.
  destruct Hinv as [_ Hinv]. rewrite Hn in Hinv.
  destruct (should_set_watched t); [tauto|].
  intros n Hx. rewrite Hinv in Hx. destruct (mem n (names w)) eqn:E; [apply mem_In; exact E|congruence].
Qed.

(* removed_sound / removed_complete over histories, read off the client: nothing that exists (and is
   subscribed) is missing, nothing that ceased to exist is still held *)
Theorem removed_sound_complete cl0 g0 ops :
  wf_world g0 -> all_conformant (start cl0 g0) ops ->
  let s := hrun (start cl0 g0) ops in
  forall t w, requires_names_mod t = false -> is_debug t = false -> s_srv s t = Some w ->
  (* sound: a resource that exists and is subscribed is held, current *)
  (forall n v, (should_set_watched t = true \/ In n (names w)) -> lookup n (s_world s t) = Some v ->
               lookup n (s_cl s t) = Some v) /\
  (* complete: a resource that does not exist is not held (never-remove types excepted) *)
  (never_remove t = false -> forall n, lookup n (s_world s t) = None -> lookup n (s_cl s t) = None).
Proof.
  intros Hwf Hc s t w Hm Hd Hw.
  pose proof (delta_eq_spec cl0 g0 ops Hwf Hc t w Hm Hd Hw) as H. fold s in H. unfold client_ok in H.
  destruct (should_set_watched t) eqn:Et.
  - split; [intros n v _ Hg; rewrite H; exact Hg|intros _ n Hg; rewrite H; exact Hg].
  - destruct (never_remove t) eqn:En.
    + split; [|discriminate]. intros n v [Hx|Hx] Hg; [discriminate|]. apply H; assumption.
    + split.
      * intros n v [Hx|Hx] Hg; [discriminate|]. rewrite H, lookup_restrict. apply mem_In in Hx. rewrite Hx. exact Hg.
      * intros _ n Hg. rewrite H, lookup_restrict. destruct (mem n (names w)); [exact Hg|reflexivity].
Qed.

(* ------------------------------------------------------------------ against a SotW client *)

Lemma filter_all {A} (l : list A) : filter (fun _ => true) l = l.
Proof. induction l as [|x l IH]; [reflexivity|]. cbn. rewrite IH. reflexivity. Qed.

(* a SotW push of the same world (pushXds with a full generator) on any SotW session watching t *)
Definition sotw_after (t : xds_type) (g : list res) (sts : watched) (ms : list res) : option (list res) :=
  match push_xds sts t empty_delta (full_gen t g) 1 with
  | (_, Some rs, _) => Some (apply_sotw t ms rs)
  | _ => None
  end.

Theorem delta_eq_sotw_full_state cl0 g0 ops :
  wf_world g0 -> all_conformant (start cl0 g0) ops ->
  let s := hrun (start cl0 g0) ops in
  forall t w, (t = CDS \/ t = LDS) -> s_srv s t = Some w ->
  forall sts ws ms, sts t = Some ws ->
  exists m', sotw_after t (s_world s t) sts ms = Some m' /\ forall n, lookup n (s_cl s t) = lookup n m'.
Proof.
  intros Hwf Hc s t w Ht Hw sts ws ms Hs.
  assert (Hm : requires_names_mod t = false) by (destruct Ht; subst; reflexivity).
  assert (Hd : is_debug t = false) by (destruct Ht; subst; reflexivity).
  pose proof (delta_eq_spec cl0 g0 ops Hwf Hc t w Hm Hd Hw) as H. fold s in H. unfold client_ok in H.
  assert (Et : should_set_watched t = true) by (destruct Ht; subst; reflexivity).
  rewrite Et in H.
  unfold sotw_after, push_xds. rewrite Hs. cbn [delta_empty empty_delta dl_sub dl_unsub is_nil andb negb full_gen g_res].
  eexists. split; [reflexivity|]. intros n. rewrite H. unfold apply_sotw.
  assert (Ef : full_state t = true) by (destruct Ht; subst; reflexivity). rewrite Ef.
  rewrite (lookup_filter n (fun k => in_scope t (names ws, wildcard ws) k)).
  unfold in_scope. rewrite Et. reflexivity.
Qed.

(* named types: the delta client holds what the SotW client holds, minus SotW's leftovers of
   resources that no longer exist (SotW only drops those when their parent goes away) *)
Theorem delta_eq_sotw_named cl0 g0 ops :
  wf_world g0 -> all_conformant (start cl0 g0) ops ->
  let s := hrun (start cl0 g0) ops in
  forall t w, requires_names_mod t = false -> is_debug t = false ->
  should_set_watched t = false -> never_remove t = false -> s_srv s t = Some w ->
  forall sts ws ms, sts t = Some ws ->
  (forall n, In n (names ws) <-> In n (names w)) ->          (* the same subscription *)
  (forall n, lookup n ms <> None -> In n (names ws)) ->      (* the SotW client holds subscribed names only *)
  exists m', sotw_after t (s_world s t) sts ms = Some m' /\
    forall n, lookup n (s_cl s t) = match lookup n (s_world s t) with Some _ => lookup n m' | None => None end.
Proof.
  intros Hwf Hc s t w Hm Hd Et En Hw sts ws ms Hs Hsame Hheld.
  pose proof (delta_eq_spec cl0 g0 ops Hwf Hc t w Hm Hd Hw) as H. fold s in H. unfold client_ok in H.
  rewrite Et, En in H.
  unfold sotw_after, push_xds. rewrite Hs. cbn [delta_empty empty_delta dl_sub dl_unsub is_nil andb negb full_gen g_res].
  eexists. split; [reflexivity|]. intros n. rewrite H, lookup_restrict. unfold apply_sotw.
  assert (Ef : full_state t = false) by (destruct t; cbn in *; congruence). rewrite Ef.
  rewrite lookup_c_upsert, (lookup_filter n (fun k => in_scope t (names ws, wildcard ws) k)).
  unfold in_scope. rewrite Et. cbn [fst].
  destruct (mem n (names w)) eqn:E1.
  - assert (E2 : mem n (names ws) = true) by (apply mem_In, Hsame, mem_In; exact E1). rewrite E2.
    destruct (lookup n (s_world s t)); reflexivity.
  - assert (E2 : mem n (names ws) = false).
    { apply mem_false. intros Hx. apply Hsame in Hx. apply mem_false in E1. contradiction. }
    rewrite E2. destruct (lookup n (s_world s t)); [|reflexivity].
    destruct (lookup n ms) eqn:Ems; [|reflexivity]. exfalso.
    apply mem_false in E2. apply E2. apply Hheld. congruence.
Qed.
