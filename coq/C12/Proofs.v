(* C12 proofs: the route compiler preserves the VirtualService semantics. *)
From Coq Require Import List NArith Bool String Ascii Lia.
From V Require Import lib.Verdict C12.Model.
Import ListNotations.
Open Scope string_scope.

(* ------------------------------------------------------------------ generic helpers *)

Lemma forallb_map {A B} (f : B -> bool) (g : A -> B) l :
  forallb f (map g l) = forallb (fun x => f (g x)) l.
Proof. induction l; cbn; [reflexivity|rewrite IHl; reflexivity]. Qed.

Lemma forallb_ext' {A} (f g : A -> bool) l :
  (forall x, In x l -> f x = g x) -> forallb f l = forallb g l.
Proof.
  induction l; cbn; intros H; [reflexivity|].
  rewrite (H a (or_introl eq_refl)), IHl; [reflexivity|]. intros; apply H; right; assumption.
Qed.

Lemma forallb_insert_h f h l : forallb f (insert_h h l) = f h && forallb f l.
Proof.
  induction l as [|x l IH]; cbn; [reflexivity|].
  destruct (String.leb (hm_name h) (hm_name x)); cbn; [reflexivity|].
  rewrite IH. destruct (f x), (f h); reflexivity.
Qed.

Lemma forallb_sort_h f l : forallb f (sort_h l) = forallb f l.
Proof.
  induction l as [|x l IH]; [reflexivity|].
  change (sort_h (x :: l)) with (insert_h x (sort_h l)).
  rewrite forallb_insert_h, IH. reflexivity.
Qed.

Lemma prefix_slash_lower p : String.prefix "/" p = true -> String.prefix "/" (lower p) = true.
Proof.
  destruct p as [|c p]; [discriminate|].
  change (String.prefix "/" (String c p)) with (if ascii_dec "/" c then String.prefix "" p else false).
  destruct (ascii_dec "/" c) as [E|]; [subst c|discriminate]. intros _.
  change (lower (String "/" p)) with (String "/" (lower p)).
  change (String.prefix "/" (String "/" (lower p))) with (String.prefix "" (lower p)).
  destruct (lower p); reflexivity.
Qed.

(* ------------------------------------------------------------------ semantics *)

Section Proofs.
Variable re_match : string -> string -> bool.

Notation vs_sem := (vs_sem re_match).
Notation eval_routes := (eval_routes re_match).
Notation route_match_holds := (route_match_holds re_match).
Notation request_ok := (request_ok re_match).
Notation match_holds := (match_holds re_match).
Notation rule_holds := (rule_holds re_match).
Notation header_match := (header_match re_match).
Notation header_holds := (header_holds re_match).
Notation without_holds := (without_holds re_match).
Notation query_holds := (query_holds re_match).
Notation query_match := (query_match re_match).
Notation sm_holds := (sm_holds re_match).
Notation smatch_holds := (smatch_holds re_match).
Notation str_match := (str_match re_match).

Lemma str_match_conv x v : str_match (conv x) v = smatch_holds x v.
Proof. destruct x; reflexivity. Qed.

(* a withoutHeaders matcher is "strict" when it is present-style or rejects the empty string *)
Definition strict_sm (m : sm) : bool :=
  present_style m || negb (sm_holds m "").

Definition wf_match (m : hmatch) : bool := forallb (fun h => strict_sm (snd h)) (m_without m).
Definition wf_rule (r : rule) : bool := forallb wf_match (rl_match r).
Definition wf_rules (rs : list rule) : bool := forallb wf_rule rs.

(* ---- translateHeaderMatch *)
Lemma header_translated q n m :
  header_match q (translate_header n m) = header_holds q (n, m).
Proof.
  unfold header_match, header_holds, translate_header, Model.sm_holds. cbn [hm_name hm_spec hm_invert hm_missing_empty fst snd].
  destruct (req_header q n) as [v|].
  - destruct (present_style m) eqn:P; cbn.
    + reflexivity.
    + destruct m as [x|]; [|discriminate P]. rewrite str_match_conv. apply xorb_false_r.
  - destruct (present_style m); [reflexivity|]. destruct m; reflexivity.
Qed.

(* ---- the withoutHeaders loop: correct for strict matchers *)
Lemma without_translated q n m :
  strict_sm m = true ->
  header_match q (translate_without n m) = without_holds q (n, m).
Proof.
  unfold strict_sm, header_match, without_holds, translate_without, translate_header, Model.sm_holds.
  cbn [hm_name hm_spec hm_invert hm_missing_empty fst snd].
  intros S. destruct (req_header q n) as [v|].
  - destruct (present_style m) eqn:P; cbn.
    + reflexivity.
    + destruct m as [x|]; [|discriminate P]. rewrite str_match_conv. apply xorb_true_r.
  - destruct (present_style m) eqn:P; cbn.
    + reflexivity.
    + destruct m as [x|]; [|discriminate P]. cbn in S.
      rewrite str_match_conv.
      destruct (smatch_holds x ""); [discriminate S|reflexivity].
Qed.

Lemma query_translated q n m :
  query_match q (translate_query n m) = query_holds q (n, m).
Proof.
  unfold query_match, query_holds, translate_query, Model.sm_holds. cbn [fst snd].
  destruct (lookup n (q_query q)) as [v|].
  - destruct (present_style m) eqn:P; [reflexivity|].
    destruct m as [x|]; [|discriminate P]. apply str_match_conv.
  - destruct (present_style m); [reflexivity|]. destruct m; reflexivity.
Qed.

Lemma pseudo_translated q name (m : option sm) v :
  req_header q name = Some v ->
  forallb (header_match q) (opt_header name m) = opt_holds re_match m v.
Proof.
  intros H. destruct m as [x|]; cbn; [|reflexivity].
  rewrite header_translated. unfold Model.header_holds. cbn [fst snd]. rewrite H.
  apply andb_true_r.
Qed.

Lemma path_translated q m :
  wf_req q = true ->
  path_match re_match (rm_path (translate_match (Some m))) (rm_case (translate_match (Some m))) (q_path q)
  = uri_holds re_match (m_uri m) (m_icase m) (q_path q).
Proof.
  unfold wf_req. intros W. cbn [translate_match rm_path rm_case].
  destruct (m_uri m) as [[s|p|r]|]; cbn [path_match uri_holds]; destruct (m_icase m); cbn [negb]; try reflexivity.
  - apply prefix_slash_lower in W. exact W.
  - exact W.
Qed.

(* ---- TranslateRouteMatch preserves the request conditions of a match block *)
Lemma match_translated q m :
  wf_req q = true -> wf_match m = true ->
  route_match_holds q (translate_match (Some m)) = request_ok m q.
Proof.
  intros W WM. unfold Model.route_match_holds, Model.request_ok.
  rewrite path_translated by exact W.
  cbn [translate_match rm_headers rm_query rm_meta].
  rewrite !forallb_app, forallb_sort_h, forallb_app, !forallb_map.
  rewrite (pseudo_translated q ":method" (m_method m) (q_method q)) by reflexivity.
  rewrite (pseudo_translated q ":authority" (m_authority m) (q_authority q)) by reflexivity.
  rewrite (pseudo_translated q ":scheme" (m_scheme m) (q_scheme q)) by reflexivity.
  rewrite (forallb_ext' (fun x => header_match q (translate_header (fst x) (snd x))) (header_holds q)).
  2:{ intros [n x] _. apply header_translated. }
  rewrite (forallb_ext' (fun x => header_match q (translate_without (fst x) (snd x))) (without_holds q)).
  2:{ intros [n x] Hin. apply without_translated.
      unfold wf_match in WM. rewrite forallb_forall in WM. exact (WM _ Hin). }
  rewrite (forallb_ext' (fun x => query_match q (translate_query (fst x) (snd x))) (query_holds q)).
  2:{ intros [n x] _. apply query_translated. }
  cbn [N.eqb]. rewrite andb_true_r.
  repeat rewrite <- andb_assoc. reflexivity.
Qed.

Lemma match_translated_none q :
  wf_req q = true -> route_match_holds q (translate_match None) = true.
Proof. unfold wf_req, Model.route_match_holds. cbn. intros ->. reflexivity. Qed.

(* ---- TranslateRoute returns nil exactly when the source conditions fail *)
Lemma translate_route_some c r m :
  translate_route c r (Some m) =
  if source_ok c m
  then Some {| er_match := translate_match (Some m); er_action := translate_action c (rl_action r) |}
  else None.
Proof.
  unfold translate_route, source_ok.
  destruct (N.eqb (m_port m) 0), (N.eqb (m_port m) (c_port c)); cbn [negb andb orb]; try reflexivity;
  match goal with |- context [negb ?b] => destruct b end; reflexivity.
Qed.

(* ---- actions *)
Lemma nonzero_filter_map c (ds : list dest) :
  nonzero (map (fun d => (resolve_dest c d, d_weight d)) (filter (fun d => negb (N.eqb (d_weight d) 0)) ds))
  = nonzero (map (fun d => (resolve_dest c d, d_weight d)) ds).
Proof.
  unfold nonzero. induction ds as [|d ds IH]; cbn; [reflexivity|].
  destruct (N.eqb (d_weight d) 0) eqn:E; cbn; rewrite ?E; cbn; rewrite IH; reflexivity.
Qed.

Lemma port_elision (p : N) (s : string) :
  (let port := if (N.eqb p 80 && String.eqb s "http")%bool then 0%N else p in
   if (N.eqb port 443 && String.eqb s "https")%bool then 0%N else port)
  = (if (negb (N.eqb p 0) && N.eqb p (default_port s))%bool then 0%N else p).
Proof.
  unfold default_port. cbv zeta.
  destruct (String.eqb_spec s "https") as [->|H1].
  - change (String.eqb "https" "http") with false.
    rewrite andb_false_r, andb_true_r.
    destruct (N.eqb_spec p 443) as [->|]; [reflexivity|].
    rewrite andb_false_r. reflexivity.
  - rewrite !andb_false_r.
    destruct (String.eqb_spec s "http") as [->|H2].
    + rewrite andb_true_r. destruct (N.eqb_spec p 80) as [->|]; [reflexivity|].
      rewrite andb_false_r. reflexivity.
    + rewrite andb_false_r.
      destruct (N.eqb_spec p 0) as [->|]; reflexivity.
Qed.

Lemma redirect_translated c r :
  eaction_means (apply_redirect c r) = redirect_means c r.
Proof.
  unfold apply_redirect, redirect_means.
  set (s := if String.eqb (r_scheme r) "" then if c_tls c then "https" else "http" else r_scheme r).
  assert (P : (match r_port r with
               | PortNone => match r_port r with PortNone => 0%N | PortExplicit p => p
                                                | PortFromRequest => c_port c | PortFromProtocol => 0%N end
               | _ => let port := if (N.eqb (match r_port r with PortNone => 0%N | PortExplicit p => p
                                                | PortFromRequest => c_port c | PortFromProtocol => 0%N end) 80
                                      && String.eqb s "http")%bool then 0%N
                                  else (match r_port r with PortNone => 0%N | PortExplicit p => p
                                                | PortFromRequest => c_port c | PortFromProtocol => 0%N end) in
                      if (N.eqb port 443 && String.eqb s "https")%bool then 0%N else port
               end)
              = (let port := match r_port r with PortNone => 0%N | PortExplicit p => p
                                                | PortFromRequest => c_port c | PortFromProtocol => 0%N end in
                 if (negb (N.eqb port 0) && N.eqb port (default_port s))%bool then 0%N else port)).
  { destruct (r_port r); cbn zeta; try apply port_elision; reflexivity. }
  cbn zeta in P. cbn zeta. rewrite P. clear P.
  unfold valid_code.
  destruct (String.eqb (r_prefix_rewrite r) ""); cbn [negb].
  all: destruct (N.eqb_spec (r_code r) 0) as [->|H0]; [reflexivity|].
  all: cbn [orb].
  all: destruct (N.eqb_spec (r_code r) 301) as [->|H1]; [reflexivity|].
  all: destruct (N.eqb_spec (r_code r) 302) as [->|H2]; [reflexivity|].
  all: destruct (N.eqb_spec (r_code r) 303) as [->|H3]; [reflexivity|].
  all: destruct (N.eqb_spec (r_code r) 307) as [->|H4]; [reflexivity|].
  all: destruct (N.eqb_spec (r_code r) 308) as [->|H5]; [reflexivity|].
  all: cbn [existsb eaction_means].
  all: repeat match goal with |- context [N.eqb ?a ?b] => destruct (N.eqb_spec a b); [congruence|] end.
  all: reflexivity.
Qed.

Lemma action_translated c a : eaction_means (translate_action c a) = action_means c a.
Proof.
  destruct a as [ds|r|st b]; cbn [translate_action].
  - unfold apply_destination, action_means.
    destruct ds as [|d [|d' ds]]; cbn [eaction_means]; try reflexivity.
    f_equal. apply nonzero_filter_map.
  - apply redirect_translated.
  - reflexivity.
Qed.

(* ---- IsCatchAllRoute is sound for everything TranslateRoute produces *)
Definition re_dotstar := forall s, re_match ".*" s = true.

Lemma catch_all_matches q om :
  re_dotstar -> wf_req q = true ->
  is_catch_all {| er_match := translate_match om; er_action := ENone |} = true ->
  route_match_holds q (translate_match om) = true.
Proof.
  intros RD W. unfold is_catch_all, Model.route_match_holds. cbn [er_match].
  destruct om as [m|]; [|intros _; apply match_translated_none; exact W].
  intros H. apply andb_prop in H. destruct H as [H Hm]. apply andb_prop in H. destruct H as [H Hq].
  apply andb_prop in H. destruct H as [Hp Hh].
  destruct (rm_headers (translate_match (Some m))); [|discriminate].
  destruct (rm_query (translate_match (Some m))); [|discriminate].
  rewrite Hm. cbn [forallb]. rewrite !andb_true_r.
  revert Hp. cbn [translate_match rm_path rm_case].
  unfold wf_req in W.
  destruct (m_uri m) as [[s|p|r]|]; cbn [path_match]; intros Hp; try discriminate.
  - apply String.eqb_eq in Hp. subst p. destruct (m_icase m); cbn [negb].
    + apply prefix_slash_lower in W. exact W.
    + exact W.
  - apply String.eqb_eq in Hp. subst r. apply RD.
  - destruct (m_icase m); cbn [negb]; [apply prefix_slash_lower in W|]; exact W.
Qed.

Lemma is_catch_all_action_irrelevant m a b :
  is_catch_all {| er_match := m; er_action := a |} = is_catch_all {| er_match := m; er_action := b |}.
Proof. reflexivity. Qed.

(* ---- evaluation of concatenated route lists *)
Lemma eval_routes_app a b q :
  eval_routes (a ++ b) q = match eval_routes a q with Some x => Some x | None => eval_routes b q end.
Proof.
  induction a as [|r a IH]; cbn; [reflexivity|].
  destruct (route_match_holds q (er_match r)); [reflexivity|exact IH].
Qed.

(* ---- the inner loop over the match blocks of one rule *)
Lemma compile_matches_sem c r q ms :
  re_dotstar -> wf_req q = true -> forallb wf_match ms = true ->
  let act := Some (action_means c (rl_action r)) in
  (snd (compile_matches c r ms) = true ->
     eval_routes (fst (compile_matches c r ms)) q = act /\ existsb (match_holds c q) ms = true)
  /\ (snd (compile_matches c r ms) = false ->
     forall tail, eval_routes (fst (compile_matches c r ms) ++ tail) q
                  = if existsb (match_holds c q) ms then act else eval_routes tail q).
Proof.
  intros RD W. induction ms as [|m ms IH]; intros WM act.
  - cbn. split; [discriminate|]. intros _ tail. reflexivity.
  - cbn [forallb] in WM. apply andb_prop in WM. destruct WM as [WMm WMs].
    specialize (IH WMs). cbn zeta in IH. destruct IH as [IHt IHf].
    cbn [compile_matches existsb]. rewrite translate_route_some.
    unfold Model.match_holds at 1 3.
    destruct (source_ok c m) eqn:S; cbn [andb orb].
    2:{ split; assumption. }
    set (er := {| er_match := translate_match (Some m); er_action := translate_action c (rl_action r) |}).
    destruct (is_catch_all er) eqn:CA.
    + cbn [fst snd]. split; [|discriminate]. intros _.
      assert (H : route_match_holds q (translate_match (Some m)) = true).
      { apply catch_all_matches; assumption. }
      rewrite <- (match_translated q m W WMm), H. cbn [orb].
      split; [|reflexivity]. cbn [Model.eval_routes]. subst er. cbn [er_match er_action].
      rewrite H. unfold act. rewrite action_translated. reflexivity.
    + destruct (compile_matches c r ms) as [rs stop] eqn:CM. cbn [fst snd] in *.
      rewrite <- (match_translated q m W WMm).
      split.
      * intros St. destruct (IHt St) as [E X]. rewrite X, orb_true_r. split; [|reflexivity].
        cbn [Model.eval_routes]. subst er. cbn [er_match er_action].
        destruct (route_match_holds q (translate_match (Some m))).
        -- unfold act. rewrite action_translated. reflexivity.
        -- exact E.
      * intros St tail. cbn [app Model.eval_routes]. subst er. cbn [er_match er_action].
        destruct (route_match_holds q (translate_match (Some m))); cbn [orb].
        -- unfold act. rewrite action_translated. reflexivity.
        -- apply IHf. exact St.
Qed.

(* ---- HEADLINE: evaluating the generated routes = the VirtualService semantics *)
Theorem routes_preserved c rules q :
  re_dotstar -> wf_req q = true -> wf_rules rules = true ->
  eval_routes (compile c rules) q = vs_sem c rules q.
Proof.
  intros RD W. induction rules as [|r rules IH]; intros WR; [reflexivity|].
  cbn [wf_rules forallb] in WR. apply andb_prop in WR. destruct WR as [WRr WRs].
  specialize (IH WRs).
  cbn [compile Model.vs_sem]. unfold Model.rule_holds.
  destruct (rl_match r) as [|m ms] eqn:RM.
  - cbn [translate_route Model.eval_routes er_match er_action].
    rewrite match_translated_none by exact W. rewrite action_translated. reflexivity.
  - unfold wf_rule in WRr. rewrite RM in WRr.
    destruct (compile_matches_sem c r q (m :: ms) RD W WRr) as [Ht Hf].
    destruct (compile_matches c r (m :: ms)) as [rs stop]. cbn [fst snd] in *.
    destruct stop.
    + destruct (Ht eq_refl) as [E X]. rewrite X. exact E.
    + rewrite (Hf eq_refl). rewrite IH. reflexivity.
Qed.

End Proofs.
