(* Evaluation of harness cases for C12. *)
From V Require Export lib.Verdict C12.Model.
Open Scope string_scope.

(* the regex oracle of a case: the harness tabulates RE2 full-match for every regex literal of the
   VirtualService against every string of the request *)
Definition re_tab := list (string * string * bool).
Definition re_of (tab : re_tab) (r s : string) : bool :=
  match find (fun e => String.eqb (fst (fst e)) r && String.eqb (snd (fst e)) s) tab with
  | Some e => snd e
  | None => false
  end.

Inductive case :=
(* one VirtualService rule list with a group of requests: routes observed from the real
   BuildHTTPRoutesForVirtualService *)
| Routes (id : N) (c : ctx) (rules : list rule) (observed : list eroute)
         (tab : re_tab) (qs : list request)
(* one sidecar scenario (listener port, registry services, VirtualServices oldest first) with
   the virtual hosts observed from the real BuildSidecarOutboundVirtualHosts and a group of requests *)
| VHosts (id : N) (c : ctx) (svcs : list (string * list N)) (vss : list (list string * list rule))
         (observed : list vhost)
         (fallback : option action)   (* what an authority nothing is configured for gets *)
         (force : option string)      (* sniffed route "host:port": every request is for that host *)
         (qs : list request)
(* one gateway scenario (Gateways: name and server hosts of the shared HTTP port; VirtualServices
   oldest first) with the virtual hosts of the RouteConfiguration the real BuildHTTPRoutes
   produced for the router proxy *)
| GwHosts (id : N) (c : ctx) (gws : list (string * list string)) (vss : list gw_vs)
          (observed : list vhost) (tab : re_tab) (qs : list request)
(* the real SortVHostRoutes on a long route list *)
| Sort (id : N) (input observed : list eroute) (tab : re_tab) (qs : list request).

Definition case_id c := match c with Routes id _ _ _ _ _ => id | VHosts id _ _ _ _ _ _ _ => id
  | GwHosts id _ _ _ _ _ _ => id | Sort id _ _ _ _ => id end.

(* ---------------------------------------------------------------- decidable equalities *)

Definition str_matcher_eqb (a b : str_matcher) : bool :=
  match a, b with
  | MExact x, MExact y | MPrefix x, MPrefix y | MRegex x, MRegex y => String.eqb x y
  | _, _ => false      (* MUnknown equals nothing *)
  end.

Definition hspec_eqb (a b : hspec) : bool :=
  match a, b with
  | HPresent x, HPresent y => Bool.eqb x y
  | HString x, HString y => str_matcher_eqb x y
  | _, _ => false
  end.

Definition hmatcher_eqb (a b : hmatcher) : bool :=
  String.eqb (hm_name a) (hm_name b) && hspec_eqb (hm_spec a) (hm_spec b)
  && Bool.eqb (hm_invert a) (hm_invert b) && Bool.eqb (hm_missing_empty a) (hm_missing_empty b).

Definition path_eqb (a b : path_spec) : bool :=
  match a, b with
  | PPrefix x, PPrefix y | PPath x, PPath y | PSepPrefix x, PSepPrefix y | PRegex x, PRegex y => String.eqb x y
  | _, _ => false
  end.

Definition qspec_eqb (a b : qspec) : bool :=
  match a, b with
  | QPresent x, QPresent y => Bool.eqb x y
  | QString x, QString y => str_matcher_eqb x y
  | _, _ => false
  end.

Definition ckey_eqb (a b : ckey) : bool :=
  N.eqb (ck_port a) (ck_port b) && String.eqb (ck_subset a) (ck_subset b) && String.eqb (ck_host a) (ck_host b).

Definition cw_eqb (a b : ckey * N) : bool := ckey_eqb (fst a) (fst b) && N.eqb (snd a) (snd b).

Definition ostr_eqb := option_eqb String.eqb.

Definition eaction_eqb (a b : eaction) : bool :=
  match a, b with
  | ECluster x, ECluster y => ckey_eqb x y
  | EWeighted x, EWeighted y => list_eqb cw_eqb x y
  | ERedirect h p pre s po co, ERedirect h' p' pre' s' po' co' =>
      String.eqb h h' && String.eqb p p' && Bool.eqb pre pre' && String.eqb s s' && N.eqb po po' && N.eqb co co'
  | EDirect s b, EDirect s' b' => N.eqb s s' && ostr_eqb b b'
  | _, _ => false      (* ENone equals nothing: an undecodable action is never predicted *)
  end.

Fixpoint remove1 {A} (eqb : A -> A -> bool) (x : A) (l : list A) : option (list A) :=
  match l with
  | [] => None
  | y :: l' => if eqb x y then Some l'
               else match remove1 eqb x l' with Some r => Some (y :: r) | None => None end
  end.

Fixpoint perm_eqb {A} (eqb : A -> A -> bool) (l1 l2 : list A) : bool :=
  match l1 with
  | [] => match l2 with [] => true | _ => false end
  | x :: l1' => match remove1 eqb x l2 with Some l2' => perm_eqb eqb l1' l2' | None => false end
  end.

(* sort.Slice is not stable: header matchers with the same name (one from headers, one from
   withoutHeaders) may come out in either order; everything else is positional *)
Definition headers_eqb (model obs : list hmatcher) : bool :=
  list_eqb String.eqb (map hm_name model) (map hm_name obs) && perm_eqb hmatcher_eqb model obs.

Definition route_match_eqb (a b : route_match) : bool :=
  path_eqb (rm_path a) (rm_path b) && Bool.eqb (rm_case a) (rm_case b)
  && headers_eqb (rm_headers a) (rm_headers b)
  && list_eqb (fun x y => String.eqb (fst x) (fst y) && qspec_eqb (snd x) (snd y)) (rm_query a) (rm_query b)
  && N.eqb (rm_meta a) (rm_meta b).

Definition eroute_eqb (a b : eroute) : bool :=
  route_match_eqb (er_match a) (er_match b) && eaction_eqb (er_action a) (er_action b).

Definition redirect_sem_eqb (a b : redirect_sem) : bool :=
  String.eqb (rd_host a) (rd_host b) && String.eqb (rd_path a) (rd_path b)
  && Bool.eqb (rd_is_prefix a) (rd_is_prefix b) && String.eqb (rd_scheme a) (rd_scheme b)
  && N.eqb (rd_port a) (rd_port b) && N.eqb (rd_code a) (rd_code b).

Definition action_eqb (a b : action) : bool :=
  match a, b with
  | ADist x, ADist y => list_eqb cw_eqb x y
  | ARedirect x, ARedirect y => redirect_sem_eqb x y
  | ADirect s b, ADirect s' b' => N.eqb s s' && ostr_eqb b b'
  | _, _ => false      (* AInvalid equals nothing *)
  end.

Definition vhost_eqb (a b : vhost) : bool :=
  String.eqb (vh_name a) (vh_name b) && list_eqb String.eqb (vh_domains a) (vh_domains b)
  && list_eqb eroute_eqb (vh_routes a) (vh_routes b).

(* domains of different virtual hosts never collide (compared lower-cased) *)
Fixpoint nodup_lower (l : list string) : bool :=
  match l with
  | [] => true
  | x :: l' => negb (mem (lower x) (map lower l')) && nodup_lower l'
  end.

Definition no_re (_ _ : string) := false.   (* part B uses no regular expressions *)

(* ---------------------------------------------------------------- verdicts *)

Definition model_ok (c : case) : bool :=
  match c with
  | Routes _ cx rules obs _ _ => list_eqb eroute_eqb (compile cx rules) obs
  | VHosts _ _ _ _ obs _ _ _ =>
      (* the assembly invariants hold on the output: re-running the name / domain deduplication
         over the observed virtual hosts removes nothing *)
      list_eqb vhost_eqb
        (assemble (map (fun v => {| vi_name := vh_name v; vi_domains := vh_domains v; vi_alt := [];
                                     vi_routes := vh_routes v |}) obs) [] [] []) obs
  | GwHosts _ _ _ _ obs _ _ => nodup_lower (flat_map vh_domains obs)
  | Sort _ input obs _ _ => list_eqb eroute_eqb (sort_vhost_routes input) obs
  end.

(* the property itself, on the observed routes: the reference Envoy evaluation of what the
   implementation produced selects the action the VirtualService semantics define *)
Definition prop_ok (c : case) : bool :=
  match c with
  | Routes _ cx rules obs tab qs =>
      forallb (fun q => wf_req q &&
                 option_eqb action_eqb (eval_routes (re_of tab) obs q) (vs_sem (re_of tab) cx rules q)) qs
  | VHosts _ cx svcs vss obs fallback force qs =>
      nodup_lower (flat_map vh_domains obs)
      && forallb (fun q =>
                   let q' := match force with
                             | Some h => {| q_path := q_path q; q_query := q_query q; q_headers := q_headers q;
                                            q_method := q_method q; q_authority := h; q_scheme := q_scheme q |}
                             | None => q
                             end in
                   wf_req q &&
                   option_eqb action_eqb (eval_rc no_re obs q) (mesh_sem no_re cx svcs vss fallback q')) qs
  | GwHosts _ cx gws vss obs tab qs =>
      forallb (fun q => wf_req q &&
                 option_eqb action_eqb (eval_rc (re_of tab) obs q) (gw_sem (re_of tab) cx gws vss q)) qs
  | Sort _ input obs tab qs =>
      (* rule order is kept among the routes that are not catch-alls, catch-alls keep their order
         and come last; and first-match evaluation agrees *)
      let nc := filter (fun r => negb (is_catch_all r)) in
      list_eqb eroute_eqb (nc obs) (nc input)
      && list_eqb eroute_eqb (filter is_catch_all obs) (filter is_catch_all input)
      && list_eqb eroute_eqb obs (nc obs ++ filter is_catch_all obs)
      && forallb (fun q => option_eqb action_eqb (eval_routes (re_of tab) obs q)
                             (match eval_routes (re_of tab) (nc input) q with
                              | Some a => Some a
                              | None => eval_routes (re_of tab) (filter is_catch_all input) q
                              end)) qs
  end.

Definition mismatches := check_all case_id model_ok prop_ok.
