(* C12 proofs, part 2: order preservation, truncation soundness, the refutation witness. *)
From Coq Require Import List NArith Bool String Ascii Lia.
From V Require Import lib.Verdict C12.Model C12.Proofs.
Import ListNotations.
Open Scope string_scope.
Open Scope list_scope.

(* every route the rule list could give rise to for this context, in rule order, nothing dropped *)
Definition opt_list {A} (o : option A) : list A := match o with Some x => [x] | None => [] end.

Definition rule_routes (c : ctx) (r : rule) : list eroute :=
  match rl_match r with
  | [] => opt_list (translate_route c r None)
  | ms => flat_map (fun m => opt_list (translate_route c r (Some m))) ms
  end.

Definition full (c : ctx) (rules : list rule) : list eroute := flat_map (rule_routes c) rules.

Lemma compile_matches_prefix c r ms :
  exists dropped,
    flat_map (fun m => opt_list (translate_route c r (Some m))) ms = fst (compile_matches c r ms) ++ dropped
    /\ (snd (compile_matches c r ms) = false -> dropped = []).
Proof.
  induction ms as [|m ms [d [E F]]]; [exists []; split; reflexivity|].
  cbn [flat_map compile_matches].
  destruct (translate_route c r (Some m)) as [er|]; cbn [opt_list app].
  - destruct (is_catch_all er).
    + exists (flat_map (fun m => opt_list (translate_route c r (Some m))) ms). split; [reflexivity|discriminate].
    + destruct (compile_matches c r ms) as [rs stop]. cbn [fst snd] in *.
      exists d. split; [rewrite E; reflexivity|exact F].
  - exists d. split; assumption.
Qed.

(* rule order is preserved and only a tail is dropped *)
Theorem order_preserved c rules : exists dropped, full c rules = compile c rules ++ dropped.
Proof.
  induction rules as [|r rules [d E]]; [exists []; reflexivity|].
  unfold full in *. cbn [flat_map compile]. unfold rule_routes at 1.
  destruct (rl_match r) as [|m ms] eqn:RM.
  - cbn [translate_route opt_list]. exists (flat_map (rule_routes c) rules). reflexivity.
  - destruct (compile_matches_prefix c r (m :: ms)) as [d' [E' F']].
    destruct (compile_matches c r (m :: ms)) as [rs stop]. cbn [fst snd] in *.
    rewrite E'. destruct stop.
    + exists (d' ++ flat_map (rule_routes c) rules). rewrite app_assoc. reflexivity.
    + rewrite (F' eq_refl), app_nil_r, E. exists d. rewrite app_assoc. reflexivity.
Qed.

Section P2.
Variable re_match : string -> string -> bool.

Lemma rule_routes_sem c r q tail :
  wf_req q = true -> wf_rule re_match r = true ->
  eval_routes re_match (rule_routes c r ++ tail) q
  = if rule_holds re_match c q r then Some (action_means c (rl_action r)) else eval_routes re_match tail q.
Proof.
  intros W WR. unfold rule_routes, rule_holds, wf_rule in *.
  destruct (rl_match r) as [|m0 ms0].
  - cbn [translate_route opt_list app eval_routes er_match er_action].
    rewrite match_translated_none by exact W. rewrite action_translated. reflexivity.
  - generalize dependent (m0 :: ms0). intros ms WM.
    induction ms as [|m ms IH]; [reflexivity|].
    cbn [forallb] in WM. apply andb_prop in WM. destruct WM as [WMm WMs].
    cbn [flat_map existsb]. rewrite translate_route_some. unfold match_holds at 1.
    destruct (source_ok c m); cbn [opt_list app andb orb]; [|apply IH; exact WMs].
    cbn [eval_routes er_match er_action].
    rewrite (match_translated re_match q m W WMm).
    destruct (request_ok re_match m q); cbn [orb].
    + rewrite action_translated. reflexivity.
    + apply IH. exact WMs.
Qed.

Lemma full_sem c rules q :
  wf_req q = true -> wf_rules re_match rules = true ->
  eval_routes re_match (full c rules) q = vs_sem re_match c rules q.
Proof.
  intros W. induction rules as [|r rules IH]; intros WR; [reflexivity|].
  cbn [wf_rules forallb] in WR. apply andb_prop in WR. destruct WR as [WRr WRs].
  unfold full in *. cbn [flat_map vs_sem].
  rewrite rule_routes_sem by assumption. rewrite IH by exact WRs. reflexivity.
Qed.

(* the routes dropped after a catch-all are unreachable: evaluating the truncated list equals
   evaluating the complete one *)
Theorem truncation_sound c rules q :
  re_dotstar re_match -> wf_req q = true -> wf_rules re_match rules = true ->
  eval_routes re_match (compile c rules) q = eval_routes re_match (full c rules) q.
Proof.
  intros RD W WR. rewrite full_sem by assumption. apply routes_preserved; assumption.
Qed.

(* ---- the full statement (without the strictness side condition) is false of the faithful model *)
Definition w_ctx : ctx :=
  {| c_port := 80; c_labels := []; c_ns := "ns"; c_gateways := ["mesh"]; c_tls := false;
     c_services := [("a.ns.svc.cluster.local", [80%N])] |}.
Definition w_match : hmatch :=
  {| m_uri := None; m_icase := false; m_headers := []; m_without := [("x-a", Some (SExact ""))];
     m_query := []; m_method := None; m_authority := None; m_scheme := None; m_port := 0;
     m_labels := []; m_ns := ""; m_gateways := [] |}.
Definition w_dest h := {| d_host := h; d_subset := ""; d_port := None; d_weight := 100 |}.
Definition w_rules : list rule :=
  [ {| rl_match := [w_match]; rl_action := RRoute [w_dest "a.ns.svc.cluster.local"] |};
    {| rl_match := []; rl_action := RRoute [w_dest "b.ns.svc.cluster.local"] |} ].
Definition w_req : request :=
  {| q_path := "/"; q_query := []; q_headers := []; q_method := "GET";
     q_authority := "a.example.com"; q_scheme := "http" |}.

Theorem routes_preserved_refuted :
  exists c rules q, wf_req q = true /\
    eval_routes re_match (compile c rules) q <> vs_sem re_match c rules q.
Proof.
  exists w_ctx, w_rules, w_req. split; [reflexivity|]. vm_compute. discriminate.
Qed.

End P2.

Example wf_rules_satisfiable :
  wf_rules (fun _ _ => true)
    [ {| rl_match := [ {| m_uri := Some (SPrefix "/a"); m_icase := true;
                          m_headers := [("x-a", Some (SExact "v1"))];
                          m_without := [("x-b", Some (SExact "v2")); ("x-c", None)];
                          m_query := []; m_method := None; m_authority := None; m_scheme := None;
                          m_port := 0; m_labels := []; m_ns := ""; m_gateways := [] |} ];
         rl_action := RDirect 200 None |} ] = true.
Proof. reflexivity. Qed.
