(* C12 — generated routes send each request where the VirtualService says.

   Three parts, definitions only:
   1. SOURCE: the VirtualService http grammar and its semantics [vs_sem] (first rule with a match
      block whose conditions hold for this proxy context and request).
   2. TARGET: an AST of the Envoy RouteConfiguration fragment istio emits and a reference
      interpreter for it ([route_match_holds], [eval_routes], [select_vhost], [eval_rc]).
   3. COMPILER: a model of /repo/pilot/pkg/networking/core/route/route.go, branch for branch:
      BuildHTTPRoutesForVirtualService, TranslateRoute, sourceMatchHTTP, TranslateRouteMatch,
      translateHeaderMatch, translateQueryParamMatch, canBeConvertedToPresentMatch,
      applyHTTPRouteDestination (cluster part), GetDestinationCluster, ApplyRedirect,
      ApplyDirectResponse, IsCatchAllRoute, SortVHostRoutes; and of httproute.go
      BuildSidecarOutboundVirtualHosts' virtual-host assembly loop (buildVirtualHost + dedupeDomains).

   Regular-expression matching is the abstract oracle [re_match] (a Section variable), used
   identically by the source and the target semantics. *)
From Coq Require Import List NArith Bool String Ascii.
Import ListNotations.
Open Scope string_scope.

(* ------------------------------------------------------------------ strings *)

Definition lower_ascii (c : ascii) : ascii :=
  let n := N_of_ascii c in
  if (N.leb 65 n && N.leb n 90)%bool then ascii_of_N (n + 32) else c.

Fixpoint lower (s : string) : string :=
  match s with
  | EmptyString => EmptyString
  | String c s' => String (lower_ascii c) (lower s')
  end.

Fixpoint srev_acc (s acc : string) : string :=
  match s with
  | EmptyString => acc
  | String c s' => srev_acc s' (String c acc)
  end.
Definition srev s := srev_acc s EmptyString.
Definition suffix (suf s : string) : bool := String.prefix (srev suf) (srev s).

Fixpoint lookup {A} (k : string) (l : list (string * A)) : option A :=
  match l with
  | [] => None
  | (k', v) :: l' => if String.eqb k k' then Some v else lookup k l'
  end.

Definition mem (k : string) (l : list string) : bool := existsb (String.eqb k) l.

(* ------------------------------------------------------------------ requests *)

Record request := {
  q_path : string;                       (* path without the query string *)
  q_query : list (string * string);
  q_headers : list (string * string);    (* ordinary headers, lower-case names *)
  q_method : string;
  q_authority : string;
  q_scheme : string
}.

(* Envoy's header map contains the pseudo headers *)
Definition req_header (q : request) (name : string) : option string :=
  if String.eqb name ":method" then Some (q_method q)
  else if String.eqb name ":authority" then Some (q_authority q)
  else if String.eqb name ":scheme" then Some (q_scheme q)
  else lookup name (q_headers q).

(* HTTP request paths start with "/" (validated for every generated request) *)
Definition wf_req (q : request) : bool := String.prefix "/" (q_path q).

(* ------------------------------------------------------------------ actions (shared denotation) *)

Record ckey := { ck_port : N; ck_subset : string; ck_host : string }.

Record redirect_sem := {
  rd_host : string; rd_path : string; rd_is_prefix : bool; rd_scheme : string;
  rd_port : N;      (* 0 = the default port of the effective scheme *)
  rd_code : N
}.

Inductive action :=
| ADist (d : list (ckey * N))      (* non-zero weights; a single target is [(c,1)] *)
| ARedirect (r : redirect_sem)
| ADirect (status : N) (body : option string)
| AInvalid.

Definition nonzero (d : list (ckey * N)) := filter (fun cw => negb (N.eqb (snd cw) 0)) d.

(* ------------------------------------------------------------------ 1. SOURCE *)

Inductive smatch := SExact (s : string) | SPrefix (s : string) | SRegex (s : string).
(* [None] as a map value = nil *StringMatch or one whose MatchType is unset *)
Definition sm := option smatch.

Record hmatch := {
  m_uri : sm;
  m_icase : bool;
  m_headers : list (string * sm);
  m_without : list (string * sm);
  m_query : list (string * sm);
  m_method : option sm;
  m_authority : option sm;
  m_scheme : option sm;
  m_port : N;
  m_labels : list (string * string);
  m_ns : string;
  m_gateways : list string
}.

Record dest := { d_host : string; d_subset : string; d_port : option N; d_weight : N }.

Inductive port_sel := PortNone | PortExplicit (p : N) | PortFromRequest | PortFromProtocol.

Record redirect := {
  r_authority : string; r_uri : string; r_prefix_rewrite : string; r_scheme : string;
  r_port : port_sel; r_code : N
}.

Inductive raction :=
| RRoute (ds : list dest)
| RRedirect (r : redirect)
| RDirect (status : N) (body : option string).

Record rule := { rl_match : list hmatch; rl_action : raction }.

(* proxy / listener context the routes are generated for *)
Record ctx := {
  c_port : N;                            (* listener port *)
  c_labels : list (string * string);     (* proxy workload labels *)
  c_ns : string;                         (* proxy namespace *)
  c_gateways : list string;              (* "mesh" for sidecars, the gateway name for gateways *)
  c_tls : bool;                          (* gateway server terminates TLS *)
  c_services : list (string * list N)    (* LookupService: host -> ports *)
}.

Section Sem.
Variable re_match : string -> string -> bool.

(* canBeConvertedToPresentMatch: nil, unset, or the metacharacter regex "*" mean "present" *)
Definition present_style (m : sm) : bool :=
  match m with
  | None => true
  | Some (SRegex r) => String.eqb r "*"
  | Some _ => false
  end.

Definition smatch_holds (m : smatch) (v : string) : bool :=
  match m with
  | SExact s => String.eqb s v
  | SPrefix p => String.prefix p v
  | SRegex r => re_match r v
  end.

Definition sm_holds (m : sm) (v : string) : bool :=
  if present_style m then true
  else match m with Some x => smatch_holds x v | None => true end.

Definition uri_holds (m : sm) (icase : bool) (path : string) : bool :=
  match m with
  | None => true
  | Some (SExact s) => if icase then String.eqb (lower s) (lower path) else String.eqb s path
  | Some (SPrefix p) => if icase then String.prefix (lower p) (lower path) else String.prefix p path
  | Some (SRegex r) => re_match r path
  end.

(* headers: the header must be present and its value satisfy the matcher *)
Definition header_holds (q : request) (h : string * sm) : bool :=
  match req_header q (fst h) with
  | None => false
  | Some v => sm_holds (snd h) v
  end.

(* withoutHeaders: "if a header is matched with a matching rule among withoutHeader, the traffic
   becomes not matched": an absent header is not matched by anything. *)
Definition without_holds (q : request) (h : string * sm) : bool :=
  match req_header q (fst h) with
  | None => true
  | Some v => negb (sm_holds (snd h) v)
  end.

Definition query_holds (q : request) (h : string * sm) : bool :=
  match lookup (fst h) (q_query q) with
  | None => false
  | Some v => sm_holds (snd h) v
  end.

Definition opt_holds (m : option sm) (v : string) : bool :=
  match m with None => true | Some x => sm_holds x v end.

Definition request_ok (m : hmatch) (q : request) : bool :=
  uri_holds (m_uri m) (m_icase m) (q_path q)
  && forallb (header_holds q) (m_headers m)
  && forallb (without_holds q) (m_without m)
  && opt_holds (m_method m) (q_method q)
  && opt_holds (m_authority m) (q_authority q)
  && opt_holds (m_scheme m) (q_scheme q)
  && forallb (query_holds q) (m_query m).

Definition labels_subset (want have : list (string * string)) : bool :=
  forallb (fun kv => match lookup (fst kv) have with
                     | Some v => String.eqb v (snd kv) | None => false end) want.

(* source conditions of a match block: port, gateways, sourceLabels, sourceNamespace *)
Definition source_ok (c : ctx) (m : hmatch) : bool :=
  (N.eqb (m_port m) 0 || N.eqb (m_port m) (c_port c))
  && match m_gateways m with
     | [] => labels_subset (m_labels m) (c_labels c)
             && (String.eqb (m_ns m) "" || String.eqb (m_ns m) (c_ns c))
     | gs => existsb (fun g => mem g (c_gateways c)) gs
     end.

Definition match_holds (c : ctx) (q : request) (m : hmatch) : bool :=
  source_ok c m && request_ok m q.

Definition rule_holds (c : ctx) (q : request) (r : rule) : bool :=
  match rl_match r with
  | [] => true
  | ms => existsb (match_holds c q) ms
  end.

(* destination -> cluster key (GetDestinationCluster, no ExternalName aliases) *)
Definition resolve_dest (c : ctx) (d : dest) : ckey :=
  let port := match d_port d with
              | Some p => p
              | None => match lookup (d_host d) (c_services c) with
                        | Some [p] => p
                        | _ => c_port c
                        end
              end in
  {| ck_port := port; ck_subset := d_subset d; ck_host := d_host d |}.

Definition valid_code (x : N) : bool := existsb (N.eqb x) [301; 302; 303; 307; 308]%N.

Definition default_port (scheme : string) : N :=
  if String.eqb scheme "https" then 443 else if String.eqb scheme "http" then 80 else 0.

(* what the redirect in the rule means: an explicitly chosen port equal to the default port of
   the effective scheme is the same as "no port" *)
Definition redirect_means (c : ctx) (r : redirect) : action :=
  let scheme := if String.eqb (r_scheme r) "" then (if c_tls c then "https" else "http") else r_scheme r in
  let port := match r_port r with
              | PortNone => 0%N
              | PortExplicit p => p
              | PortFromRequest => c_port c
              | PortFromProtocol => 0%N
              end in
  let port := if (negb (N.eqb port 0) && N.eqb port (default_port scheme))%bool then 0%N else port in
  let code := if N.eqb (r_code r) 0 then 301%N else r_code r in
  if valid_code code then
    ARedirect {| rd_host := r_authority r;
                 rd_path := if String.eqb (r_prefix_rewrite r) "" then r_uri r else r_prefix_rewrite r;
                 rd_is_prefix := negb (String.eqb (r_prefix_rewrite r) "");
                 rd_scheme := r_scheme r; rd_port := port; rd_code := code |}
  else AInvalid.

Definition action_means (c : ctx) (a : raction) : action :=
  match a with
  | RRoute [d] => ADist [(resolve_dest c d, 1%N)]
  | RRoute ds => ADist (nonzero (map (fun d => (resolve_dest c d, d_weight d)) ds))
  | RRedirect r => redirect_means c r
  | RDirect st b => ADirect st b
  end.

(* THE SPECIFICATION: the action of the first rule that holds *)
Fixpoint vs_sem (c : ctx) (rules : list rule) (q : request) : option action :=
  match rules with
  | [] => None
  | r :: rest => if rule_holds c q r then Some (action_means c (rl_action r)) else vs_sem c rest q
  end.

(* ------------------------------------------------------------------ 2. TARGET (Envoy) *)

Inductive str_matcher := MExact (s : string) | MPrefix (s : string) | MRegex (s : string)
                       | MUnknown.   (* any other matcher shape: never produced by the model *)

Inductive hspec := HPresent (b : bool) | HString (m : str_matcher).

Record hmatcher := {
  hm_name : string; hm_spec : hspec; hm_invert : bool; hm_missing_empty : bool
}.

Inductive path_spec := PPrefix (s : string) | PPath (s : string) | PSepPrefix (s : string)
                     | PRegex (s : string) | PUnknown.

Inductive qspec := QPresent (b : bool) | QString (m : str_matcher).

Record route_match := {
  rm_path : path_spec;
  rm_case : bool;                        (* case_sensitive (default true) *)
  rm_headers : list hmatcher;
  rm_query : list (string * qspec);
  rm_meta : N                            (* number of dynamic_metadata matchers *)
}.

Inductive eaction :=
| ECluster (c : ckey)
| EWeighted (l : list (ckey * N))
| ERedirect (host path : string) (is_prefix : bool) (scheme : string) (port code : N)
| EDirect (status : N) (body : option string)
| ENone.      (* no action, or something the decoder does not know *)

Record eroute := { er_match : route_match; er_action : eaction }.

Definition str_match (m : str_matcher) (v : string) : bool :=
  match m with
  | MExact s => String.eqb s v
  | MPrefix p => String.prefix p v
  | MRegex r => re_match r v
  | MUnknown => false
  end.

(* Envoy HeaderUtility::matchHeaders *)
Definition header_match (q : request) (h : hmatcher) : bool :=
  match req_header q (hm_name h), hm_missing_empty h with
  | None, false =>
      match hm_spec h with
      | HPresent p => if hm_invert h then p else negb p
      | HString _ => false
      end
  | ov, _ =>
      let v := match ov with Some v => v | None => "" end in
      let m := match hm_spec h with HPresent p => p | HString s => str_match s v end in
      xorb m (hm_invert h)
  end.

(* Envoy QueryParameterMatcher::matches *)
Definition query_match (q : request) (p : string * qspec) : bool :=
  match lookup (fst p) (q_query q), snd p with
  | None, QPresent false => true
  | None, _ => false
  | Some _, QPresent b => b
  | Some v, QString m => str_match m v
  end.

Definition path_match (p : path_spec) (cs : bool) (path : string) : bool :=
  match p with
  | PPrefix x => if cs then String.prefix x path else String.prefix (lower x) (lower path)
  | PPath x => if cs then String.eqb x path else String.eqb (lower x) (lower path)
  | PSepPrefix x =>
      let x' := if cs then x else lower x in
      let p' := if cs then path else lower path in
      String.eqb x' p' || String.prefix (x' ++ "/") p'
  | PRegex r => re_match r path
  | PUnknown => false
  end.

Definition route_match_holds (q : request) (m : route_match) : bool :=
  path_match (rm_path m) (rm_case m) (q_path q)
  && forallb (header_match q) (rm_headers m)
  && forallb (query_match q) (rm_query m)
  && N.eqb (rm_meta m) 0.

Definition eaction_means (a : eaction) : action :=
  match a with
  | ECluster c => ADist [(c, 1%N)]
  | EWeighted l => ADist (nonzero l)
  | ERedirect h p pre s port code => ARedirect {| rd_host := h; rd_path := p; rd_is_prefix := pre;
                                                  rd_scheme := s; rd_port := port; rd_code := code |}
  | EDirect st b => ADirect st b
  | ENone => AInvalid
  end.

(* first matching route wins *)
Fixpoint eval_routes (rs : list eroute) (q : request) : option action :=
  match rs with
  | [] => None
  | r :: rest => if route_match_holds q (er_match r) then Some (eaction_means (er_action r))
                 else eval_routes rest q
  end.

(* ------------------------------------------------------------------ virtual hosts *)

Record vhost := { vh_name : string; vh_domains : list string; vh_routes : list eroute }.

Definition is_suffix_wild (d : string) : bool :=
  match d with String "*" (String _ _) => true | _ => false end.
Definition is_prefix_wild (d : string) : bool :=
  match srev d with String "*" (String _ _) => true | _ => false end.
Definition wild_tail (d : string) : string := match d with String _ t => t | _ => d end.

Definition domain_rank (host d : string) : N :=
  (* 0 = no match; larger = preferred.  exact > suffix wildcard (longer first) >
     prefix wildcard (longer first) > "*" *)
  let n := N.of_nat (String.length d) in
  if String.eqb d host then 3000000 + n
  else if String.eqb d "*" then 1
  else if (is_suffix_wild d && suffix (wild_tail d) host
           && Nat.ltb (String.length (wild_tail d)) (String.length host))%bool then 2000000 + n
  else if (is_prefix_wild d && String.prefix (srev (wild_tail (srev d))) host
           && Nat.ltb (String.length (wild_tail (srev d))) (String.length host))%bool then 1000000 + n
  else 0.

Definition vhost_rank (host : string) (v : vhost) : N :=
  fold_right N.max 0%N (map (domain_rank host) (vh_domains v)).

(* Envoy RouteMatcher::findVirtualHost; host is lower-cased, port already stripped
   (ignore_port_in_host_matching).  Ties keep the first virtual host. *)
Fixpoint select_vhost (vs : list vhost) (host : string) : option vhost :=
  match vs with
  | [] => None
  | v :: rest =>
      let r := vhost_rank host v in
      match select_vhost rest host with
      | Some v' => if N.ltb (vhost_rank host v') r || N.eqb (vhost_rank host v') r && negb (N.eqb r 0)
                   then Some v else Some v'
      | None => if N.eqb r 0 then None else Some v
      end
  end.

(* ignore_port_in_host_matching: the part of the authority from the first ':' on is dropped
   (no IPv6 literals among the authorities considered) *)
Fixpoint strip_port (s : string) : string :=
  match s with
  | EmptyString => EmptyString
  | String c s' => if Ascii.eqb c ":" then EmptyString else String c (strip_port s')
  end.

Definition eval_rc (vs : list vhost) (q : request) : option action :=
  match select_vhost vs (strip_port (lower (q_authority q))) with
  | Some v => eval_routes (vh_routes v) q
  | None => None
  end.

(* ------------------------------------------------------------------ 3. COMPILER (route.go) *)

(* util.ConvertToEnvoyMatch *)
Definition conv (m : smatch) : str_matcher :=
  match m with SExact s => MExact s | SPrefix p => MPrefix p | SRegex r => MRegex r end.

(* translateHeaderMatch *)
Definition translate_header (name : string) (m : sm) : hmatcher :=
  {| hm_name := name;
     hm_spec := if present_style m then HPresent true
                else match m with Some x => HString (conv x) | None => HPresent true end;
     hm_invert := false; hm_missing_empty := false |}.

(* the withoutHeaders loop body of TranslateRouteMatch *)
Definition translate_without (name : string) (m : sm) : hmatcher :=
  let h := translate_header name m in
  {| hm_name := hm_name h; hm_spec := hm_spec h; hm_invert := true;
     hm_missing_empty := negb (present_style m) |}.

(* translateQueryParamMatch *)
Definition translate_query (name : string) (m : sm) : string * qspec :=
  (name, if present_style m then QPresent true
         else match m with Some x => QString (conv x) | None => QPresent true end).

(* sort.Slice(out.Headers, name <): insertion sort on the name *)
Fixpoint insert_h (h : hmatcher) (l : list hmatcher) : list hmatcher :=
  match l with
  | [] => [h]
  | x :: l' => if String.leb (hm_name h) (hm_name x) then h :: l else x :: insert_h h l'
  end.
Definition sort_h (l : list hmatcher) : list hmatcher := fold_right insert_h [] l.

Definition opt_header (name : string) (m : option sm) : list hmatcher :=
  match m with None => [] | Some x => [translate_header name x] end.

(* TranslateRouteMatch (VirtualService without ingress / gateway-API semantics) *)
Definition translate_match (m : option hmatch) : route_match :=
  match m with
  | None => {| rm_path := PPrefix "/"; rm_case := true; rm_headers := []; rm_query := []; rm_meta := 0 |}
  | Some m =>
      {| rm_path := match m_uri m with
                    | None => PPrefix "/"
                    | Some (SExact s) => PPath s
                    | Some (SPrefix p) => PPrefix p
                    | Some (SRegex r) => PRegex r
                    end;
         rm_case := negb (m_icase m);
         rm_headers := sort_h (map (fun h => translate_header (fst h) (snd h)) (m_headers m)
                               ++ map (fun h => translate_without (fst h) (snd h)) (m_without m))
                       ++ opt_header ":method" (m_method m)
                       ++ opt_header ":authority" (m_authority m)
                       ++ opt_header ":scheme" (m_scheme m);
         rm_query := map (fun h => translate_query (fst h) (snd h)) (m_query m);
         rm_meta := 0 |}
  end.

(* ApplyRedirect *)
Definition apply_redirect (c : ctx) (r : redirect) : eaction :=
  let port := match r_port r with
              | PortNone => 0%N
              | PortExplicit p => p
              | PortFromRequest => c_port c
              | PortFromProtocol => 0%N
              end in
  let port := match r_port r with
              | PortNone => port
              | _ =>
                  let scheme := if String.eqb (r_scheme r) "" then (if c_tls c then "https" else "http")
                                else r_scheme r in
                  let port := if (N.eqb port 80 && String.eqb scheme "http")%bool then 0%N else port in
                  if (N.eqb port 443 && String.eqb scheme "https")%bool then 0%N else port
              end in
  let pre := negb (String.eqb (r_prefix_rewrite r) "") in
  let path := if pre then r_prefix_rewrite r else r_uri r in
  let mk code := ERedirect (r_authority r) path pre (r_scheme r) port code in
  if (N.eqb (r_code r) 0 || N.eqb (r_code r) 301)%bool then mk 301%N
  else if N.eqb (r_code r) 302 then mk 302%N
  else if N.eqb (r_code r) 303 then mk 303%N
  else if N.eqb (r_code r) 307 then mk 307%N
  else if N.eqb (r_code r) 308 then mk 308%N
  else ENone.

(* applyHTTPRouteDestination: cluster specifier only *)
Definition apply_destination (c : ctx) (ds : list dest) : eaction :=
  match ds with
  | [d] => ECluster (resolve_dest c d)
  | _ => EWeighted (map (fun d => (resolve_dest c d, d_weight d))
                        (filter (fun d => negb (N.eqb (d_weight d) 0)) ds))
  end.

Definition translate_action (c : ctx) (a : raction) : eaction :=
  match a with
  | RRedirect r => apply_redirect c r
  | RDirect st b => EDirect st b
  | RRoute ds => apply_destination c ds
  end.

(* TranslateRoute: nil when the match block is for another port or another source *)
Definition translate_route (c : ctx) (r : rule) (m : option hmatch) : option eroute :=
  match m with
  | Some m' =>
      if (negb (N.eqb (m_port m') 0) && negb (N.eqb (m_port m') (c_port c)))%bool then None
      else if negb (match m_gateways m' with
                    | [] => labels_subset (m_labels m') (c_labels c)
                            && (String.eqb (m_ns m') "" || String.eqb (m_ns m') (c_ns c))
                    | gs => existsb (fun g => mem g (c_gateways c)) gs
                    end) then None
      else Some {| er_match := translate_match m; er_action := translate_action c (rl_action r) |}
  | None => Some {| er_match := translate_match None; er_action := translate_action c (rl_action r) |}
  end.

(* IsCatchAllRoute *)
Definition is_catch_all (r : eroute) : bool :=
  let m := er_match r in
  match rm_path m with
  | PPrefix p => String.eqb p "/"
  | PSepPrefix p => String.eqb p "/"
  | PRegex x => String.eqb x ".*"
  | _ => false
  end
  && match rm_headers m with [] => true | _ => false end
  && match rm_query m with [] => true | _ => false end
  && N.eqb (rm_meta m) 0.

(* the inner loop of BuildHTTPRoutesForVirtualService over one rule's match blocks;
   the boolean says a catch-all route was emitted (stop everything) *)
Fixpoint compile_matches (c : ctx) (r : rule) (ms : list hmatch) : list eroute * bool :=
  match ms with
  | [] => ([], false)
  | m :: ms' =>
      match translate_route c r (Some m) with
      | None => compile_matches c r ms'
      | Some er =>
          if is_catch_all er then ([er], true)
          else let (rs, stop) := compile_matches c r ms' in (er :: rs, stop)
      end
  end.

(* BuildHTTPRoutesForVirtualService (the error for an empty result is the empty list here) *)
Fixpoint compile (c : ctx) (rules : list rule) : list eroute :=
  match rules with
  | [] => []
  | r :: rest =>
      match rl_match r with
      | [] => match translate_route c r None with Some er => [er] | None => [] end
      | ms => let (rs, stop) := compile_matches c r ms in
              if stop then rs else rs ++ compile c rest
      end
  end.

(* SortVHostRoutes *)
Definition sort_vhost_routes (rs : list eroute) : list eroute :=
  filter (fun r => negb (is_catch_all r)) rs ++ filter is_catch_all rs.

(* ------------------------------------------------------------------ httproute.go: virtual-host assembly *)

(* dedupeDomains: drop domains some earlier virtual host already claimed (compared lower-cased)
   and expanded alt-hosts that collide with a known FQDN; returns the kept domains and the
   updated claimed set *)
Fixpoint dedupe_domains (domains : list string) (claimed : list string)
         (expanded known : list string) : list string * list string :=
  match domains with
  | [] => ([], claimed)
  | d :: ds =>
      if mem (lower d) claimed then dedupe_domains ds claimed expanded known
      else if (mem d expanded && mem d known)%bool then dedupe_domains ds claimed expanded known
      else let (kept, cl) := dedupe_domains ds (lower d :: claimed) expanded known in
           (d :: kept, cl)
  end.

(* one candidate virtual host handed to buildVirtualHost: name, generated domains,
   expanded alt hosts, routes *)
Record vh_in := { vi_name : string; vi_domains : list string; vi_alt : list string;
                  vi_routes : list eroute }.

(* the loop over virtualHostWrappers calling buildVirtualHost: duplicate names are dropped,
   domains are deduplicated first-come-first-served, empty virtual hosts are dropped *)
Fixpoint assemble (ins : list vh_in) (names claimed known : list string) : list vhost :=
  match ins with
  | [] => []
  | i :: rest =>
      if mem (vi_name i) names then assemble rest names claimed known
      else let (kept, cl) := dedupe_domains (vi_domains i) claimed (vi_alt i) known in
           match kept with
           | [] => assemble rest (vi_name i :: names) cl known
           | _ => {| vh_name := vi_name i; vh_domains := kept; vh_routes := vi_routes i |}
                  :: assemble rest (vi_name i :: names) cl known
           end
  end.

(* ------------------------------------------------------------------ mesh-level specification *)

(* What the mesh configuration says about a request a sidecar originates on listener port
   [c_port c] (VirtualServices oldest first, every one of them with rules for mesh sidecars).

   An authority that denotes a registry service of this port (alternative Kubernetes names are
   resolved for the proxy's OWN namespace) is governed by the VirtualService that names the
   service most specifically: an exact host beats every wildcard, a longer wildcard beats a
   shorter one, the oldest wins a tie; without one the service gets its default route.

   Any other authority is an opaque name: VirtualService hosts that match no registry service of
   this port (exact, or wildcard) are honoured literally - on port 80, or when the VirtualService
   also governs a registry service of this port (route.go buildSidecarVirtualHostsForVirtualService);
   the most specific such host wins.  Otherwise [fallback] (PassthroughCluster or 502, by
   outboundTrafficPolicy, on a port route; nothing when only the virtual hosts are looked at). *)
(* which host an authority denotes for a proxy in namespace [ns] of a cluster.local Kubernetes
   mesh: a trailing dot and the port are dropped; "name" is name.<ns>.svc.cluster.local (the
   proxy's OWN namespace), "name.ns2" and "name.ns2.svc" are completed; anything else is itself *)
Fixpoint dots (s : string) : nat :=
  match s with
  | EmptyString => O
  | String c s' => if Ascii.eqb c "." then S (dots s') else dots s'
  end.

Definition strip_dot (s : string) : string :=
  match srev s with String "." r => srev r | _ => s end.

Definition denotes (ns h : string) : string :=
  let h := strip_dot (strip_port h) in
  if suffix ".svc.cluster.local" h then h
  else if suffix ".svc" h then h ++ ".cluster.local"
  else match dots h with
       | O => h ++ "." ++ ns ++ ".svc.cluster.local"
       | S O => h ++ ".svc.cluster.local"
       | _ => h
       end.

Definition is_wild (h : string) : bool := match h with String "*" _ => true | _ => false end.
Definition wild_matches (pat h : string) : bool := is_wild pat && suffix (wild_tail pat) h.

Definition vsvc := (list string * list rule)%type.

Definition svc_on (p : N) (s : string * list N) : bool := existsb (N.eqb p) (snd s).
Definition is_svc (svcs : list (string * list N)) (p : N) (h : string) : bool :=
  existsb (fun s => String.eqb (lower (fst s)) h && svc_on p s) svcs.

Definition indexed {A} (l : list A) : list (nat * A) := combine (seq 0 (List.length l)) l.

(* keep the candidate with the strictly larger rank: the first (oldest) wins ties *)
Definition better (best : option (nat * nat)) (i rank : nat) : option (nat * nat) :=
  match best with
  | Some (_, r) => if Nat.ltb r rank then Some (i, rank) else best
  | None => Some (i, rank)
  end.

(* the VirtualService (index) governing registry host [h] *)
Definition owner (vss : list vsvc) (h : string) : option nat :=
  match find (fun iv => mem h (map lower (fst (snd iv)))) (indexed vss) with
  | Some iv => Some (fst iv)
  | None =>
      option_map fst
        (fold_left (fun best iv =>
                      fold_left (fun best pat =>
                                   if wild_matches (lower pat) h
                                   then better best (fst iv) (String.length pat) else best)
                                (fst (snd iv)) best)
                   (indexed vss) None)
  end.

Definition owner_is (vss : list vsvc) (h : string) (i : nat) : bool :=
  match owner vss h with Some j => Nat.eqb i j | None => false end.

(* VirtualService [i] governs some registry service of port [p] *)
Definition has_reg (svcs : list (string * list N)) (p : N) (vss : list vsvc) (i : nat) (v : vsvc) : bool :=
  existsb (fun pat =>
             let lp := lower pat in
             if is_wild lp
             then existsb (fun s => svc_on p s && wild_matches lp (lower (fst s))
                                    && owner_is vss (lower (fst s)) i) svcs
             else is_svc svcs p lp) (fst v).

(* a VirtualService host that matches no registry service of port [p] *)
Definition nonreg_pat (svcs : list (string * list N)) (p : N) (lp : string) : bool :=
  if is_wild lp
  then negb (existsb (fun s => svc_on p s && wild_matches lp (lower (fst s))) svcs)
  else negb (is_svc svcs p lp).

(* how specifically host pattern [lp] names the opaque authority [lit]: 0 = not at all *)
Definition covers (lp lit : string) : nat :=
  if is_wild lp
  then if (wild_matches lp lit && Nat.ltb (String.length (wild_tail lp)) (String.length lit))%bool
       then String.length lp else O
  else if String.eqb lp lit then S (String.length lit) else O.

Definition nonreg_owner (svcs : list (string * list N)) (p : N) (vss : list vsvc) (lit : string) : option nat :=
  option_map fst
    (fold_left (fun best iv =>
                  if (N.eqb p 80 || has_reg svcs p vss (fst iv) (snd iv))%bool
                  then fold_left (fun best pat =>
                                    let lp := lower pat in
                                    if (nonreg_pat svcs p lp && negb (Nat.eqb (covers lp lit) 0))%bool
                                    then better best (fst iv) (covers lp lit) else best)
                                 (fst (snd iv)) best
                  else best)
               (indexed vss) None).

Definition rules_of (vss : list vsvc) (i : nat) : list rule :=
  match nth_error vss i with Some v => snd v | None => [] end.

Definition mesh_sem (c : ctx) (svcs : list (string * list N)) (vss : list vsvc)
           (fallback : option action) (q : request) : option action :=
  let lit := strip_port (lower (q_authority q)) in
  let d := denotes (c_ns c) lit in
  if is_svc svcs (c_port c) d then
    match owner vss d with
    | Some i => vs_sem c (rules_of vss i) q
    | None =>
        match find (fun s => String.eqb (lower (fst s)) d && svc_on (c_port c) s) svcs with
        | Some s => Some (ADist [({| ck_port := c_port c; ck_subset := ""; ck_host := fst s |}, 1%N)])
        | None => None
        end
    end
  else
    match nonreg_owner svcs (c_port c) vss lit with
    | Some i => vs_sem c (rules_of vss i) q
    | None => fallback
    end.

(* ------------------------------------------------------------------ gateway-level specification *)

(* a match block without request conditions (what IsCatchAllRoute recognises): routes of such
   blocks are documented to be tried after every other route of the virtual host *)
Definition is_uncond (m : hmatch) : bool :=
  match m_uri m with
  | None => true
  | Some (SPrefix p) => String.eqb p "/"
  | Some (SRegex r) => String.eqb r ".*"
  | Some (SExact _) => false
  end
  && match m_headers m, m_without m, m_query m with [], [], [] => true | _, _, _ => false end
  && match m_method m, m_authority m, m_scheme m with None, None, None => true | _, _, _ => false end.

(* like [vs_sem], and says whether the block that decided is unconditional *)
Fixpoint first_block (c : ctx) (q : request) (ms : list hmatch) : option bool :=
  match ms with
  | [] => None
  | m :: ms' => if match_holds c q m then Some (is_uncond m) else first_block c q ms'
  end.

Fixpoint vs_sem2 (c : ctx) (rules : list rule) (q : request) : option (action * bool) :=
  match rules with
  | [] => None
  | r :: rest =>
      match rl_match r with
      | [] => Some (action_means c (rl_action r), true)
      | ms => match first_block c q ms with
              | Some u => Some (action_means c (rl_action r), u)
              | None => vs_sem2 c rest q
              end
      end
  end.

(* several rule lists merged on one virtual host: conditional blocks of all of them in order,
   then the unconditional ones *)
Definition merged_sem (rs : list (option (action * bool))) : option action :=
  match find (fun r => match r with Some (_, false) => true | _ => false end) rs with
  | Some (Some (a, _)) => Some a
  | _ => match find (fun r => match r with Some (_, true) => true | _ => false end) rs with
         | Some (Some (a, _)) => Some a
         | _ => None
         end
  end.

Record gw_vs := { gv_hosts : list string; gv_gateways : list string; gv_rules : list rule }.

(* A request received by a gateway workload on the port of [c]: the Gateway whose server lists the
   authority decides the gateway name the match blocks are checked against; the VirtualServices
   bound to that Gateway and naming the authority apply, oldest first. *)
Definition gw_sem (c : ctx) (gws : list (string * list string)) (vss : list gw_vs) (q : request)
  : option action :=
  let h := strip_port (lower (q_authority q)) in
  match find (fun g => mem h (map lower (snd g))) gws with
  | None => None
  | Some g =>
      let c' := {| c_port := c_port c; c_labels := c_labels c; c_ns := c_ns c;
                   c_gateways := [fst g]; c_tls := c_tls c; c_services := c_services c |} in
      merged_sem (map (fun v => vs_sem2 c' (gv_rules v) q)
                      (filter (fun v => mem (fst g) (gv_gateways v) && mem h (map lower (gv_hosts v))) vss))
  end.

End Sem.
