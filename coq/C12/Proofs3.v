(* C12 proofs, part 3: SortVHostRoutes is the identity on the routes of one VirtualService. *)
From Coq Require Import List NArith Bool String Ascii.
From V Require Import lib.Verdict C12.Model.
Import ListNotations.
Open Scope list_scope.

Definition all_nc (l : list eroute) : bool := forallb (fun r => negb (is_catch_all r)) l.

(* a catch-all route occurs, if at all, only in the last position *)
Fixpoint ca_last (rs : list eroute) : bool :=
  match rs with
  | [] => true
  | r :: rest => match rest with [] => true | _ => negb (is_catch_all r) && ca_last rest end
  end.

Lemma sort_fixed rs : ca_last rs = true -> sort_vhost_routes rs = rs.
Proof.
  unfold sort_vhost_routes. induction rs as [|r rest IH]; [reflexivity|].
  destruct rest as [|r' rest].
  - intros _. cbn. destruct (is_catch_all r); reflexivity.
  - intros H. cbn [ca_last] in H. apply andb_prop in H. destruct H as [N L].
    specialize (IH L). cbn [filter] in *. apply negb_true_iff in N. rewrite N. cbn [negb].
    rewrite <- app_comm_cons. f_equal. exact IH.
Qed.

Lemma ca_last_app nc l : all_nc nc = true -> ca_last l = true -> ca_last (nc ++ l) = true.
Proof.
  unfold all_nc. induction nc as [|r nc IH]; intros A L; [exact L|].
  cbn [forallb] in A. apply andb_prop in A. destruct A as [A1 A2].
  specialize (IH A2 L). cbn [app ca_last]. destruct (nc ++ l) eqn:E; [reflexivity|].
  rewrite A1. exact IH.
Qed.

Lemma compile_matches_shape c r ms :
  exists nc, all_nc nc = true /\
    ((snd (compile_matches c r ms) = false /\ fst (compile_matches c r ms) = nc)
     \/ (snd (compile_matches c r ms) = true /\ exists er, fst (compile_matches c r ms) = nc ++ [er])).
Proof.
  induction ms as [|m ms [nc [A H]]]; [exists []; split; [reflexivity|left; split; reflexivity]|].
  cbn [compile_matches]. destruct (translate_route c r (Some m)) as [er|].
  - destruct (is_catch_all er) eqn:CA.
    + exists []. split; [reflexivity|]. right. split; [reflexivity|]. exists er. reflexivity.
    + destruct (compile_matches c r ms) as [rs stop]. cbn [fst snd] in *.
      exists (er :: nc). split; [unfold all_nc in *; cbn; rewrite CA, A; reflexivity|].
      destruct H as [[S E]|[S [er' E]]].
      * left. split; [exact S|rewrite E; reflexivity].
      * right. split; [exact S|]. exists er'. rewrite E. reflexivity.
  - exists nc. split; assumption.
Qed.

Lemma compile_ca_last c rules : ca_last (compile c rules) = true.
Proof.
  induction rules as [|r rules IH]; [reflexivity|].
  cbn [compile]. destruct (rl_match r) as [|m ms].
  - cbn. reflexivity.
  - destruct (compile_matches_shape c r (m :: ms)) as [nc [A H]].
    destruct (compile_matches c r (m :: ms)) as [rs stop]. cbn [fst snd] in *.
    destruct H as [[S E]|[S [er E]]]; subst.
    + apply ca_last_app; assumption.
    + apply ca_last_app; [exact A|reflexivity].
Qed.

(* SortVHostRoutes leaves the routes of one VirtualService untouched *)
Theorem sort_vhost_routes_id c rules : sort_vhost_routes (compile c rules) = compile c rules.
Proof. apply sort_fixed, compile_ca_last. Qed.
