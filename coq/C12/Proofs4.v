(* C12 proofs, part 4: the virtual-host level.
   (a) the model of the sidecar virtual-host assembly (dedupeDomains / buildVirtualHost sequence)
       never puts one domain (compared case-insensitively) into two virtual hosts;
   (b) the reference select_vhost returns a virtual host of maximal specificity. *)
From Coq Require Import List NArith Bool String Ascii Lia.
From V Require Import lib.Verdict C12.Model.
Import ListNotations.
Open Scope list_scope.

Lemma mem_In k l : mem k l = true <-> In k l.
Proof.
  unfold mem. rewrite existsb_exists. split.
  - intros [x [H E]]. apply String.eqb_eq in E. subst. exact H.
  - intros H. exists k. split; [exact H|apply String.eqb_refl].
Qed.

Lemma mem_false k l : mem k l = false -> ~ In k l.
Proof. intros H I. apply mem_In in I. rewrite I in H. discriminate. Qed.

Lemma NoDup_app_intro {A} (a b : list A) :
  NoDup a -> NoDup b -> (forall x, In x a -> ~ In x b) -> NoDup (a ++ b).
Proof.
  induction a as [|x a IH]; intros Na Nb D; [exact Nb|].
  inversion Na as [|? ? Hx Na']; subst. cbn. constructor.
  - intros I. apply in_app_or in I. destruct I as [I|I]; [exact (Hx I)|].
    exact (D x (or_introl eq_refl) I).
  - apply IH; [exact Na'|exact Nb|]. intros y Hy. apply D. right. exact Hy.
Qed.

(* dedupeDomains *)
Lemma dedupe_spec ds : forall claimed exp known kept cl,
  dedupe_domains ds claimed exp known = (kept, cl) ->
  NoDup (map lower kept)
  /\ (forall d, In d kept -> ~ In (lower d) claimed)
  /\ (forall x, In x cl <-> In x claimed \/ In x (map lower kept)).
Proof.
  induction ds as [|d ds IH]; intros claimed exp known kept cl H; cbn [dedupe_domains] in H.
  - inversion H; subst. split; [constructor|]. split; [intros ? []|].
    intros x. cbn. split; [intros I; left; exact I|intros [I|[]]; exact I].
  - destruct (mem (lower d) claimed) eqn:M; [exact (IH _ _ _ _ _ H)|].
    destruct (mem d exp && mem d known)%bool; [exact (IH _ _ _ _ _ H)|].
    destruct (dedupe_domains ds (lower d :: claimed) exp known) as [k c] eqn:E.
    inversion H; subst. destruct (IH _ _ _ _ _ E) as [N1 [N2 N3]].
    split; [|split].
    + cbn [map]. constructor; [|exact N1].
      intros I. apply in_map_iff in I. destruct I as [x [Ex Ix]].
      apply (N2 x Ix). left. symmetry. exact Ex.
    + intros d' [<-|I]; [apply mem_false; exact M|].
      intros J. apply (N2 d' I). right. exact J.
    + intros x. rewrite N3. cbn [map In]. tauto.
Qed.

(* the virtual hosts produced by the assembly loop have pairwise different domains, and none of
   them was claimed before *)
Lemma assemble_disjoint ins known : forall names claimed,
  NoDup (map lower (flat_map vh_domains (assemble ins names claimed known)))
  /\ (forall d, In d (flat_map vh_domains (assemble ins names claimed known)) -> ~ In (lower d) claimed).
Proof.
  induction ins as [|i rest IH]; intros names claimed; cbn [assemble].
  - split; [constructor|intros ? []].
  - destruct (mem (vi_name i) names); [apply IH|].
    destruct (dedupe_domains (vi_domains i) claimed (vi_alt i) known) as [kept cl] eqn:E.
    destruct (dedupe_spec _ _ _ _ _ _ E) as [N1 [N2 N3]].
    destruct (IH (vi_name i :: names) cl) as [R1 R2].
    assert (Sub : forall d, In d (flat_map vh_domains (assemble rest (vi_name i :: names) cl known)) ->
                            ~ In (lower d) claimed).
    { intros d I J. apply (R2 d I). apply N3. left. exact J. }
    destruct kept as [|s kept'].
    + split; assumption.
    + cbn [flat_map vh_domains]. split.
      * rewrite map_app. apply NoDup_app_intro; [exact N1|exact R1|].
        intros x Ix J. apply in_map_iff in J. destruct J as [d [Ed Id]]. subst x.
        apply (R2 d Id). apply N3. right. exact Ix.
      * intros d I. apply in_app_or in I. destruct I as [I|I]; [apply N2; exact I|apply Sub; exact I].
Qed.

Theorem domains_disjoint ins known :
  NoDup (map lower (flat_map vh_domains (assemble ins [] [] known))).
Proof. apply assemble_disjoint. Qed.

(* ------------------------------------------------------------------ select_vhost *)

Lemma select_vhost_max vs host :
  match select_vhost vs host with
  | Some v => In v vs /\ (0 < vhost_rank host v)%N
              /\ forall v', In v' vs -> (vhost_rank host v' <= vhost_rank host v)%N
  | None => forall v', In v' vs -> vhost_rank host v' = 0%N
  end.
Proof.
  induction vs as [|v rest IH]; cbn [select_vhost]; [intros ? []|].
  destruct (select_vhost rest host) as [w|].
  - destruct IH as [Iw [Pw Mw]].
    destruct (N.ltb_spec (vhost_rank host w) (vhost_rank host v)) as [L|L]; cbn [orb].
    + split; [left; reflexivity|]. split; [lia|].
      intros v' [<-|I]; [lia|]. specialize (Mw v' I). lia.
    + destruct (N.eqb_spec (vhost_rank host w) (vhost_rank host v)) as [Eq|Ne]; cbn [andb].
      * destruct (N.eqb_spec (vhost_rank host v) 0) as [Z|NZ]; cbn [negb].
        -- split; [right; exact Iw|]. split; [exact Pw|].
           intros v' [<-|I]; [lia|]. exact (Mw v' I).
        -- split; [left; reflexivity|]. split; [lia|].
           intros v' [<-|I]; [lia|]. specialize (Mw v' I). lia.
      * split; [right; exact Iw|]. split; [exact Pw|].
        intros v' [<-|I]; [lia|]. exact (Mw v' I).
  - destruct (N.eqb_spec (vhost_rank host v) 0) as [Z|NZ].
    + intros v' [<-|I]; [exact Z|exact (IH v' I)].
    + split; [left; reflexivity|]. split; [lia|].
      intros v' [<-|I]; [lia|]. rewrite (IH v' I). lia.
Qed.

(* ---- what the rank means: the class of a domain for a host, then its length *)
Inductive dclass := DExact | DSuffix | DPrefix | DStar | DNone.

Definition classify (host d : string) : dclass :=
  if String.eqb d host then DExact
  else if String.eqb d "*" then DStar
  else if (is_suffix_wild d && suffix (wild_tail d) host
           && Nat.ltb (String.length (wild_tail d)) (String.length host))%bool then DSuffix
  else if (is_prefix_wild d && String.prefix (srev (wild_tail (srev d))) host
           && Nat.ltb (String.length (wild_tail (srev d))) (String.length host))%bool then DPrefix
  else DNone.

Definition level (c : dclass) : nat :=
  match c with DExact => 4 | DSuffix => 3 | DPrefix => 2 | DStar => 1 | DNone => 0 end.

Lemma domain_rank_class host d :
  domain_rank host d =
  match classify host d with
  | DExact => 3000000 + N.of_nat (String.length d)
  | DSuffix => 2000000 + N.of_nat (String.length d)
  | DPrefix => 1000000 + N.of_nat (String.length d)
  | DStar => 1
  | DNone => 0
  end%N.
Proof.
  unfold domain_rank, classify.
  destruct (String.eqb d host); [reflexivity|].
  destruct (String.eqb d "*"); [reflexivity|].
  destruct (is_suffix_wild d && suffix (wild_tail d) host
            && Nat.ltb (String.length (wild_tail d)) (String.length host))%bool; [reflexivity|].
  destruct (is_prefix_wild d && String.prefix (srev (wild_tail (srev d))) host
            && Nat.ltb (String.length (wild_tail (srev d))) (String.length host))%bool; reflexivity.
Qed.

(* d is at least as specific as d' for this host: a better class (exact > suffix wildcard >
   prefix wildcard > "*" > no match), or the same class and at least as long *)
Definition at_least_as_specific (host d d' : string) : Prop :=
  level (classify host d') < level (classify host d)
  \/ (classify host d' = classify host d /\ String.length d' <= String.length d).

Definition short (d : string) : Prop := (N.of_nat (String.length d) < 1000000)%N.

Lemma classify_star host d : classify host d = DStar -> d = "*"%string.
Proof.
  unfold classify. destruct (String.eqb d host); [discriminate|].
  destruct (String.eqb_spec d "*"); [intros _; assumption|].
  destruct (is_suffix_wild d && suffix (wild_tail d) host
            && Nat.ltb (String.length (wild_tail d)) (String.length host))%bool; [discriminate|].
  destruct (is_prefix_wild d && String.prefix (srev (wild_tail (srev d))) host
            && Nat.ltb (String.length (wild_tail (srev d))) (String.length host))%bool; discriminate.
Qed.

Lemma rank_le_specific host d d' :
  short d -> short d' -> classify host d <> DNone ->
  (domain_rank host d' <= domain_rank host d)%N -> at_least_as_specific host d d'.
Proof.
  unfold short, at_least_as_specific. intros S S' NN. rewrite !domain_rank_class.
  destruct (classify host d) eqn:C; destruct (classify host d') eqn:C'; cbn [level]; intros L;
    try congruence; try (left; lia); try (right; split; [reflexivity|lia]); try (exfalso; lia).
  right. split; [reflexivity|]. apply classify_star in C. apply classify_star in C'. subst. apply le_n.
Qed.

Lemma vhost_rank_upper host v d : In d (vh_domains v) -> (domain_rank host d <= vhost_rank host v)%N.
Proof.
  unfold vhost_rank. induction (vh_domains v) as [|x l IH]; [intros []|].
  cbn [map fold_right]. intros [<-|I]; [lia|]. specialize (IH I). lia.
Qed.

Lemma vhost_rank_witness host v :
  (0 < vhost_rank host v)%N -> exists d, In d (vh_domains v) /\ domain_rank host d = vhost_rank host v.
Proof.
  unfold vhost_rank. induction (vh_domains v) as [|x l IH]; cbn [map fold_right]; [lia|].
  intros P. destruct (N.max_spec (domain_rank host x) (fold_right N.max 0%N (map (domain_rank host) l))) as [[L E]|[L E]];
    rewrite E in *.
  - destruct (IH P) as [d [I R]]. exists d. split; [right; exact I|exact R].
  - exists x. split; [left; reflexivity|reflexivity].
Qed.

(* select_vhost returns a virtual host holding a domain that matches the host and is at least as
   specific as every domain of every virtual host; none when no domain matches *)
Theorem vhost_selects_most_specific vs host :
  (forall v d, In v vs -> In d (vh_domains v) -> short d) ->
  match select_vhost vs host with
  | Some v => In v vs /\ exists d, In d (vh_domains v) /\ classify host d <> DNone
              /\ forall v' d', In v' vs -> In d' (vh_domains v') -> at_least_as_specific host d d'
  | None => forall v d, In v vs -> In d (vh_domains v) -> classify host d = DNone
  end.
Proof.
  intros SH. pose proof (select_vhost_max vs host) as M.
  destruct (select_vhost vs host) as [v|].
  - destruct M as [Iv [P Mx]]. split; [exact Iv|].
    destruct (vhost_rank_witness host v P) as [d [Id Rd]]. exists d. split; [exact Id|].
    assert (NN : classify host d <> DNone).
    { intros C. rewrite domain_rank_class, C in Rd. lia. }
    split; [exact NN|]. intros v' d' Iv' Id'.
    apply rank_le_specific; [exact (SH v d Iv Id)|exact (SH v' d' Iv' Id')|exact NN|].
    rewrite Rd. pose proof (vhost_rank_upper host v' d' Id'). specialize (Mx v' Iv'). lia.
  - intros v d Iv Id. specialize (M v Iv). pose proof (vhost_rank_upper host v d Id) as U.
    rewrite M in U. rewrite domain_rank_class in U.
    destruct (classify host d); try reflexivity; lia.
Qed.

(* ---- well-definedness: with disjoint domains a domain identifies its virtual host, so the
   selected domain (the most specific one) belongs to exactly one virtual host *)
Lemma NoDup_app_disjoint {A} (a b : list A) x : NoDup (a ++ b) -> In x a -> In x b -> False.
Proof.
  induction a as [|y a IH]; [intros _ []|].
  cbn. intros N [->|I] J; inversion N as [|? ? Hx N']; subst.
  - apply Hx. apply in_or_app. right. exact J.
  - exact (IH N' I J).
Qed.

Lemma NoDup_app_right {A} (a b : list A) : NoDup (a ++ b) -> NoDup b.
Proof. induction a as [|y a IH]; [auto|]. cbn. intros N. inversion N; subst. auto. Qed.

Lemma NoDup_flat_map_unique {A B} (f : A -> list B) l x a b :
  NoDup (flat_map f l) -> In a l -> In b l -> In x (f a) -> In x (f b) -> a = b.
Proof.
  induction l as [|c l IH]; [intros _ []|].
  cbn [flat_map]. intros N Ia Ib Xa Xb.
  destruct Ia as [<-|Ia], Ib as [<-|Ib].
  - reflexivity.
  - exfalso. apply (NoDup_app_disjoint _ _ x N Xa). apply in_flat_map. exists b. split; assumption.
  - exfalso. apply (NoDup_app_disjoint _ _ x N Xb). apply in_flat_map. exists a. split; assumption.
  - apply IH; try assumption. exact (NoDup_app_right _ _ N).
Qed.

Theorem selected_domain_unique vs d v1 v2 :
  NoDup (flat_map vh_domains vs) -> In v1 vs -> In v2 vs ->
  In d (vh_domains v1) -> In d (vh_domains v2) -> v1 = v2.
Proof. apply NoDup_flat_map_unique. Qed.

(* case-insensitive disjointness (what the assembly guarantees) implies the plain one *)
Lemma NoDup_map_inv' {A B} (f : A -> B) l : NoDup (map f l) -> NoDup l.
Proof.
  induction l as [|x l IH]; [constructor|]. cbn. intros N. inversion N as [|? ? Hx N']; subst.
  constructor; [|exact (IH N')]. intros I. apply Hx. apply in_map. exact I.
Qed.

Theorem assembled_domains_identify_vhost ins known d v1 v2 :
  let vs := assemble ins [] [] known in
  In v1 vs -> In v2 vs -> In d (vh_domains v1) -> In d (vh_domains v2) -> v1 = v2.
Proof.
  cbn zeta. apply selected_domain_unique. apply (NoDup_map_inv' lower). apply domains_disjoint.
Qed.
