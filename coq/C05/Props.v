(* C05 property theorems only. *)
From V Require Import lib.Verdict C05.Model C05.Proofs C05.ProofsSetup C05.ProofsWds C05.ProofsAll.
Open Scope N_scope.

(* A new stream knows nothing (new_stream = no watch for any type).  Every re-sent SotW
   subscription for a type the stream does not know yet is answered - even when it carries the
   nonce of the old stream, i.e. looks like an ACK - and the server records exactly the names sent. *)
Theorem C05_fresh_stream_answers_sotw : forall st r,
  st (r_ty r) = None -> r_err r = None -> should_unsubscribe r = false ->
  should_respond st r = (Resp true [], new_watched_resource st (r_ty r) (r_names r)).
Proof. exact fresh_answers_sotw. Qed.
Print Assumptions C05_fresh_stream_answers_sotw.

(* ... and so is every delta (re)subscription, whatever nonce / initial_resource_versions it has. *)
Theorem C05_fresh_stream_answers_delta : forall st r,
  st (d_ty r) = None -> d_err r = None -> fst (should_respond_delta st r) = Resp true [].
Proof. exact fresh_answers_delta. Qed.
Print Assumptions C05_fresh_stream_answers_delta.

(* C05_resync, delta (Envoy types except ECDS, which never removes): for EVERY retained map M0
   (any names, any versions), every world W, every nonce, every subscription, every state of the
   other types on the new stream: processDeltaRequest answers with a response d of the request's
   type; after applying it the client's map is exactly what the generator outputs for the recorded
   subscription (= what a client that retained nothing gets, C05_fresh_view_delta); and every
   retained name that no longer exists is listed in removed_resources.  Hypotheses: the retained
   names are sent as initial_resource_versions; the request does not unsubscribe a name it claims
   to hold; "*" is not a resource name. *)
Theorem C05_resync_delta : forall W st (r : dreq) (M0 : cmap) n1 n2,
  st (d_ty r) = None -> d_err r = None ->
  requires_names_mod (d_ty r) = false -> never_remove (d_ty r) = false ->
  d_init r = rnames M0 ->
  (forall x, In x (rnames M0) -> ~ In x (d_unsub r) /\ x <> star) ->
  exists d rest st',
    process_delta_request (run_gen GPlain W) st r M0 n1 n2 = (d :: rest, st') /\
    dr_ty d = d_ty r /\
    map_eq (apply_delta M0 d) (gen_forced W (d_ty r) (subscribed_of r)) /\
    (forall x, In x (rnames M0) -> lookup (gen_forced W (d_ty r) (subscribed_of r)) x = None ->
               In x (dr_removed d)).
Proof. exact resync_delta. Qed.
Print Assumptions C05_resync_delta.

Theorem C05_fresh_view_delta : forall W st r n1 n2,
  st (d_ty r) = None -> d_err r = None ->
  requires_names_mod (d_ty r) = false -> never_remove (d_ty r) = false -> d_init r = [] ->
  exists d rest st',
    process_delta_request (run_gen GPlain W) st r [] n1 n2 = (d :: rest, st') /\
    map_eq (apply_delta [] d) (gen_forced W (d_ty r) (subscribed_of r)).
Proof. exact fresh_view_delta. Qed.
Print Assumptions C05_fresh_view_delta.

(* the recorded subscription is what the request asks for: (subscribe + retained) - unsubscribe *)
Theorem C05_subscription_folds_retained : forall r x,
  In x (subscribed_of r) <->
  ((In x (d_sub r) \/ In x (d_init r)) /\ ~ In x (d_unsub r) /\ x <> star).
Proof. exact subscribed_spec. Qed.
Print Assumptions C05_subscription_folds_retained.

(* C05_resync, SotW: the re-sent subscription is answered by exactly one response carrying the
   generator's full output for the names sent; for wildcard (root) types the client's map becomes
   the world, for the others every generated resource is in the client's map with its current
   content, whatever the client retained (removal of the rest is by removal of the parent). *)
Theorem C05_resync_sotw : forall W st (r : req) (M0 : cmap) n,
  st (r_ty r) = None -> r_err r = None -> should_unsubscribe r = false ->
  exists s st',
    process_request (run_gen GPlain W) st r n = ([s], st') /\
    sr_ty s = r_ty r /\ sr_res s = gen_forced W (r_ty r) (norm (r_names r)) /\
    (is_wildcard (r_ty r) = true -> apply_sotw M0 s = W (r_ty r)) /\
    (forall x c, lookup (gen_forced W (r_ty r) (norm (r_names r))) x = Some c ->
                 lookup (apply_sotw M0 s) x = Some c).
Proof. exact resync_sotw. Qed.
Print Assumptions C05_resync_sotw.

(* C05_resync over a whole reconnect: the client re-subscribes any set of distinct types in any
   order, each with an arbitrary retained map, nonce and subscription; every one of them is
   answered by a response of its type (no type stays warming) that resynchronises its map and
   removes every retained name that is gone - by induction over the list of types. *)
Theorem C05_resync_all_types : forall W cs st,
  NoDup (map rc_ty cs) ->
  (forall c, In c cs -> st (rc_ty c) = None /\ rc_ok c) ->
  Forall (rc_synced W) (fst (reconnect_delta (run_gen GPlain W) st cs)).
Proof. exact reconnect_all. Qed.
Print Assumptions C05_resync_all_types.

(* C05_resync, ztunnel (ADDR / WORKLOAD, wildcard subscription, real WorkloadGenerator branch):
   for every retained map reported through initial_resource_versions, the answer re-sends exactly
   the addresses whose version differs (or is empty), lists every retained name that is gone in
   removed_resources, and the client ends with the world - the skipped resources are the ones it
   retains at the current version. *)
Theorem C05_resync_ztunnel : forall W st (r : dreq) (M0 : cmap) n1 n2,
  st (d_ty r) = None -> d_err r = None -> requires_names_mod (d_ty r) = true ->
  snd (fst (delta_watched_resources [] r)) = true ->
  NoDup (rnames (W (d_ty r))) ->
  d_init r = rnames M0 ->
  (forall x, In x (rnames M0) -> ~ In x (d_unsub r) /\ x <> star) ->
  exists d st',
    process_delta_request (wds_gen W) st r M0 n1 n2 = ([d], st') /\ dr_ty d = d_ty r /\
    map_eq (apply_delta M0 d) (W (d_ty r)) /\
    (forall x, In x (rnames M0) -> lookup (W (d_ty r)) x = None -> In x (dr_removed d)).
Proof. exact resync_wds. Qed.
Print Assumptions C05_resync_ztunnel.

(* C05_resync, ztunnel workload Authorization type (AUTHZ = type.googleapis.com/istio.security.Authorization,
   real WorkloadRBACGenerator: removed = w.ResourceNames - existing policies): for every retained set of
   policies reported through initial_resource_versions - the type is NOT generator-managed, so the
   retained names are recorded and handed to the generator as the watched names - the single answer
   carries every current policy and removed_resources contains every retained policy that was deleted
   while ztunnel was away; the client ends with exactly the current policies. *)
Theorem C05_resync_ztunnel_authz : forall W st (r : dreq) (M0 : cmap) n1 n2,
  d_ty r = AUTHZ -> st AUTHZ = None -> d_err r = None ->
  d_init r = rnames M0 ->
  (forall x, In x (rnames M0) -> ~ In x (d_unsub r) /\ x <> star) ->
  exists d st',
    process_delta_request (rbac_gen W) st r M0 n1 n2 = ([d], st') /\
    dr_ty d = AUTHZ /\
    map_eq (apply_delta M0 d) (W AUTHZ) /\
    (forall x, In x (rnames M0) -> lookup (W AUTHZ) x = None -> In x (dr_removed d)).
Proof. exact resync_authz. Qed.
Print Assumptions C05_resync_ztunnel_authz.

(* warming dependency, SotW: a CDS (re)subscription on a stream that already watches EDS arms the
   EDS watch, and the next EDS request on the current (or empty) nonce is answered although it is
   an ACK - nothing stays warming. *)
Theorem C05_cds_forces_eds_sotw : forall st (r r2 : req) w,
  r_ty r = CDS -> st CDS = None -> r_err r = None -> st EDS = Some w ->
  let st' := snd (should_respond st r) in
  exists w', st' EDS = Some w' /\ always_respond w' = true /\ names w' = names w /\
             nonce_sent w' = nonce_sent w /\
  (r_ty r2 = EDS -> r_err r2 = None -> should_unsubscribe r2 = false ->
   r_nonce r2 = 0 \/ r_nonce r2 = nonce_sent w ->
   fst (should_respond st' r2) = Resp true []).
Proof. exact cds_forces_eds_sotw. Qed.
Print Assumptions C05_cds_forces_eds_sotw.

(* warming dependency, delta: an answered CDS request on a stream that watches EDS is followed by
   an EDS response in the same processDeltaRequest (forceEDSPush). *)
Theorem C05_cds_forces_eds_delta : forall W st (r : dreq) w vers n1 n2,
  d_ty r = CDS -> st CDS = None -> d_err r = None -> st EDS = Some w ->
  exists d1 d2 st',
    process_delta_request (run_gen GPlain W) st r vers n1 n2 = ([d1; d2], st') /\
    dr_ty d1 = CDS /\ dr_ty d2 = EDS /\ dr_res d2 = gen_forced W EDS (names w).
Proof. exact cds_forces_eds_delta. Qed.
Print Assumptions C05_cds_forces_eds_delta.

(* C05_registered_before_init: for EVERY interleaving of the three setup steps of initConnection
   (LastPushContext set, addCon, initializeProxy) with any number of global pushes (commit of a new
   context, then enumeration of the registered clients), every context committed after addCon is in
   the connection's queue as soon as its Push has enumerated the clients. *)
Theorem C05_registered_before_init : forall g ls v,
  let s := yrun (sys0 g) ls in
  In v (y_post s) -> In v (y_queue s) \/ y_pending s = Some v.
Proof. exact registered_before_init. Qed.
Print Assumptions C05_registered_before_init.

(* "No snapshot is missed" at full strength - whenever no Push is mid-way, the newest context the
   connection holds or has queued is the global one - is FALSE of the code's step order: a Push
   that commits after LastPushContext was read and enumerates the clients before addCon is lost
   for this connection until the next push (finding C05-push-between-lpc-and-addcon). *)
Theorem C05_no_snapshot_missed_refuted :
  exists g ls, let s := yrun (sys0 g) ls in
    y_pc s = 3%nat /\ y_pending s = None /\ effective s <> y_global s.
Proof. exact no_snapshot_missed_refuted. Qed.
Print Assumptions C05_no_snapshot_missed_refuted.

(* ... and true for every interleaving in which no such Push falls into that window. *)
Theorem C05_no_snapshot_missed_partial : forall g ls,
  let s := yrun (sys0 g) ls in
  y_missed s = false -> (1 <= y_pc s)%nat -> y_pending s = None -> effective s = y_global s.
Proof. exact no_snapshot_missed_partial. Qed.
Print Assumptions C05_no_snapshot_missed_partial.

(* corollary: once the Stream loop has HANDLED the queued push (pushConnection / pushConnectionDelta
   -> computeProxyState, with or without watches), proxy.LastPushContext - the context every later
   subscription is answered from - is the newest committed context, and nothing is left queued;
   for every interleaving without a Push in the window of the finding above. *)
Theorem C05_handled_push_is_served : forall g ls,
  let s := yrun (sys0 g) ls in
  y_missed s = false -> y_pc s = 3%nat -> y_pending s = None ->
  y_lpc (handle s) = y_global s /\ y_queue (handle s) = [].
Proof. exact handled_push_is_served. Qed.
Print Assumptions C05_handled_push_is_served.

(* non-vacuity: a reconnect that presents a stale nonce and three retained clusters, one unchanged,
   one changed, one deleted *)
Example C05_resync_example :
  let W := fun t => match t with CDS => [(1, 2); (2, 1); (5, 1)] | _ => [] end in
  let M0 := [(1, 1); (2, 1); (3, 1)] in
  match process_delta_request (run_gen GPlain W) new_stream (mk_dreq CDS [] [] M0 7 None) M0 100 101 with
  | (d :: _, _) => dr_removed d = [3] /\ map_eqb (apply_delta M0 d) (W CDS) = true
  | _ => False
  end.
Proof. vm_compute. split; reflexivity. Qed.

Example C05_ztunnel_example :
  let W := fun t => match t with ADDR => [(1, 1); (2, 2)] | _ => [] end in
  let M0 := [(1, 1); (2, 1); (3, 1)] in
  match process_delta_request (wds_gen W) new_stream (mk_dreq ADDR [0] [] M0 7 None) M0 100 101 with
  | ([d], _) => dr_res d = [(2, 2)] /\ dr_removed d = [3] /\ map_eqb (apply_delta M0 d) (W ADDR) = true
  | _ => False
  end.
Proof. vm_compute. repeat split; reflexivity. Qed.

Example C05_authz_example :
  let W := fun t => if ty_eqb t AUTHZ then [(1, 0); (3, 0)] else [] in
  let M0 := [(1, 0); (2, 0); (4, 0)] in
  match process_delta_request (rbac_gen W) new_stream (mk_dreq AUTHZ [0] [] M0 7 None) M0 100 101 with
  | ([d], _) => dr_removed d = [2; 4] /\ map_eqb (apply_delta M0 d) (W AUTHZ) = true
  | _ => False
  end.
Proof. vm_compute. split; reflexivity. Qed.

Example C05_missed_is_reachable_and_avoidable :
  y_missed (yrun (sys0 5) [LConn; LCommit; LSnap; LConn; LConn]) = true /\
  y_missed (yrun (sys0 5) [LConn; LConn; LCommit; LSnap; LConn]) = false.
Proof. vm_compute. split; reflexivity. Qed.
