(* C05 proofs, part 1: a new stream answers every re-sent subscription and resynchronises the client. *)
From V Require Import C05.Model C04.Proofs C04.ProofsDelta.
From Coq Require Import List NArith Bool Lia.
Import ListNotations.
Open Scope N_scope.

(* ------------------------------------------------------------------ maps *)

Lemma lookup_app a b x :
  lookup (a ++ b) x = match lookup a x with Some c => Some c | None => lookup b x end.
Proof.
  induction a as [|[n c] a IH]; cbn [app lookup]; [reflexivity|].
  destruct (x =? n); [reflexivity|exact IH].
Qed.

Lemma lookup_none l x : lookup l x = None <-> ~ In x (rnames l).
Proof.
  induction l as [|[n c] l IH]; cbn [lookup rnames map In fst].
  - tauto.
  - destruct (x =? n) eqn:E.
    + apply N.eqb_eq in E. subst. split; [discriminate|intros H; exfalso; apply H; auto].
    + apply N.eqb_neq in E. rewrite IH. unfold rnames. split; [intros H [H1|H1]; [congruence|auto]|intros H H1; apply H; auto].
Qed.

Lemma lookup_some_in l x c : lookup l x = Some c -> In x (rnames l).
Proof.
  intros H. destruct (in_dec N.eq_dec x (rnames l)) as [Hi|Hn]; [exact Hi|].
  apply lookup_none in Hn. congruence.
Qed.

Lemma lookup_filter_out (p : res -> bool) l x :
  (forall c, p (x, c) = false) -> lookup (filter p l) x = None.
Proof.
  intros Hp. induction l as [|[n c] l IH]; cbn [filter lookup]; [reflexivity|].
  destruct (p (n, c)) eqn:E; [|exact IH].
  cbn [lookup]. destruct (x =? n) eqn:En; [|exact IH].
  apply N.eqb_eq in En. subst. rewrite Hp in E. discriminate.
Qed.

Lemma lookup_filter_keep (p : res -> bool) l x :
  (forall c, p (x, c) = true) -> lookup (filter p l) x = lookup l x.
Proof.
  intros Hp. induction l as [|[n c] l IH]; cbn [filter lookup]; [reflexivity|].
  destruct (p (n, c)) eqn:E.
  - cbn [lookup]. destruct (x =? n); [reflexivity|exact IH].
  - destruct (x =? n) eqn:En; [|exact IH].
    apply N.eqb_eq in En. subst. rewrite Hp in E. discriminate.
Qed.

Lemma rnames_gen_forced_sub W t Q x :
  is_wildcard t = false -> In x (rnames (gen_forced W t Q)) -> In x Q.
Proof.
  intros Hw. unfold gen_forced, rnames. rewrite Hw, in_map_iff.
  intros [[n c] [<- Hin]]. apply filter_In in Hin. destruct Hin as [_ Hm]. apply mem_In in Hm. exact Hm.
Qed.

(* the delta client ends with exactly the response's resources when the response removes every
   retained name it does not carry *)
Lemma apply_delta_resync (M0 : cmap) t rs Q n :
  (forall x, In x (rnames M0) -> In x Q) ->
  map_eq (apply_delta M0 (mkDResp t rs (diff Q (rnames rs)) n)) rs.
Proof.
  intros Hsub x. unfold apply_delta, remove_names. cbn [dr_res dr_removed].
  rewrite lookup_app. destruct (lookup rs x) eqn:E; [reflexivity|].
  apply lookup_none in E.
  destruct (in_dec N.eq_dec x (rnames M0)) as [Hi|Hn].
  - apply lookup_filter_out. intros c. cbn [fst].
    assert (Hm : mem x (diff Q (rnames rs)) = true) by (apply mem_In, In_diff; split; auto).
    rewrite Hm. reflexivity.
  - apply lookup_none. intros H. apply Hn. unfold rnames in *. apply in_map_iff in H.
    destruct H as [r [<- Hr]]. apply filter_In in Hr. apply in_map. tauto.
Qed.

(* ------------------------------------------------------------------ a new stream answers *)

Lemma fresh_answers_sotw st r :
  st (r_ty r) = None -> r_err r = None -> should_unsubscribe r = false ->
  should_respond st r = (Resp true [], new_watched_resource st (r_ty r) (r_names r)).
Proof. intros Hs He Hu. apply reconnect_responds; assumption. Qed.

Lemma fresh_answers_delta st r :
  st (d_ty r) = None -> d_err r = None ->
  fst (should_respond_delta st r) = Resp true [].
Proof. intros Hs He. apply (delta_first_responds st r He Hs). Qed.

Lemma srd_fresh st r :
  st (d_ty r) = None -> d_err r = None -> requires_names_mod (d_ty r) = false ->
  should_respond_delta st r =
  (Resp true [], upd st (d_ty r)
     (Some (mkWr (fst (fst (delta_watched_resources [] r))) (snd (fst (delta_watched_resources [] r))) 0 0 false 0))).
Proof.
  intros Hs He Hm. unfold should_respond_delta. rewrite He, Hs, Hm.
  destruct (delta_watched_resources [] r) as [[res wc] ch]. reflexivity.
Qed.

(* ------------------------------------------------------------------ delta resynchronisation *)

Definition subscribed_of (r : dreq) : list N := fst (fst (delta_watched_resources [] r)).

Lemma subscribed_spec r x :
  In x (subscribed_of r) <->
  ((In x (d_sub r) \/ In x (d_init r)) /\ ~ In x (d_unsub r) /\ x <> star).
Proof.
  unfold subscribed_of.
  destruct (delta_watched_resources [] r) as [[res wc] ch] eqn:E. cbn [fst].
  rewrite (dwr_names_spec [] r res wc ch E x). cbn [In]. tauto.
Qed.

(* the push that answers the first request of a type on a new stream, with a generator that
   returns the forced output and no deletions of its own *)
Lemma push_delta_fresh W st t Q wc dunsub n :
  requires_names_mod t = false -> never_remove t = false ->
  st t = Some (mkWr Q wc 0 0 false 0) ->
  exists st',
    push_delta_xds (run_gen GPlain W) st t Q dunsub [] n =
    (Some (mkDResp t (gen_forced W t Q) (diff Q (rnames (gen_forced W t Q))) n), st') /\
    (forall t', t' <> t -> st' t' = st t').
Proof.
  intros Hm Hr Hs. unfold push_delta_xds. rewrite Hs, Hm, Hr. cbn [names wildcard negb andb].
  rewrite andb_true_r.
  assert (Hwn : (if negb (is_nil Q && is_nil dunsub) then Q else Q) = Q) by (destruct (negb _); reflexivity).
  rewrite Hwn. cbn [run_gen g_res g_del g_used g_incr negb].
  eexists. split; [reflexivity|].
  intros t' Hne. unfold send_delta. cbn [andb negb].
  destruct (is_debug t); cbn [negb]; [reflexivity|].
  rewrite upd_other by congruence. reflexivity.
Qed.

Theorem resync_delta W st (r : dreq) (M0 : cmap) n1 n2 :
  let t := d_ty r in
  st t = None -> d_err r = None ->
  requires_names_mod t = false -> never_remove t = false ->
  d_init r = rnames M0 ->
  (forall x, In x (rnames M0) -> ~ In x (d_unsub r) /\ x <> star) ->
  exists d rest st',
    process_delta_request (run_gen GPlain W) st r M0 n1 n2 = (d :: rest, st') /\
    dr_ty d = t /\
    map_eq (apply_delta M0 d) (gen_forced W t (subscribed_of r)) /\
    (forall x, In x (rnames M0) -> lookup (gen_forced W t (subscribed_of r)) x = None -> In x (dr_removed d)).
Proof.
  intros t Hs He Hm Hr Hi Hcons. unfold process_delta_request.
  rewrite (srd_fresh st r Hs He Hm). fold t. fold (subscribed_of r).
  set (Q := subscribed_of r).
  set (st1 := upd st t _).
  assert (Hst1 : st1 t = Some (mkWr Q (snd (fst (delta_watched_resources [] r))) 0 0 false 0))
    by (unfold st1; rewrite upd_same; reflexivity).
  destruct (push_delta_fresh W st1 t Q _ (del star (norm (d_unsub r))) n1 Hm Hr Hst1) as [st2 [Hp _]].
  rewrite Hm. rewrite Hp.
  assert (HM0 : forall x, In x (rnames M0) -> In x Q).
  { intros x Hx. apply subscribed_spec. destruct (Hcons x Hx) as [H1 H2]. rewrite Hi. tauto. }
  set (d := mkDResp t (gen_forced W t Q) (diff Q (rnames (gen_forced W t Q))) n1).
  assert (Hmap : map_eq (apply_delta M0 d) (gen_forced W t Q)) by (apply apply_delta_resync; exact HM0).
  assert (Hrem : forall x, In x (rnames M0) -> lookup (gen_forced W t Q) x = None -> In x (dr_removed d)).
  { intros x Hx Hl. cbn [d dr_removed]. apply In_diff. split; [auto|]. apply lookup_none. exact Hl. }
  destruct (ty_eqb t CDS).
  - destruct (force_eds_push (run_gen GPlain W) st2 n2) as [o2 st3].
    exists d, (olist o2), st3. cbn [olist app]. repeat split; auto.
  - exists d, [], st2. cbn [olist]. repeat split; auto.
Qed.

(* a fresh client (nothing retained) with the same subscription gets the same map *)
Corollary fresh_view_delta W st r n1 n2 :
  let t := d_ty r in
  st t = None -> d_err r = None -> requires_names_mod t = false -> never_remove t = false ->
  d_init r = [] ->
  exists d rest st',
    process_delta_request (run_gen GPlain W) st r [] n1 n2 = (d :: rest, st') /\
    map_eq (apply_delta [] d) (gen_forced W t (subscribed_of r)).
Proof.
  intros t Hs He Hm Hr Hi.
  destruct (resync_delta W st r [] n1 n2 Hs He Hm Hr Hi) as [d [rest [st' [H1 [_ [H2 _]]]]]].
  - intros x [].
  - exists d, rest, st'. split; assumption.
Qed.

(* ------------------------------------------------------------------ SotW resynchronisation *)

Theorem resync_sotw W st (r : req) (M0 : cmap) n :
  let t := r_ty r in
  st t = None -> r_err r = None -> should_unsubscribe r = false ->
  exists s st',
    process_request (run_gen GPlain W) st r n = ([s], st') /\
    sr_ty s = t /\ sr_res s = gen_forced W t (norm (r_names r)) /\
    (is_wildcard t = true -> apply_sotw M0 s = W t) /\
    (forall x c, lookup (gen_forced W t (norm (r_names r))) x = Some c -> lookup (apply_sotw M0 s) x = Some c).
Proof.
  intros t Hs He Hu. unfold process_request.
  rewrite (fresh_answers_sotw st r Hs He Hu). fold t.
  destruct (new_watched_has_names st t (r_names r)) as [w [Hw [Hn _]]].
  unfold push_xds. rewrite Hw. cbn [is_nil negb]. rewrite Hn. cbn [run_gen g_res olist].
  eexists. eexists. split; [reflexivity|]. cbn [sr_ty sr_res].
  repeat split.
  - intros Hwc. unfold apply_sotw. cbn [sr_ty sr_res]. rewrite Hwc. unfold gen_forced. rewrite Hwc. reflexivity.
  - intros x c Hl. unfold apply_sotw. cbn [sr_ty sr_res].
    destruct (is_wildcard t); [exact Hl|]. rewrite lookup_app, Hl. reflexivity.
Qed.

(* ------------------------------------------------------------------ warming: CDS forces EDS *)

Theorem cds_forces_eds_sotw st (r r2 : req) w :
  r_ty r = CDS -> st CDS = None -> r_err r = None -> st EDS = Some w ->
  let st' := snd (should_respond st r) in
  exists w', st' EDS = Some w' /\ always_respond w' = true /\ names w' = names w /\
             nonce_sent w' = nonce_sent w /\
  (r_ty r2 = EDS -> r_err r2 = None -> should_unsubscribe r2 = false ->
   r_nonce r2 = 0 \/ r_nonce r2 = nonce_sent w ->
   fst (should_respond st' r2) = Resp true []).
Proof.
  intros Ht Hs He Hw st'.
  assert (Hu : should_unsubscribe r = false) by (unfold should_unsubscribe; rewrite Ht; cbn; apply andb_false_r).
  assert (Hst : st' = new_watched_resource st CDS (r_names r)).
  { unfold st'. rewrite fresh_answers_sotw; [rewrite Ht; reflexivity|rewrite Ht; exact Hs|exact He|exact Hu]. }
  assert (HE : st' EDS = Some (set_always w true)).
  { rewrite Hst. unfold new_watched_resource. cbn [warming_deps fold_left]. unfold mark_always.
    rewrite upd_other by discriminate. rewrite Hw. rewrite upd_same. reflexivity. }
  exists (set_always w true). repeat split; auto.
  intros Ht2 He2 Hu2 Hn. unfold should_respond. rewrite He2, Hu2, Ht2, HE.
  destruct (r_nonce r2 =? 0) eqn:E0; [reflexivity|].
  destruct Hn as [Hn|Hn]; [rewrite Hn in E0; discriminate|].
  cbn [set_always nonce_sent always_respond names wildcard].
  rewrite Hn, N.eqb_refl. reflexivity.
Qed.

(* ------------------------------------------------------------------ warming, delta *)

Theorem cds_forces_eds_delta W st (r : dreq) w vers n1 n2 :
  d_ty r = CDS -> st CDS = None -> d_err r = None -> st EDS = Some w ->
  exists d1 d2 st',
    process_delta_request (run_gen GPlain W) st r vers n1 n2 = ([d1; d2], st') /\
    dr_ty d1 = CDS /\ dr_ty d2 = EDS /\ dr_res d2 = gen_forced W EDS (names w).
Proof.
  intros Ht Hs He Hw. unfold process_delta_request.
  assert (Hm : requires_names_mod (d_ty r) = false) by (rewrite Ht; reflexivity).
  rewrite (srd_fresh st r); [|rewrite Ht; exact Hs|exact He|exact Hm].
  rewrite Ht. fold (subscribed_of r). set (Q := subscribed_of r).
  set (st1 := upd st CDS _).
  assert (Hst1 : st1 CDS = Some (mkWr Q (snd (fst (delta_watched_resources [] r))) 0 0 false 0))
    by (unfold st1; rewrite upd_same; reflexivity).
  destruct (push_delta_fresh W st1 CDS Q _ (del star (norm (d_unsub r))) n1 eq_refl eq_refl Hst1) as [st2 [Hp Ho]].
  cbn [requires_names_mod]. rewrite Hp. cbn [ty_eqb].
  assert (HE : st2 EDS = Some w).
  { rewrite Ho by discriminate. unfold st1. rewrite upd_other by discriminate. exact Hw. }
  unfold force_eds_push. rewrite HE. unfold push_delta_xds. rewrite HE.
  cbn [is_nil andb negb requires_names_mod run_gen g_res g_del g_used g_incr should_set_watched is_wildcard never_remove].
  eexists. eexists. eexists. split; [reflexivity|]. cbn [dr_ty dr_res]. repeat split.
Qed.

(* ------------------------------------------------------------------ ztunnel workload Authorization *)

Lemma push_delta_fresh_rbac W st t Q wc dunsub n :
  requires_names_mod t = false -> never_remove t = false ->
  st t = Some (mkWr Q wc 0 0 false 0) ->
  exists st',
    push_delta_xds (rbac_gen W) st t Q dunsub [] n =
    (Some (mkDResp t (W t) (diff Q (rnames (W t))) n), st').
Proof.
  intros Hm Hr Hs. unfold push_delta_xds. rewrite Hs, Hm, Hr. cbn [names wildcard negb andb].
  rewrite andb_true_r.
  assert (Hwn : (if negb (is_nil Q && is_nil dunsub) then Q else Q) = Q) by (destruct (negb _); reflexivity).
  rewrite Hwn. cbn [rbac_gen g_res g_del g_used g_incr negb].
  eexists. reflexivity.
Qed.

(* a delta-native generator that reports removed = w.ResourceNames - existing (the real
   WorkloadRBACGenerator on a Forced request), on a type that is NOT generator-managed: the
   retained names reach the generator through Delta.Subscribed *)
Theorem resync_delta_rbac W st (r : dreq) (M0 : cmap) n1 n2 :
  let t := d_ty r in
  st t = None -> d_err r = None ->
  requires_names_mod t = false -> never_remove t = false -> ty_eqb t CDS = false ->
  d_init r = rnames M0 ->
  (forall x, In x (rnames M0) -> ~ In x (d_unsub r) /\ x <> star) ->
  exists d st',
    process_delta_request (rbac_gen W) st r M0 n1 n2 = ([d], st') /\
    dr_ty d = t /\
    map_eq (apply_delta M0 d) (W t) /\
    (forall x, In x (rnames M0) -> lookup (W t) x = None -> In x (dr_removed d)).
Proof.
  intros t Hs He Hm Hr Hc Hi Hcons. unfold process_delta_request.
  rewrite (srd_fresh st r Hs He Hm). fold t. fold (subscribed_of r).
  set (Q := subscribed_of r).
  set (st1 := upd st t _).
  assert (Hst1 : st1 t = Some (mkWr Q (snd (fst (delta_watched_resources [] r))) 0 0 false 0))
    by (unfold st1; rewrite upd_same; reflexivity).
  destruct (push_delta_fresh_rbac W st1 t Q _ (del star (norm (d_unsub r))) n1 Hm Hr Hst1) as [st2 Hp].
  rewrite Hm. rewrite Hp. rewrite Hc. cbn [olist].
  assert (HM0 : forall x, In x (rnames M0) -> In x Q).
  { intros x Hx. apply subscribed_spec. destruct (Hcons x Hx) as [H1 H2]. rewrite Hi. tauto. }
  eexists. eexists. split; [reflexivity|]. cbn [dr_ty dr_removed]. repeat split.
  - apply apply_delta_resync. exact HM0.
  - intros x Hx Hl. apply In_diff. split; [auto|]. apply lookup_none. exact Hl.
Qed.

Corollary resync_authz W st (r : dreq) (M0 : cmap) n1 n2 :
  d_ty r = AUTHZ -> st AUTHZ = None -> d_err r = None ->
  d_init r = rnames M0 ->
  (forall x, In x (rnames M0) -> ~ In x (d_unsub r) /\ x <> star) ->
  exists d st',
    process_delta_request (rbac_gen W) st r M0 n1 n2 = ([d], st') /\
    dr_ty d = AUTHZ /\
    map_eq (apply_delta M0 d) (W AUTHZ) /\
    (forall x, In x (rnames M0) -> lookup (W AUTHZ) x = None -> In x (dr_removed d)).
Proof.
  intros Ht Hs He Hi Hc.
  pose proof (resync_delta_rbac W st r M0 n1 n2) as H. cbv zeta in H. rewrite Ht in H.
  apply H; auto.
Qed.
