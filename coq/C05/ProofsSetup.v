(* C05 proofs, part 2: connection setup against concurrent global pushes (every interleaving). *)
From V Require Import C05.Model.
From Coq Require Import List NArith Bool Lia.
Import ListNotations.
Open Scope N_scope.

(* every version committed after AddCon is in the connection's queue once its Push has
   enumerated the clients *)
Definition post_inv (s : sys) : Prop :=
  forall v, In v (y_post s) -> In v (y_queue s) \/ y_pending s = Some v.

Lemma post_inv_step s l : post_inv s -> (y_post s <> [] -> registered s = true) ->
  post_inv (ystep s l) /\ (y_post (ystep s l) <> [] -> registered (ystep s l) = true).
Proof.
  intros Hi Hr. destruct l; unfold ystep.
  - destruct (y_pc s) as [|[|[|k]]] eqn:Epc; (split; [intros v Hv; apply (Hi v Hv)|]); cbn; auto;
      intros H; try reflexivity; unfold registered in Hr; rewrite Epc in Hr; apply Hr in H; cbn in H; try discriminate; auto.
  - destruct (y_pending s) as [p|] eqn:Ep; [split; assumption|].
    destruct (registered s) eqn:Er; split.
    + intros v [<-|Hv]; cbn; [right; reflexivity|].
      destruct (Hi v Hv) as [H|H]; [left; exact H|rewrite Ep in H; discriminate].
    + intros _. unfold registered in *. cbn. exact Er.
    + intros v Hv. cbn in Hv |- *. destruct (Hi v Hv) as [H|H]; [left; exact H|rewrite Ep in H; discriminate].
    + cbn. intros H. apply Hr in H. congruence.
  - destruct (y_pending s) as [p|] eqn:Ep; [|split; assumption].
    split.
    + intros v Hv. cbn [y_post y_queue y_pending y_pc y_global y_lpc y_missed] in Hv |- *. left.
      assert (Hreg : registered s = true) by (apply Hr; intros E; rewrite E in Hv; destruct Hv).
      rewrite Hreg. apply in_or_app.
      destruct (Hi v Hv) as [H|H]; [left; exact H|right; rewrite Ep in H; injection H as ->; left; reflexivity].
    + cbn. intros H. unfold registered in *. cbn. apply Hr. exact H.
Qed.

Lemma post_inv_run ls : forall s, post_inv s -> (y_post s <> [] -> registered s = true) ->
  post_inv (yrun s ls).
Proof.
  induction ls as [|l ls IH]; intros s Hi Hr; cbn; [exact Hi|].
  destruct (post_inv_step s l Hi Hr) as [H1 H2]. apply IH; assumption.
Qed.

Theorem registered_before_init g ls v :
  let s := yrun (sys0 g) ls in
  In v (y_post s) -> In v (y_queue s) \/ y_pending s = Some v.
Proof.
  intros s. apply (post_inv_run ls (sys0 g)).
  - intros x [].
  - intros H. exfalso. apply H. reflexivity.
Qed.

(* nothing is enqueued for a connection that is not registered, and the proxy is never
   initialised before it is registered *)
Lemma queue_needs_reg_step s l :
  (registered s = false -> y_queue s = []) -> (registered (ystep s l) = false -> y_queue (ystep s l) = []).
Proof.
  intros H. destruct l; unfold ystep.
  - destruct (y_pc s) as [|[|[|k]]] eqn:E; unfold registered in *; rewrite ?E in *; cbn in *; auto; discriminate.
  - destruct (y_pending s); [exact H|]. unfold registered in *. cbn. exact H.
  - destruct (y_pending s); [|exact H]. unfold registered in *. cbn. intros Hr. rewrite Hr. auto.
Qed.

(* ---- the snapshot that falls between SetLPC and AddCon *)

Definition eff_inv (s : sys) : Prop :=
  (forall v, y_pending s = Some v -> v = y_global s) /\
  (registered s = false -> y_queue s = []) /\
  (y_missed s = false -> (1 <= y_pc s)%nat -> y_pending s = None -> effective s = y_global s).

Lemma last_app_single (l : list N) (v d : N) : last (l ++ [v]) d = v.
Proof. induction l as [|a [|b l] IH]; cbn in *; auto. Qed.

Lemma eff_inv_step s l : eff_inv s -> eff_inv (ystep s l).
Proof.
  intros [Hp [Hq He]]. split; [|split].
  - destruct l; unfold ystep.
    + destruct (y_pc s) as [|[|[|k]]]; cbn; auto.
    + case_eq (y_pending s); [intros p E; exact Hp|intros E].
      cbn. intros v H. injection H as <-. reflexivity.
    + case_eq (y_pending s); [intros p E|intros E; exact Hp]. cbn. discriminate.
  - apply queue_needs_reg_step. exact Hq.
  - destruct l; unfold ystep.
    + destruct (y_pc s) as [|[|[|k]]] eqn:E; cbn [y_missed y_pc y_pending]; intros Hm Hpc Hpe.
      * unfold effective. cbn [y_queue y_lpc y_global]. rewrite Hq; [reflexivity|unfold registered; rewrite E; reflexivity].
      * unfold effective in *. cbn [y_queue y_lpc y_global]. apply He; auto; lia.
      * unfold effective in *. cbn [y_queue y_lpc y_global]. apply He; auto; lia.
      * apply He; auto; lia.
    + case_eq (y_pending s); [intros p E; exact He|intros E]. cbn [y_pending]. discriminate.
    + case_eq (y_pending s); [intros v E|intros E; exact He].
      cbn [y_missed y_pc y_pending]. intros Hm Hpc _.
      apply orb_false_iff in Hm. destruct Hm as [Hm1 Hm2].
      unfold effective. cbn [y_queue y_lpc y_global]. rewrite <- (Hp v E).
      destruct (registered s) eqn:Er.
      * apply last_app_single.
      * rewrite (Hq eq_refl). cbn [last].
        unfold registered in Er. destruct (y_pc s) as [|[|k]] eqn:Epc; cbn in Er; try discriminate; [lia|].
        cbn in Hm2. apply negb_false_iff, N.eqb_eq in Hm2. symmetry. exact Hm2.
Qed.

Lemma eff_inv_run ls : forall s, eff_inv s -> eff_inv (yrun s ls).
Proof. induction ls as [|l ls IH]; intros s H; cbn; [exact H|]. apply IH, eff_inv_step, H. Qed.

Lemma eff_inv0 g : eff_inv (sys0 g).
Proof. split; [|split]; cbn; try discriminate; auto. intros _ H. lia. Qed.

(* unless a Push committed after SetLPC enumerated the clients before AddCon, the connection
   knows (or has queued) the newest committed context whenever no Push is mid-way *)
Theorem no_snapshot_missed_partial g ls :
  let s := yrun (sys0 g) ls in
  y_missed s = false -> (1 <= y_pc s)%nat -> y_pending s = None -> effective s = y_global s.
Proof. intros s. apply (eff_inv_run ls (sys0 g) (eff_inv0 g)). Qed.

(* at full strength it is false: SetLPC ; commit ; enumerate ; AddCon ; InitProxy *)
Theorem no_snapshot_missed_refuted :
  exists g ls, let s := yrun (sys0 g) ls in
    y_pc s = 3%nat /\ y_pending s = None /\ effective s <> y_global s.
Proof.
  exists 5, [LConn; LCommit; LSnap; LConn; LConn]. vm_compute. repeat split. discriminate.
Qed.

(* the queued push, once handled, is what the connection serves from *)
Theorem handled_push_is_served g ls :
  let s := yrun (sys0 g) ls in
  y_missed s = false -> y_pc s = 3%nat -> y_pending s = None ->
  y_lpc (handle s) = y_global s /\ y_queue (handle s) = [].
Proof.
  intros s Hm Hpc Hp. unfold handle. rewrite Hpc. cbn [Nat.eqb y_lpc y_queue]. split; [|reflexivity].
  apply (no_snapshot_missed_partial g ls Hm); [fold s; rewrite Hpc; lia|exact Hp].
Qed.
