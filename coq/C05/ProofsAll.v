(* C05 proofs, part 4: the whole reconnect exchange - every re-sent subscription of every type is
   answered and resynchronised, in whatever order the types are re-subscribed. *)
From V Require Import C05.Model C04.Proofs C04.ProofsSotw C04.ProofsDelta C05.Proofs.
From Coq Require Import List NArith Bool Lia.
Import ListNotations.
Open Scope N_scope.

Lemma same_sub_none a : same_sub a None -> a = None.
Proof. destruct a; cbn; [tauto|reflexivity]. Qed.

Lemma push_delta_other gen st t ds du init n t' :
  t <> t' -> same_sub (snd (push_delta_xds gen st t ds du init n) t') (st t').
Proof.
  intros H. unfold push_delta_xds. destruct (st t) as [w|] eqn:E; [|apply same_sub_refl].
  match goal with |- context [gen t ?a ?b ?c ?d] => set (r := gen t a b c d) end.
  destruct (g_res r) as [rs|], (g_del r) as [dl|]; cbn [snd]; try apply same_sub_refl;
    match goal with |- context [send_delta st t n true ?nn] => apply (step_other st (OSendDelta t n true nn) t' H) end.
Qed.

Lemma pdr_other gen st r vers n1 n2 t' :
  d_ty r <> t' -> st t' = None -> snd (process_delta_request gen st r vers n1 n2) t' = None.
Proof.
  intros Hne Hs. unfold process_delta_request.
  destruct (should_respond_delta st r) as [o st1] eqn:E1.
  assert (H1 : st1 t' = None).
  { apply same_sub_none. rewrite <- Hs. change st1 with (snd (o, st1)). rewrite <- E1.
    apply (step_other st (ODReq r) t' Hne). }
  destruct o as [|b subs|]; try exact H1. destruct b; [|exact H1].
  destruct (push_delta_xds gen st1 (d_ty r) _ _ _ n1) as [o1 st2] eqn:E2.
  assert (H2 : st2 t' = None).
  { apply same_sub_none. rewrite <- H1. change st2 with (snd (o1, st2)). rewrite <- E2.
    apply push_delta_other. exact Hne. }
  destruct (ty_eqb (d_ty r) CDS); [|exact H2].
  destruct (force_eds_push gen st2 n2) as [o2 st3] eqn:E3. cbn [snd].
  unfold force_eds_push in E3. destruct (st2 EDS) as [w|] eqn:EE.
  - assert (Hne2 : EDS <> t') by (intros <-; congruence).
    apply same_sub_none. rewrite <- H2. change st3 with (snd (o2, st3)). rewrite <- E3.
    apply push_delta_other. exact Hne2.
  - injection E3 as _ <-. exact H2.
Qed.

Definition rc_ok (c : rclient) : Prop :=
  requires_names_mod (rc_ty c) = false /\ never_remove (rc_ty c) = false /\
  (forall x, In x (rnames (rc_map c)) -> ~ In x (rc_unsub c) /\ x <> star).

Definition rc_synced (W : world) (p : rclient * list dresp) : Prop :=
  let '(c, ds) := p in
  exists d rest, ds = d :: rest /\ dr_ty d = rc_ty c /\
    map_eq (apply_delta (rc_map c) d) (gen_forced W (rc_ty c) (subscribed_of (rc_req c))) /\
    (forall x, In x (rnames (rc_map c)) ->
               lookup (gen_forced W (rc_ty c) (subscribed_of (rc_req c))) x = None -> In x (dr_removed d)).

Theorem reconnect_all W : forall cs st,
  NoDup (map rc_ty cs) ->
  (forall c, In c cs -> st (rc_ty c) = None /\ rc_ok c) ->
  Forall (rc_synced W) (fst (reconnect_delta (run_gen GPlain W) st cs)).
Proof.
  induction cs as [|c cs IH]; intros st Hnd Hall; cbn [reconnect_delta]; [constructor|].
  destruct (process_delta_request (run_gen GPlain W) st (rc_req c) (rc_map c) (rc_n1 c) (rc_n2 c)) as [ds st1] eqn:E1.
  destruct (reconnect_delta (run_gen GPlain W) st1 cs) as [rest st2] eqn:E2. cbn [fst].
  inversion Hnd as [|? ? Hnot Hnd']; subst.
  destruct (Hall c (or_introl eq_refl)) as [Hs [Hm [Hr Hc]]].
  constructor.
  - destruct (resync_delta W st (rc_req c) (rc_map c) (rc_n1 c) (rc_n2 c)) as [d [rs [st' [Hp [Ht [Hmap Hrem]]]]]];
      try assumption; try reflexivity.
    rewrite E1 in Hp. injection Hp as -> _.
    exists d, rs. repeat split; assumption.
  - change rest with (fst (rest, st2)). rewrite <- E2. apply IH; [exact Hnd'|].
    intros c' Hin. destruct (Hall c' (or_intror Hin)) as [Hs' Hok]. split; [|exact Hok].
    change st1 with (snd (ds, st1)). rewrite <- E1. apply pdr_other; [|exact Hs'].
    cbn [rc_req mk_dreq d_ty]. intros Heq. apply Hnot. rewrite Heq. apply in_map. exact Hin.
Qed.
