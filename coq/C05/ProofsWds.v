(* C05 proofs, part 3: ztunnel (ADDR / WORKLOAD) wildcard reconnect with initial_resource_versions. *)
From V Require Import C05.Model C04.Proofs C04.ProofsDelta C05.Proofs.
From Coq Require Import List NArith Bool Lia.
Import ListNotations.
Open Scope N_scope.

Lemma lookup_in_nodup l x c : NoDup (rnames l) -> In (x, c) l -> lookup l x = Some c.
Proof.
  induction l as [|[n d] l IH]; cbn [rnames map fst lookup]; intros Hnd Hin; [destruct Hin|].
  inversion Hnd as [|? ? Hnot Hnd']; subst.
  destruct Hin as [E|Hin].
  - injection E as -> ->. rewrite N.eqb_refl. reflexivity.
  - destruct (x =? n) eqn:En.
    + apply N.eqb_eq in En. subst. exfalso. apply Hnot. change n with (fst (n, c)). apply in_map. exact Hin.
    + apply IH; assumption.
Qed.

Lemma lookup_in l x c : lookup l x = Some c -> In (x, c) l.
Proof.
  induction l as [|[n d] l IH]; cbn [lookup]; [discriminate|].
  destruct (x =? n) eqn:En; intros H.
  - apply N.eqb_eq in En. injection H as ->. subst. left. reflexivity.
  - right. apply IH. exact H.
Qed.

Theorem resync_wds W st (r : dreq) (M0 : cmap) n1 n2 :
  let t := d_ty r in
  st t = None -> d_err r = None -> requires_names_mod t = true ->
  snd (fst (delta_watched_resources [] r)) = true ->            (* a wildcard subscription *)
  NoDup (rnames (W t)) ->
  d_init r = rnames M0 ->
  (forall x, In x (rnames M0) -> ~ In x (d_unsub r) /\ x <> star) ->
  exists d st',
    process_delta_request (wds_gen W) st r M0 n1 n2 = ([d], st') /\ dr_ty d = t /\
    map_eq (apply_delta M0 d) (W t) /\
    (forall x, In x (rnames M0) -> lookup (W t) x = None -> In x (dr_removed d)).
Proof.
  intros t Hs He Hm Hwc Hnd Hi Hcons. unfold process_delta_request.
  assert (Hsrd : should_respond_delta st r = (Resp true [], upd st t (Some (mkWr [] true 0 0 false 0)))).
  { unfold should_respond_delta. rewrite He. fold t. rewrite Hs, Hm.
    destruct (delta_watched_resources [] r) as [[res wc] ch]. cbn in Hwc. subst wc. reflexivity. }
  rewrite Hsrd. fold t. fold (subscribed_of r). set (Q := subscribed_of r). rewrite Hm.
  unfold push_delta_xds. rewrite upd_same. rewrite Hm. cbn [negb andb names wildcard].
  rewrite andb_false_r. cbn [wds_gen g_res g_del g_used g_incr].
  assert (Hss : should_set_watched t = false) by (unfold should_set_watched; rewrite Hm; reflexivity).
  assert (Hnr : never_remove t = false) by (destruct t; try reflexivity; discriminate).
  assert (Hcds : ty_eqb t CDS = false) by (destruct t; try reflexivity; discriminate).
  rewrite Hss, Hnr, Hcds. cbn [olist].
  eexists. eexists. split; [reflexivity|]. cbn [dr_ty dr_res dr_removed]. split; [reflexivity|].
  assert (HM0 : forall x, In x (rnames M0) -> In x Q).
  { intros x Hx. apply subscribed_spec. destruct (Hcons x Hx) as [H1 H2]. rewrite Hi. tauto. }
  split.
  - intros x. unfold apply_delta, remove_names. cbn [dr_res dr_removed]. rewrite lookup_app.
    set (p := fun r0 : res => negb (same_version M0 r0)).
    destruct (lookup (filter p (W t)) x) as [c|] eqn:E.
    + apply lookup_in in E. apply filter_In in E. destruct E as [E _].
      symmetry. apply lookup_in_nodup; assumption.
    + destruct (lookup (W t) x) as [c|] eqn:EW.
      * (* present but skipped: the client retains it at this very version *)
        assert (Hin : In (x, c) (W t)) by (apply lookup_in; exact EW).
        assert (Hp : p (x, c) = false).
        { destruct (p (x, c)) eqn:Ep; [|reflexivity]. exfalso.
          assert (Hf : In (x, c) (filter p (W t))) by (apply filter_In; split; assumption).
          apply lookup_none in E. apply E. change x with (fst (x, c)). apply in_map. exact Hf. }
        unfold p, same_version in Hp. cbn [fst snd] in Hp. apply negb_false_iff in Hp.
        destruct (lookup M0 x) as [v|] eqn:EM; [|discriminate].
        apply andb_true_iff in Hp. destruct Hp as [_ Hv]. apply N.eqb_eq in Hv. subst v.
        rewrite lookup_filter_keep; [exact EM|].
        intros c'. cbn [fst]. apply negb_true_iff, mem_false. intros Hd. apply In_diff in Hd.
        destruct Hd as [_ Hd]. apply Hd. apply (lookup_some_in _ _ _ EW).
      * (* gone: removed if retained *)
        apply lookup_none in EW.
        destruct (in_dec N.eq_dec x (rnames M0)) as [Hx|Hx].
        -- apply lookup_filter_out. intros c'. cbn [fst].
           assert (Hd : mem x (diff Q (rnames (W t))) = true) by (apply mem_In, In_diff; split; auto).
           rewrite Hd. reflexivity.
        -- apply lookup_none. intros H. apply Hx. unfold rnames in *. apply in_map_iff in H.
           destruct H as [r0 [<- Hr]]. apply filter_In in Hr. apply in_map. tauto.
  - intros x Hx Hl. apply In_diff. split; [auto|]. apply lookup_none. exact Hl.
Qed.
