(* Evaluation of harness cases for C05. *)
From V Require Export lib.Verdict C05.Model.
Open Scope N_scope.

Definition touched_t := list (xds_type * option wr).

(* one request processed by the REAL processRequest / processDeltaRequest on a connection whose
   stream is new: the request, the nonce(s) of the answers (interned by the harness; 0 = none),
   the responses seen on the stream, and the real WatchedResource afterwards of the request's type
   and of EDS *)
Inductive xstep :=
| XS (r : req) (n : N) (resps : list sresp) (touched : touched_t)
| XD (r : dreq) (vers : list res) (n1 n2 : N) (resps : list dresp) (touched : touched_t).

Inductive case :=
(* a session on a fresh connection.  Step j (from 0) is reported under id + 1 + j *)
| Sess (id : N) (k : gkind) (W : list (xds_type * list res)) (steps : list xstep) (final : touched_t)
(* carrier of the JSON sample of one step; always passes *)
| Step (id : N)
(* end-to-end cut against the fake discovery server, one type: the client held [retained] when its
   stream was cut, the world changed, it reconnected presenting [retained] (delta: as
   initial_resource_versions) and subscribing to [sub]; [removed] = removed_resources of the answers,
   [final] = its map when the exchange was quiescent, [fresh] = the map of a client that connects with
   nothing; [answered] = the re-sent subscription got a response *)
| E2E (id : N) (delta : bool) (t : xds_type) (sub : list N) (retained : cmap) (removed : list N)
      (final fresh : cmap) (answered : bool)
(* order of the setup statements found in the source of initConnection and Push *)
| Order (id : N) (conn push : list N)
(* probe of the window between the LastPushContext read and addCon in the real initConnection, with
   real Pushes issued back to back meanwhile: versions of the connection's LastPushContext and of the
   global context at the end; [missed] = a Push newer than LastPushContext returned (hence had
   enumerated the clients) while the connection was not yet registered, and nothing newer followed *)
| Race (id : N) (lpc global : N) (missed : bool)
(* a schedule of the small-step system replayed on the REAL connection table and push queue:
   LConn = the next setup step (proxy.LastPushContext = s.globalPushContext() ; s.addCon ;
   con.MarkInitialized), LCommit = a new context becomes the global one, LSnap = the real
   AdsPushAll/StartPush with that context.  Observed at the end: the connection's LastPushContext
   (0 while unset) and the version of the push request queued for it (the queue merges requests
   and keeps the newest context; None = no entry) *)
| Enq (id : N) (g : N) (ls : list lbl) (lpc : N) (q : option N)
      (* after the queued push was handled by the real pushConnection(Delta) (initialised connections only,
         no watch yet): LastPushContext; and the version a CDS (re-)subscription is then answered from (0 = not sent) *)
      (hlpc ver : N).

Definition case_id c :=
  match c with
  | Sess id _ _ _ _ => id | Step id => id | E2E id _ _ _ _ _ _ _ _ => id | Order id _ _ => id | Race id _ _ _ => id | Enq id _ _ _ _ _ _ => id
  end.

(* ------------------------------------------------------------------ helpers *)

Definition world_of (l : list (xds_type * list res)) : world :=
  fun t => match find (fun p => ty_eqb t (fst p)) l with Some (_, rs) => rs | None => [] end.

(* sessions: ADDR/WORKLOAD are served by the real WorkloadGenerator, the workload Authorization type
   by the real WorkloadRBACGenerator, the others by the fake generator of kind k *)
Definition sess_gen (k : gkind) (W : world) : gen_fn :=
  fun t => if requires_names_mod t then wds_gen W t
           else if ty_eqb t AUTHZ then rbac_gen W t
           else run_gen k W t.

Definition res_eqb (a b : res) : bool := (fst a =? fst b) && (snd a =? snd b).
Definition sresp_eqb (a b : sresp) : bool :=
  ty_eqb (sr_ty a) (sr_ty b) && list_eqb res_eqb (sr_res a) (sr_res b) && (sr_nonce a =? sr_nonce b).
Definition dresp_eqb (a b : dresp) : bool :=
  ty_eqb (dr_ty a) (dr_ty b) && list_eqb res_eqb (dr_res a) (dr_res b) &&
  nlist_eqb (dr_removed a) (dr_removed b) && (dr_nonce a =? dr_nonce b).

Definition touched_ok (st : watched) (l : touched_t) : bool :=
  forallb (fun '(t, o) => owr_eqb (st t) o) l.

Definition apply_touched (st : watched) (l : touched_t) : watched :=
  fold_left (fun s '(t, o) => upd s t o) l st.

(* ------------------------------------------------------------------ correspondence *)

Definition step_model (gen : gen_fn) (st : watched) (x : xstep) : bool * watched :=
  match x with
  | XS r n resps touched =>
    let '(ms, st') := process_request gen st r n in
    (list_eqb sresp_eqb ms resps && touched_ok st' touched, st')
  | XD r vers n1 n2 resps touched =>
    let '(md, st') := process_delta_request gen st r vers n1 n2 in
    (list_eqb dresp_eqb md resps && touched_ok st' touched, st')
  end.

(* index of the first step the model does not predict (None = all predicted) and the final state *)
Fixpoint sess_model (gen : gen_fn) (st : watched) (steps : list xstep) (j : N) : option N * watched :=
  match steps with
  | [] => (None, st)
  | x :: rest =>
    let '(ok, st') := step_model gen st x in
    if ok then sess_model gen st' rest (j + 1) else (Some j, st')
  end.

(* ------------------------------------------------------------------ property oracle *)

Definition has_sresp (t : xds_type) (l : list sresp) : option sresp :=
  find (fun s => ty_eqb t (sr_ty s)) l.

(* C05 on one observed step; pre/post = observed server state before/after.  Only requests for a
   type the new stream does not know yet are judged here (the rest is C04's). *)
Definition step_prop (k : gkind) (W : world) (pre post : watched) (x : xstep) : bool :=
  let fake_ok := match k with GNil => false | _ => true end in
  let gen_ok := fake_ok || ty_eqb (match x with XS r _ _ _ => r_ty r | XD r _ _ _ _ _ => d_ty r end) AUTHZ in
  match x with
  | XS r _ resps _ =>
    let t := r_ty r in
    match pre t, r_err r with
    | None, None =>
      if should_unsubscribe r then true
      else if requires_names_mod t then true
      else if negb gen_ok then true
      else
        match has_sresp t resps with
        | None => false                                       (* the re-sent subscription stays unanswered *)
        | Some s =>
          map_eqb (sr_res s) (gen_forced W t (norm (r_names r))) &&   (* what a fresh client would get *)
          (* a CDS (re)subscription makes the next EDS request answered *)
          (if ty_eqb t CDS
           then match pre EDS, post EDS with
                | Some _, Some w => always_respond w
                | Some _, None => false
                | None, _ => true
                end
           else true)
        end
    | Some w, None =>
      (* a re-sent subscription on the current nonce while the watch is armed for warming (CDS was
         (re)subscribed after it): answered with the current resources of ALL requested names,
         whether or not the names changed *)
      if always_respond w && negb (r_nonce r =? 0) && (r_nonce r =? nonce_sent w) &&
         negb (should_unsubscribe r) && fake_ok
      then match has_sresp t resps with
           | None => false
           | Some s => map_eqb (sr_res s) (gen_forced W t (norm (r_names r)))
           end
      else true
    | _, _ => true
    end
  | XD r vers _ _ resps _ =>
    let t := d_ty r in
    match pre t, d_err r with
    | None, None =>
      let wc := spec_delta_wildcard r in
      if requires_names_mod t && negb wc then true           (* on-demand ztunnel: not judged *)
      else if negb gen_ok && negb (requires_names_mod t) then true
      else
        match first_of t resps with
        | None => false
        | Some d =>
          let Q := spec_delta_names [] r in
          let view := if requires_names_mod t then W t else gen_forced W t Q in
          let consistent := forallb (fun x => negb (mem x (d_unsub r))) (rnames vers) in
          (if consistent && negb (never_remove t)
           then map_eqb (apply_delta vers d) view &&
                forallb (fun x => mem x (dr_removed d) ||
                                  match lookup view x with Some _ => true | None => false end)
                        (rnames vers)
           else true) &&
          (* CDS on a stream that already watches EDS: an EDS response follows *)
          (if ty_eqb t CDS && fake_ok
           then match pre EDS with
                | Some _ => match first_of EDS resps with Some _ => true | None => false end
                | None => true
                end
           else true)
        end
    | _, _ => true
    end
  end.

Definition step_touched (x : xstep) : touched_t :=
  match x with XS _ _ _ tc => tc | XD _ _ _ _ _ tc => tc end.

Fixpoint sess_prop (k : gkind) (W : world) (st : watched) (steps : list xstep) (j : N) : option N :=
  match steps with
  | [] => None
  | x :: rest =>
    let st' := apply_touched st (step_touched x) in
    if step_prop k W st st' x then sess_prop k W st' rest (j + 1) else Some j
  end.

(* ------------------------------------------------------------------ end-to-end *)

Definition e2e_world (t : xds_type) (fresh : cmap) : world := fun t' => if ty_eqb t t' then fresh else [].

(* the model's exchange for the observed reconnect: (final map, removed names, answered) *)
Definition e2e_model (delta : bool) (t : xds_type) (sub : list N) (retained fresh : cmap)
  : cmap * list N * bool :=
  let gen := run_gen GPlain (e2e_world t fresh) in
  if delta then
    match process_delta_request gen new_stream (mk_dreq t sub [] retained 7 None) retained 8 9 with
    | (ds, _) =>
      match first_of t ds with
      | Some d => (apply_delta retained d, dr_removed d, true)
      | None => (retained, [], false)
      end
    end
  else
    match process_request gen new_stream (mkReq t sub 7 None) 8 with
    | (s :: _, _) => (apply_sotw retained s, [], true)
    | ([], _) => (retained, [], false)
    end.

(* ------------------------------------------------------------------ verdicts *)

Definition order_ok (conn push : list N) : bool :=
  nlist_eqb conn conn_program && nlist_eqb push push_program.

Fixpoint index_of (x : N) (l : list N) (j : N) : option N :=
  match l with [] => None | y :: l' => if x =? y then Some j else index_of x l' (j + 1) end.
Definition before (a b : N) (l : list N) : bool :=
  match index_of a l 0, index_of b l 0 with Some i, Some j => i <? j | _, _ => false end.

Definition model_fail (c : case) : option N :=
  match c with
  | Sess id k W steps final =>
    let '(bad, st) := sess_model (sess_gen k (world_of W)) new_stream steps 0 in
    match bad with
    | Some j => Some (id + 1 + j)
    | None => if touched_ok st final then None else Some id
    end
  | Step _ => None
  | E2E id delta t sub retained removed final fresh answered =>
    let '(mf, mr, ma) := e2e_model delta t sub retained fresh in
    if Bool.eqb ma answered && (negb answered || (map_eqb mf final && seteq mr (norm removed)))
    then None else Some id
  | Order id conn push => if order_ok conn push then None else Some id
  | Race id lpc global missed =>
    (* the model allows both outcomes (C05_no_snapshot_missed_refuted / _partial); a missed push
       leaves the connection on an older context than the global one *)
    if negb missed || (lpc <? global) then None else Some id
  | Enq id g ls lpc q hlpc ver =>
    let s := yrun (sys0 g) ls in
    if (hlpc =? y_lpc (handle s)) &&
       (ver =? (if Nat.eqb (y_pc s) 3 then y_lpc (handle s) else 0)) &&
       (lpc =? y_lpc s) &&
       match q, y_queue s with
       | None, [] => true
       | Some v, _ :: _ => v =? last (y_queue s) 0
       | _, _ => false
       end
    then None else Some id
  end.

Definition prop_fail (c : case) : option N :=
  match c with
  | Sess id k W steps _ =>
    match sess_prop k (world_of W) new_stream steps 0 with
    | Some j => Some (id + 1 + j)
    | None => None
    end
  | Step _ => None
  | E2E id delta t _ retained removed final fresh answered =>
    if answered && map_eqb final fresh &&
       (negb delta ||
        forallb (fun x => mem x removed || match lookup fresh x with Some _ => true | None => false end)
                (rnames retained))
    then None else Some id
  | Order id conn push =>
    (* the connection is registered for pushes before its proxy is initialised, its push context is
       read before it is registered; a push commits its context before it enumerates the clients *)
    if before 1 2 conn && before 2 3 conn && before 4 5 push then None else Some id
  | Race id _ _ missed => if missed then Some id else None
  | Enq id g ls _ q _ ver =>
    (* every context committed after addCon whose Push has enumerated the clients is in the
       connection's queue (or superseded there by a newer one), initialised or not *)
    let s := yrun (sys0 g) ls in
    let held := match q with Some v => v | None => 0 end in
    if forallb (fun v => match y_pending s with Some p => (p =? v) | None => false end || (v <=? held)) (y_post s) &&
       (* ... and once that push has been handled, the next subscription is answered from it (or newer) *)
       (negb (Nat.eqb (y_pc s) 3) ||
        forallb (fun v => match y_pending s with Some p => (p =? v) | None => false end || (v <=? ver)) (y_post s))
    then None else Some id
  end.

Definition model_ok (c : case) : bool := match model_fail c with None => true | Some _ => false end.
Definition prop_ok (c : case) : bool := match prop_fail c with None => true | Some _ => false end.

Definition mismatches (cs : list case) : list (N * verdict) :=
  flat_map (fun c =>
    (match model_fail c with Some i => [(i, ModelDiffers)] | None => [] end) ++
    (match prop_fail c with Some i => [(i, PropertyFails)] | None => [] end)) cs.
