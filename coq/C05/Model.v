(* C05 model: a reconnecting proxy is fully resynchronised, whatever it retained.

   The per-connection request classifiers (ShouldRespond / shouldRespondDelta / Send / sendDelta
   bookkeeping) are the shared XdsSession of C04 (C04/Session.v) - imported, not duplicated.
   This file adds (definitions only):
   1. new_stream: what the server knows of a client at the start of a stream (nothing);
   2. resources, worlds, generators (abstract: the fake generators of the harness, and the wildcard
      branch of the real WorkloadGenerator);
   3. pushXds / pushDeltaXds / forceEDSPush / processRequest / processDeltaRequest, branch for branch;
   4. the SotW and delta client maps;
   5. the reconnect exchange over several types;
   6. the connection-setup / global Push small-step system of initConnection.

   Abstractions: as in Session.v (names, nonces interned to N; "*" = 0; empty nonce = 0).  A resource
   is (name, version) where the version stands for the content (equal version = equal bytes); for
   the workload generator it is AddressInfo.Version, with 0 = "".  A failed stream.Send ends the
   stream (the caller returns the error); the next stream is again a fresh one, so only successful
   sends are modelled.  Debug and health-check type URLs are not modelled. *)
From V Require Export C04.Session C04.Model.
From Coq Require Import List NArith Bool.
Import ListNotations.
Open Scope N_scope.

(* ------------------------------------------------------------------ 1. a new stream *)

(* pilot/pkg/xds/ads.go initializeProxy: proxy.WatchedResources = map[string]*WatchedResource{}
   on a Proxy that initConnection has just built from the node of the first request: nothing of an
   earlier stream survives on the server *)
Definition new_stream : watched := empty_watched.

(* ------------------------------------------------------------------ 2. resources and generators *)

Definition res := (N * N)%type.
Definition rnames (l : list res) : list N := map fst l.

Fixpoint lookup (l : list res) (x : N) : option N :=
  match l with
  | [] => None
  | (n, c) :: l' => if x =? n then Some c else lookup l' x
  end.

(* current resources of every type (for one proxy) *)
Definition world := xds_type -> list res.

(* what a generator returns: model.Resources (None = nil), model.DeletedResources (None = nil),
   usedDelta, XdsLogDetails.Incremental *)
Record gres := mkG { g_res : option (list res); g_del : option (list N); g_used : bool; g_incr : bool }.

(* a generator sees: type, w.ResourceNames, w.Wildcard, req.Delta.Subscribed,
   req.Delta.InitialResourceVersions *)
Definition gen_fn := xds_type -> list N -> bool -> list N -> list res -> gres.

(* the output of a generator for a Forced (proxy request) generation: wildcard types ignore the
   requested names, the others select by name *)
Definition gen_forced (W : world) (t : xds_type) (Q : list N) : list res :=
  if is_wildcard t then W t else filter (fun r => mem (fst r) Q) (W t).

(* harness generators: GPlain implements Generate only; GDelta implements GenerateDeltas with
   usedDelta = true and deleted = w.ResourceNames - current names; GNil returns nil *)
Inductive gkind := GPlain | GDelta | GNil.

Definition run_gen (k : gkind) (W : world) : gen_fn := fun t Q _ _ _ =>
  match k with
  | GPlain => mkG (Some (gen_forced W t Q)) None false false
  | GDelta => mkG (Some (gen_forced W t Q)) (Some (diff Q (rnames (W t)))) true false
  | GNil => mkG None None false false
  end.

(* pilot/pkg/xds/workload.go appendAddress: a resource whose non-empty version equals the one the
   client reports in initial_resource_versions is not re-sent *)
Definition same_version (init : list res) (r : res) : bool :=
  match lookup init (fst r) with
  | Some v => negb (snd r =? 0) && (snd r =? v)
  | None => false
  end.

(* WorkloadGenerator.GenerateDeltas for a proxy request (req.IsRequest()) on a wildcard
   subscription: all addresses, minus those the client retains at the same version;
   removed = req.Delta.Subscribed - have.  (On-demand subscriptions are not modelled: None.) *)
Definition wds_gen (W : world) : gen_fn := fun t _ wc dsub init =>
  if wc
  then mkG (Some (filter (fun r => negb (same_version init r)) (W t)))
           (Some (diff dsub (rnames (W t)))) true false
  else mkG None None false false.

(* v3.WorkloadAuthorizationType (type.googleapis.com/istio.security.Authorization): an internal type
   for Session.v (wildcard semantics, not generator-managed: requires_names_mod AUTHZ = false) *)
Definition AUTHZ : xds_type := OTHER 4.

(* pilot/pkg/xds/workload.go WorkloadRBACGenerator.GenerateDeltas for a Forced request: every
   policy is returned, expected = w.ResourceNames, removed = expected - generated, usedDelta = true.
   (Resources carry no version: the world of this type uses version 0.) *)
Definition rbac_gen (W : world) : gen_fn := fun t Q _ _ _ =>
  mkG (Some (W t)) (Some (diff Q (rnames (W t)))) true false.

(* ------------------------------------------------------------------ 3. pushes and request processing *)

(* pilot/pkg/xds/delta.go neverRemoveDelta *)
Definition never_remove (t : xds_type) : bool := match t with ECDS => true | _ => false end.

Record sresp := mkSResp { sr_ty : xds_type; sr_res : list res; sr_nonce : N }.
Record dresp := mkDResp { dr_ty : xds_type; dr_res : list res; dr_removed : list N; dr_nonce : N }.

Definition olist {A} (o : option A) : list A := match o with Some a => [a] | None => [] end.

(* pilot/pkg/xds/xdsgen.go pushXds (proxy is not proxyless gRPC); SotW ResourceDelta only ever
   carries Subscribed *)
Definition push_xds (gen : gen_fn) (st : watched) (t : xds_type) (dsub : list N) (nonce : N)
  : option sresp * watched :=
  match st t with
  | None => (None, st)
  | Some w =>
    let filtered := negb (is_nil dsub) in
    let wn := if filtered then dsub else names w in
    let wc := if filtered then false else wildcard w in
    match g_res (gen t wn wc dsub []) with
    | None => (None, st)
    | Some rs => (Some (mkSResp t rs nonce), send st t nonce true)
    end
  end.

(* pilot/pkg/xds/ads.go processRequest *)
Definition process_request (gen : gen_fn) (st : watched) (r : req) (nonce : N)
  : list sresp * watched :=
  match should_respond st r with
  | (Resp true subs, st1) =>
    let '(o, st2) := push_xds gen st1 (r_ty r) subs nonce in (olist o, st2)
  | (_, st1) => ([], st1)
  end.

(* pilot/pkg/xds/delta.go pushDeltaXds *)
Definition push_delta_xds (gen : gen_fn) (st : watched) (t : xds_type)
  (dsub dunsub : list N) (init : list res) (nonce : N) : option dresp * watched :=
  match st t with
  | None => (None, st)
  | Some w =>
    let filtered := negb (is_nil dsub && is_nil dunsub) && negb (requires_names_mod t) in
    let wn := if filtered then dsub else names w in
    let wc := if filtered then false else wildcard w in
    let r := gen t wn wc dsub init in
    match g_res r, g_del r with
    | None, None => (None, st)
    | _, _ =>
      let rs := match g_res r with Some l => l | None => [] end in
      let dl := match g_del r with Some l => l | None => [] end in
      let removed := if g_used r then dl
                     else if negb (g_incr r) then diff wn (rnames rs) else [] in
      let newn := if should_set_watched t
                  then Some (if g_used r then diff wn removed ++ rnames rs else rnames rs)
                  else None in
      let removed' := if never_remove t then [] else removed in
      (Some (mkDResp t rs removed' nonce), send_delta st t nonce true newn)
    end
  end.

(* pilot/pkg/xds/delta.go forceEDSPush *)
Definition force_eds_push (gen : gen_fn) (st : watched) (nonce : N) : option dresp * watched :=
  match st EDS with
  | Some _ => push_delta_xds gen st EDS [] [] [] nonce
  | None => (None, st)
  end.

(* the request a delta client sends: vers = initial_resource_versions (name -> version) *)
Definition mk_dreq (t : xds_type) (sub unsub : list N) (vers : list res) (nonce : N) (e : option N)
  : dreq := mkDReq t sub unsub (rnames vers) nonce e.

(* pilot/pkg/xds/delta.go processDeltaRequest; n1 = nonce of the response for the request's type,
   n2 = nonce of the forced EDS response *)
Definition process_delta_request (gen : gen_fn) (st : watched) (r : dreq) (vers : list res)
  (n1 n2 : N) : list dresp * watched :=
  match should_respond_delta st r with
  | (Resp true _, st1) =>
    let subs := fst (fst (delta_watched_resources [] r)) in
    let unsub := del star (norm (d_unsub r)) in
    let init := if requires_names_mod (d_ty r) then vers else [] in
    let '(o1, st2) := push_delta_xds gen st1 (d_ty r) subs unsub init n1 in
    if ty_eqb (d_ty r) CDS
    then let '(o2, st3) := force_eds_push gen st2 n2 in (olist o1 ++ olist o2, st3)
    else (olist o1, st2)
  | (_, st1) => ([], st1)
  end.

(* ------------------------------------------------------------------ 4. clients *)

(* the client's resource map for one type, most recent binding first *)
Definition cmap := list res.

Definition remove_names (m : cmap) (rm : list N) : cmap :=
  filter (fun r => negb (mem (fst r) rm)) m.

(* delta: removed_resources are dropped, resources upserted *)
Definition apply_delta (m : cmap) (d : dresp) : cmap := dr_res d ++ remove_names m (dr_removed d).

(* SotW: a response for a wildcard (root) type is the whole state; for the other types the listed
   resources are upserted (removal is by removal of the parent) *)
Definition apply_sotw (m : cmap) (s : sresp) : cmap :=
  if is_wildcard (sr_ty s) then sr_res s else sr_res s ++ m.

(* two maps agree *)
Definition map_eq (a b : cmap) : Prop := forall x, lookup a x = lookup b x.
Definition map_eqb_on (dom : list N) (a b : cmap) : bool :=
  forallb (fun x => match lookup a x, lookup b x with
                    | None, None => true
                    | Some c, Some d => c =? d
                    | _, _ => false
                    end) dom.
Definition map_eqb (a b : cmap) : bool := map_eqb_on (rnames a ++ rnames b) a b.

(* ------------------------------------------------------------------ 5. the reconnect exchange *)

(* what a delta client presents for one type on the new stream: everything is arbitrary *)
Record rclient := mkRC {
  rc_ty : xds_type; rc_sub : list N; rc_unsub : list N;
  rc_map : cmap;          (* retained resources = initial_resource_versions *)
  rc_nonce : N;           (* last nonce of the old stream *)
  rc_n1 : N; rc_n2 : N    (* nonces the server picks for its answers *)
}.

Definition rc_req (c : rclient) : dreq :=
  mk_dreq (rc_ty c) (rc_sub c) (rc_unsub c) (rc_map c) (rc_nonce c) None.

Fixpoint reconnect_delta (gen : gen_fn) (st : watched) (cs : list rclient)
  : list (rclient * list dresp) * watched :=
  match cs with
  | [] => ([], st)
  | c :: cs' =>
    let '(ds, st1) := process_delta_request gen st (rc_req c) (rc_map c) (rc_n1 c) (rc_n2 c) in
    let '(rest, st2) := reconnect_delta gen st1 cs' in
    ((c, ds) :: rest, st2)
  end.

(* SotW: (request, nonce picked by the server) *)
Fixpoint reconnect_sotw (gen : gen_fn) (st : watched) (rs : list (req * N))
  : list (req * list sresp) * watched :=
  match rs with
  | [] => ([], st)
  | (r, n) :: rs' =>
    let '(ss, st1) := process_request gen st r n in
    let '(rest, st2) := reconnect_sotw gen st1 rs' in
    ((r, ss) :: rest, st2)
  end.

(* the first response of type t in a list *)
Definition first_of (t : xds_type) (ds : list dresp) : option dresp :=
  find (fun d => ty_eqb t (dr_ty d)) ds.

(* the names the server has recorded / generates for *)
Definition subscribed_names (c : rclient) : list N :=
  fst (fst (delta_watched_resources [] (rc_req c))).

(* ------------------------------------------------------------------ 6. connection setup vs Push *)

(* pilot/pkg/xds/ads.go initConnection runs, in this order,
     proxy.LastPushContext = s.globalPushContext()   (SetLPC)
     s.addCon(con.ID(), con)                          (AddCon, under adsClientsMutex)
     s.initializeProxy(con); con.MarkInitialized()    (InitProxy)
   while pilot/pkg/xds/discovery.go Push runs, one push after the other,
     initPushContext -> s.Env.SetPushContext(push)    (LCommit: a new version becomes the global one)
     AdsPushAll -> StartPush -> AllClients()+Enqueue   (LSnap: every REGISTERED connection gets
                                                        the request in its push queue)
   Versions are numbers; a schedule is any list of labels; LConn runs the next setup step. *)
Inductive lbl := LConn | LCommit | LSnap.

Record sys := mkSys {
  y_global : N;            (* s.Env.PushContext() *)
  y_pc : nat;              (* setup steps done: 0..3 *)
  y_lpc : N;               (* proxy.LastPushContext (meaningful once y_pc >= 1) *)
  y_pending : option N;    (* committed by the running Push, clients not yet enumerated *)
  y_queue : list N;        (* contexts enqueued for this connection, oldest first *)
  y_post : list N;         (* ghost: versions committed after AddCon *)
  y_missed : bool          (* ghost: a Push committed after SetLPC enumerated the clients before AddCon *)
}.

Definition sys0 (g : N) : sys := mkSys g 0 0 None [] [] false.

Definition registered (s : sys) : bool := Nat.leb 2 (y_pc s).

Definition ystep (s : sys) (l : lbl) : sys :=
  match l with
  | LConn =>
    match y_pc s with
    | O => mkSys (y_global s) 1 (y_global s) (y_pending s) (y_queue s) (y_post s) (y_missed s)
    | S O => mkSys (y_global s) 2 (y_lpc s) (y_pending s) (y_queue s) (y_post s) (y_missed s)
    | S (S O) => mkSys (y_global s) 3 (y_lpc s) (y_pending s) (y_queue s) (y_post s) (y_missed s)
    | _ => s
    end
  | LCommit =>
    match y_pending s with
    | Some _ => s
    | None =>
      let v := y_global s + 1 in
      mkSys v (y_pc s) (y_lpc s) (Some v) (y_queue s)
            (if registered s then v :: y_post s else y_post s) (y_missed s)
    end
  | LSnap =>
    match y_pending s with
    | None => s
    | Some v =>
      mkSys (y_global s) (y_pc s) (y_lpc s) None
            (if registered s then y_queue s ++ [v] else y_queue s) (y_post s)
            (y_missed s || (Nat.eqb (y_pc s) 1 && negb (v =? y_lpc s)))
    end
  end.

Definition yrun (s : sys) (ls : list lbl) : sys := fold_left ystep ls s.

(* the newest context the connection knows of or will be handed: the last queued one, else the
   one read at setup *)
Definition effective (s : sys) : N := last (y_queue s) (y_lpc s).

(* the Stream loop of an initialised connection takes the queued push (requests queued for one
   connection are merged and carry the newest context) and handles it: pushConnection /
   pushConnectionDelta -> computeProxyState sets proxy.LastPushContext = request.Push, whether or not
   the proxy watches anything yet.  Requests are answered from proxy.LastPushContext. *)
Definition handle (s : sys) : sys :=
  if Nat.eqb (y_pc s) 3
  then mkSys (y_global s) (y_pc s) (effective s) (y_pending s) [] (y_post s) (y_missed s)
  else s.

(* the order of the setup steps as a list, for the source-order check of the harness *)
Definition conn_program : list N := [1; 2; 3].   (* SetLPC; AddCon; InitProxy *)
Definition push_program : list N := [4; 5].      (* initPushContext (commit); AdsPushAll (enumerate) *)
