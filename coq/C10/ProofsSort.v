(* C10 — the sorting step: the pipeline initAuthenticationPolicies / getConfigsForWorkload / Compose selects, per
   level, the (creation time, name, namespace)-oldest applicable policy of the raw policy set. *)
From Coq Require Import List NArith ZArith Bool Lia ZifyBool ZifyN Sorted.
From V Require Import C10.Model C10.Proofs.
Import ListNotations.

(* ------------------------------------------------------------------ the comparator *)

Lemma cfg_leb_spec a b :
  cfg_leb a b = true <->
  (pa_time a < pa_time b)%Z \/
  (pa_time a = pa_time b /\ ((pa_name a < pa_name b)%N \/ (pa_name a = pa_name b /\ (pa_ns a <= pa_ns b)%N))).
Proof.
  unfold cfg_leb, cfg_cmp.
  destruct (Z.compare_spec (pa_time a) (pa_time b));
  destruct (N.compare_spec (pa_name a) (pa_name b));
  destruct (N.compare_spec (pa_ns a) (pa_ns b)); split; intros; try discriminate; try lia; auto.
Qed.

Lemma cfg_ltb_spec a b :
  cfg_ltb a b = true <->
  (pa_time a < pa_time b)%Z \/
  (pa_time a = pa_time b /\ ((pa_name a < pa_name b)%N \/ (pa_name a = pa_name b /\ (pa_ns a < pa_ns b)%N))).
Proof.
  unfold cfg_ltb, cfg_cmp.
  destruct (Z.compare_spec (pa_time a) (pa_time b));
  destruct (N.compare_spec (pa_name a) (pa_name b));
  destruct (N.compare_spec (pa_ns a) (pa_ns b)); split; intros; try discriminate; try lia; auto.
Qed.

Lemma cfg_leb_total a b : cfg_leb a b = false -> cfg_leb b a = true.
Proof.
  intros H. apply cfg_leb_spec.
  assert (~ cfg_leb a b = true) as Hn by congruence. rewrite cfg_leb_spec in Hn. lia.
Qed.

Lemma cfg_leb_trans a b c : cfg_leb a b = true -> cfg_leb b c = true -> cfg_leb a c = true.
Proof. rewrite !cfg_leb_spec. lia. Qed.

Lemma cfg_ltb_negb_leb a b : cfg_ltb b a = negb (cfg_leb a b).
Proof.
  destruct (cfg_leb a b) eqn:E; cbn.
  - destruct (cfg_ltb b a) eqn:F; [|reflexivity].
    apply cfg_leb_spec in E. apply cfg_ltb_spec in F. lia.
  - apply cfg_ltb_spec. assert (~ cfg_leb a b = true) as Hn by congruence. rewrite cfg_leb_spec in Hn. lia.
Qed.

Lemma cfg_leb_time a b : cfg_leb a b = true -> (pa_time a <= pa_time b)%Z.
Proof. rewrite cfg_leb_spec. lia. Qed.

(* ------------------------------------------------------------------ insertion sort *)

Definition sorted := StronglySorted (fun a b => cfg_leb a b = true).

Lemma insert_forall (P : pa -> Prop) a l : P a -> Forall P l -> Forall P (insert a l).
Proof.
  intros Ha Hl. induction Hl as [|b l Hb Hl IH]; cbn [insert]; [auto|].
  destruct (cfg_leb a b); auto.
Qed.

Lemma insert_sorted a l : sorted l -> sorted (insert a l).
Proof.
  unfold sorted. induction 1 as [|b l Hs IH Hb]; cbn [insert].
  - constructor; constructor.
  - destruct (cfg_leb a b) eqn:E.
    + constructor; [constructor; assumption|]. constructor; [exact E|].
      eapply Forall_impl; [|exact Hb]. intros c Hc. eapply cfg_leb_trans; eassumption.
    + constructor; [exact IH|]. apply insert_forall; [apply cfg_leb_total; exact E|exact Hb].
Qed.

Lemma isort_sorted l : sorted (isort l).
Proof. induction l; cbn [isort]; [constructor|apply insert_sorted; assumption]. Qed.

(* first element of the sorted list satisfying P = leftmost-oldest of the P-elements of the raw list *)
Lemma find_insert (P : pa -> bool) a l : sorted l ->
  find P (insert a l) =
  match find P l with
  | Some b => if P a then (if cfg_leb a b then Some a else Some b) else Some b
  | None => if P a then Some a else None
  end.
Proof.
  unfold sorted. induction 1 as [|b l Hs IH Hb]; cbn [insert find].
  - destruct (P a); reflexivity.
  - destruct (cfg_leb a b) eqn:E; cbn [find].
    + destruct (P a) eqn:Pa.
      * destruct (P b); [rewrite E; reflexivity|].
        destruct (find P l) as [x|] eqn:F; [|reflexivity].
        apply find_some in F. destruct F as [Hin _].
        rewrite Forall_forall in Hb. specialize (Hb x Hin).
        rewrite (cfg_leb_trans _ _ _ E Hb). reflexivity.
      * destruct (P b); [reflexivity|]. destruct (find P l); reflexivity.
    + destruct (P b) eqn:Pb.
      * destruct (P a); [rewrite E|]; reflexivity.
      * exact IH.
Qed.

Lemma oldest_filter_cons (P : pa -> bool) a l :
  oldest (filter P (a :: l)) =
  if P a then match oldest (filter P l) with
              | Some b => if cfg_leb a b then Some a else Some b
              | None => Some a end
  else oldest (filter P l).
Proof.
  cbn [filter]. destruct (P a); [|reflexivity]. cbn [oldest].
  destruct (oldest (filter P l)) as [b|]; [|reflexivity].
  rewrite cfg_ltb_negb_leb. destruct (cfg_leb a b); reflexivity.
Qed.

Lemma find_isort (P : pa -> bool) l : find P (isort l) = oldest (filter P l).
Proof.
  induction l as [|a l IH]; [reflexivity|].
  cbn [isort]. rewrite find_insert by apply isort_sorted. rewrite IH, oldest_filter_cons.
  destruct (P a), (oldest (filter P l)); reflexivity.
Qed.

(* ------------------------------------------------------------------ time-sortedness and first_oldest *)

Definition time_sorted := StronglySorted (fun a b => (pa_time a <= pa_time b)%Z).

Lemma sorted_time_sorted l : sorted l -> time_sorted l.
Proof.
  unfold sorted, time_sorted. induction 1 as [|a l Hs IH Ha]; constructor; [exact IH|].
  eapply Forall_impl; [|exact Ha]. intros b. apply cfg_leb_time.
Qed.

Lemma time_sorted_filter (P : pa -> bool) l : time_sorted l -> time_sorted (filter P l).
Proof.
  unfold time_sorted. induction 1 as [|a l Hs IH Ha]; cbn [filter]; [constructor|].
  destruct (P a); [|exact IH]. constructor; [exact IH|].
  rewrite Forall_forall in *. intros x Hx. apply filter_In in Hx. apply Ha. tauto.
Qed.

Lemma first_oldest_sorted l : time_sorted l -> first_oldest l = hd_error l.
Proof.
  unfold time_sorted. induction 1 as [|a l Hs IH Ha]; [reflexivity|].
  cbn [first_oldest hd_error]. rewrite IH. destruct l as [|b l]; [reflexivity|]. cbn [hd_error].
  inversion Ha as [|? ? Hab _]; subst.
  destruct (before b a) eqn:E; [apply before_spec in E; lia|reflexivity].
Qed.

Lemma hd_filter_find (P : pa -> bool) l : hd_error (filter P l) = find P l.
Proof. induction l as [|a l IH]; [reflexivity|]. cbn [filter find]. destruct (P a); [reflexivity|exact IH]. Qed.

Lemma first_oldest_filter (P : pa -> bool) l : time_sorted l -> first_oldest (filter P l) = find P l.
Proof. intros H. rewrite first_oldest_sorted by (apply time_sorted_filter; exact H). apply hd_filter_find. Qed.

(* ------------------------------------------------------------------ addPeerAuthentication's kept list *)

Fixpoint keep_list (seen : list N) (l : list pa) : list pa :=
  match l with
  | [] => []
  | c :: l' =>
      if ns_level c then
        if memN (pa_ns c) seen then keep_list seen l' else c :: keep_list (pa_ns c :: seen) l'
      else c :: keep_list seen l'
  end.

Lemma add_fold_kept root l : forall st,
  st_kept (fold_left (add_step root) l st) = st_kept st ++ keep_list (st_seen st) l /\
  True.
Proof.
  induction l as [|c l IH]; intros st; cbn [fold_left keep_list].
  - rewrite app_nil_r. auto.
  - destruct (IH (add_step root st c)) as [-> _]. split; [|exact I].
    unfold add_step. destruct (ns_level c); [destruct (memN (pa_ns c) (st_seen st))|];
      cbn [st_kept st_seen]; rewrite <- ?app_assoc; reflexivity.
Qed.

Lemma kept_is_keep_list root all :
  st_kept (add_peer_authentication root all) = keep_list [] (isort all).
Proof. unfold add_peer_authentication. destruct (add_fold_kept root (isort all) ap_init) as [-> _]. reflexivity. Qed.

Lemma keep_list_forall (P : pa -> Prop) l : forall seen, Forall P l -> Forall P (keep_list seen l).
Proof.
  induction l as [|c l IH]; intros seen H; cbn [keep_list]; [constructor|].
  inversion H; subst. destruct (ns_level c); [destruct (memN (pa_ns c) seen)|]; auto.
Qed.

Lemma keep_list_time_sorted l : time_sorted l -> forall seen, time_sorted (keep_list seen l).
Proof.
  unfold time_sorted. induction 1 as [|c l Hs IH Hc]; intros seen; cbn [keep_list]; [constructor|].
  destruct (ns_level c); [destruct (memN (pa_ns c) seen)|]; auto;
    (constructor; [apply IH|apply keep_list_forall; exact Hc]).
Qed.

(* workload-level policies are never dropped *)
Lemma filter_keep_list_wl (Q : pa -> bool) l : (forall c, Q c = true -> ns_level c = false) ->
  forall seen, filter Q (keep_list seen l) = filter Q l.
Proof.
  intros HQ. induction l as [|c l IH]; intros seen; cbn [keep_list filter]; [reflexivity|].
  destruct (ns_level c) eqn:E.
  - assert (Q c = false) as Qc by (destruct (Q c) eqn:F; [apply HQ in F; congruence|reflexivity]).
    destruct (memN (pa_ns c) seen); cbn [filter]; rewrite ?Qc; apply IH.
  - cbn [filter]. destruct (Q c); rewrite IH; reflexivity.
Qed.

(* of the namespace-/mesh-level policies of one namespace exactly the first one is kept *)
Lemma find_keep_list_ns n l : forall seen,
  find (fun c => ns_level c && N.eqb (pa_ns c) n) (keep_list seen l) =
  if memN n seen then None else find (fun c => ns_level c && N.eqb (pa_ns c) n) l.
Proof.
  induction l as [|c l IH]; intros seen; cbn [keep_list find]; [destruct (memN n seen); reflexivity|].
  destruct (ns_level c) eqn:E; cbn [andb].
  - destruct (N.eqb (pa_ns c) n) eqn:En.
    + apply N.eqb_eq in En. subst n. destruct (memN (pa_ns c) seen) eqn:M.
      * rewrite IH, M. reflexivity.
      * cbn [find]. rewrite E, N.eqb_refl. reflexivity.
    + destruct (memN (pa_ns c) seen) eqn:M.
      * apply IH.
      * cbn [find]. rewrite E, En. cbn [andb]. rewrite IH. cbn [memN].
        rewrite N.eqb_sym, En. reflexivity.
  - cbn [find]. rewrite E. cbn [andb]. rewrite IH. reflexivity.
Qed.

(* ------------------------------------------------------------------ assembling the pipeline *)

Lemma my_filter_ext (f g : pa -> bool) l : (forall c, f c = g c) -> filter f l = filter g l.
Proof. intros H. induction l as [|a l IH]; [reflexivity|]. cbn [filter]. rewrite H, IH. reflexivity. Qed.

Lemma my_find_ext (f g : pa -> bool) l : (forall c, f c = g c) -> find f l = find g l.
Proof. intros H. induction l as [|a l IH]; [reflexivity|]. cbn [find]. rewrite H, IH. reflexivity. Qed.

Lemma filter_false (f : pa -> bool) l : (forall c, f c = false) -> filter f l = [].
Proof. intros H. induction l as [|a l IH]; [reflexivity|]. cbn [filter]. rewrite H. exact IH. Qed.

Lemma filter_filter2 (f g : pa -> bool) l : filter f (filter g l) = filter (fun c => g c && f c) l.
Proof.
  induction l as [|a l IH]; [reflexivity|]. cbn [filter]. destruct (g a); cbn [filter andb]; [destruct (f a)|]; rewrite IH; reflexivity.
Qed.

Lemma kept_time_sorted all : time_sorted (keep_list [] (isort all)).
Proof. apply keep_list_time_sorted. apply sorted_time_sorted. apply isort_sorted. Qed.

Lemma sel_wl_level (Q Q' : pa -> bool) all :
  (forall c, Q c = true -> ns_level c = false) -> (forall c, Q c = Q' c) ->
  first_oldest (filter Q (keep_list [] (isort all))) = oldest (filter Q' all).
Proof.
  intros H1 H2. rewrite filter_keep_list_wl by exact H1.
  rewrite first_oldest_filter by (apply sorted_time_sorted, isort_sorted).
  rewrite find_isort. rewrite (my_filter_ext Q Q') by exact H2. reflexivity.
Qed.

Lemma sel_ns_level (Q Q' : pa -> bool) n all :
  (forall c, Q c = ns_level c && N.eqb (pa_ns c) n) -> (forall c, Q' c = ns_level c && N.eqb (pa_ns c) n) ->
  first_oldest (filter Q (keep_list [] (isort all))) = oldest (filter Q' all).
Proof.
  intros H1 H2. rewrite first_oldest_filter by apply kept_time_sorted.
  rewrite (my_find_ext Q _ _ H1). rewrite find_keep_list_ns. cbn [memN].
  rewrite find_isort. rewrite (my_filter_ext Q' _ _ H2). reflexivity.
Qed.

Lemma ns_level_selects c labels : ns_level c = true -> selects c labels = true.
Proof.
  unfold ns_level, selects. destruct (pa_sel c) as [|[|kv ls]]; cbn; intros; [reflexivity|reflexivity|discriminate].
Qed.

Ltac pointwise root wl_ns labels :=
  let c := fresh "c" in
  intros c; unfold lvl_mesh, lvl_ns, lvl_wl, mesh_level_for, namespace_level_for, workload_level_for;
  pose proof (ns_level_selects c labels);
  destruct (ns_level c) eqn:?, (selects c labels) eqn:?, (N.eqb (pa_ns c) wl_ns) eqn:?, (N.eqb (pa_ns c) root) eqn:?;
  cbn; try reflexivity; try discriminate; try tauto;
  repeat match goal with H : N.eqb _ _ = true |- _ => apply N.eqb_eq in H end;
  try congruence;
  try (match goal with H : true = true -> _ |- _ => specialize (H eq_refl); discriminate end).

Section Pipeline.
Variables (root wl_ns : N) (labels : list (N * N)) (all : list pa).
Let K := keep_list [] (isort all).
Let F (n : N) := filter (fun c => N.eqb (pa_ns c) n && selects c labels) K.

Lemma level_lists_distinct : root <> wl_ns ->
  first_oldest (filter (lvl_wl root) (F wl_ns ++ F root)) = oldest (filter (workload_level_for root wl_ns labels) all) /\
  first_oldest (filter (lvl_ns root) (F wl_ns ++ F root)) = oldest (filter (namespace_level_for root wl_ns) all) /\
  first_oldest (filter (lvl_mesh root) (F wl_ns ++ F root)) = oldest (filter (mesh_level_for root) all).
Proof.
  intros Hne. unfold F. rewrite !filter_app, !filter_filter2. repeat split.
  - rewrite (filter_false (fun c => N.eqb (pa_ns c) root && selects c labels && lvl_wl root c)), app_nil_r.
    + apply sel_wl_level; pointwise root wl_ns labels.
    + pointwise root wl_ns labels.
  - rewrite (filter_false (fun c => N.eqb (pa_ns c) root && selects c labels && lvl_ns root c)), app_nil_r.
    + apply (sel_ns_level _ _ wl_ns); pointwise root wl_ns labels.
    + pointwise root wl_ns labels.
  - rewrite (filter_false (fun c => N.eqb (pa_ns c) wl_ns && selects c labels && lvl_mesh root c)), app_nil_l.
    + apply (sel_ns_level _ _ root); pointwise root wl_ns labels.
    + pointwise root wl_ns labels.
Qed.

Lemma level_lists_same : root = wl_ns ->
  first_oldest (filter (lvl_wl root) (F wl_ns)) = oldest (filter (workload_level_for root wl_ns labels) all) /\
  first_oldest (filter (lvl_ns root) (F wl_ns)) = oldest (filter (namespace_level_for root wl_ns) all) /\
  first_oldest (filter (lvl_mesh root) (F wl_ns)) = oldest (filter (mesh_level_for root) all).
Proof.
  intros <-. unfold F. rewrite !filter_filter2. repeat split.
  - rewrite !filter_false; [reflexivity| |]; pointwise root root labels.
  - rewrite !filter_false; [reflexivity| |]; pointwise root root labels.
  - apply (sel_ns_level _ _ root); pointwise root root labels.
Qed.
End Pipeline.

Theorem sidecar_is_precedence : forall root all wl_ns labels svc_nss port,
  (forall n, In n svc_nss -> n = wl_ns \/ n = root) ->
  sidecar_mode root all wl_ns labels svc_nss port = effective_mode root all wl_ns labels port.
Proof.
  intros root all wl_ns labels svc_nss port Hsvc.
  unfold sidecar_mode. rewrite compose_is_list_precedence.
  unfold configs_for_workload. rewrite (dedup_local root wl_ns svc_nss Hsvc).
  rewrite kept_is_keep_list. unfold list_precedence, effective_mode.
  fold (lvl_wl root) (lvl_ns root) (lvl_mesh root).
  unfold dedup. cbn [dedup_aux memN]. rewrite orb_false_r.
  destruct (N.eqb root wl_ns) eqn:E; cbn [dedup_aux flat_map]; rewrite ?app_nil_r.
  - apply N.eqb_eq in E.
    destruct (level_lists_same root wl_ns labels all E) as (-> & -> & ->). reflexivity.
  - assert (root <> wl_ns) as Hne by (intros ->; rewrite N.eqb_refl in E; discriminate).
    destruct (level_lists_distinct root wl_ns labels all Hne) as (-> & -> & ->). reflexivity.
Qed.
