(* C10 — the namespace/mesh resolver (GetNamespaceMutualTLSMode, BestEffortInferServiceMTLSMode) against the
   specification. *)
From Coq Require Import List NArith ZArith Bool.
From V Require Import C10.Model C10.Proofs C10.ProofsSort.
Import ListNotations.

Definition P_ns (n : N) (c : pa) : bool := ns_level c && N.eqb (pa_ns c) n.

Lemma found_stable root n m l : forall st,
  assoc n (st_found st) = Some m -> memN n (st_seen st) = true ->
  assoc n (st_found (fold_left (add_step root) l st)) = Some m.
Proof.
  induction l as [|c l IH]; intros st Hf Hs; [exact Hf|].
  cbn [fold_left]. apply IH; unfold add_step;
    destruct (ns_level c); try assumption;
    destruct (memN (pa_ns c) (st_seen st)) eqn:M; try assumption; cbn [st_found st_seen].
  - destruct (N.eqb (pa_ns c) root); [exact Hf|]. cbn [assoc].
    destruct (N.eqb n (pa_ns c)) eqn:E; [|exact Hf].
    apply N.eqb_eq in E. subst n. congruence.
  - cbn [memN]. rewrite Hs. apply orb_true_r.
Qed.

Lemma found_fold root n l : n <> root -> forall st,
  assoc n (st_found st) = None ->
  assoc n (st_found (fold_left (add_step root) l st)) =
  if memN n (st_seen st) then None
  else match find (P_ns n) l with Some c => Some (pa_mtls c) | None => None end.
Proof.
  intros Hn. induction l as [|c l IH]; intros st Hf.
  - cbn. rewrite Hf. destruct (memN n (st_seen st)); reflexivity.
  - cbn [fold_left find]. unfold P_ns at 1. unfold add_step at 2.
    destruct (ns_level c) eqn:L; cbn [andb].
    + destruct (memN (pa_ns c) (st_seen st)) eqn:M.
      * rewrite IH by exact Hf. destruct (N.eqb (pa_ns c) n) eqn:E; [|reflexivity].
        apply N.eqb_eq in E. subst n. rewrite M. reflexivity.
      * destruct (N.eqb (pa_ns c) n) eqn:E.
        -- apply N.eqb_eq in E. subst n. rewrite M.
           apply found_stable; cbn [st_found st_seen].
           ++ assert (N.eqb (pa_ns c) root = false) as -> by (apply N.eqb_neq; exact Hn).
              cbn [assoc]. rewrite N.eqb_refl. reflexivity.
           ++ cbn [memN]. rewrite N.eqb_refl. reflexivity.
        -- rewrite IH; cbn [st_found st_seen].
           ++ cbn [memN]. rewrite N.eqb_sym, E. reflexivity.
           ++ destruct (N.eqb (pa_ns c) root); [exact Hf|]. cbn [assoc]. rewrite N.eqb_sym, E. exact Hf.
    + rewrite IH by exact Hf. reflexivity.
Qed.

Lemma found_root_none root l : forall st,
  assoc root (st_found st) = None -> assoc root (st_found (fold_left (add_step root) l st)) = None.
Proof.
  induction l as [|c l IH]; intros st Hf; [exact Hf|].
  cbn [fold_left]. apply IH. unfold add_step.
  destruct (ns_level c); [|exact Hf]. destruct (memN (pa_ns c) (st_seen st)); [exact Hf|]. cbn [st_found].
  destruct (N.eqb (pa_ns c) root) eqn:E; [exact Hf|]. cbn [assoc]. rewrite N.eqb_sym, E. exact Hf.
Qed.

Definition global_of (c : pa) : mode := if is_unset (pa_mtls c) then MPermissive else pa_mtls c.

Lemma global_fold root l : forall st,
  st_global (fold_left (add_step root) l st) =
  if memN root (st_seen st) then st_global st
  else match find (P_ns root) l with Some c => global_of c | None => st_global st end.
Proof.
  induction l as [|c l IH]; intros st.
  - cbn. destruct (memN root (st_seen st)); reflexivity.
  - cbn [fold_left find]. unfold P_ns at 1. rewrite IH. unfold add_step.
    destruct (ns_level c) eqn:L; cbn [andb].
    + destruct (memN (pa_ns c) (st_seen st)) eqn:M.
      * destruct (N.eqb (pa_ns c) root) eqn:E; [|reflexivity].
        apply N.eqb_eq in E. rewrite <- E, M. reflexivity.
      * cbn [st_seen st_global memN]. destruct (N.eqb (pa_ns c) root) eqn:E.
        -- apply N.eqb_eq in E. rewrite <- E, N.eqb_refl, M. reflexivity.
        -- rewrite N.eqb_sym, E. cbn [orb]. reflexivity.
    + cbn [st_seen st_global]. reflexivity.
Qed.

(* the namespace getter, in terms of the raw policy set *)
Lemma namespace_mode_spec root all n :
  get_namespace_mtls_mode (add_peer_authentication root all) n =
  let mesh := oldest (filter (mesh_level_for root) all) in
  let g := match mesh with Some c => global_of c | None => MUnset end in
  if N.eqb n root then g
  else match oldest (filter (namespace_level_for root n) all) with
       | Some c => if is_unset (pa_mtls c) then (if is_unset g then MPermissive else g) else pa_mtls c
       | None => g
       end.
Proof.
  unfold get_namespace_mtls_mode, add_peer_authentication.
  rewrite global_fold. cbn [ap_init st_seen st_global memN].
  rewrite find_isort.
  rewrite (my_filter_ext (P_ns root) (mesh_level_for root)) by (intros c; reflexivity).
  destruct (N.eqb n root) eqn:E.
  - apply N.eqb_eq in E. subst n. rewrite found_root_none by reflexivity. reflexivity.
  - assert (n <> root) as Hn by (intros ->; rewrite N.eqb_refl in E; discriminate).
    rewrite (found_fold root n (isort all) Hn ap_init eq_refl). cbn [ap_init st_seen memN].
    rewrite find_isort.
    rewrite (my_filter_ext (P_ns n) (namespace_level_for root n)).
    + destruct (oldest (filter (namespace_level_for root n) all)); reflexivity.
    + intros c. unfold P_ns, namespace_level_for.
      destruct (ns_level c), (N.eqb (pa_ns c) n) eqn:F; cbn; try reflexivity.
      apply N.eqb_eq in F. rewrite F, E. reflexivity.
Qed.

(* when no workload-selector policy applies to the workload, the namespace/mesh resolver used for client-side
   inference returns the effective mode of every port *)
Theorem namespace_resolver_is_precedence : forall root all wl_ns labels port,
  filter (workload_level_for root wl_ns labels) all = [] ->
  best_effort_infer (add_peer_authentication root all) wl_ns = effective_mode root all wl_ns labels port.
Proof.
  intros root all wl_ns labels port Hwl.
  unfold best_effort_infer. rewrite namespace_mode_spec. unfold effective_mode. rewrite Hwl.
  cbn [oldest port_mode set_mode or_else]. cbv zeta.
  destruct (N.eqb wl_ns root) eqn:E.
  - apply N.eqb_eq in E. subst wl_ns.
    rewrite (filter_false (namespace_level_for root root)).
    + cbn [oldest set_mode or_else]. unfold global_of.
      destruct (oldest (filter (mesh_level_for root) all)) as [c|]; cbn [set_mode or_else]; [|reflexivity].
      destruct (pa_mtls c); reflexivity.
    + intros c. unfold namespace_level_for. destruct (ns_level c), (N.eqb (pa_ns c) root); reflexivity.
  - unfold global_of.
    destruct (oldest (filter (namespace_level_for root wl_ns) all)) as [n|];
    destruct (oldest (filter (mesh_level_for root) all)) as [m|]; cbn [set_mode or_else];
    repeat match goal with |- context [pa_mtls ?x] => destruct (pa_mtls x) end; reflexivity.
Qed.
