(* Evaluation of harness cases for C10. *)
From V Require Export lib.Verdict C10.Model.

Definition mode_list_eqb := list_eqb (fun a b : N * mode => N.eqb (fst a) (fst b) && mode_eqb (snd a) (snd b)).
Definition key_eqb (a b : N * N) := N.eqb (fst a) (fst b) && N.eqb (snd a) (snd b).
Definition nb_list_eqb := list_eqb (fun a b : N * bool => N.eqb (fst a) (fst b) && Bool.eqb (snd a) (snd b)).

Definition chain_eqb (a b : chain) : bool :=
  Bool.eqb (c_tls_transport a) (c_tls_transport b) && Bool.eqb (c_http a) (c_http b) &&
  Bool.eqb (c_alpn a) (c_alpn b) && Bool.eqb (c_terminate a) (c_terminate b).
Definition chain_sock_eqb (a b : chain * option bool) : bool :=
  chain_eqb (fst a) (fst b) && option_eqb Bool.eqb (snd a) (snd b).

Definition nlist_eqb := list_eqb N.eqb.
Definition amatch_eqb (a b : amatch) : bool :=
  Bool.eqb (am_not_principal_presence a) (am_not_principal_presence b) &&
  nlist_eqb (am_dports a) (am_dports b) && nlist_eqb (am_not_dports a) (am_not_dports b).
Definition arule_eqb := list_eqb amatch_eqb.
Definition agroup_eqb := list_eqb arule_eqb.
Definition authz_eqb (a b : authz) : bool :=
  N.eqb (az_ns a) (az_ns b) && N.eqb (az_name a) (az_name b) && list_eqb agroup_eqb (az_groups a) (az_groups b).
Definition akeys_eqb (a b : akeys) : bool :=
  Bool.eqb (k_static a) (k_static b) && option_eqb key_eqb (k_policy a) (k_policy b).

(* what the ambient data plane does with the OBSERVED keys and policies *)
Definition observed_denies (ks : akeys) (static_exists : bool) (pols : list authz)
  (authenticated : bool) (port : N) : bool :=
  (k_static ks && static_exists && negb authenticated) ||
  match k_policy ks with
  | Some (ns, name) =>
      match find (fun z => N.eqb (az_ns z) ns && N.eqb (az_name z) name) pols with
      | Some z => authz_matches authenticated port z
      | None => false
      end
  | None => false
  end.

(* converted policies the model predicts for the whole policy set, in the order of [all] *)
Definition model_policies (root : N) (all : list pa) : list authz :=
  flat_map (fun c => match derived_policy root all c with Some z => [z] | None => [] end) all.

(* one step of a HISTORY: the policy set after the operation and, after the push it triggered: the server's inbound
   mode for the port (policy applier), its virtualInbound chains for the port, whether the client's CDS cluster
   carries the tlsMode=istio transport-socket match, whether the EDS endpoints carry tlsMode=istio metadata *)
Inductive hstep := HStep (all : list pa) (o_srv : mode) (o_chains : list (chain * option bool)) (o_cds o_eds : bool).

(* one probed destination port of a real virtualInbound listener: its listener protocol (HTTP / TCP service port,
   Auto for passthrough), whether the port has chains of its own, and the chains that serve it (its own, else the
   catch-all passthrough chains).  Port 0 is the catch-all itself. *)
Inductive lprobe := LProbe (port : N) (p : lproto) (dedicated : bool) (chains : list (chain * option bool)).

Inductive case :=
(* sidecar-side pipeline: initAuthenticationPolicies over [all]; for one workload:
   GetPeerAuthenticationsForWorkload keys (namespace, name), NewPolicyApplier(...).GetMutualTLSModeForPort
   on each probe port, PortLevelSetting (sorted), mtlsChecker.checkMtlsEnabled on each probe port,
   GetNamespaceMutualTLSMode(wl_ns), GetGlobalMutualTLSMode, BestEffortInferServiceMTLSMode(service in wl_ns) *)
| Pipeline (id : N) (root : N) (all : list pa) (wl_ns : N) (labels : list (N * N)) (svc_nss : list N)
    (probes : list N)
    (o_configs : list (N * N)) (o_modes : list (N * mode)) (o_perport : list (N * mode))
    (o_client : list (N * bool)) (o_ns_mode o_global o_infer : mode)
(* direct ComposePeerAuthentication on an arbitrary list (any order, ties) *)
| Compose (id : N) (root : N) (l : list pa) (o_mode : mode) (o_perport : list (N * mode))
(* getFilterChainMatchOptions + ToTransportSocket(BuildInboundTLS) *)
| Chains (id : N) (m : mode) (p : lproto) (o : list (chain * option bool))
(* direct convertPeerAuthentication *)
| Convert (id : N) (root : N) (cfg : pa) (nsc rootc : option pa) (o : option authz)
(* direct convertedSelectorPeerAuthentications *)
| Keys (id : N) (root : N) (l : list pa) (o : akeys)
(* PolicyCollections + buildWorkloadPolicies over static krt collections *)
| Ambient (id : N) (root : N) (all : list pa) (wl_ns : N) (labels : list (N * N)) (probes : list N)
    (o_keys : akeys) (o_static_exists : bool) (o_policies : list authz)
(* fake discovery server with warm xDS caches; HTTP service port *)
| History (id : N) (root wl_ns : N) (labels : list (N * N)) (port : N) (steps : list hstep)
(* BuildListeners for a server workload with service target ports [svc_ports] *)
| Listener (id : N) (root : N) (all : list pa) (wl_ns : N) (labels : list (N * N)) (svc_ports : list N)
    (probes : list lprobe).

Definition case_id c :=
  match c with
  | Pipeline id _ _ _ _ _ _ _ _ _ _ _ _ _ => id
  | Compose id _ _ _ _ => id
  | Chains id _ _ _ => id
  | Convert id _ _ _ _ _ => id
  | Keys id _ _ _ => id
  | Ambient id _ _ _ _ _ _ _ _ => id
  | History id _ _ _ _ _ => id
  | Listener id _ _ _ _ _ _ => id
  end.

Definition model_ok (c : case) : bool :=
  match c with
  | Pipeline _ root all wl_ns labels svc_nss probes o_configs o_modes o_perport o_client o_ns o_global o_infer =>
      let st := add_peer_authentication root all in
      let cfgs := configs_for_workload root (st_kept st) wl_ns labels svc_nss in
      let mg := compose root cfgs in
      list_eqb key_eqb (map (fun c => (pa_ns c, pa_name c)) cfgs) o_configs &&
      mode_list_eqb (map (fun p => (p, mode_for_port mg p)) probes) o_modes &&
      mode_list_eqb (m_ports mg) o_perport &&
      nb_list_eqb (map (fun p => (p, check_mtls_enabled root all wl_ns labels p)) probes) o_client &&
      mode_eqb (get_namespace_mtls_mode st wl_ns) o_ns &&
      mode_eqb (st_global st) o_global &&
      mode_eqb (best_effort_infer st wl_ns) o_infer
  | Compose _ root l o_mode o_perport =>
      let mg := compose root l in
      mode_eqb (m_mode mg) o_mode && mode_list_eqb (m_ports mg) o_perport
  | Chains _ m p o => list_eqb chain_sock_eqb (with_sockets m (chain_opts m p)) o
  | Convert _ root cfg nsc rootc o => option_eqb authz_eqb (convert_peer_authentication root cfg nsc rootc) o
  | Keys _ root l o => akeys_eqb (converted_selector_keys root l) o
  | Ambient _ root all wl_ns labels probes o_keys o_static o_pols =>
      akeys_eqb (converted_selector_keys root (fetch_peer_authentications root all wl_ns labels)) o_keys &&
      Bool.eqb (negb (match all with [] => true | _ => false end)) o_static &&
      list_eqb authz_eqb (model_policies root all) o_pols
  | History _ root wl_ns labels port steps =>
      forallb (fun st => match st with HStep all o_srv o_chains o_cds o_eds =>
        let m := sidecar_mode root all wl_ns labels [] port in
        mode_eqb m o_srv &&
        list_eqb chain_sock_eqb (with_sockets m (chain_opts m LHTTP)) o_chains &&
        (* CDS: cluster_tls.go buildUpstreamTLSSettings keeps auto mTLS unless the inferred service mode is DISABLE *)
        Bool.eqb (negb (mode_eqb (best_effort_infer (add_peer_authentication root all) wl_ns) MDisable)) o_cds &&
        (* EDS: mtls_checker.go checkMtlsEnabled *)
        Bool.eqb (check_mtls_enabled root all wl_ns labels port) o_eds end) steps
  | Listener _ root all wl_ns labels svc_ports probes =>
      let st := add_peer_authentication root all in
      let mg := compose root (configs_for_workload root (st_kept st) wl_ns labels []) in
      forallb (fun pr => match pr with LProbe port p dedicated chains =>
        let m := mode_for_port mg port in
        (* listener_inbound.go buildInboundListeners / buildInboundPassthroughChains + authn Builder.ForPassthrough:
           service target ports and every non-service port of PortLevelSetting() get chains of their own *)
        Bool.eqb dedicated (negb (N.eqb port 0) && (memN port svc_ports || is_some (assoc port (m_ports mg)))) &&
        list_eqb chain_sock_eqb (with_sockets m (chain_opts m p)) chains end) probes
  end.

(* no workload-level policy applies to the workload: the namespace resolver is then the whole story *)
Definition no_workload_policy (root : N) (all : list pa) (wl_ns : N) (labels : list (N * N)) : bool :=
  match filter (workload_level_for root wl_ns labels) all with [] => true | _ => false end.

(* service namespaces other than the workload's own / the root namespace are outside the stated
   property (a Kubernetes service selects workloads of its own namespace only) *)
Definition svc_local (root wl_ns : N) (svc_nss : list N) : bool :=
  forallb (fun n => N.eqb n wl_ns || N.eqb n root) svc_nss.

(* property oracle on the observed behaviour *)
Definition prop_ok (c : case) : bool :=
  match c with
  | Pipeline _ root all wl_ns labels svc_nss probes _ o_modes _ o_client _ _ o_infer =>
      negb (svc_local root wl_ns svc_nss) ||
      (* the sidecar inbound mode is the precedence mode on every probed port *)
      (mode_list_eqb (map (fun p => (p, effective_mode root all wl_ns labels p)) probes) o_modes &&
       (* client-side auto mTLS uses the same mode: it sends mTLS iff the mode is not DISABLE *)
       nb_list_eqb (map (fun p => (p, negb (mode_eqb (effective_mode root all wl_ns labels p) MDisable))) probes) o_client &&
       (* the namespace/mesh resolver agrees on every port no workload policy speaks about *)
       (negb (no_workload_policy root all wl_ns labels) ||
        forallb (fun p => mode_eqb (effective_mode root all wl_ns labels p) o_infer) probes))
  | Compose _ _ _ _ _ => true
  | Chains _ m _ o => enforces m o
  | Convert _ _ _ _ _ _ => true
  | Keys _ _ _ _ => true
  | Ambient _ root all wl_ns labels probes o_keys o_static o_pols =>
      forallb (fun p =>
        (* unauthenticated peers are rejected exactly on STRICT ports ... *)
        Bool.eqb (observed_denies o_keys o_static o_pols false p)
                 (mode_eqb (effective_mode root all wl_ns labels p) MStrict) &&
        (* ... and an authenticated peer is never rejected by the converted policies *)
        negb (observed_denies o_keys o_static o_pols true p)) probes
  | History _ root wl_ns labels port steps =>
      forallb (fun st => match st with HStep all o_srv o_chains o_cds o_eds =>
        (* after every push: the server's inbound mode is the effective mode, its chains enforce it ... *)
        mode_eqb (effective_mode root all wl_ns labels port) o_srv && enforces o_srv o_chains &&
        (* ... and the client (mTLS iff cluster match AND endpoint metadata) is compatible with it: a STRICT server is
           sent mutual TLS, a DISABLE server plaintext (a PERMISSIVE server accepts both) *)
        let client_mtls := o_cds && o_eds in
        match o_srv with
        | MStrict => client_mtls
        | MDisable | MUnset => negb client_mtls
        | MPermissive => true
        end end) steps
  | Listener _ root all wl_ns labels _ probes =>
      (* the chains serving each probed port enforce that port's effective mode: plaintext accepted iff not STRICT,
         mutual TLS terminated iff not DISABLE *)
      forallb (fun pr => match pr with LProbe port _ _ chains =>
        enforces (effective_mode root all wl_ns labels port) chains end) probes
  end.

Definition mismatches := check_all case_id model_ok prop_ok.
