(* C10 — the ambient conversion against the precedence specification. *)
From Coq Require Import List NArith ZArith Bool.
From V Require Import C10.Model.
Import ListNotations.

(* ------------------------------------------------------------------ refutations (confirmed against /repo by the harness) *)

Definition w_lbl : list (N * N) := [(0, 0)]%N.
Definition mk_root (m : mode) : pa :=
  {| pa_name := 3; pa_ns := 0; pa_time := 100; pa_sel := SelNil; pa_mtls := m; pa_ports := [] |}.
Definition mk_ns (m : mode) : pa :=
  {| pa_name := 2; pa_ns := 1; pa_time := 200; pa_sel := SelNil; pa_mtls := m; pa_ports := [] |}.
Definition mk_wl (m : mode) (ports : list (N * mode)) : pa :=
  {| pa_name := 1; pa_ns := 1; pa_time := 300; pa_sel := SelLabels w_lbl; pa_mtls := m; pa_ports := ports |}.

(* former K2 (repaired in /repo 06bf447): mesh STRICT + workload PERMISSIVE + port 8080 STRICT now yields the
   DENY rule for 8080 and the port rejects plaintext *)
Definition k2_world : list pa := [mk_root MStrict; mk_wl MPermissive [(8080%N, MStrict)]].
Lemma k2_repaired :
  (exists z, convert_peer_authentication 0 (mk_wl MPermissive [(8080%N, MStrict)]) None (Some (mk_root MStrict)) = Some z /\
             authz_matches false 8080 z = true /\ authz_matches false 80 z = false) /\
  effective_mode 0 k2_world 1 w_lbl 8080 = MStrict /\ ambient_denies 0 k2_world 1 w_lbl false 8080 = true /\
  ambient_denies 0 k2_world 1 w_lbl false 80 = false.
Proof. split; [eexists; split; [reflexivity|split; reflexivity]|repeat split; reflexivity]. Qed.

(* former finding C10-disable-port-under-strict-parent (repaired in /repo 24c83bf): mesh STRICT + workload UNSET +
   port 8080 DISABLE: 8080 now accepts plaintext, every other port rejects it *)
Definition dis_world : list pa := [mk_root MStrict; mk_wl MUnset [(8080%N, MDisable)]].
Lemma dis_repaired :
  effective_mode 0 dis_world 1 w_lbl 8080 = MDisable /\ ambient_denies 0 dis_world 1 w_lbl false 8080 = false /\
  effective_mode 0 dis_world 1 w_lbl 80 = MStrict /\ ambient_denies 0 dis_world 1 w_lbl false 80 = true.
Proof. repeat split; reflexivity. Qed.

(* former finding C10-unset-ns-policy-masks-mesh-strict (repaired in /repo 45faab8): mesh STRICT + namespace policy
   with UNSET mode + workload UNSET + port 8080 PERMISSIVE: every port but 8080 rejects plaintext *)
Definition unsetns_world : list pa := [mk_root MStrict; mk_ns MUnset; mk_wl MUnset [(8080%N, MPermissive)]].
Lemma unsetns_repaired :
  effective_mode 0 unsetns_world 1 w_lbl 80 = MStrict /\ ambient_denies 0 unsetns_world 1 w_lbl false 80 = true /\
  effective_mode 0 unsetns_world 1 w_lbl 8080 = MPermissive /\ ambient_denies 0 unsetns_world 1 w_lbl false 8080 = false.
Proof. repeat split; reflexivity. Qed.

(* K9: namespace policy STRICT spelled "selector: {}" + workload UNSET + port 8080 PERMISSIVE: nothing is enforced *)
Definition k9_world : list pa :=
  [ {| pa_name := 2; pa_ns := 1; pa_time := 200; pa_sel := SelLabels []; pa_mtls := MStrict; pa_ports := [] |};
    mk_wl MUnset [(8080%N, MPermissive)] ].
Lemma k9_refutes :
  effective_mode 0 k9_world 1 w_lbl 80 = MStrict /\ ambient_denies 0 k9_world 1 w_lbl false 80 = false.
Proof. split; reflexivity. Qed.

Lemma ambient_strict_ports_refuted :
  exists root all wl_ns labels port,
    ambient_denies root all wl_ns labels false port <>
    mode_eqb (effective_mode root all wl_ns labels port) MStrict.
Proof. exists 0%N, k9_world, 1%N, w_lbl, 80%N. vm_compute. discriminate. Qed.

(* ------------------------------------------------------------------ what does hold, on a bounded domain *)

Definition opt_modes : list (option mode) := [None; Some MUnset; Some MDisable; Some MPermissive; Some MStrict].
Definition modes : list mode := [MUnset; MDisable; MPermissive; MStrict].

(* every map over the port keys [keys] (each key absent or bound to one of the four modes), keys ascending *)
Fixpoint port_maps (keys : list N) : list (list (N * mode)) :=
  match keys with
  | [] => [[]]
  | k :: ks =>
      let rest := port_maps ks in
      rest ++ flat_map (fun m => map (fun r => (k, m) :: r) rest) modes
  end.

Definition bound_keys : list N := [80; 443; 8080]%N.
Definition bound_probes : list N := [80; 443; 8080; 7777]%N.

Definition world3 (rm nm : option mode) (wm : mode) (ports : list (N * mode)) : list pa :=
  match rm with Some m => [mk_root m] | None => [] end ++
  match nm with Some m => [mk_ns m] | None => [] end ++ [mk_wl wm ports].

Definition omode (o : option mode) : mode := match o with Some m => m | None => MUnset end.

Definition ambient_agrees (rm nm : option mode) (wm : mode) (ports : list (N * mode)) (port : N) : bool :=
  let all := world3 rm nm wm ports in
  Bool.eqb (ambient_denies 0 all 1 w_lbl false port) (mode_eqb (effective_mode 0 all 1 w_lbl port) MStrict) &&
  negb (ambient_denies 0 all 1 w_lbl true port).

Definition bounded_check : bool :=
  forallb (fun rm => forallb (fun nm => forallb (fun wm => forallb (fun ports =>
    forallb (ambient_agrees rm nm wm ports) bound_probes)
    (port_maps bound_keys)) modes) opt_modes) opt_modes.

Lemma bounded_check_true : bounded_check = true.
Proof. vm_compute. reflexivity. Qed.

Lemma ambient_strict_ports_bounded : forall rm nm wm ports port,
  In rm opt_modes -> In nm opt_modes -> In ports (port_maps bound_keys) -> In port bound_probes ->
  ambient_denies 0 (world3 rm nm wm ports) 1 w_lbl false port =
    mode_eqb (effective_mode 0 (world3 rm nm wm ports) 1 w_lbl port) MStrict /\
  ambient_denies 0 (world3 rm nm wm ports) 1 w_lbl true port = false.
Proof.
  intros rm nm wm ports port Hrm Hnm Hports Hport.
  pose proof bounded_check_true as H. unfold bounded_check in H.
  rewrite forallb_forall in H. specialize (H rm Hrm).
  rewrite forallb_forall in H. specialize (H nm Hnm).
  rewrite forallb_forall in H.
  assert (In wm modes) as Hwm by (destruct wm; cbn; auto).
  specialize (H wm Hwm).
  rewrite forallb_forall in H. specialize (H ports Hports).
  rewrite forallb_forall in H. specialize (H port Hport).
  unfold ambient_agrees in H. apply andb_true_iff in H. destruct H as [H1 H2].
  apply eqb_prop in H1. apply negb_true_iff in H2. split; assumption.
Qed.
