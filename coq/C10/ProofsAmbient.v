(* C10 — the ambient conversion against the precedence specification. *)
From Coq Require Import List NArith ZArith Bool.
From V Require Import C10.Model.
Import ListNotations.

(* ------------------------------------------------------------------ refutations (confirmed against /repo by the harness) *)

Definition w_lbl : list (N * N) := [(0, 0)]%N.
Definition mk_root (m : mode) : pa :=
  {| pa_name := 3; pa_ns := 0; pa_time := 100; pa_sel := SelNil; pa_mtls := m; pa_ports := [] |}.
Definition mk_ns (m : mode) : pa :=
  {| pa_name := 2; pa_ns := 1; pa_time := 200; pa_sel := SelNil; pa_mtls := m; pa_ports := [] |}.
Definition mk_wl (m : mode) (ports : list (N * mode)) : pa :=
  {| pa_name := 1; pa_ns := 1; pa_time := 300; pa_sel := SelLabels w_lbl; pa_mtls := m; pa_ports := ports |}.

(* former K2 (repaired in /repo 06bf447): mesh STRICT + workload PERMISSIVE + port 8080 STRICT now yields the
   DENY rule for 8080 and the port rejects plaintext *)
Definition k2_world : list pa := [mk_root MStrict; mk_wl MPermissive [(8080%N, MStrict)]].
Lemma k2_repaired :
  (exists z, convert_peer_authentication 0 (mk_wl MPermissive [(8080%N, MStrict)]) None (Some (mk_root MStrict)) = Some z /\
             authz_matches false 8080 z = true /\ authz_matches false 80 z = false) /\
  effective_mode 0 k2_world 1 w_lbl 8080 = MStrict /\ ambient_denies 0 k2_world 1 w_lbl false 8080 = true /\
  ambient_denies 0 k2_world 1 w_lbl false 80 = false.
Proof. split; [eexists; split; [reflexivity|split; reflexivity]|repeat split; reflexivity]. Qed.

(* mesh STRICT + workload UNSET + port 8080 DISABLE: the static strict policy stays attached, 8080 rejects plaintext *)
Definition dis_world : list pa := [mk_root MStrict; mk_wl MUnset [(8080%N, MDisable)]].
Lemma dis_refutes :
  effective_mode 0 dis_world 1 w_lbl 8080 = MDisable /\ ambient_denies 0 dis_world 1 w_lbl false 8080 = true.
Proof. split; reflexivity. Qed.

(* mesh STRICT + namespace policy with UNSET mode + workload UNSET + port 8080 PERMISSIVE: nothing is enforced *)
Definition unsetns_world : list pa := [mk_root MStrict; mk_ns MUnset; mk_wl MUnset [(8080%N, MPermissive)]].
Lemma unsetns_refutes :
  effective_mode 0 unsetns_world 1 w_lbl 80 = MStrict /\ ambient_denies 0 unsetns_world 1 w_lbl false 80 = false.
Proof. split; reflexivity. Qed.

(* K9: namespace policy STRICT spelled "selector: {}" + workload UNSET + port 8080 PERMISSIVE: nothing is enforced *)
Definition k9_world : list pa :=
  [ {| pa_name := 2; pa_ns := 1; pa_time := 200; pa_sel := SelLabels []; pa_mtls := MStrict; pa_ports := [] |};
    mk_wl MUnset [(8080%N, MPermissive)] ].
Lemma k9_refutes :
  effective_mode 0 k9_world 1 w_lbl 80 = MStrict /\ ambient_denies 0 k9_world 1 w_lbl false 80 = false.
Proof. split; reflexivity. Qed.

Lemma ambient_strict_ports_refuted :
  exists root all wl_ns labels port,
    ambient_denies root all wl_ns labels false port <>
    mode_eqb (effective_mode root all wl_ns labels port) MStrict.
Proof. exists 0%N, unsetns_world, 1%N, w_lbl, 80%N. vm_compute. discriminate. Qed.

(* ------------------------------------------------------------------ what does hold, on a bounded domain *)

Definition opt_modes : list (option mode) := [None; Some MUnset; Some MDisable; Some MPermissive; Some MStrict].
Definition modes : list mode := [MUnset; MDisable; MPermissive; MStrict].

(* every map over the port keys [keys] (each key absent or bound to one of the four modes), keys ascending *)
Fixpoint port_maps (keys : list N) : list (list (N * mode)) :=
  match keys with
  | [] => [[]]
  | k :: ks =>
      let rest := port_maps ks in
      rest ++ flat_map (fun m => map (fun r => (k, m) :: r) rest) modes
  end.

Definition bound_keys : list N := [80; 443; 8080]%N.
Definition bound_probes : list N := [80; 443; 8080; 7777]%N.

Definition world3 (rm nm : option mode) (wm : mode) (ports : list (N * mode)) : list pa :=
  match rm with Some m => [mk_root m] | None => [] end ++
  match nm with Some m => [mk_ns m] | None => [] end ++ [mk_wl wm ports].

Definition omode (o : option mode) : mode := match o with Some m => m | None => MUnset end.

(* the confirmed defects, as conditions on the winning (mesh, namespace, workload) policies *)
Definition has_mode (f : mode -> bool) (ports : list (N * mode)) : bool := existsb (fun pm => f (snd pm)) ports.
Definition parent_mode (rm nm : option mode) : mode :=
  if is_unset (omode nm) then (if is_unset (omode rm) then MPermissive else omode rm) else omode nm.
Definition defect_disable_port (rm nm : option mode) (wm : mode) (ports : list (N * mode)) : bool :=
  is_unset wm && is_strict (parent_mode rm nm) && has_mode is_disable ports && negb (has_mode is_permissive ports).
Definition defect_unset_ns (rm nm : option mode) (wm : mode) (ports : list (N * mode)) : bool :=
  is_unset wm && (match nm with Some MUnset => true | _ => false end) && is_strict (omode rm) &&
  has_mode is_permissive ports.
Definition defect (rm nm : option mode) (wm : mode) (ports : list (N * mode)) : bool :=
  defect_disable_port rm nm wm ports || defect_unset_ns rm nm wm ports.

Definition ambient_agrees (rm nm : option mode) (wm : mode) (ports : list (N * mode)) (port : N) : bool :=
  let all := world3 rm nm wm ports in
  Bool.eqb (ambient_denies 0 all 1 w_lbl false port) (mode_eqb (effective_mode 0 all 1 w_lbl port) MStrict) &&
  negb (ambient_denies 0 all 1 w_lbl true port).

Definition bounded_check : bool :=
  forallb (fun rm => forallb (fun nm => forallb (fun wm => forallb (fun ports =>
    defect rm nm wm ports || forallb (ambient_agrees rm nm wm ports) bound_probes)
    (port_maps bound_keys)) modes) opt_modes) opt_modes.

Lemma bounded_check_true : bounded_check = true.
Proof. vm_compute. reflexivity. Qed.

(* ... and inside the defect conditions the disagreement is real for some port (the conditions are tight
   on this domain except where the exception happens to coincide with the parent mode) *)

Lemma ambient_strict_ports_bounded : forall rm nm wm ports port,
  In rm opt_modes -> In nm opt_modes -> In ports (port_maps bound_keys) -> In port bound_probes ->
  defect rm nm wm ports = false ->
  ambient_denies 0 (world3 rm nm wm ports) 1 w_lbl false port =
    mode_eqb (effective_mode 0 (world3 rm nm wm ports) 1 w_lbl port) MStrict /\
  ambient_denies 0 (world3 rm nm wm ports) 1 w_lbl true port = false.
Proof.
  intros rm nm wm ports port Hrm Hnm Hports Hport Hdef.
  pose proof bounded_check_true as H. unfold bounded_check in H.
  rewrite forallb_forall in H. specialize (H rm Hrm).
  rewrite forallb_forall in H. specialize (H nm Hnm).
  rewrite forallb_forall in H.
  assert (In wm modes) as Hwm by (destruct wm; cbn; auto).
  specialize (H wm Hwm).
  rewrite forallb_forall in H. specialize (H ports Hports).
  rewrite Hdef in H. cbn [orb] in H.
  rewrite forallb_forall in H. specialize (H port Hport).
  unfold ambient_agrees in H. apply andb_true_iff in H. destruct H as [H1 H2].
  apply eqb_prop in H1. apply negb_true_iff in H2. split; assumption.
Qed.
