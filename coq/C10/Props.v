(* C10 property theorems only. *)
From Coq Require Import List NArith ZArith Bool.
From V Require Import lib.Verdict C10.Model C10.Proofs C10.ProofsSort C10.ProofsNs C10.ProofsAmbient C10.ProofsAmbientSingle C10.ProofsAmbientAll.

(* ComposePeerAuthentication followed by GetMutualTLSModeForPort is the precedence rule, for every list of
   policies and every port: port-level entry of the winning workload policy, else that policy's mode, else the
   winning namespace policy's, else the winning mesh policy's, else PERMISSIVE; UNSET inherits; within a level
   the smallest creation time wins (leftmost on ties). *)
Theorem C10_compose_is_precedence : forall root l port,
  mode_for_port (compose root l) port = list_precedence root l port.
Proof. exact compose_is_list_precedence. Qed.
Print Assumptions C10_compose_is_precedence.

(* The selection loop shared by ComposePeerAuthentication, convertedSelectorPeerAuthentications and
   getOldestPeerAuthn picks, per level, the leftmost policy of minimal creation time. *)
Theorem C10_selection_is_oldest : forall root l,
  compose_select root l =
  {| s_mesh := first_oldest (filter (lvl_mesh root) l);
     s_ns := first_oldest (filter (lvl_ns root) l);
     s_wl := first_oldest (filter (lvl_wl root) l) |}.
Proof. exact compose_select_spec. Qed.
Print Assumptions C10_selection_is_oldest.

(* The sidecar inbound resolver over the whole pipeline — initAuthenticationPolicies (sort by creation time, name,
   namespace; one namespace-/mesh-level policy kept per namespace), getConfigsForWorkload, ComposePeerAuthentication,
   GetMutualTLSModeForPort — returns the effective mode of the specification for every policy set (any order,
   any ties), workload and port: port-level over workload-selector over namespace over mesh, the
   (creation time, name, namespace)-oldest applicable policy winning within a level, UNSET inheriting, default
   PERMISSIVE.  Services passed by the caller must be of the workload's own or the root namespace. *)
Theorem C10_sidecar_is_precedence : forall root all wl_ns labels svc_nss port,
  (forall n, In n svc_nss -> n = wl_ns \/ n = root) ->
  sidecar_mode root all wl_ns labels svc_nss port = effective_mode root all wl_ns labels port.
Proof. exact sidecar_is_precedence. Qed.
Print Assumptions C10_sidecar_is_precedence.

(* ... hence the client-side resolver (mtls_checker) computes the same effective mode *)
Theorem C10_client_is_precedence : forall root all ns labels port,
  client_mode root all ns labels port = effective_mode root all ns labels port /\
  (check_mtls_enabled root all ns labels port = true <-> effective_mode root all ns labels port <> MDisable).
Proof.
  intros. assert (client_mode root all ns labels port = effective_mode root all ns labels port) as H
    by (unfold client_mode; apply sidecar_is_precedence; intros ? []).
  split; [exact H|]. rewrite <- H. apply check_mtls_enabled_iff.
Qed.
Print Assumptions C10_client_is_precedence.

(* Sidecar inbound listeners and client-side automatic mTLS use the same mode on every port (services of the
   workload's own or the root namespace do not change the lookup), and the client sends mTLS iff that mode is
   not DISABLE. *)
Theorem C10_resolvers_agree : forall root all wl_ns labels svc_nss port,
  (forall n, In n svc_nss -> n = wl_ns \/ n = root) ->
  sidecar_mode root all wl_ns labels svc_nss port = client_mode root all wl_ns labels port /\
  (check_mtls_enabled root all wl_ns labels port = true <->
   sidecar_mode root all wl_ns labels svc_nss port <> MDisable).
Proof.
  intros. split; [apply sidecar_client_agree; assumption|].
  rewrite (sidecar_client_agree root all wl_ns labels svc_nss port) by assumption.
  apply check_mtls_enabled_iff.
Qed.
Print Assumptions C10_resolvers_agree.

(* The namespace/mesh resolver (GetNamespaceMutualTLSMode behind BestEffortInferServiceMTLSMode, used for the
   client-side hint) returns the effective mode of every port of a workload that no workload-selector policy
   applies to. *)
Theorem C10_namespace_resolver_agrees : forall root all wl_ns labels port,
  filter (workload_level_for root wl_ns labels) all = [] ->
  best_effort_infer (add_peer_authentication root all) wl_ns = effective_mode root all wl_ns labels port.
Proof. exact namespace_resolver_is_precedence. Qed.
Print Assumptions C10_namespace_resolver_agrees.

(* The generated inbound chain set enforces the mode, for every mode and port protocol. *)
Theorem C10_chains_enforce : forall m p, chains_enforce m p = true.
Proof. exact chains_enforce_all. Qed.
Print Assumptions C10_chains_enforce.

(* STRICT: every chain matches transport_protocol "tls" and terminates TLS with require_client_certificate. *)
Theorem C10_strict_only_mtls : forall p c,
  In c (with_sockets MStrict (chain_opts MStrict p)) ->
  c_tls_transport (fst c) = true /\ snd c = Some true.
Proof. exact strict_only_mtls. Qed.
Print Assumptions C10_strict_only_mtls.

(* DISABLE: no chain terminates TLS and none matches "tls". *)
Theorem C10_disable_no_tls : forall p c,
  In c (with_sockets MDisable (chain_opts MDisable p)) -> snd c = None /\ c_tls_transport (fst c) = false.
Proof. exact disable_no_tls. Qed.
Print Assumptions C10_disable_no_tls.

(* PERMISSIVE: a plaintext chain and a mutual-TLS chain both exist. *)
Theorem C10_permissive_both : forall p,
  (exists c, In c (with_sockets MPermissive (chain_opts MPermissive p)) /\
             c_tls_transport (fst c) = false /\ snd c = None) /\
  (exists c, In c (with_sockets MPermissive (chain_opts MPermissive p)) /\
             c_tls_transport (fst c) = true /\ snd c = Some true).
Proof. exact permissive_both. Qed.
Print Assumptions C10_permissive_both.

(* Full statement for ambient — "the converted policies reject unauthenticated peers on exactly the STRICT
   ports" — is FALSE of the faithful model (and of /repo: the harness runs the K9 witness against the real
   PolicyCollections / buildWorkloadPolicies). *)
Theorem C10_ambient_strict_ports_refuted :
  exists root all wl_ns labels port,
    ambient_denies root all wl_ns labels false port <>
    mode_eqb (effective_mode root all wl_ns labels port) MStrict.
Proof. exact ambient_strict_ports_refuted. Qed.
Print Assumptions C10_ambient_strict_ports_refuted.

(* former finding K2, repaired by /repo 06bf447: the witness now behaves as the property says *)
Theorem C10_ambient_K2_repaired :
  effective_mode 0 k2_world 1 w_lbl 8080 = MStrict /\ ambient_denies 0 k2_world 1 w_lbl false 8080 = true /\
  ambient_denies 0 k2_world 1 w_lbl false 80 = false.
Proof. exact (proj2 k2_repaired). Qed.
Print Assumptions C10_ambient_K2_repaired.

(* former findings, repaired by /repo 24c83bf and 45faab8: the witnesses now behave as the property says *)
Theorem C10_ambient_disable_port_repaired :
  effective_mode 0 dis_world 1 w_lbl 8080 = MDisable /\ ambient_denies 0 dis_world 1 w_lbl false 8080 = false /\
  effective_mode 0 dis_world 1 w_lbl 80 = MStrict /\ ambient_denies 0 dis_world 1 w_lbl false 80 = true.
Proof. exact dis_repaired. Qed.
Print Assumptions C10_ambient_disable_port_repaired.

Theorem C10_ambient_unset_ns_repaired :
  effective_mode 0 unsetns_world 1 w_lbl 80 = MStrict /\ ambient_denies 0 unsetns_world 1 w_lbl false 80 = true /\
  effective_mode 0 unsetns_world 1 w_lbl 8080 = MPermissive /\ ambient_denies 0 unsetns_world 1 w_lbl false 8080 = false.
Proof. exact unsetns_repaired. Qed.
Print Assumptions C10_ambient_unset_ns_repaired.

(* the remaining confirmed defect (K9), with its minimal witness *)
Theorem C10_ambient_K9_refuted :
  effective_mode 0 k9_world 1 w_lbl 80 = MStrict /\ ambient_denies 0 k9_world 1 w_lbl false 80 = false.
Proof. exact k9_refutes. Qed.
Print Assumptions C10_ambient_K9_refuted.

(* Ambient, for ALL policy sets outside the K9 condition: if every selector is nil or non-empty (no
   "selector: {}"), creation times are pairwise distinct (the ambient code breaks ties by krt iteration order),
   (namespace, name) keys are unique and port maps have unique keys (Go maps), then for every workload, peer and
   port the policies attached by buildWorkloadPolicies / sent by PolicyCollections reject the connection iff the
   peer is unauthenticated and the effective mode of the port is STRICT.  PARTIAL only in that K9 is excluded by
   the first hypothesis (C10_ambient_K9_refuted shows it cannot be dropped). *)
Theorem C10_ambient_strict_ports_partial : forall root all wl_ns labels authenticated port,
  (forall c, In c all -> ns_level c = sel_nil c) ->
  NoDup (map pa_time all) ->
  NoDup (map pkey all) ->
  (forall c, In c all -> NoDup (map fst (pa_ports c))) ->
  ambient_denies root all wl_ns labels authenticated port =
  negb authenticated && mode_eqb (effective_mode root all wl_ns labels port) MStrict.
Proof. exact ambient_strict_ports_all. Qed.
Print Assumptions C10_ambient_strict_ports_partial.

(* the converter and the attachment rule on the winning policies alone: any port map, any port, any records *)
Theorem C10_ambient_winners_enforce : forall root rootc nsc w authenticated port,
  N.eqb (pa_ns w) root = false -> sel_nil w = false -> NoDup (map fst (pa_ports w)) ->
  ambient_single root rootc nsc w authenticated port =
  negb authenticated && mode_eqb (effective3 rootc nsc w port) MStrict.
Proof. exact ambient_single_correct. Qed.
Print Assumptions C10_ambient_winners_enforce.

(* an independent exhaustive evaluation on a bounded domain (12500 worlds x 4 ports, vm_compute) *)
Theorem C10_ambient_strict_ports_bounded : forall rm nm wm ports port,
  In rm opt_modes -> In nm opt_modes -> In ports (port_maps bound_keys) -> In port bound_probes ->
  ambient_denies 0 (world3 rm nm wm ports) 1 w_lbl false port =
    mode_eqb (effective_mode 0 (world3 rm nm wm ports) 1 w_lbl port) MStrict /\
  ambient_denies 0 (world3 rm nm wm ports) 1 w_lbl true port = false.
Proof. exact ambient_strict_ports_bounded. Qed.
Print Assumptions C10_ambient_strict_ports_bounded.

(* non-vacuity: a STRICT and a non-STRICT outcome in one world (which satisfies the hypotheses of the general
   theorem: nil/non-empty selectors, distinct times, unique keys) *)
Example C10_partial_nonvacuous :
  In [(8080%N, MPermissive)] (port_maps bound_keys) /\
  ambient_denies 0 (world3 (Some MStrict) None MUnset [(8080%N, MPermissive)]) 1 w_lbl false 80 = true /\
  ambient_denies 0 (world3 (Some MStrict) None MUnset [(8080%N, MPermissive)]) 1 w_lbl false 8080 = false.
Proof. vm_compute. intuition. Qed.

Example C10_precedence_example :
  (* mesh STRICT, namespace PERMISSIVE, workload UNSET with 8080: DISABLE and 9090: UNSET *)
  let l := [mk_wl MUnset [(8080%N, MDisable); (9090%N, MUnset)]; mk_ns MPermissive; mk_root MStrict] in
  mode_for_port (compose 0 l) 8080 = MDisable /\ mode_for_port (compose 0 l) 9090 = MPermissive /\
  mode_for_port (compose 0 l) 80 = MPermissive /\ effective_mode 0 l 1 w_lbl 9090 = MPermissive.
Proof. vm_compute. intuition. Qed.

(* the hypotheses of C10_ambient_strict_ports_partial are satisfiable (here by a world with both outcomes) *)
Example C10_ambient_hypotheses_satisfiable :
  let all := world3 (Some MStrict) None MUnset [(8080%N, MPermissive)] in
  (forall c, In c all -> ns_level c = sel_nil c) /\ NoDup (map pa_time all) /\ NoDup (map pkey all) /\
  (forall c, In c all -> NoDup (map fst (pa_ports c))) /\
  ambient_denies 0 all 1 w_lbl false 80 = true /\ ambient_denies 0 all 1 w_lbl false 8080 = false.
Proof.
  cbn. repeat split.
  - intros c [<-|[<-|[]]]; reflexivity.
  - repeat constructor; cbn; intuition discriminate.
  - repeat constructor; cbn; intuition discriminate.
  - intros c [<-|[<-|[]]]; cbn; repeat constructor; cbn; intuition.
Qed.
