(* C10 — the ambient converter: closed form of the port loop of convertPeerAuthentication and evaluation of the
   policies it emits under the node-proxy reference semantics. *)
From Coq Require Import List NArith ZArith Bool.
From V Require Import C10.Model C10.Proofs.
Import ListNotations.

Definition is_nil {A} (l : list A) : bool := match l with [] => true | _ => false end.
Definition nonstrict (m : mode) : bool := is_permissive m || is_disable m.
Definition strict_ports (ports : list (N * mode)) : list N := map fst (filter (fun pm => is_strict (snd pm)) ports).
Definition exempt_ports (ports : list (N * mode)) : list N := map fst (filter (fun pm => nonstrict (snd pm)) ports).

Lemma conv_fold mw nsc rootc ports : forall st,
  fold_left (conv_step mw nsc rootc) ports st =
  {| cv_rules := cv_rules st ++
       (if skip_nonstrict_port mw nsc rootc then [] else map (fun p => [m_not_port p]) (exempt_ports ports));
     cv_groups := cv_groups st ++
       (if skip_strict_port mw nsc rootc then [] else map (fun p => [[m_unauth_port p]]) (strict_ports ports));
     cv_found := cv_found st ||
       (if skip_nonstrict_port mw nsc rootc then false else negb (is_nil (exempt_ports ports))) |}.
Proof.
  induction ports as [|[k v] ports IH]; intros [r g f].
  - destruct (skip_nonstrict_port mw nsc rootc), (skip_strict_port mw nsc rootc);
      cbn; rewrite !app_nil_r, orb_false_r; reflexivity.
  - cbn [fold_left]. rewrite IH. unfold conv_step, strict_ports, exempt_ports.
    destruct v; cbn [filter snd is_strict nonstrict is_permissive is_disable mode_eqb orb map fst];
    destruct (skip_nonstrict_port mw nsc rootc), (skip_strict_port mw nsc rootc);
    cbn [cv_rules cv_groups cv_found is_nil negb]; rewrite <- ?app_assoc, ?orb_true_r, ?orb_false_r; reflexivity.
Qed.

(* evaluator on the shapes the converter emits *)
Lemma groups_strict_eval a p qs :
  existsb (group_ok a p) (map (fun q => [[m_unauth_port q]]) qs) = negb a && memN p qs.
Proof.
  induction qs as [|q qs IH]; [cbn; rewrite andb_false_r; reflexivity|].
  cbn [map existsb memN]. rewrite IH. unfold group_ok, rule_ok, match_ok, m_unauth_port; cbn.
  destruct a, (N.eqb p q); reflexivity.
Qed.

Lemma rules_exempt_eval a p qs :
  forallb (rule_ok a p) (map (fun q => [m_not_port q]) qs) = negb (memN p qs).
Proof.
  induction qs as [|q qs IH]; [reflexivity|].
  cbn [map forallb memN]. rewrite IH. unfold rule_ok, match_ok, m_not_port; cbn.
  destruct (N.eqb p q); reflexivity.
Qed.

Lemma rule_unauth_eval a p : rule_ok a p [m_unauth] = negb a.
Proof. unfold rule_ok, match_ok, m_unauth; cbn. destruct a; reflexivity. Qed.

Lemma memN_filter_notin (f : N * mode -> bool) k ports :
  ~ In k (map fst ports) -> memN k (map fst (filter f ports)) = false.
Proof.
  induction ports as [|[k' v] ports IH]; intros H; [reflexivity|].
  cbn [filter]. cbn in H. destruct (f (k', v)); cbn [map fst memN].
  - rewrite IH by tauto. destruct (N.eqb_spec k k'); [subst; tauto|reflexivity].
  - apply IH. tauto.
Qed.

Lemma memN_filter_assoc (f : mode -> bool) p ports : NoDup (map fst ports) ->
  memN p (map fst (filter (fun pm => f (snd pm)) ports)) =
  match assoc p ports with Some m => f m | None => false end.
Proof.
  induction ports as [|[k v] ports IH]; intros H; [reflexivity|].
  cbn in H. inversion H as [|? ? Hk Hnd]; subst.
  cbn [filter snd assoc]. destruct (N.eqb_spec p k).
  - subst. destruct (f v); cbn [map fst memN]; [rewrite N.eqb_refl; reflexivity|].
    apply memN_filter_notin. exact Hk.
  - destruct (f v); cbn [map fst memN]; [|apply IH; exact Hnd].
    destruct (N.eqb_spec p k); [tauto|]. cbn [orb]. apply IH. exact Hnd.
Qed.

Lemma is_nil_filter (f : mode -> bool) (ports : list (N * mode)) :
  is_nil (map fst (filter (fun pm => f (snd pm)) ports)) = negb (existsb (fun pm => f (snd pm)) ports).
Proof.
  induction ports as [|[k v] ports IH]; [reflexivity|].
  cbn [filter existsb snd]. destruct (f v); [reflexivity|exact IH].
Qed.

Lemma assoc_existsb (f : mode -> bool) p (ports : list (N * mode)) m :
  assoc p ports = Some m -> f m = true -> existsb (fun pm => f (snd pm)) ports = true.
Proof.
  induction ports as [|[k v] ports IH]; [discriminate|].
  cbn [assoc existsb snd]. destruct (N.eqb p k).
  - intros [= ->] ->. reflexivity.
  - intros H1 H2. rewrite (IH H1 H2). apply orb_true_r.
Qed.

Lemma existsb_nil_false (f : mode -> bool) (ports : list (N * mode)) : ports = [] -> existsb (fun pm => f (snd pm)) ports = false.
Proof. intros ->. reflexivity. Qed.

Definition conv_tail (ns name : N) (sm merge : bool) (E S : list N) : option authz :=
  let rules := (if sm then [[m_unauth]] else []) ++ map (fun p => [m_not_port p]) E in
  let groups := map (fun p => [[m_unauth_port p]]) S in
  let found := negb (is_nil E) in
  if sm && negb found then None
  else match rules, groups with
  | [], [] => None
  | _, _ =>
      let rules' := if merge && found then rules ++ [[m_unauth]] else rules in
      let groups' := match rules' with [] => groups | _ => groups ++ [rules'] end in
      Some {| az_ns := ns; az_name := name; az_groups := groups' |}
  end.

Definition tail_eval (sm merge : bool) (E S : list N) (a : bool) (p : N) : bool :=
  if sm && is_nil E then false
  else (negb a && memN p S) ||
       ((sm || negb (is_nil E)) &&
        ((if sm then negb a else true) && negb (memN p E) && (if merge && negb (is_nil E) then negb a else true))).

Lemma group_ok_app a p (r1 r2 : agroup) : group_ok a p (r1 ++ r2) = group_ok a p r1 && group_ok a p r2.
Proof. unfold group_ok. apply forallb_app. Qed.

Lemma group_ok_unauth a p : group_ok a p [[m_unauth]] = negb a.
Proof. unfold group_ok. cbn [forallb]. rewrite rule_unauth_eval. apply andb_true_r. Qed.

Lemma group_ok_exempt a p qs : group_ok a p (map (fun q => [m_not_port q]) qs) = negb (memN p qs).
Proof. apply rules_exempt_eval. Qed.

Lemma authz_eval_nonempty a p ns name (gs : list agroup) (r : agroup) :
  authz_matches a p {| az_ns := ns; az_name := name; az_groups := gs ++ [r] |} =
  existsb (group_ok a p) gs || group_ok a p r.
Proof.
  unfold authz_matches. cbn [az_groups].
  destruct (gs ++ [r]) eqn:E; [destruct gs; discriminate|]. rewrite <- E.
  rewrite existsb_app. cbn [existsb]. rewrite orb_false_r. reflexivity.
Qed.

Lemma authz_single a p ns name (r : agroup) :
  authz_matches a p {| az_ns := ns; az_name := name; az_groups := [r] |} = group_ok a p r.
Proof. unfold authz_matches. cbn [az_groups existsb]. apply orb_false_r. Qed.

Lemma authz_strict_groups a p ns name s S :
  authz_matches a p {| az_ns := ns; az_name := name; az_groups := map (fun q => [[m_unauth_port q]]) (s :: S) |} =
  negb a && memN p (s :: S).
Proof. unfold authz_matches. cbn [az_groups]. rewrite <- groups_strict_eval. reflexivity. Qed.

Lemma group_ok_cons_unauth a p (r : agroup) : group_ok a p ([m_unauth] :: r) = negb a && group_ok a p r.
Proof. unfold group_ok. cbn [forallb]. rewrite rule_unauth_eval. reflexivity. Qed.

Lemma conv_tail_eval ns name sm merge E S a p :
  match conv_tail ns name sm merge E S with Some z => authz_matches a p z | None => false end =
  tail_eval sm merge E S a p.
Proof.
  unfold conv_tail, tail_eval.
  destruct sm, merge, E as [|e E], S as [|s S];
    cbn [is_nil negb andb orb app map];
    try reflexivity;
    rewrite ?app_comm_cons;
    try (rewrite authz_eval_nonempty);
    try (change ([[m_unauth_port s]] :: map (fun p0 => [[m_unauth_port p0]]) S)
           with (map (fun p0 => [[m_unauth_port p0]]) (s :: S)));
    try (change ([m_not_port e] :: map (fun p0 => [m_not_port p0]) E)
           with (map (fun p0 => [m_not_port p0]) (e :: E)));
    rewrite ?groups_strict_eval, ?authz_single, ?authz_strict_groups;
    rewrite ?group_ok_app, ?group_ok_cons_unauth, ?group_ok_app, ?group_ok_exempt, ?group_ok_unauth;
    cbn [memN existsb];
    destruct a; try destruct (N.eqb p e); try destruct (memN p E); try destruct (N.eqb p s); try destruct (memN p S);
    reflexivity.
Qed.
