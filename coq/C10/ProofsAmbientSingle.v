(* C10 — ambient, unbounded: for the winning (mesh, namespace, workload) policies, any port map (unique keys) and any
   port, the attached policies reject exactly unauthenticated peers on STRICT ports. *)
From Coq Require Import List NArith ZArith Bool.
From V Require Import C10.Model C10.Proofs C10.ProofsConv.
Import ListNotations.

Definition merge_strict (nsc rootc : option pa) : bool :=
  if opt_strict rootc && (negb (is_some nsc) || opt_unset_or_nil nsc || opt_strict nsc) then true
  else opt_strict nsc.

Lemma convert_is_tail root w nsc rootc :
  N.eqb (pa_ns w) root = false -> sel_nil w = false -> is_nil (pa_ports w) = false ->
  convert_peer_authentication root w nsc rootc =
  conv_tail (pa_ns w) (pa_name w) (is_strict (pa_mtls w)) (merge_strict nsc rootc)
    (if skip_nonstrict_port (pa_mtls w) nsc rootc then [] else exempt_ports (pa_ports w))
    (if skip_strict_port (pa_mtls w) nsc rootc then [] else strict_ports (pa_ports w)).
Proof.
  intros Hr Hs Hp. unfold convert_peer_authentication. rewrite Hr, Hs. cbn [orb].
  destruct (pa_ports w) as [|pm ports] eqn:Hports; [discriminate|]. rewrite conv_fold.
  cbn [cv_rules cv_groups cv_found app orb]. unfold conv_tail, merge_strict.
  destruct (skip_nonstrict_port (pa_mtls w) nsc rootc), (skip_strict_port (pa_mtls w) nsc rootc);
    cbn [is_nil negb map app]; rewrite ?app_nil_r; reflexivity.
Qed.

Definition effective3 (rootc nsc : option pa) (w : pa) (port : N) : mode :=
  match or_else (port_mode (Some w) port)
          (or_else (set_mode (Some w)) (or_else (set_mode nsc) (set_mode rootc))) with
  | Some m => m
  | None => MPermissive
  end.

(* what the node proxy does for a workload whose winning (mesh, namespace, workload) policies are given *)
Definition ambient_single (root : N) (rootc nsc : option pa) (w : pa) (a : bool) (port : N) : bool :=
  let ks := keys_of_sel {| s_mesh := rootc; s_ns := nsc; s_wl := Some w |} in
  (k_static ks && negb a) ||
  match k_policy ks with
  | Some _ => match convert_peer_authentication root w nsc rootc with
              | Some z => authz_matches a port z
              | None => false
              end
  | None => false
  end.

Lemma is_nil_if (b : bool) (l : list N) : is_nil (if b then [] else l) = b || is_nil l.
Proof. destruct b; reflexivity. Qed.
Lemma memN_if (b : bool) p (l : list N) : memN p (if b then [] else l) = negb b && memN p l.
Proof. destruct b; reflexivity. Qed.

Theorem ambient_single_correct : forall root rootc nsc w a port,
  N.eqb (pa_ns w) root = false -> sel_nil w = false -> NoDup (map fst (pa_ports w)) ->
  ambient_single root rootc nsc w a port = negb a && mode_eqb (effective3 rootc nsc w port) MStrict.
Proof.
  intros root rootc nsc w a port Hr Hs Hnd. unfold ambient_single.
  destruct (is_nil (pa_ports w)) eqn:Hnil.
  - (* no port-level entries: nothing is converted, nothing is referenced *)
    destruct (pa_ports w) as [|x l] eqn:Hp; [|discriminate].
    unfold keys_of_sel, has_port_mode, effective3, port_mode, set_mode, or_else. cbn [s_mesh s_ns s_wl]. rewrite ?Hp. cbn [existsb assoc].
    destruct (pa_mtls w);
      (destruct rootc as [r|]; [destruct (pa_mtls r)|]);
      (destruct nsc as [n|]; [destruct (pa_mtls n)|]); destruct a; reflexivity.
  - rewrite (convert_is_tail root w nsc rootc Hr Hs Hnil). rewrite conv_tail_eval.
    unfold tail_eval. rewrite !is_nil_if, !memN_if.
    unfold exempt_ports, strict_ports. rewrite !is_nil_filter, !memN_filter_assoc by exact Hnd.
    unfold keys_of_sel, has_port_mode, effective3, port_mode, set_mode, or_else,
      skip_nonstrict_port, skip_strict_port, merge_strict, opt_strict, opt_unset_or_nil. cbn [s_mesh s_ns s_wl].
    change (fun pm : N * mode => is_permissive (snd pm) || is_disable (snd pm))
      with (fun pm : N * mode => nonstrict (snd pm)).
    pose proof (assoc_existsb is_strict port (pa_ports w)) as HS.
    pose proof (assoc_existsb nonstrict port (pa_ports w)) as HN.
    generalize dependent (existsb (fun pm : N * mode => is_strict (snd pm)) (pa_ports w)).
    generalize dependent (existsb (fun pm : N * mode => nonstrict (snd pm)) (pa_ports w)).
    intros hN HN hS HS.
    destruct (assoc port (pa_ports w)) as [pm|].
    + specialize (HN pm eq_refl). specialize (HS pm eq_refl).
      destruct pm; cbn in HN, HS;
        try (rewrite (HN eq_refl)); try (rewrite (HS eq_refl));
        destruct hN, hS, (pa_mtls w);
        (destruct rootc as [r|]; [destruct (pa_mtls r)|]);
        (destruct nsc as [n|]; [destruct (pa_mtls n)|]); destruct a; reflexivity.
    + clear HN HS.
      destruct hN, hS, (pa_mtls w);
        (destruct rootc as [r|]; [destruct (pa_mtls r)|]);
        (destruct nsc as [n|]; [destruct (pa_mtls n)|]); destruct a; reflexivity.
Qed.
