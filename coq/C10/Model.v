(* C10 — executable model of PeerAuthentication precedence and its consumers.
   Definitions only; every definition names the Go function it follows (paths relative to /repo).

   Abstractions (checked by the harness, see conf/C10.json):
   - names / namespaces / label keys+values are interned to N by the harness with an
     order-preserving encoding (strings.Compare on the names = N.compare on the ids);
   - creation timestamps are seconds (Z);
   - v1beta1.PeerAuthentication_MutualTLS_Mode and model.MutualTLSMode are one type [mode]:
     MUnset doubles as model.MTLSUnknown (ConvertToMutualTLSMode maps UNSET to MTLSUnknown);
   - a nil *MutualTLS and &MutualTLS{Mode: UNSET} are both MUnset (isMtlsModeUnset / GetMode treat
     them alike in every anchored function); a nil and an empty PortLevelMtls map are both [];
     PortLevelMtls is a Go map, so ports are unique keys (harness emits them sorted). *)
From Coq Require Import List NArith ZArith Bool.
Import ListNotations.

Inductive mode := MUnset | MDisable | MPermissive | MStrict.

Definition mode_eqb (a b : mode) : bool :=
  match a, b with
  | MUnset, MUnset | MDisable, MDisable | MPermissive, MPermissive | MStrict, MStrict => true
  | _, _ => false
  end.

(* spec.Selector: nil, or a (possibly empty) MatchLabels map *)
Inductive selector := SelNil | SelLabels (ls : list (N * N)).

Record pa := {
  pa_name : N; pa_ns : N; pa_time : Z;
  pa_sel : selector;
  pa_mtls : mode;                 (* spec.Mtls.GetMode() *)
  pa_ports : list (N * mode)      (* spec.PortLevelMtls *)
}.

Definition is_unset (m : mode) := mode_eqb m MUnset.       (* isMtlsModeUnset *)
Definition is_strict (m : mode) := mode_eqb m MStrict.     (* isMtlsModeStrict *)
Definition is_permissive (m : mode) := mode_eqb m MPermissive.
Definition is_disable (m : mode) := mode_eqb m MDisable.

Definition match_labels (s : selector) : list (N * N) :=
  match s with SelNil => [] | SelLabels ls => ls end.

(* spec.Selector == nil || len(spec.Selector.MatchLabels) == 0 — the sidecar-side notion of
   "namespace-level or mesh-level" (authentication.go addPeerAuthentication, policy_applier.go
   ComposePeerAuthentication, ambient convertedSelectorPeerAuthentications) *)
Definition ns_level (c : pa) : bool :=
  match pa_sel c with SelNil => true | SelLabels [] => true | SelLabels (_ :: _) => false end.

(* spec.Selector == nil — the notion used by the ambient PeerAuthByNamespace index, the
   PeerAuthDerivedPolicies guard and the root-namespace fetch of fetchPeerAuthentications *)
Definition sel_nil (c : pa) : bool :=
  match pa_sel c with SelNil => true | SelLabels _ => false end.

Definition pair_eqb (a b : N * N) : bool := N.eqb (fst a) (fst b) && N.eqb (snd a) (snd b).

(* labels.Instance.SubsetOf: every (k,v) of the selector is in the workload labels *)
Definition subset_of (sel labels : list (N * N)) : bool :=
  forallb (fun kv => existsb (pair_eqb kv) labels) sel.

Definition selects (c : pa) (labels : list (N * N)) : bool := subset_of (match_labels (pa_sel c)) labels.

Fixpoint memN (x : N) (l : list N) : bool :=
  match l with [] => false | y :: l' => N.eqb x y || memN x l' end.

Fixpoint assoc {A} (k : N) (l : list (N * A)) : option A :=
  match l with [] => None | (k', v) :: l' => if N.eqb k k' then Some v else assoc k l' end.

(* ------------------------------------------------------------------ sorting
   pilot/pkg/model/config.go sortConfigByCreationTime / configCompareByCreationTime:
   creation time, then name, then namespace. *)
Definition cfg_cmp (a b : pa) : comparison :=
  match Z.compare (pa_time a) (pa_time b) with
  | Eq => match N.compare (pa_name a) (pa_name b) with
          | Eq => N.compare (pa_ns a) (pa_ns b)
          | c => c
          end
  | c => c
  end.

Definition cfg_leb (a b : pa) : bool := match cfg_cmp a b with Gt => false | _ => true end.

Fixpoint insert (a : pa) (l : list pa) : list pa :=
  match l with
  | [] => [a]
  | b :: l' => if cfg_leb a b then a :: l else b :: insert a l'
  end.

Fixpoint isort (l : list pa) : list pa :=
  match l with [] => [] | a :: l' => insert a (isort l') end.

(* ------------------------------------------------------------------ AuthenticationPolicies
   pilot/pkg/model/authentication.go addPeerAuthentication.  [st_kept] is the concatenation of the
   per-namespace slices peerAuthentications[ns] (each is the sub-list of [st_kept] with that
   namespace, in order); [st_found] is foundNamespaceMTLS; [st_seen] seenNamespaceOrMeshConfig. *)
Record ap_state := {
  st_seen : list N; st_kept : list pa; st_found : list (N * mode); st_global : mode
}.

Definition ap_init : ap_state :=
  {| st_seen := []; st_kept := []; st_found := []; st_global := MUnset |}.

Definition add_step (root : N) (st : ap_state) (c : pa) : ap_state :=
  if ns_level c then
    if memN (pa_ns c) (st_seen st) then st   (* "already defined ... Ignore": continue *)
    else
      let m := pa_mtls c in
      let is_root := N.eqb (pa_ns c) root in
      {| st_seen := pa_ns c :: st_seen st;
         st_kept := st_kept st ++ [c];
         st_found := if is_root then st_found st else (pa_ns c, m) :: st_found st;
         st_global := if is_root then (if is_unset m then MPermissive else m) else st_global st |}
  else
    {| st_seen := st_seen st; st_kept := st_kept st ++ [c];
       st_found := st_found st; st_global := st_global st |}.

(* initAuthenticationPolicies + addPeerAuthentication (which sorts its argument itself) *)
Definition add_peer_authentication (root : N) (configs : list pa) : ap_state :=
  fold_left (add_step root) (isort configs) ap_init.

(* GetNamespaceMutualTLSMode (namespaceMutualTLSMode is derived from foundNamespaceMTLS at the end of
   addPeerAuthentication: UNSET inherits the mesh mode, or PERMISSIVE when there is none) *)
Definition get_namespace_mtls_mode (st : ap_state) (ns : N) : mode :=
  match assoc ns (st_found st) with
  | Some m =>
      if is_unset m then (if is_unset (st_global st) then MPermissive else st_global st) else m
  | None => st_global st
  end.

(* push_context.go BestEffortInferServiceMTLSMode for an internal, non-passthrough service *)
Definition best_effort_infer (st : ap_state) (svc_ns : N) : mode :=
  let m := get_namespace_mtls_mode st svc_ns in
  if is_unset m then MPermissive else m.

(* slices.FilterDuplicates: keep first occurrences *)
Fixpoint dedup_aux (seen l : list N) : list N :=
  match l with
  | [] => []
  | x :: l' => if memN x seen then dedup_aux seen l' else x :: dedup_aux (x :: seen) l'
  end.
Definition dedup (l : list N) : list N := dedup_aux [] l.

(* getConfigsForWorkload (PeerAuthentication arm) *)
Definition configs_for_workload (root : N) (kept : list pa) (wl_ns : N) (labels : list (N * N))
  (svc_nss : list N) : list pa :=
  flat_map (fun ns => filter (fun c => N.eqb (pa_ns c) ns && selects c labels) kept)
           (dedup (wl_ns :: root :: svc_nss)).

(* ------------------------------------------------------------------ composition
   pilot/pkg/security/authn/policy_applier.go ComposePeerAuthentication *)
Definition before (a b : pa) : bool := Z.ltb (pa_time a) (pa_time b).  (* CreationTimestamp.Before *)

Definition pick (cur : option pa) (c : pa) : option pa :=
  match cur with None => Some c | Some o => if before c o then Some c else cur end.

Record sel3 := { s_mesh : option pa; s_ns : option pa; s_wl : option pa }.
Definition sel3_init : sel3 := {| s_mesh := None; s_ns := None; s_wl := None |}.

Definition compose_step (root : N) (s : sel3) (c : pa) : sel3 :=
  if ns_level c then
    if N.eqb (pa_ns c) root
    then {| s_mesh := pick (s_mesh s) c; s_ns := s_ns s; s_wl := s_wl s |}
    else {| s_mesh := s_mesh s; s_ns := pick (s_ns s) c; s_wl := s_wl s |}
  else if negb (N.eqb (pa_ns c) root)
    then {| s_mesh := s_mesh s; s_ns := s_ns s; s_wl := pick (s_wl s) c |}
    else s.

Definition compose_select (root : N) (l : list pa) : sel3 := fold_left (compose_step root) l sel3_init.

Record merged := { m_mode : mode; m_ports : list (N * mode) }.

(* "if cfg != nil && !isMtlsModeUnset(cfg.Mtls) { out.Mode = Convert(cfg.Mtls.Mode) }" *)
Definition override (cur : mode) (c : option pa) : mode :=
  match c with
  | Some p => if is_unset (pa_mtls p) then cur else pa_mtls p
  | None => cur
  end.

Definition compose (root : N) (l : list pa) : merged :=
  let s := compose_select root l in
  let m1 := override MPermissive (s_mesh s) in
  let m2 := override m1 (s_ns s) in
  let m3 := override m2 (s_wl s) in
  {| m_mode := m3;
     m_ports := match s_wl s with
                | Some w => map (fun pm => (fst pm, if is_unset (snd pm) then m3 else snd pm)) (pa_ports w)
                | None => []
                end |}.

(* policyApplier.GetMutualTLSModeForPort *)
Definition mode_for_port (m : merged) (port : N) : mode :=
  match assoc port (m_ports m) with Some pm => pm | None => m_mode m end.

(* the sidecar-side resolver: authn.NewPolicyApplier(push, proxy, svc).GetMutualTLSModeForPort(port)
   with svc_nss = namespaces of the services passed via WithService *)
Definition sidecar_mode (root : N) (all : list pa) (wl_ns : N) (labels : list (N * N))
  (svc_nss : list N) (port : N) : mode :=
  let st := add_peer_authentication root all in
  mode_for_port (compose root (configs_for_workload root (st_kept st) wl_ns labels svc_nss)) port.

(* the client-side resolver: xds/endpoints/mtls_checker.go checkMtlsEnabled with no DestinationRule
   TLS setting and an endpoint whose tlsMode label is "istio":
   authn.NewMtlsPolicy(...).GetMutualTLSModeForPort(ep.EndpointPort) != MTLSDisable *)
Definition client_mode (root : N) (all : list pa) (ep_ns : N) (labels : list (N * N)) (port : N) : mode :=
  sidecar_mode root all ep_ns labels [] port.
Definition check_mtls_enabled (root : N) (all : list pa) (ep_ns : N) (labels : list (N * N)) (port : N) : bool :=
  negb (mode_eqb (client_mode root all ep_ns labels port) MDisable).

(* ------------------------------------------------------------------ inbound filter chains
   pilot/pkg/networking/core/filterchain_options.go getFilterChainMatchOptions, ToTransportSocket;
   pilot/pkg/security/authn/utils/utils.go BuildInboundTLS *)
Inductive lproto := LHTTP | LTCP | LAuto.

Record chain := {
  c_tls_transport : bool;   (* filter_chain_match.transport_protocol = "tls" (false: "raw_buffer") *)
  c_http : bool;            (* chain Protocol = HTTP (false: TCP) *)
  c_alpn : bool;            (* application_protocols non-empty *)
  c_terminate : bool        (* opt.TLS: the chain gets a DownstreamTlsContext *)
}.
Definition mk_chain t h a term := {| c_tls_transport := t; c_http := h; c_alpn := a; c_terminate := term |}.

Definition chain_opts (m : mode) (p : lproto) : list chain :=
  match p with
  | LHTTP =>
      match m with
      | MStrict => [mk_chain true true false true]
      | MPermissive => [mk_chain true true true true; mk_chain false true false false]
      | _ => [mk_chain false true false false]
      end
  | LAuto =>
      match m with
      | MStrict => [mk_chain true true true true; mk_chain true false false true]
      | MPermissive => [mk_chain true true true true; mk_chain false true true false;
                        mk_chain true false true true; mk_chain false false false false;
                        mk_chain true false false false]
      | _ => [mk_chain false true true false; mk_chain false false false false]
      end
  | LTCP =>
      match m with
      | MStrict => [mk_chain true false false true]
      | MPermissive => [mk_chain true false true true; mk_chain true false false false;
                        mk_chain false false false false]
      | _ => [mk_chain false false false false]
      end
  end.

(* ToTransportSocket(mtls) with mtls.TCP/HTTP = BuildInboundTLS(mode, ...):
   None = no transport socket (plaintext), Some b = DownstreamTlsContext with require_client_certificate = b *)
Definition transport_socket (m : mode) (c : chain) : option bool :=
  if c_terminate c then
    match m with MDisable | MUnset => None | _ => Some true end
  else None.

(* ------------------------------------------------------------------ ambient
   pilot/pkg/serviceregistry/ambient/authorization.go, policies.go, workloads.go *)

(* security.Match restricted to the fields the converter emits *)
Record amatch := {
  am_not_principal_presence : bool;   (* NotPrincipals = [{Presence}] *)
  am_dports : list N;                 (* DestinationPorts *)
  am_not_dports : list N              (* NotDestinationPorts *)
}.
Definition arule := list amatch.      (* security.Rules.Matches *)
Definition agroup := list arule.      (* security.Group.Rules *)
(* security.Authorization with Action = DENY, Scope = WORKLOAD_SELECTOR, name
   "converted_peer_authentication_<name>" in namespace <ns> *)
Record authz := { az_ns : N; az_name : N; az_groups : list agroup }.

Definition m_unauth : amatch := {| am_not_principal_presence := true; am_dports := []; am_not_dports := [] |}.
Definition m_unauth_port (p : N) : amatch :=
  {| am_not_principal_presence := true; am_dports := [p]; am_not_dports := [] |}.
Definition m_not_port (p : N) : amatch :=
  {| am_not_principal_presence := false; am_dports := []; am_not_dports := [p] |}.

Definition opt_strict (c : option pa) : bool :=
  match c with Some p => is_strict (pa_mtls p) | None => false end.
Definition opt_unset_or_nil (c : option pa) : bool :=
  match c with Some p => is_unset (pa_mtls p) | None => true end.
Definition is_some {A} (o : option A) : bool := match o with Some _ => true | None => false end.

(* the STRICT-port skip condition:  A || (U && (N || R))
   (since /repo 06bf447 "fix: only skip a STRICT port-level rule for ambient when the workload-level mode is
   UNSET"; before that Go's precedence read it as A || ((U && N) || R) — former finding K2) *)
Definition skip_strict_port (mode_wl : mode) (nsc rootc : option pa) : bool :=
  is_strict mode_wl ||
  (is_unset mode_wl &&
   ((is_some nsc && opt_strict nsc) ||
    ((negb (is_some nsc) || opt_unset_or_nil nsc) && is_some rootc && opt_strict rootc))).

(* the PERMISSIVE/DISABLE-port skip conditions; since /repo 45faab8 a namespace policy whose mode is UNSET
   counts like no namespace policy ("nsUnset := nsCfg == nil || isMtlsModeUnset(nsCfg.Spec.Mtls)") *)
Definition skip_nonstrict_port (mode_wl : mode) (nsc rootc : option pa) : bool :=
  let ns_unset := opt_unset_or_nil nsc in
  (is_permissive mode_wl || is_disable mode_wl) ||
  (is_unset mode_wl &&
   ((negb ns_unset && negb (opt_strict nsc)) ||
    (ns_unset && is_some rootc && negb (opt_strict rootc)) ||
    (ns_unset && negb (is_some rootc)))).

Record conv_state := { cv_rules : list arule; cv_groups : list agroup; cv_found : bool }.

Definition conv_step (mode_wl : mode) (nsc rootc : option pa) (st : conv_state) (pm : N * mode) : conv_state :=
  let '(port, pmode) := pm in
  match pmode with
  | MStrict =>
      if skip_strict_port mode_wl nsc rootc then st
      else {| cv_rules := cv_rules st; cv_groups := cv_groups st ++ [[[m_unauth_port port]]]; cv_found := cv_found st |}
  | MPermissive | MDisable =>
      if skip_nonstrict_port mode_wl nsc rootc then st
      else {| cv_rules := cv_rules st ++ [[m_not_port port]]; cv_groups := cv_groups st; cv_found := true |}
  | MUnset => st
  end.

(* convertPeerAuthentication(rootNamespace, cfg, nsCfg, rootCfg); ports iterate in key order (maps.SeqStable) *)
Definition convert_peer_authentication (root : N) (cfg : pa) (nsc rootc : option pa) : option authz :=
  if N.eqb (pa_ns cfg) root || sel_nil cfg || (match pa_ports cfg with [] => true | _ => false end) then None
  else
    let mode_wl := pa_mtls cfg in
    let st0 := {| cv_rules := if is_strict mode_wl then [[m_unauth]] else []; cv_groups := []; cv_found := false |} in
    let st := fold_left (conv_step mode_wl nsc rootc) (pa_ports cfg) st0 in
    if is_strict mode_wl && negb (cv_found st) then None
    else match cv_rules st, cv_groups st with
    | [], [] => None
    | _, _ =>
      let should_merge :=
        if opt_strict rootc && (negb (is_some nsc) || opt_unset_or_nil nsc || opt_strict nsc) then true
        else opt_strict nsc in
      let rules := if should_merge && cv_found st then cv_rules st ++ [[m_unauth]] else cv_rules st in
      let groups := match rules with [] => cv_groups st | _ => cv_groups st ++ [rules] end in
      Some {| az_ns := pa_ns cfg; az_name := pa_name cfg; az_groups := groups |}
    end.

(* getOldestPeerAuthn *)
Definition get_oldest (l : list pa) : option pa := fold_left pick l None.

(* policies.go PeerAuthDerivedPolicies for one PeerAuthentication [c] given all of them:
   PeerAuthByNamespace indexes policies with Selector == nil only *)
Definition derived_policy (root : N) (all : list pa) (c : pa) : option authz :=
  let nsc := get_oldest (filter (fun x => sel_nil x && N.eqb (pa_ns x) (pa_ns c)) all) in
  let rootc := get_oldest (filter (fun x => sel_nil x && N.eqb (pa_ns x) root) all) in
  convert_peer_authentication root c nsc rootc.

(* workloads.go fetchPeerAuthentications *)
Definition fetch_peer_authentications (root : N) (all : list pa) (wl_ns : N) (labels : list (N * N)) : list pa :=
  filter (fun c => N.eqb (pa_ns c) wl_ns && (sel_nil c || selects c labels)) all ++
  (if N.eqb wl_ns root then [] else filter (fun c => N.eqb (pa_ns c) root && sel_nil c) all).

(* convertedSelectorPeerAuthentications: (reference the static strict policy?, key of the converted
   workload policy) *)
Record akeys := { k_static : bool; k_policy : option (N * N) (* namespace, name *) }.

Definition has_port_mode (f : mode -> bool) (c : pa) : bool := existsb (fun pm => f (snd pm)) (pa_ports c).

Definition keys_of_sel (s : sel3) : akeys :=
  let e0 := match s_mesh s with Some c => is_strict (pa_mtls c) | None => false end in
  let e1 := match s_ns s with
            | Some c => if is_unset (pa_mtls c) then e0 else is_strict (pa_mtls c)
            | None => e0 end in
  match s_wl s with
  | None => {| k_static := e1; k_policy := None |}
  | Some w =>
      let m := pa_mtls w in
      let e2 := if is_strict m then true else e1 in
      let e3 := if is_permissive m || is_disable m then false else e2 in
      let key := Some (pa_ns w, pa_name w) in
      (* "if workloadSpec.PortLevelMtls != nil": nil and empty behave alike (every loop finds nothing
         and the only assignment in the empty case, isEffectiveStrictPolicy = false, happens when it
         already is false) *)
      match m with
      | MStrict =>
          if has_port_mode (fun x => is_permissive x || is_disable x) w
          then {| k_static := false; k_policy := key |}
          else {| k_static := e3; k_policy := None |}
      | MPermissive | MDisable =>
          if has_port_mode is_strict w
          then {| k_static := e3; k_policy := key |}
          else {| k_static := e3; k_policy := None |}
      | MUnset =>
          if e3 then
            (* PERMISSIVE or DISABLE exceptions (DISABLE since /repo 24c83bf) *)
            if has_port_mode (fun x => is_permissive x || is_disable x) w
            then {| k_static := false; k_policy := key |}
            else {| k_static := e3; k_policy := None |}
          else
            if has_port_mode is_strict w
            then {| k_static := false; k_policy := key |}
            else {| k_static := false; k_policy := None |}
      end
  end.

(* the selection loop is the one of ComposePeerAuthentication *)
Definition converted_selector_keys (root : N) (configs : list pa) : akeys :=
  keys_of_sel (compose_select root configs).

(* Reference semantics of the node proxy (ztunnel rbac.rs; pkg/workloadapi/security/authorization.proto):
   groups OR-ed, rules AND-ed, matches OR-ed; inside a match the set fields are AND-ed;
   not_principals{presence} holds iff the peer has no identity.  An empty group list matches. *)
Definition match_ok (authenticated : bool) (dport : N) (m : amatch) : bool :=
  (negb (am_not_principal_presence m) || negb authenticated) &&
  (match am_dports m with [] => true | ps => memN dport ps end) &&
  negb (memN dport (am_not_dports m)).
Definition rule_ok a p (r : arule) : bool := existsb (match_ok a p) r.
Definition group_ok a p (g : agroup) : bool := forallb (rule_ok a p) g.
Definition authz_matches a p (z : authz) : bool :=
  match az_groups z with [] => true | gs => existsb (group_ok a p) gs end.

(* Does the ambient data plane deny a connection to [port] of the workload?  Attached keys come from
   buildWorkloadPolicies; the static strict policy (DefaultPolicy) exists whenever any
   PeerAuthentication exists and denies every unauthenticated peer; a referenced policy that was never
   produced (derived_policy = None) denies nothing. *)
Definition find_pa (ns name : N) (all : list pa) : option pa :=
  find (fun c => N.eqb (pa_ns c) ns && N.eqb (pa_name c) name) all.

Definition ambient_denies (root : N) (all : list pa) (wl_ns : N) (labels : list (N * N))
  (authenticated : bool) (port : N) : bool :=
  let ks := converted_selector_keys root (fetch_peer_authentications root all wl_ns labels) in
  (k_static ks && negb authenticated && negb (match all with [] => true | _ => false end)) ||
  match k_policy ks with
  | Some (ns, name) =>
      match find_pa ns name all with
      | Some c => match derived_policy root all c with
                  | Some z => authz_matches authenticated port z
                  | None => false
                  end
      | None => false
      end
  | None => false
  end.

(* ------------------------------------------------------------------ specification
   The effective mode by the documented precedence, written without reference to the loops above:
   per level, the applicable policies, the oldest by (creation time, name, namespace) wins, and the
   first level that says something other than UNSET decides.  Workload-selector policies in the root
   namespace are not workload-level (documented in ComposePeerAuthentication). *)
Definition cfg_ltb (a b : pa) : bool := match cfg_cmp a b with Lt => true | _ => false end.

Fixpoint oldest (l : list pa) : option pa :=
  match l with
  | [] => None
  | a :: l' => match oldest l' with
               | Some b => if cfg_ltb b a then Some b else Some a
               | None => Some a
               end
  end.

Definition mesh_level_for (root : N) (c : pa) : bool := ns_level c && N.eqb (pa_ns c) root.
Definition namespace_level_for (root wl_ns : N) (c : pa) : bool :=
  ns_level c && N.eqb (pa_ns c) wl_ns && negb (N.eqb (pa_ns c) root).
Definition workload_level_for (root wl_ns : N) (labels : list (N * N)) (c : pa) : bool :=
  negb (ns_level c) && N.eqb (pa_ns c) wl_ns && negb (N.eqb (pa_ns c) root) && selects c labels.

Definition set_mode (c : option pa) : option mode :=
  match c with Some p => if is_unset (pa_mtls p) then None else Some (pa_mtls p) | None => None end.
Definition port_mode (c : option pa) (port : N) : option mode :=
  match c with
  | Some p => match assoc port (pa_ports p) with
              | Some m => if is_unset m then None else Some m
              | None => None end
  | None => None
  end.
Definition or_else {A} (o : option A) (d : option A) : option A := match o with Some _ => o | None => d end.

Definition effective_mode (root : N) (all : list pa) (wl_ns : N) (labels : list (N * N)) (port : N) : mode :=
  let wl := oldest (filter (workload_level_for root wl_ns labels) all) in
  let ns := oldest (filter (namespace_level_for root wl_ns) all) in
  let mesh := oldest (filter (mesh_level_for root) all) in
  match or_else (port_mode wl port) (or_else (set_mode wl) (or_else (set_mode ns) (set_mode mesh))) with
  | Some m => m
  | None => MPermissive
  end.

(* The contract of ComposePeerAuthentication on the list it is given (whatever its order): per level the
   policy with the smallest creation time wins, the leftmost one on ties. *)
Fixpoint first_oldest (l : list pa) : option pa :=
  match l with
  | [] => None
  | a :: l' => match first_oldest l' with
               | Some b => if before b a then Some b else Some a
               | None => Some a
               end
  end.

Definition list_precedence (root : N) (l : list pa) (port : N) : mode :=
  let wl := first_oldest (filter (fun c => negb (ns_level c) && negb (N.eqb (pa_ns c) root)) l) in
  let ns := first_oldest (filter (fun c => ns_level c && negb (N.eqb (pa_ns c) root)) l) in
  let mesh := first_oldest (filter (fun c => ns_level c && N.eqb (pa_ns c) root) l) in
  match or_else (port_mode wl port) (or_else (set_mode wl) (or_else (set_mode ns) (set_mode mesh))) with
  | Some m => m
  | None => MPermissive
  end.

(* enforcement predicates on a set of (chain, transport socket) pairs — as generated or as observed *)
Definition with_sockets (m : mode) (cs : list chain) : list (chain * option bool) :=
  map (fun c => (c, transport_socket m c)) cs.

Definition is_mtls_chain (cs : chain * option bool) : bool :=
  c_tls_transport (fst cs) && match snd cs with Some true => true | _ => false end.
Definition is_plaintext_chain (cs : chain * option bool) : bool :=
  negb (c_tls_transport (fst cs)) && match snd cs with None => true | Some _ => false end.

Definition accepts_plaintext (l : list (chain * option bool)) : bool := existsb is_plaintext_chain l.
Definition terminates_mtls (l : list (chain * option bool)) : bool := existsb is_mtls_chain l.
Definition all_mtls (l : list (chain * option bool)) : bool := forallb is_mtls_chain l.
Definition no_tls_termination (l : list (chain * option bool)) : bool :=
  forallb (fun cs => match snd cs with None => true | Some _ => false end) l.

(* STRICT accepts only mutual TLS; DISABLE terminates no TLS; PERMISSIVE accepts both *)
Definition enforces (m : mode) (l : list (chain * option bool)) : bool :=
  match m with
  | MStrict => all_mtls l && negb (accepts_plaintext l) && negb (match l with [] => true | _ => false end)
  | MPermissive => accepts_plaintext l && terminates_mtls l
  | MDisable | MUnset => no_tls_termination l && accepts_plaintext l
  end.

Definition chains_enforce (m : mode) (p : lproto) : bool := enforces m (with_sockets m (chain_opts m p)).
