(* C10 — lemmas and proofs. *)
From Coq Require Import List NArith ZArith Bool Lia ZifyBool ZifyN.
From V Require Import C10.Model.
Import ListNotations.

(* ------------------------------------------------------------------ inbound chains *)

Lemma chains_enforce_all : forall m p, chains_enforce m p = true.
Proof. intros [] []; reflexivity. Qed.

(* spelled out: what [enforces] means for the chains generated under each mode *)
Lemma strict_only_mtls : forall p c,
  In c (with_sockets MStrict (chain_opts MStrict p)) ->
  c_tls_transport (fst c) = true /\ snd c = Some true.
Proof.
  intros [] c H; cbn in H;
    repeat (destruct H as [<-|H]; [cbn; auto|]); destruct H.
Qed.

Lemma strict_has_chain : forall p, chain_opts MStrict p <> [].
Proof. intros []; discriminate. Qed.

Lemma disable_no_tls : forall p c,
  In c (with_sockets MDisable (chain_opts MDisable p)) -> snd c = None /\ c_tls_transport (fst c) = false.
Proof.
  intros [] c H; cbn in H;
    repeat (destruct H as [<-|H]; [cbn; auto|]); destruct H.
Qed.

Lemma permissive_both : forall p,
  (exists c, In c (with_sockets MPermissive (chain_opts MPermissive p)) /\
             c_tls_transport (fst c) = false /\ snd c = None) /\
  (exists c, In c (with_sockets MPermissive (chain_opts MPermissive p)) /\
             c_tls_transport (fst c) = true /\ snd c = Some true).
Proof.
  intros []; split.
  - exists (mk_chain false true false false, None); cbn; auto.
  - exists (mk_chain true true true true, Some true); cbn; auto.
  - exists (mk_chain false false false false, None); cbn; auto 6.
  - exists (mk_chain true false true true, Some true); cbn; auto.
  - exists (mk_chain false true true false, None); cbn; auto.
  - exists (mk_chain true true true true, Some true); cbn; auto.
Qed.

(* ------------------------------------------------------------------ the selection loop *)

Lemma before_spec a b : before a b = true <-> (pa_time a < pa_time b)%Z.
Proof. unfold before. apply Z.ltb_lt. Qed.

Lemma first_oldest_le : forall l a b, first_oldest (a :: l) = Some b -> (pa_time b <= pa_time a)%Z.
Proof.
  intros l a b. cbn [first_oldest]. destruct (first_oldest l) as [x|].
  - destruct (before x a) eqn:E; intros [= <-]; [apply before_spec in E|]; lia.
  - intros [= <-]; lia.
Qed.

Lemma first_oldest_cons_some : forall l a, exists b, first_oldest (a :: l) = Some b.
Proof.
  intros l a. cbn [first_oldest]. destruct (first_oldest l) as [x|]; [destruct (before x a)|]; eauto.
Qed.

Lemma fold_pick : forall l acc,
  fold_left pick l acc = match acc with None => first_oldest l | Some c => first_oldest (c :: l) end.
Proof.
  induction l as [|a l IH]; intros acc.
  - destruct acc; reflexivity.
  - cbn [fold_left]. rewrite IH. destruct acc as [c|]; cbn [pick]; [|reflexivity].
    destruct (before a c) eqn:Eac.
    + apply before_spec in Eac.
      destruct (first_oldest_cons_some l a) as [b Hb]. rewrite Hb.
      pose proof (first_oldest_le _ _ _ Hb) as Hle.
      change (first_oldest (c :: a :: l)) with
        (match first_oldest (a :: l) with Some b => if before b c then Some b else Some c | None => Some c end).
      rewrite Hb. assert (before b c = true) as -> by (apply before_spec; lia). reflexivity.
    + assert (~ (pa_time a < pa_time c)%Z) as Hac by (rewrite <- before_spec, Eac; discriminate).
      change (first_oldest (c :: a :: l)) with
        (match first_oldest (a :: l) with Some b => if before b c then Some b else Some c | None => Some c end).
      cbn [first_oldest]. destruct (first_oldest l) as [x|].
      * destruct (before x a) eqn:Exa.
        -- reflexivity.
        -- rewrite Eac.
           assert (~ (pa_time x < pa_time a)%Z) as Hxa by (rewrite <- before_spec, Exa; discriminate).
           assert (before x c = false) as ->; [|reflexivity].
           destruct (before x c) eqn:Exc; [apply before_spec in Exc; lia|reflexivity].
      * rewrite Eac. reflexivity.
Qed.

Lemma get_oldest_first_oldest : forall l, get_oldest l = first_oldest l.
Proof. intros l. unfold get_oldest. apply fold_pick. Qed.

Definition lvl_mesh (root : N) (c : pa) := ns_level c && N.eqb (pa_ns c) root.
Definition lvl_ns (root : N) (c : pa) := ns_level c && negb (N.eqb (pa_ns c) root).
Definition lvl_wl (root : N) (c : pa) := negb (ns_level c) && negb (N.eqb (pa_ns c) root).

Lemma compose_select_fold : forall root l s,
  fold_left (compose_step root) l s =
  {| s_mesh := fold_left pick (filter (lvl_mesh root) l) (s_mesh s);
     s_ns := fold_left pick (filter (lvl_ns root) l) (s_ns s);
     s_wl := fold_left pick (filter (lvl_wl root) l) (s_wl s) |}.
Proof.
  intros root. induction l as [|c l IH]; intros s.
  - destruct s; reflexivity.
  - cbn [fold_left filter]. rewrite IH. unfold compose_step, lvl_mesh, lvl_ns, lvl_wl.
    destruct (ns_level c), (N.eqb (pa_ns c) root); cbn; reflexivity.
Qed.

Lemma compose_select_spec : forall root l,
  compose_select root l =
  {| s_mesh := first_oldest (filter (lvl_mesh root) l);
     s_ns := first_oldest (filter (lvl_ns root) l);
     s_wl := first_oldest (filter (lvl_wl root) l) |}.
Proof.
  intros. unfold compose_select. rewrite compose_select_fold. cbn [sel3_init s_mesh s_ns s_wl].
  rewrite !fold_pick. reflexivity.
Qed.

Lemma assoc_map_inherit : forall (d : mode) ports port,
  assoc port (map (fun pm : N * mode => (fst pm, if is_unset (snd pm) then d else snd pm)) ports) =
  match assoc port ports with
  | Some m => Some (if is_unset m then d else m)
  | None => None
  end.
Proof.
  intros d ports port. induction ports as [|[k v] ports IH]; [reflexivity|].
  cbn [map assoc fst snd]. destruct (N.eqb port k); [reflexivity|exact IH].
Qed.

(* ComposePeerAuthentication + GetMutualTLSModeForPort = precedence over the list it is given *)
Lemma compose_is_list_precedence : forall root l port,
  mode_for_port (compose root l) port = list_precedence root l port.
Proof.
  intros root l port. unfold compose, list_precedence, mode_for_port.
  rewrite compose_select_spec. cbn [s_mesh s_ns s_wl m_mode m_ports].
  fold (lvl_wl root) (lvl_ns root) (lvl_mesh root).
  destruct (first_oldest (filter (lvl_wl root) l)) as [w|];
  destruct (first_oldest (filter (lvl_ns root) l)) as [n|];
  destruct (first_oldest (filter (lvl_mesh root) l)) as [m|];
  cbn [override set_mode port_mode or_else assoc];
  try rewrite assoc_map_inherit;
  try (destruct (assoc port (pa_ports w)) as [pm|]; [destruct pm|]);
  repeat match goal with |- context [pa_mtls ?x] => destruct (pa_mtls x) end; reflexivity.
Qed.

(* ------------------------------------------------------------------ resolvers that share the pipeline *)

Lemma memN_true_iff x l : memN x l = true <-> In x l.
Proof.
  induction l as [|y l IH]; cbn; [split; [discriminate|tauto]|].
  rewrite orb_true_iff, IH, N.eqb_eq. split; intros [H|H]; auto.
Qed.

Lemma dedup_aux_skip : forall l seen, (forall x, In x l -> memN x seen = true) -> dedup_aux seen l = [].
Proof.
  induction l as [|x l IH]; intros seen H; [reflexivity|].
  cbn [dedup_aux]. rewrite (H x (or_introl eq_refl)). apply IH. intros y Hy. apply H. right. exact Hy.
Qed.

(* services in the workload's own namespace or the root namespace do not change the lookup *)
Lemma dedup_local : forall root wl_ns svc_nss,
  (forall n, In n svc_nss -> n = wl_ns \/ n = root) ->
  dedup (wl_ns :: root :: svc_nss) = dedup [wl_ns; root].
Proof.
  intros root wl_ns svc_nss H. unfold dedup. cbn [dedup_aux memN]. rewrite !orb_false_r.
  destruct (N.eqb root wl_ns) eqn:E; cbn [dedup_aux].
  - apply N.eqb_eq in E. subst. f_equal. apply dedup_aux_skip.
    intros x Hx. destruct (H x Hx); subst; cbn; rewrite N.eqb_refl; reflexivity.
  - do 2 f_equal. apply dedup_aux_skip.
    intros x Hx. destruct (H x Hx); subst; cbn; rewrite N.eqb_refl; cbn; auto using orb_true_r.
Qed.

Lemma sidecar_client_agree : forall root all wl_ns labels svc_nss port,
  (forall n, In n svc_nss -> n = wl_ns \/ n = root) ->
  sidecar_mode root all wl_ns labels svc_nss port = client_mode root all wl_ns labels port.
Proof.
  intros. unfold client_mode, sidecar_mode, configs_for_workload.
  rewrite (dedup_local root wl_ns svc_nss) by assumption.
  reflexivity.
Qed.

Lemma check_mtls_enabled_iff : forall root all ns labels port,
  check_mtls_enabled root all ns labels port = true <-> client_mode root all ns labels port <> MDisable.
Proof.
  intros. unfold check_mtls_enabled. destruct (client_mode root all ns labels port); cbn; split; congruence.
Qed.
