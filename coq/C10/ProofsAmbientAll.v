(* C10 — ambient, for every policy set: the selection done by fetchPeerAuthentications /
   convertedSelectorPeerAuthentications / the PeerAuthByNamespace index picks the specification's winners (selectors
   nil or non-empty, distinct creation times), hence the data-plane decision follows effective_mode. *)
From Coq Require Import List NArith ZArith Bool Lia ZifyBool ZifyN.
From V Require Import C10.Model C10.Proofs C10.ProofsSort C10.ProofsConv C10.ProofsAmbientSingle.
Import ListNotations.

Lemma first_oldest_in : forall l b, first_oldest l = Some b -> In b l.
Proof.
  induction l as [|a l IH]; intros b; [discriminate|].
  cbn [first_oldest]. destruct (first_oldest l) as [x|].
  - destruct (before x a); intros [= <-]; [right; apply IH; reflexivity|left; reflexivity].
  - intros [= <-]. left. reflexivity.
Qed.

Lemma first_oldest_oldest : forall l, NoDup (map pa_time l) -> first_oldest l = oldest l.
Proof.
  induction l as [|a l IH]; intros H; [reflexivity|].
  cbn in H. inversion H as [|? ? Hnot Hnd]; subst.
  cbn [first_oldest oldest]. rewrite <- (IH Hnd).
  destruct (first_oldest l) as [b|] eqn:F; [|reflexivity].
  assert (pa_time b <> pa_time a) as Hne.
  { intros E. apply Hnot. rewrite <- E. apply in_map. apply first_oldest_in. exact F. }
  destruct (before b a) eqn:B, (cfg_ltb b a) eqn:C; try reflexivity.
  - apply before_spec in B. assert (cfg_ltb b a = true) by (apply cfg_ltb_spec; lia). congruence.
  - apply cfg_ltb_spec in C. assert (before b a = true) by (apply before_spec; lia). congruence.
Qed.

Lemma NoDup_map_filter {B} (f : pa -> B) (Q : pa -> bool) l : NoDup (map f l) -> NoDup (map f (filter Q l)).
Proof.
  induction l as [|a l IH]; intros H; [constructor|].
  cbn in H. inversion H as [|? ? Hnot Hnd]; subst. cbn [filter]. destruct (Q a); [|apply IH; exact Hnd].
  cbn [map]. constructor; [|apply IH; exact Hnd].
  intros Hin. apply Hnot. apply in_map_iff in Hin. destruct Hin as (x & Hx & Hf).
  apply filter_In in Hf. rewrite <- Hx. apply in_map. tauto.
Qed.

Lemma filter_ext_in' (f g : pa -> bool) l : (forall c, In c l -> f c = g c) -> filter f l = filter g l.
Proof.
  induction l as [|a l IH]; intros H; [reflexivity|]. cbn [filter].
  rewrite (H a (or_introl eq_refl)), IH; [reflexivity|]. intros c Hc. apply H. right. exact Hc.
Qed.

Lemma filter_false_in (f : pa -> bool) l : (forall c, In c l -> f c = false) -> filter f l = [].
Proof.
  induction l as [|a l IH]; intros H; [reflexivity|]. cbn [filter].
  rewrite (H a (or_introl eq_refl)). apply IH. intros c Hc. apply H. right. exact Hc.
Qed.

Definition pkey (c : pa) : N * N := (pa_ns c, pa_name c).

Lemma find_pa_unique all w : NoDup (map pkey all) -> In w all -> find_pa (pa_ns w) (pa_name w) all = Some w.
Proof.
  unfold find_pa. induction all as [|c l IH]; intros Hnd Hin; [destruct Hin|].
  cbn in Hnd. inversion Hnd as [|? ? Hnot Hnd']; subst. cbn [find].
  destruct (N.eqb (pa_ns c) (pa_ns w) && N.eqb (pa_name c) (pa_name w)) eqn:E.
  - apply andb_true_iff in E. destruct E as [E1 E2]. apply N.eqb_eq in E1, E2.
    destruct Hin as [->|Hin]; [reflexivity|].
    exfalso. apply Hnot. unfold pkey at 1. rewrite E1, E2. change (In (pkey w) (map pkey l)). apply in_map. exact Hin.
  - destruct Hin as [->|Hin]; [rewrite !N.eqb_refl in E; discriminate|]. apply IH; assumption.
Qed.

Section Lift.
Variables (root wl_ns : N) (labels : list (N * N)) (all : list pa).
Hypothesis Hsel : forall c, In c all -> ns_level c = sel_nil c.
Hypothesis Htimes : NoDup (map pa_time all).

Ltac pw :=
  let c := fresh "c" in let Hc := fresh "Hc" in
  intros c Hc; specialize (Hsel c Hc);
  unfold lvl_mesh, lvl_ns, lvl_wl, mesh_level_for, namespace_level_for, workload_level_for;
  pose proof (ns_level_selects c labels);
  destruct (ns_level c) eqn:?, (sel_nil c) eqn:?; try discriminate Hsel;
  destruct (selects c labels) eqn:?, (N.eqb (pa_ns c) wl_ns) eqn:?, (N.eqb (pa_ns c) root) eqn:?;
  cbn; try reflexivity; try discriminate; try tauto;
  repeat match goal with H : N.eqb _ _ = true |- _ => apply N.eqb_eq in H end;
  repeat match goal with H : N.eqb _ _ = false |- _ => apply N.eqb_neq in H end;
  try congruence;
  try (match goal with H : true = true -> _ |- _ => specialize (H eq_refl); discriminate end).

Lemma fo_filter (Q : pa -> bool) : first_oldest (filter Q all) = oldest (filter Q all).
Proof. apply first_oldest_oldest. apply NoDup_map_filter. exact Htimes. Qed.

Lemma ambient_winners :
  compose_select root (fetch_peer_authentications root all wl_ns labels) =
  {| s_mesh := oldest (filter (mesh_level_for root) all);
     s_ns := oldest (filter (namespace_level_for root wl_ns) all);
     s_wl := oldest (filter (workload_level_for root wl_ns labels) all) |}.
Proof.
  rewrite compose_select_spec. unfold fetch_peer_authentications.
  destruct (N.eqb wl_ns root) eqn:E.
  - apply N.eqb_eq in E. rewrite !app_nil_r, !filter_filter2.
    rewrite <- !fo_filter. f_equal; f_equal; apply filter_ext_in'; pw.
  - assert (wl_ns <> root) as Hne by (intros ->; rewrite N.eqb_refl in E; discriminate).
    rewrite !filter_app, !filter_filter2. rewrite <- !fo_filter. f_equal.
    + rewrite (filter_false_in (fun c => N.eqb (pa_ns c) wl_ns && (sel_nil c || selects c labels) && lvl_mesh root c)), app_nil_l by pw.
      f_equal. apply filter_ext_in'; pw.
    + rewrite (filter_false_in (fun c => N.eqb (pa_ns c) root && sel_nil c && lvl_ns root c)), app_nil_r by pw.
      f_equal. apply filter_ext_in'; pw.
    + rewrite (filter_false_in (fun c => N.eqb (pa_ns c) root && sel_nil c && lvl_wl root c)), app_nil_r by pw.
      f_equal. apply filter_ext_in'; pw.
Qed.
End Lift.

Lemma oldest_in : forall l b, oldest l = Some b -> In b l.
Proof.
  induction l as [|a l IH]; intros b; [discriminate|].
  cbn [oldest]. destruct (oldest l) as [x|].
  - destruct (cfg_ltb x a); intros [= <-]; [right; apply IH; reflexivity|left; reflexivity].
  - intros [= <-]. left. reflexivity.
Qed.

Lemma k_policy_shape rootc nsc w :
  k_policy (keys_of_sel {| s_mesh := rootc; s_ns := nsc; s_wl := Some w |}) = None \/
  k_policy (keys_of_sel {| s_mesh := rootc; s_ns := nsc; s_wl := Some w |}) = Some (pa_ns w, pa_name w).
Proof.
  unfold keys_of_sel. cbn [s_mesh s_ns s_wl].
  destruct (pa_mtls w);
    repeat match goal with |- context [if ?b then _ else _] => destruct b end; cbn [k_policy]; auto.
Qed.

Theorem ambient_strict_ports_all : forall root all wl_ns labels a port,
  (forall c, In c all -> ns_level c = sel_nil c) ->
  NoDup (map pa_time all) ->
  NoDup (map pkey all) ->
  (forall c, In c all -> NoDup (map fst (pa_ports c))) ->
  ambient_denies root all wl_ns labels a port =
  negb a && mode_eqb (effective_mode root all wl_ns labels port) MStrict.
Proof.
  intros root all wl_ns labels a port Hsel Htimes Hkeys Hports.
  unfold ambient_denies, converted_selector_keys.
  rewrite (ambient_winners root wl_ns labels all Hsel Htimes). unfold effective_mode.
  destruct (oldest (filter (workload_level_for root wl_ns labels) all)) as [w|] eqn:HW.
  - (* a workload policy wins *)
    pose proof (oldest_in _ _ HW) as Hin. apply filter_In in Hin. destruct Hin as [Hin Hlvl].
    unfold workload_level_for in Hlvl. rewrite !andb_true_iff in Hlvl. destruct Hlvl as [[[Hnl Hns] Hnr] _].
    apply negb_true_iff in Hnl, Hnr. apply N.eqb_eq in Hns.
    assert (sel_nil w = false) as Hsn by (rewrite <- (Hsel w Hin); exact Hnl).
    assert (match all with [] => true | _ :: _ => false end = false) as -> by (destruct all; [destruct Hin|reflexivity]).
    assert (derived_policy root all w =
            convert_peer_authentication root w (oldest (filter (namespace_level_for root wl_ns) all))
              (oldest (filter (mesh_level_for root) all))) as Hder.
    { unfold derived_policy. rewrite !get_oldest_first_oldest, !(fo_filter all Htimes). f_equal.
      - f_equal. apply filter_ext_in'. intros c Hc. specialize (Hsel c Hc). unfold namespace_level_for.
        rewrite Hsel, Hns. destruct (sel_nil c), (N.eqb (pa_ns c) wl_ns) eqn:E; cbn; try reflexivity.
        apply N.eqb_eq in E. rewrite E, <- Hns, Hnr. reflexivity.
      - f_equal. apply filter_ext_in'. intros c Hc. specialize (Hsel c Hc). unfold mesh_level_for.
        rewrite Hsel. reflexivity. }
    transitivity (ambient_single root (oldest (filter (mesh_level_for root) all))
                    (oldest (filter (namespace_level_for root wl_ns) all)) w a port).
    + unfold ambient_single. cbn [negb]. rewrite andb_true_r. f_equal.
      destruct (k_policy_shape (oldest (filter (mesh_level_for root) all))
                  (oldest (filter (namespace_level_for root wl_ns) all)) w) as [-> | ->]; [reflexivity|].
      rewrite (find_pa_unique all w Hkeys Hin), Hder. reflexivity.
    + rewrite ambient_single_correct by (try assumption; apply Hports; exact Hin). reflexivity.
  - (* no workload policy applies *)
    unfold keys_of_sel. cbn [s_mesh s_ns s_wl k_static k_policy port_mode set_mode or_else].
    rewrite orb_false_r.
    destruct all as [|c0 all'].
    + cbn. rewrite andb_false_r. destruct a; reflexivity.
    + cbn [negb]. rewrite andb_true_r.
      destruct (oldest (filter (mesh_level_for root) (c0 :: all'))) as [m|];
      destruct (oldest (filter (namespace_level_for root wl_ns) (c0 :: all'))) as [n|];
      cbn [set_mode or_else];
      repeat match goal with |- context [pa_mtls ?x] => destruct (pa_mtls x) end; destruct a; reflexivity.
Qed.
