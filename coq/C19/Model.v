(* C19 — sidecar injection decision.  Model of pkg/kube/inject/inject.go:injectRequired,
   written branch for branch, plus an independent specification table written from the
   documented precedence. *)
From V Require Import lib.Verdict.

(* A label / annotation value as the code distinguishes them. *)
Inductive sel := SAbsent | STrue | SFalse | SEmpty | SGarbage.
Inductive policy := PEnabled | PDisabled | POther.

Record input := {
  host_network : bool;
  ns_ignored   : bool;
  lbl          : sel;      (* sidecar.istio.io/inject label  *)
  anno         : sel;      (* sidecar.istio.io/inject annotation *)
  never_match  : bool;     (* some NeverInjectSelector is valid, non-empty and matches *)
  always_match : bool;     (* some AlwaysInjectSelector is valid, non-empty and matches *)
  pol          : policy
}.

(* ---- the code, branch for branch ------------------------------------------------- *)

(* objectSelector := annos[name]; if label present then objectSelector = label.
   A missing map entry reads as "" in Go. *)
Definition object_selector (i : input) : sel :=
  match lbl i with
  | SAbsent => match anno i with SAbsent => SEmpty | a => a end
  | l => l
  end.

(* returns (useDefault, inject) after the switch on objectSelector *)
Definition after_switch (s : sel) : bool * bool :=
  match s with
  | STrue => (false, true)
  | SFalse => (false, false)
  | _ => (true, false)
  end.

Definition inject_required (i : input) : bool :=
  if host_network i then false else
  if ns_ignored i then false else
  let '(use_default, inject) := after_switch (object_selector i) in
  let '(use_default, inject) :=
    if use_default then (if never_match i then (false, false) else (use_default, inject))
    else (use_default, inject) in
  let '(use_default, inject) :=
    if use_default then (if always_match i then (false, true) else (use_default, inject))
    else (use_default, inject) in
  match pol i with
  | POther => false
  | PDisabled => if use_default then false else inject
  | PEnabled => if use_default then true else inject
  end.

(* ---- the specification: the documented precedence, as an ordered rule list -------- *)

Inductive decision := Never | Inject | Skip | Continue.

(* An explicit "true"/"false" decides; anything else defers to the next source. *)
Definition explicit (s : sel) : decision :=
  match s with STrue => Inject | SFalse => Skip | _ => Continue end.

Definition first_decided (ds : list decision) (dflt : bool) : bool :=
  (fix go ds := match ds with
                | [] => dflt
                | Never :: _ => false
                | Inject :: _ => true
                | Skip :: _ => false
                | Continue :: ds => go ds
                end) ds.

(* 1. host networking, 2. ignored namespace, (a webhook whose policy value is illegal is
   switched off altogether: the code logs "Auto injection disabled!"), 3. the pod's label,
   4. else its annotation, 5. never-inject selectors, 6. always-inject selectors,
   7. namespace policy. *)
Definition spec_table (i : input) : bool :=
  first_decided
    [ (if host_network i then Never else Continue);
      (if ns_ignored i then Never else Continue);
      (match pol i with POther => Never | _ => Continue end);
      (match lbl i with SAbsent => explicit (anno i) | l => explicit l end);
      (if never_match i then Skip else Continue);
      (if always_match i then Inject else Continue) ]
    (match pol i with PEnabled => true | _ => false end).

(* ---- enumeration of the (finite) abstract domain --------------------------------- *)
Definition all_sel := [SAbsent; STrue; SFalse; SEmpty; SGarbage].
Definition all_pol := [PEnabled; PDisabled; POther].
Definition all_bool := [true; false].

Definition all_inputs : list input :=
  flat_map (fun h => flat_map (fun n => flat_map (fun l => flat_map (fun a =>
  flat_map (fun nv => flat_map (fun al => map (fun p =>
    {| host_network := h; ns_ignored := n; lbl := l; anno := a;
       never_match := nv; always_match := al; pol := p |}) all_pol)
  all_bool) all_bool) all_sel) all_sel) all_bool) all_bool.

(* ---- projection model of injectPod for idempotence ---------------------------------
   A pod is projected to its named containers, init containers and volumes, each carrying
   an opaque payload (image/command/args/ports hashed by the harness).  Injection with a
   template [t] merges by name: template entries are added when no entry of that name
   exists; an existing entry with a template name is kept in position and merged
   (payload of the user kept for user-owned fields: modelled as keeping the user payload
   when [overrides] says so, else the template payload).  The status annotation
   short-circuits a second injection. *)
Record entry := { ename : N; payload : N }.
Record pod := {
  containers : list entry;
  inits      : list entry;
  volumes    : list entry;
  injected   : bool     (* status annotation present *)
}.
Record template := {
  t_containers : list entry;
  t_inits      : list entry;
  t_volumes    : list entry;
  t_prepend    : bool   (* sidecar containers are placed first (holdApplicationUntilProxyStarts / native sidecar) *)
}.

Definition has_name (n : N) (l : list entry) : bool := existsb (fun e => N.eqb (ename e) n) l.

(* template entries whose name is not yet present *)
Definition fresh (t l : list entry) : list entry :=
  filter (fun e => negb (has_name (ename e) l)) t.

Definition merge_named (prepend : bool) (t l : list entry) : list entry :=
  if prepend then fresh t l ++ l else l ++ fresh t l.

Definition inject_pod (t : template) (p : pod) : pod :=
  if injected p then p else
  {| containers := merge_named (t_prepend t) (t_containers t) (containers p);
     inits := merge_named (t_prepend t) (t_inits t) (inits p);
     volumes := merge_named false (t_volumes t) (volumes p);
     injected := true |}.

(* the user's entries: those whose names the template does not own *)
Definition user_part (t l : list entry) : list entry :=
  filter (fun e => negb (has_name (ename e) t)) l.
