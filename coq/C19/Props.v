(* C19 property theorems only. *)
From V Require Import lib.Verdict C19.Model C19.Proofs.

(* The decision equals the documented precedence table, for every input. *)
Theorem C19_decision_is_table : forall i, inject_required i = spec_table i.
Proof. exact decision_is_table. Qed.
Print Assumptions C19_decision_is_table.

(* The abstract domain enumerated by the correspondence check is the whole domain. *)
Theorem C19_domain_complete : forall i, In i all_inputs.
Proof. exact all_inputs_complete. Qed.
Print Assumptions C19_domain_complete.

Theorem C19_host_network_never : forall i, host_network i = true -> inject_required i = false.
Proof. exact host_network_never. Qed.
Print Assumptions C19_host_network_never.

Theorem C19_ignored_namespace_never : forall i, ns_ignored i = true -> inject_required i = false.
Proof. exact ignored_ns_never. Qed.
Print Assumptions C19_ignored_namespace_never.

Theorem C19_label_false_never : forall i, lbl i = SFalse -> inject_required i = false.
Proof. exact label_false_never. Qed.
Print Assumptions C19_label_false_never.

Theorem C19_label_true_injects : forall i,
  host_network i = false -> ns_ignored i = false -> pol i <> POther -> lbl i = STrue ->
  inject_required i = true.
Proof. exact label_true_injects. Qed.
Print Assumptions C19_label_true_injects.

Theorem C19_never_before_always : forall i,
  lbl i = SAbsent -> anno i = SAbsent -> never_match i = true -> inject_required i = false.
Proof. exact never_before_always. Qed.
Print Assumptions C19_never_before_always.

(* Injecting an injected pod changes nothing (projection model). *)
Theorem C19_idempotent : forall t p, inject_pod t (inject_pod t p) = inject_pod t p.
Proof. exact inject_idempotent. Qed.
Print Assumptions C19_idempotent.

(* ... and this does not rest on the status short-circuit: the name-keyed merge itself is
   idempotent (the webhook re-invocation path). *)
Theorem C19_merge_idempotent : forall t p, injected p = false ->
  let q := inject_pod t p in
  merge_named (t_prepend t) (t_containers t) (containers q) = containers q /\
  merge_named (t_prepend t) (t_inits t) (inits q) = inits q /\
  merge_named false (t_volumes t) (volumes q) = volumes q.
Proof. exact inject_merge_idempotent. Qed.
Print Assumptions C19_merge_idempotent.

(* User containers / init containers / volumes survive in order with their payload. *)
Theorem C19_user_containers_preserved : forall t p,
  let q := inject_pod t p in
  user_part (t_containers t) (containers q) = user_part (t_containers t) (containers p) /\
  user_part (t_inits t) (inits q) = user_part (t_inits t) (inits p) /\
  user_part (t_volumes t) (volumes q) = user_part (t_volumes t) (volumes p).
Proof. exact user_containers_preserved. Qed.
Print Assumptions C19_user_containers_preserved.

(* non-vacuity: some input injects, some does not, with every guard off *)
Example C19_nonvacuous :
  inject_required {| host_network := false; ns_ignored := false; lbl := SAbsent; anno := STrue;
                     never_match := false; always_match := false; pol := PDisabled |} = true /\
  inject_required {| host_network := false; ns_ignored := false; lbl := SFalse; anno := STrue;
                     never_match := false; always_match := true; pol := PEnabled |} = false.
Proof. split; reflexivity. Qed.
