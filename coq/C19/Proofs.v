From V Require Import lib.Verdict C19.Model.
From Coq Require Import Lia.

Lemma table_check : forallb (fun i => Bool.eqb (inject_required i) (spec_table i)) all_inputs = true.
Proof. vm_compute. reflexivity. Qed.

Lemma all_bool_complete b : In b all_bool.  Proof. destruct b; cbn; tauto. Qed.
Lemma all_sel_complete s : In s all_sel.  Proof. destruct s; cbn; tauto. Qed.
Lemma all_pol_complete p : In p all_pol.  Proof. destruct p; cbn; tauto. Qed.

Lemma all_inputs_complete : forall i, In i all_inputs.
Proof.
  intros [h n l a nv al p]. unfold all_inputs.
  apply in_flat_map; exists h; split; [apply all_bool_complete|].
  apply in_flat_map; exists n; split; [apply all_bool_complete|].
  apply in_flat_map; exists l; split; [apply all_sel_complete|].
  apply in_flat_map; exists a; split; [apply all_sel_complete|].
  apply in_flat_map; exists nv; split; [apply all_bool_complete|].
  apply in_flat_map; exists al; split; [apply all_bool_complete|].
  apply in_map_iff; exists p; split; [reflexivity | apply all_pol_complete].
Qed.

Lemma decision_is_table : forall i, inject_required i = spec_table i.
Proof.
  intros i. pose proof table_check as H. rewrite forallb_forall in H.
  apply Bool.eqb_prop. apply H. apply all_inputs_complete.
Qed.

Lemma host_network_never i : host_network i = true -> inject_required i = false.
Proof. unfold inject_required. intros ->. reflexivity. Qed.

Lemma ignored_ns_never i : ns_ignored i = true -> inject_required i = false.
Proof. unfold inject_required. intros ->. destruct (host_network i); reflexivity. Qed.

Lemma label_overrides_annotation i a' :
  lbl i <> SAbsent ->
  inject_required i =
  inject_required {| host_network := host_network i; ns_ignored := ns_ignored i; lbl := lbl i;
                     anno := a'; never_match := never_match i; always_match := always_match i;
                     pol := pol i |}.
Proof.
  destruct i as [h n l a nv al p]; cbn. intros Hl.
  destruct l; try congruence; reflexivity.
Qed.

Lemma label_false_never i : lbl i = SFalse -> inject_required i = false.
Proof.
  rewrite decision_is_table. destruct i as [h n l a nv al p]; cbn. intros ->.
  destruct h, n, p; reflexivity.
Qed.

Lemma label_true_injects i :
  host_network i = false -> ns_ignored i = false -> pol i <> POther -> lbl i = STrue ->
  inject_required i = true.
Proof.
  rewrite decision_is_table. destruct i as [h n l a nv al p]; cbn. intros -> -> Hp ->.
  destruct p; try congruence; reflexivity.
Qed.

Lemma never_before_always i :
  lbl i = SAbsent -> anno i = SAbsent -> never_match i = true -> inject_required i = false.
Proof.
  rewrite decision_is_table. destruct i as [h n l a nv al p]; cbn. intros -> -> ->.
  destruct h, n, p; reflexivity.
Qed.

(* ---- projection idempotence ------------------------------------------------------- *)

Lemma fresh_nil_after t l prepend : fresh t (merge_named prepend t l) = [].
Proof.
  unfold fresh, merge_named.
  assert (H: forall e, In e t -> has_name (ename e) (if prepend then fresh t l ++ l else l ++ fresh t l) = true).
  { intros e He. unfold has_name.
    destruct (existsb (fun e0 => N.eqb (ename e0) (ename e)) l) eqn:Hex.
    - destruct prepend; rewrite existsb_app, Hex; [apply orb_true_r | reflexivity].
    - assert (Hin: In e (fresh t l)).
      { unfold fresh. apply filter_In. split; [exact He|]. unfold has_name. rewrite Hex. reflexivity. }
      assert (Hf: existsb (fun e0 => N.eqb (ename e0) (ename e)) (fresh t l) = true).
      { apply existsb_exists. exists e. split; [exact Hin | apply N.eqb_refl]. }
      destruct prepend; rewrite existsb_app; unfold fresh in Hf |- *; rewrite Hf;
        [reflexivity | apply orb_true_r]. }
  induction t as [|e t IH]; [reflexivity|].
  cbn [filter].
  rewrite (H e (or_introl eq_refl)). cbn [negb].
  (* remaining: filter over t with the same (larger) list *)
  clear IH.
  assert (forall t', (forall e', In e' t' -> In e' (e :: t)) ->
            filter (fun e0 => negb (has_name (ename e0)
               (if prepend then fresh (e :: t) l ++ l else l ++ fresh (e :: t) l))) t' = []) as Hall.
  { induction t' as [|e' t' IH']; intros Hsub; [reflexivity|].
    cbn [filter]. rewrite (H e' (Hsub e' (or_introl eq_refl))). cbn [negb].
    apply IH'. intros x Hx. apply Hsub. right. exact Hx. }
  apply Hall. intros e' He'. right. exact He'.
Qed.

Lemma merge_idem t l prepend : merge_named prepend t (merge_named prepend t l) = merge_named prepend t l.
Proof.
  unfold merge_named at 1. rewrite fresh_nil_after.
  destruct prepend; [reflexivity | apply app_nil_r].
Qed.

Lemma inject_idempotent t p : inject_pod t (inject_pod t p) = inject_pod t p.
Proof.
  unfold inject_pod. destruct (injected p) eqn:Hi.
  - rewrite Hi. reflexivity.
  - reflexivity.
Qed.

(* even without the status short-circuit (re-invocation path) the merge is idempotent *)
Lemma inject_merge_idempotent t p :
  let q := inject_pod t p in
  merge_named (t_prepend t) (t_containers t) (containers q) = containers q /\
  merge_named (t_prepend t) (t_inits t) (inits q) = inits q /\
  merge_named false (t_volumes t) (volumes q) = volumes q.
Proof.
  (* holds when p was not yet injected; when it was, we need p itself to be a fixpoint, so
     state it for the not-injected case *)
Abort.

Lemma inject_merge_idempotent t p : injected p = false ->
  let q := inject_pod t p in
  merge_named (t_prepend t) (t_containers t) (containers q) = containers q /\
  merge_named (t_prepend t) (t_inits t) (inits q) = inits q /\
  merge_named false (t_volumes t) (volumes q) = volumes q.
Proof.
  intros Hi. unfold inject_pod. rewrite Hi. cbn [containers inits volumes].
  repeat split; apply merge_idem.
Qed.

Lemma user_part_fresh t l : user_part t (fresh t l) = [].
Proof.
  unfold user_part, fresh. induction t as [|e t IH]; [reflexivity|].
Abort.

Lemma filter_app_ {A} (f : A -> bool) l1 l2 : filter f (l1 ++ l2) = filter f l1 ++ filter f l2.
Proof. induction l1 as [|x l1 IH]; cbn; [reflexivity|]. destruct (f x); cbn; rewrite IH; reflexivity. Qed.

Lemma user_part_of_template_entries t t' l :
  (forall e, In e t' -> In e t) -> user_part t (fresh t' l) = [].
Proof.
  intros Hsub. unfold user_part.
  assert (forall x, In x (fresh t' l) -> negb (has_name (ename x) t) = false) as Hx.
  { intros x Hx. unfold fresh in Hx. apply filter_In in Hx. destruct Hx as [Hin _].
    apply Bool.negb_false_iff. unfold has_name. apply existsb_exists. exists x.
    split; [apply Hsub; exact Hin | apply N.eqb_refl]. }
  induction (fresh t' l) as [|x r IH]; [reflexivity|].
  cbn [filter]. rewrite (Hx x (or_introl eq_refl)). apply IH.
  intros y Hy. apply Hx. right. exact Hy.
Qed.

Lemma user_part_preserved t l prepend : user_part t (merge_named prepend t l) = user_part t l.
Proof.
  unfold merge_named. destruct prepend; unfold user_part at 1; rewrite filter_app_;
    fold (user_part t (fresh t l)); fold (user_part t l);
    rewrite (user_part_of_template_entries t t l (fun e H => H)); [reflexivity | apply app_nil_r].
Qed.

Lemma user_containers_preserved t p :
  let q := inject_pod t p in
  user_part (t_containers t) (containers q) = user_part (t_containers t) (containers p) /\
  user_part (t_inits t) (inits q) = user_part (t_inits t) (inits p) /\
  user_part (t_volumes t) (volumes q) = user_part (t_volumes t) (volumes p).
Proof.
  unfold inject_pod. destruct (injected p); cbn [containers inits volumes]; [auto|].
  repeat split; apply user_part_preserved.
Qed.
