(* Evaluation of harness cases for C19. *)
From V Require Export lib.Verdict C19.Model.

Inductive case :=
| Decision (id : N) (i : input) (observed : bool)
(* injectPod once and twice on a projected pod: user parts before / after 1st / after 2nd,
   and the full projections after 1st and 2nd injection *)
| Idem (id : N) (user_before user_after1 : list (N * N)) (proj1 proj2 : list (N * N)).

Definition case_id c := match c with Decision id _ _ => id | Idem id _ _ _ _ => id end.

Definition pair_eqb (a b : N * N) := N.eqb (fst a) (fst b) && N.eqb (snd a) (snd b).

Definition model_ok (c : case) : bool :=
  match c with
  | Decision _ i o => Bool.eqb (inject_required i) o
  | Idem _ _ _ _ _ => true
  end.

(* property oracle on the observed behaviour *)
Definition prop_ok (c : case) : bool :=
  match c with
  | Decision _ i o => Bool.eqb (spec_table i) o
  | Idem _ ub ua p1 p2 => list_eqb pair_eqb ub ua && list_eqb pair_eqb p1 p2
  end.

Definition mismatches := check_all case_id model_ok prop_ok.
