(* C13 proofs, part 5: locality load balancing (priorities, failover) neither drops nor duplicates
   endpoints and keeps them in their locality. *)
From Coq Require Import List NArith Bool Lia Permutation.
From V Require Import C13.Model C13.ProofsCla.
Import ListNotations.
Open Scope N_scope.

(* ------------------------------------------------------------------ the labelled assignment is the assignment *)
Lemma direct_members_strip c es : map snd (direct_members_l c es) = direct_members c es.
Proof.
  unfold direct_members_l, direct_members. induction es as [|e es IH]; [reflexivity|].
  cbn [flat_map]. rewrite map_app, IH. destruct (route_of c e); reflexivity.
Qed.

Lemma strip_plain g : strip_l (plain_group_l g) = plain_group g.
Proof. unfold strip_l, plain_group_l, plain_group. cbn [fst snd]. rewrite !map_map. cbn [snd]. reflexivity. Qed.

Lemma strip_net c g : strip_l (net_filter_group_l c g) = net_filter_group c g.
Proof.
  unfold strip_l, net_filter_group_l, net_filter_group. cbv zeta. cbn [fst snd].
  set (ml := direct_members_l c (snd g) ++ map (fun x => ([], gw_member x)) (sort_gws (gw_weights c (snd g)))).
  assert (Hmu : direct_members c (snd g) ++ map gw_member (sort_gws (gw_weights c (snd g))) = map snd ml).
  { unfold ml. rewrite map_app, direct_members_strip, map_map. reflexivity. }
  rewrite Hmu. destruct ml as [|x ml]; [reflexivity|]. cbn [map]. rewrite map_map. reflexivity.
Qed.

Theorem build_cla_l_strip c : map strip_l (build_cla_l c) = build_cla c.
Proof.
  unfold build_cla_l, build_cla. destruct (negb (c_found c)); [reflexivity|].
  destruct (find_port (c_port c) (c_ports c)); [|reflexivity].
  destruct (multi_network c); rewrite map_map; apply map_ext; intros g; [apply strip_net | apply strip_plain].
Qed.

(* ------------------------------------------------------------------ splitting by priority is a partition *)
Fixpoint ssorted (l : list N) : Prop :=
  match l with
  | x :: ((y :: _) as l') => x < y /\ ssorted l'
  | _ => True
  end.

Lemma in_ins_sorted x y l : In y (ins_sorted x l) <-> y = x \/ In y l.
Proof.
  induction l as [|a l IH]; cbn [ins_sorted In].
  - split; [intros [H|[]]; auto | intros [H|[]]; auto].
  - destruct (x <? a); [cbn [In]; split; intros H; intuition auto|].
    destruct (x =? a) eqn:E.
    + apply N.eqb_eq in E. subst a. cbn [In]. split; intros H; intuition auto.
    + cbn [In]. rewrite IH. split; intros H; intuition auto.
Qed.

Lemma ssorted_ins x l : ssorted l -> ssorted (ins_sorted x l).
Proof.
  induction l as [|a l IH]; intros Hs; [exact I|].
  cbn [ins_sorted]. destruct (N.ltb_spec x a) as [Hlt|Hge].
  - cbn [ssorted]. split; [exact Hlt | exact Hs].
  - destruct (N.eqb_spec x a) as [->|Hne]; [exact Hs|].
    assert (Ha : a < x) by lia.
    destruct l as [|b l].
    + cbn [ins_sorted ssorted]. auto.
    + cbn [ssorted] in Hs. destruct Hs as [Hab Hs]. specialize (IH Hs).
      cbn [ins_sorted] in *. destruct (x <? b) eqn:E1.
      * cbn [ssorted]. split; [exact Ha|]. exact IH.
      * destruct (x =? b) eqn:E2.
        -- cbn [ssorted]. split; [exact Hab | exact Hs].
        -- cbn [ssorted]. split; [exact Hab | exact IH].
Qed.

Lemma ssorted_head x l : ssorted (x :: l) -> forall y, In y l -> x < y.
Proof.
  revert x. induction l as [|a l IH]; intros x Hs y Hy; [destruct Hy|].
  cbn [ssorted] in Hs. destruct Hs as [Hxa Hs]. destruct Hy as [->|Hy]; [exact Hxa|].
  specialize (IH a Hs y Hy). lia.
Qed.
Lemma ssorted_tail x l : ssorted (x :: l) -> ssorted l.
Proof. destruct l; [intros; exact I | cbn [ssorted]; tauto]. Qed.

Lemma prios_of_acc {A} (f : A -> N) l : forall acc,
  ssorted acc ->
  ssorted (fold_left (fun acc x => ins_sorted (f x) acc) l acc) /\
  (forall p, In p (fold_left (fun acc x => ins_sorted (f x) acc) l acc) <-> In p acc \/ exists x, In x l /\ f x = p).
Proof.
  induction l as [|a l IH]; intros acc Hs; cbn [fold_left].
  - split; [exact Hs|]. intros p. split; [auto | intros [H|(x & [] & _)]; exact H].
  - destruct (IH (ins_sorted (f a) acc) (ssorted_ins (f a) acc Hs)) as [H1 H2]. split; [exact H1|].
    intros p. rewrite H2, in_ins_sorted. split.
    + intros [[->|H]|(x & Hx & Hf)]; [right; exists a; cbn; auto | auto | right; exists x; cbn; auto].
    + intros [H|(x & [->|Hx] & Hf)]; [auto | left; left; auto | right; exists x; auto].
Qed.

Lemma prios_of_sorted {A} (f : A -> N) l : ssorted (prios_of f l).
Proof. apply (prios_of_acc f l [] I). Qed.
Lemma in_prios_of {A} (f : A -> N) l p : In p (prios_of f l) <-> exists x, In x l /\ f x = p.
Proof. unfold prios_of. rewrite (proj2 (prios_of_acc f l [] I) p). split; [intros [[]|H]; exact H | auto]. Qed.

Lemma filter_disjoint_perm {A} (g1 g2 : A -> bool) l :
  (forall x, g1 x = true -> g2 x = false) ->
  Permutation (filter g1 l ++ filter g2 l) (filter (fun x => g1 x || g2 x) l).
Proof.
  intros Hd. induction l as [|x l IH]; [apply Permutation_refl|].
  cbn [filter]. destruct (g1 x) eqn:E1.
  - rewrite (Hd x E1). cbn [orb app]. apply perm_skip. exact IH.
  - cbn [orb]. destruct (g2 x).
    + apply Permutation_sym. apply Permutation_cons_app. apply Permutation_sym. exact IH.
    + exact IH.
Qed.

Lemma partition_perm_gen {A} (f : A -> N) (l : list A) ps :
  ssorted ps ->
  Permutation (flat_map (fun p => filter (fun x => f x =? p) l) ps) (filter (fun x => existsb (N.eqb (f x)) ps) l).
Proof.
  induction ps as [|p ps IH]; intros Hs.
  - cbn [flat_map existsb]. induction l; [apply Permutation_refl | exact IHl].
  - cbn [flat_map existsb]. apply Permutation_trans with
      (filter (fun x => f x =? p) l ++ filter (fun x => existsb (N.eqb (f x)) ps) l).
    + apply Permutation_app_head. apply IH. exact (ssorted_tail p ps Hs).
    + apply (filter_disjoint_perm (fun x => f x =? p) (fun x => existsb (N.eqb (f x)) ps)).
      intros x Hx. apply N.eqb_eq in Hx. destruct (existsb (N.eqb (f x)) ps) eqn:E; [|reflexivity].
      apply existsb_exists in E. destruct E as (q & Hq & Hfq). apply N.eqb_eq in Hfq.
      pose proof (ssorted_head p ps Hs q Hq). lia.
Qed.

Lemma filter_all {A} (h : A -> bool) l : (forall x, In x l -> h x = true) -> filter h l = l.
Proof.
  induction l as [|a l IH]; intros H; [reflexivity|]. cbn [filter]. rewrite (H a (or_introl eq_refl)).
  f_equal. apply IH. intros x Hx. apply H. right. exact Hx.
Qed.
Lemma filter_none {A} (h : A -> bool) l : (forall x, In x l -> h x = false) -> filter h l = [].
Proof.
  induction l as [|a l IH]; intros H; [reflexivity|]. cbn [filter]. rewrite (H a (or_introl eq_refl)).
  apply IH. intros x Hx. apply H. right. exact Hx.
Qed.

Theorem partition_perm {A} (f : A -> N) (l : list A) :
  Permutation (flat_map (fun p => filter (fun x => f x =? p) l) (prios_of f l)) l.
Proof.
  apply Permutation_trans with (filter (fun x => existsb (N.eqb (f x)) (prios_of f l)) l).
  - apply partition_perm_gen. apply prios_of_sorted.
  - assert (H : forall x, In x l -> existsb (N.eqb (f x)) (prios_of f l) = true).
    { intros x Hx. apply existsb_exists. exists (f x). split; [apply in_prios_of; exists x; auto | apply N.eqb_refl]. }
    rewrite (filter_all _ l H). apply Permutation_refl.
Qed.

(* ------------------------------------------------------------------ membership preservation *)
Definition members_at (L : N) (gs : list pgroup_l) : list lmember :=
  flat_map pg_members (filter (fun g => pg_loc g =? L) gs).
Definition members_at_in (L : N) (gs : list lgroup_l) : list lmember :=
  flat_map (fun g : lgroup_l => snd g) (filter (fun g : lgroup_l => fst (fst g) =? L) gs).

Lemma members_at_map_prio L (h : pgroup_l -> N) gs :
  members_at L (map (fun g => set_prio (h g) g) gs) = members_at L gs.
Proof.
  unfold members_at. induction gs as [|g gs IH]; [reflexivity|].
  cbn [map filter]. unfold set_prio at 1. unfold pg_loc at 1. cbn [fst snd]. fold (pg_loc g).
  destruct (pg_loc g =? L); [|exact IH]. cbn [flat_map]. rewrite IH. reflexivity.
Qed.

Lemma members_at_compact L gs : members_at L (compact gs) = members_at L gs.
Proof. unfold compact. apply members_at_map_prio. Qed.

Lemma members_at_failover L lb gs : members_at L (apply_locality_failover lb gs) = members_at L gs.
Proof. unfold apply_locality_failover. rewrite members_at_compact. apply members_at_map_prio. Qed.

Lemma members_at_to_pgroup L gs : members_at L (map to_pgroup gs) = members_at_in L gs.
Proof.
  unfold members_at, members_at_in. induction gs as [|g gs IH]; [reflexivity|].
  cbn [map filter]. unfold to_pgroup at 1, pg_loc at 1. cbn [fst snd].
  destruct (fst (fst g) =? L); [|exact IH]. cbn [flat_map]. rewrite IH. reflexivity.
Qed.

Lemma split_group_loc lb g x : In x (split_group lb g) -> pg_loc x = fst (fst g).
Proof. unfold split_group. intros H. apply in_map_iff in H. destruct H as (p & <- & _). reflexivity. Qed.

Lemma split_group_members lb g :
  Permutation (flat_map pg_members (split_group lb g)) (snd g).
Proof.
  unfold split_group. rewrite flat_map_concat_map, map_map. cbn [pg_members snd]. rewrite <- flat_map_concat_map.
  apply (partition_perm (member_prio lb) (snd g)).
Qed.

Lemma members_at_split L lb gs :
  Permutation (members_at L (flat_map (split_group lb) gs)) (members_at_in L gs).
Proof.
  unfold members_at, members_at_in. induction gs as [|g gs IH]; [apply Permutation_refl|].
  cbn [flat_map filter]. rewrite filter_app, flat_map_app.
  destruct (fst (fst g) =? L) eqn:E.
  - rewrite filter_all by (intros x Hx; rewrite (split_group_loc lb g x Hx); exact E).
    cbn [flat_map]. apply Permutation_app; [apply split_group_members | exact IH].
  - rewrite filter_none by (intros x Hx; rewrite (split_group_loc lb g x Hx); exact E).
    cbn [flat_map app]. exact IH.
Qed.

Lemma members_at_fp L lb gs :
  Permutation (members_at L (apply_failover_priorities lb gs)) (members_at_in L gs).
Proof.
  unfold apply_failover_priorities.
  destruct (l_proxy_labels lb); [rewrite members_at_to_pgroup; apply Permutation_refl|].
  destruct gs as [|g gs]; [apply Permutation_refl|].
  rewrite members_at_compact. apply members_at_split.
Qed.

(* locality by locality, load balancing keeps exactly the members it was given *)
Theorem apply_lb_members_at c lb gs L :
  Permutation (members_at L (apply_lb c lb gs)) (members_at_in L gs).
Proof.
  unfold apply_lb. destruct (negb (l_has_lb lb) || negb (enable_failover c)).
  - rewrite members_at_to_pgroup. apply Permutation_refl.
  - destruct (l_prio lb).
    + rewrite members_at_failover, members_at_to_pgroup. apply Permutation_refl.
    + destruct (l_failover lb); [|rewrite members_at_failover]; apply members_at_fp.
Qed.

(* ... hence over the whole assignment *)
Lemma flat_map_flat_map {A B C} (h : A -> list B) (m : B -> list C) l :
  flat_map m (flat_map h l) = flat_map (fun x => flat_map m (h x)) l.
Proof. induction l as [|a l IH]; [reflexivity|]. cbn [flat_map]. rewrite flat_map_app, IH. reflexivity. Qed.

Lemma flat_map_filter_split {A B} (key : A -> N) (mem : A -> list B) (gs : list A) (Ls : list N) :
  ssorted Ls -> (forall g, In g gs -> In (key g) Ls) ->
  Permutation (flat_map (fun L => flat_map mem (filter (fun g => key g =? L) gs)) Ls) (flat_map mem gs).
Proof.
  intros Hs Hin.
  rewrite <- (flat_map_flat_map (fun L => filter (fun g => key g =? L) gs) mem Ls).
  apply Permutation_flat_map.
  apply Permutation_trans with (filter (fun x => existsb (N.eqb (key x)) Ls) gs).
  - apply partition_perm_gen. exact Hs.
  - rewrite filter_all; [apply Permutation_refl|].
    intros x Hx. apply existsb_exists. exists (key x). split; [apply Hin; exact Hx | apply N.eqb_refl].
Qed.

Theorem apply_lb_members c lb gs :
  Permutation (flat_map pg_members (apply_lb c lb gs)) (flat_map (fun g : lgroup_l => snd g) gs).
Proof.
  (* sum the per-locality statement over the localities that occur on either side *)
  set (Ls := fold_left (fun acc L => ins_sorted L acc) (map pg_loc (apply_lb c lb gs))
                       (prios_of (fun g : lgroup_l => fst (fst g)) gs)).
  assert (HLs : ssorted Ls /\ forall p, In p Ls <-> In p (prios_of (fun g : lgroup_l => fst (fst g)) gs) \/
                                                   exists x, In x (map pg_loc (apply_lb c lb gs)) /\ (fun L => L) x = p).
  { apply (prios_of_acc (fun L : N => L)). apply prios_of_sorted. }
  destruct HLs as [Hs HIn].
  apply Permutation_trans with (flat_map (fun L => members_at L (apply_lb c lb gs)) Ls).
  - apply Permutation_sym. apply (flat_map_filter_split pg_loc pg_members (apply_lb c lb gs) Ls Hs).
    intros g Hg. apply HIn. right. exists (pg_loc g). split; [apply in_map; exact Hg | reflexivity].
  - apply Permutation_trans with (flat_map (fun L => members_at_in L gs) Ls).
    + clear Hs HIn. induction Ls as [|L Ls IH]; [apply Permutation_refl|]. cbn [flat_map].
      apply Permutation_app; [apply apply_lb_members_at | exact IH].
    + apply (flat_map_filter_split (fun g : lgroup_l => fst (fst g)) (fun g : lgroup_l => snd g) gs Ls Hs).
      intros g Hg. apply HIn. left. apply in_prios_of. exists g. auto.
Qed.

Lemma fm_strip_p (gs : list pgroup_l) :
  flat_map (fun g : pgroup => snd g) (map strip_p gs) = map snd (flat_map pg_members gs).
Proof. induction gs as [|g gs IH]; [reflexivity|]. cbn [map flat_map]. rewrite map_app, IH. reflexivity. Qed.
Lemma fm_strip_l (gs : list lgroup_l) :
  flat_map (fun g : lgroup => snd g) (map strip_l gs) = map snd (flat_map (fun g : lgroup_l => snd g) gs).
Proof. induction gs as [|g gs IH]; [reflexivity|]. cbn [map flat_map]. rewrite map_app, IH. reflexivity. Qed.

(* the load-balanced assignment serves exactly the members of the assignment: nothing dropped, nothing
   duplicated *)
Theorem build_cla_lb_members c lb :
  Permutation (flat_map (fun g : pgroup => snd g) (map strip_p (build_cla_lb c lb)))
              (flat_map (fun g : lgroup => snd g) (build_cla c)).
Proof.
  rewrite <- build_cla_l_strip. unfold build_cla_lb. rewrite fm_strip_p, fm_strip_l.
  apply Permutation_map. apply apply_lb_members.
Qed.

(* ... and locality by locality *)
Theorem build_cla_lb_members_at c lb L :
  Permutation (members_at L (build_cla_lb c lb)) (members_at_in L (build_cla_l c)).
Proof. apply apply_lb_members_at. Qed.

(* ------------------------------------------------------------------ weights after load balancing *)
Definition pg_weights (g : pgroup_l) : list N := map (fun x : lmember => m_weight (snd x)) (pg_members g).

(* a group with members carries the saturating sum of their weights *)
Definition sat_ok (g : pgroup_l) : Prop :=
  pg_members g <> [] -> Forall (fun w => w <= U32MAX) (pg_weights g) ->
  pg_weight g = Some (N.min (plain_sum (pg_weights g)) U32MAX).

Lemma sat_map_prio (h : pgroup_l -> N) gs :
  Forall sat_ok gs -> Forall sat_ok (map (fun g => set_prio (h g) g) gs).
Proof. intros H. rewrite Forall_forall in *. intros x Hx. apply in_map_iff in Hx. destruct Hx as (g & <- & Hg). exact (H g Hg). Qed.
Lemma sat_compact gs : Forall sat_ok gs -> Forall sat_ok (compact gs).
Proof. apply sat_map_prio. Qed.
Lemma sat_failover lb gs : Forall sat_ok gs -> Forall sat_ok (apply_locality_failover lb gs).
Proof. intros H. apply sat_compact, sat_map_prio, H. Qed.

Lemma sat_split lb g : Forall sat_ok (split_group lb g).
Proof.
  rewrite Forall_forall. intros x Hx. unfold split_group in Hx. apply in_map_iff in Hx. destruct Hx as (p & <- & _).
  intros _ Hw. unfold pg_weight, pg_weights, pg_members in *. cbn [fst snd] in *. rewrite sat_sum_min by exact Hw. reflexivity.
Qed.

Lemma sat_to_pgroup c g : In g (build_cla_l c) -> sat_ok (to_pgroup g).
Proof.
  intros Hg Hne Hw.
  assert (Hin : In (strip_l g) (build_cla c)) by (rewrite <- build_cla_l_strip; apply in_map; exact Hg).
  unfold pg_weight, pg_weights, pg_members, to_pgroup in *. cbn [fst snd] in *.
  assert (Hm : map m_weight (snd (strip_l g)) = map (fun x : lmember => m_weight (snd x)) (snd g))
    by (unfold strip_l; cbn [snd]; rewrite map_map; reflexivity).
  pose proof (weights c (strip_l g) Hin) as H. rewrite Hm in H. unfold strip_l in H at 1 2. cbn [fst snd] in H.
  apply H; [|exact Hw]. intros E. apply map_eq_nil in E. contradiction.
Qed.

(* every setting (none, failover only, failoverPriority split): locality weight = min(sum, 2^32-1),
   the same rule as before load balancing *)
Theorem lb_weights c lb g :
  In g (build_cla_lb c lb) -> pg_members g <> [] -> Forall (fun w => w <= U32MAX) (pg_weights g) ->
  pg_weight g = Some (N.min (plain_sum (pg_weights g)) U32MAX).
Proof.
  assert (Hall : Forall sat_ok (build_cla_lb c lb)); [|rewrite Forall_forall in Hall; apply Hall].
  assert (Hbase : Forall sat_ok (map to_pgroup (build_cla_l c))).
  { rewrite Forall_forall. intros x Hx. apply in_map_iff in Hx. destruct Hx as (g0 & <- & Hg0). apply (sat_to_pgroup c g0 Hg0). }
  assert (Hfp : Forall sat_ok (apply_failover_priorities lb (build_cla_l c))).
  { unfold apply_failover_priorities. destruct (l_proxy_labels lb); [exact Hbase|].
    destruct (build_cla_l c) as [|g0 gs0] eqn:E; [constructor|]. rewrite <- E. apply sat_compact.
    rewrite Forall_forall. intros x Hx. apply in_flat_map in Hx. destruct Hx as (g1 & _ & Hx).
    pose proof (sat_split lb g1) as H. rewrite Forall_forall in H. exact (H x Hx). }
  unfold build_cla_lb, apply_lb. destruct (negb (l_has_lb lb) || negb (enable_failover c)); [exact Hbase|].
  destruct (l_prio lb); [apply sat_failover; exact Hbase|].
  destruct (l_failover lb); [exact Hfp | apply sat_failover; exact Hfp].
Qed.

(* the former witness of the wrap: two endpoints of weight 2^31 split by failoverPriority *)
Definition fpw_in : cla_in :=
  {| c_found := true; c_dns := false; c_ports := [(80, 1)]; c_port := 80; c_inference := false;
     c_cluster_local := false; c_node_local := false; c_persistent := false; c_default_unh := true; c_subset := 0;
     c_dr := Some {| d_subsets := []; d_od := Some false |}; p_net := 1; p_cluster := 1; p_node := 1; p_view := None;
     c_gws := []; c_scale := 1; c_shards := Some [((1, 2), [k12_ep 1; k12_ep 2])] |}.
Definition fpw_lb : lb_in :=
  {| l_has_lb := true; l_proxy_loc := 111; l_proxy_labels := [(1, 1)]; l_failover := []; l_prio := [(1, None)] |}.
Lemma lb_weights_example :
  map pg_weight (build_cla_lb fpw_in fpw_lb) = [Some U32MAX] /\
  map (fun g : lgroup => snd (fst g)) (build_cla fpw_in) = [Some U32MAX].
Proof. vm_compute. split; reflexivity. Qed.
