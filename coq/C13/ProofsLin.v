(* C13 proofs, part 2: interleavings of the critical sections of concurrent calls. *)
From Coq Require Import List NArith Bool.
From V Require Import C13.Model.
Import ListNotations.
Open Scope N_scope.

Definition mkep (wl addr sa : N) : ep :=
  {| e_wl := wl; e_addr := addr; e_dns := false; e_port := 1; e_eport := 8080; e_sa := sa; e_health := Healthy;
     e_send_unh := false; e_weight := 0; e_labels := []; e_net := 0; e_cluster := 1; e_loc := 1; e_tls := false;
     e_disc := DiscNone; e_node := 0 |}.
Definition regA : skey := (1, 1).
Definition regB : skey := (1, 2).

(* ---- K1: an update of registry B overlapping a delete of registry A's last shard of the service *)
Definition k1_prefix : list op := [Update regA 1 1 [mkep 1 1 1]].
Definition k1_calls : list op := [Update regB 1 1 [mkep 2 2 1]; DelSvc regA 1 1 false].
Definition k1_sched : list nat := [0; 1; 0]%nat.    (* lookup(B) ; delete(A) ; write(B) *)

Definition sched_outcome (prefix calls : list op) (sched : list nat) : istate * list thread :=
  run_sched (run_ops init prefix) (map Start calls) sched.

Lemma k1_witness :
  let '(st, ts) := sched_outcome k1_prefix k1_calls k1_sched in
  all_done ts = true /\
  linearizable_from (run_ops init k1_prefix) k1_calls st = false /\
  cell st (1, 1) regB = None /\                                            (* B's report is gone ... *)
  (forall p, In p (perms k1_calls) -> cell (run_ops (run_ops init k1_prefix) p) (1, 1) regB = Some [mkep 2 2 1]).
                                                                            (* ... in every sequential order it is there *)
Proof.
  vm_compute. repeat split; try reflexivity.
  intros p [<-|[<-|[]]]; reflexivity.
Qed.

Theorem linearizable_refuted :
  exists prefix calls sched,
    let '(st, ts) := sched_outcome prefix calls sched in
    all_done ts = true /\ linearizable_from (run_ops init prefix) calls st = false.
Proof.
  exists k1_prefix, k1_calls, k1_sched.
  pose proof k1_witness as H. destruct (sched_outcome k1_prefix k1_calls k1_sched) as [st ts].
  destruct H as (H1 & H2 & _). split; assumption.
Qed.

(* ---- bounded exhaustive statement for the calls that cannot unlink *)
(* all interleavings in which thread i takes at most (nth i counts) steps; steps of a finished thread are no-ops *)
Fixpoint interleave (fuel : nat) (counts : list nat) : list (list nat) :=
  match fuel with
  | O => [[]]
  | S fuel =>
      let picks := flat_map (fun i => match nth i counts O with
                                      | O => []
                                      | S _ => map (cons i) (interleave fuel (firstn i counts ++ [pred (nth i counts O)] ++ skipn (S i) counts))
                                      end) (seq 0 (length counts)) in
      match picks with [] => [[]] | _ => picks end
  end.
Definition scheds2 : list (list nat) := interleave 6 [3; 3]%nat.
Definition scheds3 : list (list nat) := interleave 9 [3; 3; 3]%nat.

(* the calls of the bounded universe: two registries, two services, two reports with different
   service accounts, every kind of call *)
Definition universe : list op :=
  [ Update regA 1 1 [mkep 1 1 1]; Update regB 1 1 [mkep 2 2 2]; Update regA 1 1 []; Update regB 2 1 [mkep 2 2 1];
    Update regA 1 1 [mkep 1 1 2; mkep 1 3 1];
    DelSvc regA 1 1 true; DelSvc regB 1 1 true;
    DelSvc regA 1 1 false; DelShard regA; Prune regA [(2, 1)]; DelShard regB ].
Definition starts : list (list op) :=
  [ []; [Update regA 1 1 [mkep 1 1 1]]; [Update regA 1 1 [mkep 1 1 1]; Update regB 1 1 [mkep 2 2 1]];
    [Update regA 1 1 [mkep 1 1 1]; Update regA 1 1 []]; [Update regB 2 1 [mkep 2 2 1]] ].

Definition lin_ok (prefix calls : list op) (sched : list nat) : bool :=
  let st0 := run_ops init prefix in
  let '(st, ts) := run_sched st0 (map Start calls) sched in
  negb (all_done ts) || linearizable_from st0 calls st.

Definition safe_calls (calls : list op) : bool := forallb (fun o => negb (unlinking o)) calls.

Definition pairs {A} (l : list A) : list (list A) := flat_map (fun a => map (fun b => [a; b]) l) l.
Definition triples {A} (l : list A) : list (list A) := flat_map (fun a => map (cons a) (pairs l)) l.

Definition guarded_ok (prefix calls : list op) (sched : list nat) : bool :=
  negb (safe_calls calls) || lin_ok prefix calls sched.
(* (notations, not definitions: the theorems below must see these terms syntactically) *)
Notation check2 :=
  (forallb (fun a => forallb (fun b => forallb (guarded_ok a b) scheds2) (pairs universe)) starts).
(* three overlapping calls: the calls that cannot unlink, two start states *)
Definition universe3 : list op :=
  [ Update regA 1 1 [mkep 1 1 1]; Update regB 1 1 [mkep 2 2 2]; Update regA 1 1 []; DelSvc regB 1 1 true ].
Definition starts3 : list (list op) := [ []; [Update regA 1 1 [mkep 1 1 1]; Update regB 1 1 [mkep 2 2 1]] ].
Notation check3 :=
  (forallb (fun a => forallb (fun b => forallb (lin_ok a b) scheds3) (triples universe3)) starts3).

(* every schedule of two overlapping calls that ends outside the sequential outcomes involves an
   unlinking call (the converse direction of check2, as a list of the offenders) *)
Definition offenders2 : list (list op * list op * list nat) :=
  flat_map (fun prefix => flat_map (fun calls =>
     map (fun s => (prefix, calls, s)) (filter (fun s => negb (lin_ok prefix calls s)) scheds2)) (pairs universe)) starts.

Lemma check2_true : check2 = true.
Proof. vm_cast_no_check (eq_refl true). Qed.

Lemma check3_true : check3 = true.
Proof. vm_cast_no_check (eq_refl true). Qed.

Lemma universe3_safe : safe_calls universe3 = true.
Proof. reflexivity. Qed.

(* the enumerations are the interleavings of calls with at most three critical sections each:
   C(6,3) = 20 and 9!/(3!)^3 = 1680 pairwise different schedules *)
Definition nat_list_eqb := list_eqb' Nat.eqb.
Fixpoint nodupb (l : list (list nat)) : bool :=
  match l with
  | [] => true
  | x :: l => negb (existsb (nat_list_eqb x) l) && nodupb l
  end.
Lemma scheds_count :
  length scheds2 = 20%nat /\ nodupb scheds2 = true /\ length scheds3 = 1680%nat /\ nodupb scheds3 = true.
Proof. vm_compute. repeat split; reflexivity. Qed.

Lemma forallb3 {A B C} (f : A -> B -> C -> bool) la lb lc :
  forallb (fun a => forallb (fun b => forallb (f a b) lc) lb) la = true ->
  forall a b c, In a la -> In b lb -> In c lc -> f a b c = true.
Proof.
  intros H a b c Ha Hb Hc.
  rewrite forallb_forall in H. specialize (H a Ha). cbv beta in H.
  rewrite forallb_forall in H. specialize (H b Hb). cbv beta in H.
  rewrite forallb_forall in H. exact (H c Hc).
Qed.

Theorem linearizable_partial_pairs prefix calls sched :
  In prefix starts -> In calls (pairs universe) -> safe_calls calls = true -> In sched scheds2 ->
  lin_ok prefix calls sched = true.
Proof.
  intros Hp Hc Hs Hsch.
  pose proof (forallb3 guarded_ok starts (pairs universe) scheds2 check2_true prefix calls sched Hp Hc Hsch) as H.
  unfold guarded_ok in H. rewrite Hs in H. exact H.
Qed.

Theorem linearizable_partial_triples prefix calls sched :
  In prefix starts3 -> In calls (triples universe3) -> In sched scheds3 -> lin_ok prefix calls sched = true.
Proof.
  exact (forallb3 lin_ok starts3 (triples universe3) scheds3 check3_true prefix calls sched).
Qed.

(* every offending schedule of two calls contains an unlinking call that overlaps a non-empty update *)
Definition nonempty_update (o : op) : bool := match o with Update _ _ _ (_ :: _) => true | _ => false end.
Lemma offenders_shape :
  offenders2 <> [] /\
  forallb (fun x => existsb unlinking (snd (fst x)) && existsb nonempty_update (snd (fst x))) offenders2 = true.
Proof. vm_compute. split; [discriminate | reflexivity]. Qed.
