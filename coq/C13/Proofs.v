(* C13 proofs, part 1: the sequential behaviour of the EndpointIndex model. *)
From Coq Require Import List NArith Bool Lia.
From V Require Import C13.Model.
Import ListNotations.
Open Scope N_scope.

(* ------------------------------------------------------------------ keys *)
Lemma pair_eqb_eq a b : pair_eqb a b = true <-> a = b.
Proof.
  destruct a as [a1 a2], b as [b1 b2]. unfold pair_eqb. cbn [fst snd].
  rewrite andb_true_iff, !N.eqb_eq. split; [intros [-> ->]; reflexivity | intros H; inversion H; auto].
Qed.
Lemma pair_eqb_refl a : pair_eqb a a = true.
Proof. apply pair_eqb_eq. reflexivity. Qed.
Lemma pair_eqb_neq a b : pair_eqb a b = false <-> a <> b.
Proof.
  split.
  - intros H E. apply pair_eqb_eq in E. congruence.
  - intros H. destruct (pair_eqb a b) eqn:E; [apply pair_eqb_eq in E; contradiction | reflexivity].
Qed.

(* ------------------------------------------------------------------ association lists *)
Section AL.
  Context {V : Type}.
  Implicit Types l : list ((N * N) * V).

  Lemma alookup_aremove_eq k l : alookup pair_eqb k (aremove pair_eqb k l) = None.
  Proof.
    induction l as [|[k' v] l IH]; [reflexivity|].
    unfold aremove in *. cbn [filter fst]. destruct (pair_eqb k k') eqn:E; cbn [negb].
    - exact IH.
    - cbn [alookup]. rewrite E. exact IH.
  Qed.

  Lemma alookup_aremove_neq k k' l : k <> k' -> alookup pair_eqb k (aremove pair_eqb k' l) = alookup pair_eqb k l.
  Proof.
    intros Hn. induction l as [|[k2 v] l IH]; [reflexivity|].
    unfold aremove in *. cbn [filter fst]. destruct (pair_eqb k' k2) eqn:E; cbn [negb].
    - apply pair_eqb_eq in E. subst k2. cbn [alookup].
      assert (pair_eqb k k' = false) as -> by (apply pair_eqb_neq; exact Hn). exact IH.
    - cbn [alookup]. destruct (pair_eqb k k2); [reflexivity | exact IH].
  Qed.

  Lemma alookup_areplace_eq k v l :
    alookup pair_eqb k (areplace pair_eqb k v l) = match alookup pair_eqb k l with Some _ => Some v | None => None end.
  Proof.
    induction l as [|[k2 v2] l IH]; [reflexivity|].
    unfold areplace in *. cbn [map fst]. destruct (pair_eqb k k2) eqn:E; cbn [alookup fst]; rewrite E.
    - reflexivity.
    - exact IH.
  Qed.

  Lemma alookup_areplace_neq k k' v l : k <> k' -> alookup pair_eqb k (areplace pair_eqb k' v l) = alookup pair_eqb k l.
  Proof.
    intros Hn. induction l as [|[k2 v2] l IH]; [reflexivity|].
    unfold areplace in *. cbn [map fst]. destruct (pair_eqb k' k2) eqn:E; cbn [alookup].
    - apply pair_eqb_eq in E. subst k2.
      assert (pair_eqb k k' = false) as -> by (apply pair_eqb_neq; exact Hn). exact IH.
    - destruct (pair_eqb k k2); [reflexivity | exact IH].
  Qed.

  Lemma aremove_nil_lookup k k' l : aremove pair_eqb k' l = [] -> k <> k' -> alookup pair_eqb k l = None.
  Proof.
    intros H Hn. rewrite <- (alookup_aremove_neq k k' l Hn). rewrite H. reflexivity.
  Qed.

  Lemma alookup_notin k l : existsb (pair_eqb k) (map fst l) = false -> alookup pair_eqb k l = None.
  Proof.
    induction l as [|[k2 v] l IH]; [reflexivity|].
    cbn [map fst existsb alookup]. intros H. apply orb_false_iff in H. destruct H as [-> H]. auto.
  Qed.

  Lemma alookup_aset_eq k v l : alookup pair_eqb k (aset pair_eqb k v l) = Some v.
  Proof. unfold aset. cbn [alookup]. rewrite pair_eqb_refl. reflexivity. Qed.
  Lemma alookup_aset_neq k k' v l : k <> k' -> alookup pair_eqb k (aset pair_eqb k' v l) = alookup pair_eqb k l.
  Proof.
    intros Hn. unfold aset. cbn [alookup].
    assert (pair_eqb k k' = false) as -> by (apply pair_eqb_neq; exact Hn).
    apply alookup_aremove_neq. exact Hn.
  Qed.
End AL.

(* ------------------------------------------------------------------ deleteServiceInner *)
Lemma cell_delete_inner k' sk' p st sk k :
  cell (delete_inner k' sk' p st) sk k = if pair_eqb sk sk' && pair_eqb k k' then None else cell st sk k.
Proof.
  unfold delete_inner.
  destruct (alookup pair_eqb sk' (idx st)) as [o|] eqn:Hl.
  - set (o' := {| o_id := o_id o; o_shards := aremove pair_eqb k' (o_shards o); o_sa := o_sa o |}).
    assert (Hrep : cell {| idx := areplace pair_eqb sk' o' (idx st); orphans := orphans st; next := next st |} sk k
                   = if pair_eqb sk sk' && pair_eqb k k' then None else cell st sk k).
    { unfold cell. cbn [idx].
      destruct (pair_eqb sk sk') eqn:E1; cbn [andb].
      - apply pair_eqb_eq in E1. subst sk'. rewrite alookup_areplace_eq, Hl. cbn [o' o_shards].
        destruct (pair_eqb k k') eqn:E2.
        + apply pair_eqb_eq in E2. subst k'. apply alookup_aremove_eq.
        + apply alookup_aremove_neq. apply pair_eqb_neq. exact E2.
      - rewrite alookup_areplace_neq by (apply pair_eqb_neq; exact E1). reflexivity. }
    destruct p; [exact Hrep|].
    destruct (o_shards o') eqn:Hs; [|exact Hrep].
    unfold cell. cbn [idx].
    destruct (pair_eqb sk sk') eqn:E1; cbn [andb].
    + apply pair_eqb_eq in E1. subst sk'. rewrite alookup_aremove_eq, Hl.
      destruct (pair_eqb k k') eqn:E2; [reflexivity|].
      symmetry. apply (aremove_nil_lookup k k'); [exact Hs | apply pair_eqb_neq; exact E2].
    + rewrite alookup_aremove_neq by (apply pair_eqb_neq; exact E1). reflexivity.
  - destruct (pair_eqb sk sk') eqn:E1; cbn [andb]; [|reflexivity].
    apply pair_eqb_eq in E1. subst sk'. unfold cell. rewrite Hl. destruct (pair_eqb k k'); reflexivity.
Qed.

(* DeleteShard / PruneShard as one fold, with the services to skip *)
Definition sweep (k : skey) (skip : svckey -> bool) (keys : list svckey) (st : istate) : istate :=
  fold_left (fun st sk => if skip sk then st else delete_inner k sk false st) keys st.

Lemma cell_sweep k' skip keys : forall st sk k,
  cell (sweep k' skip keys st) sk k =
  if pair_eqb k k' && existsb (fun x => pair_eqb sk x && negb (skip x)) keys then None else cell st sk k.
Proof.
  induction keys as [|a keys IH]; intros st sk k.
  - cbn [sweep fold_left existsb]. rewrite andb_false_r. reflexivity.
  - unfold sweep in *. cbn [fold_left existsb]. rewrite IH.
    destruct (pair_eqb k k') eqn:E2; cbn [andb]; [|
      destruct (skip a); [reflexivity | rewrite cell_delete_inner, E2, andb_false_r; reflexivity]].
    destruct (existsb (fun x => pair_eqb sk x && negb (skip x)) keys); [rewrite orb_true_r; reflexivity|].
    rewrite orb_false_r. destruct (skip a); cbn [negb].
    + rewrite andb_false_r. reflexivity.
    + rewrite andb_true_r, cell_delete_inner, E2, andb_true_r. reflexivity.
Qed.

Lemma delete_shard_sweep k st : delete_shard k st = sweep k (fun _ => false) (map fst (idx st)) st.
Proof. reflexivity. Qed.
Lemma prune_shard_sweep k keep st : prune_shard k keep st = sweep k (fun sk => svckey_in sk keep) (map fst (idx st)) st.
Proof. reflexivity. Qed.

Lemma cell_unlinked st sk k : existsb (pair_eqb sk) (map fst (idx st)) = false -> cell st sk k = None.
Proof. intros H. unfold cell. rewrite (alookup_notin sk (idx st) H). reflexivity. Qed.

Lemma cell_delete_shard k' st sk k :
  cell (delete_shard k' st) sk k = if pair_eqb k k' then None else cell st sk k.
Proof.
  rewrite delete_shard_sweep, cell_sweep.
  destruct (pair_eqb k k'); cbn [andb]; [|reflexivity].
  destruct (existsb (fun x => pair_eqb sk x && negb false) (map fst (idx st))) eqn:E; [reflexivity|].
  apply cell_unlinked. rewrite <- E. clear E.
  induction (map fst (idx st)) as [|a l IH]; [reflexivity|]. cbn [existsb negb]. rewrite andb_true_r, IH. reflexivity.
Qed.

Lemma svckey_in_ext sk x keep : pair_eqb sk x = true -> svckey_in x keep = svckey_in sk keep.
Proof. intros H. apply pair_eqb_eq in H. subst. reflexivity. Qed.

Lemma cell_prune_shard k' keep st sk k :
  cell (prune_shard k' keep st) sk k = if pair_eqb k k' && negb (svckey_in sk keep) then None else cell st sk k.
Proof.
  rewrite prune_shard_sweep, cell_sweep.
  destruct (pair_eqb k k'); cbn [andb]; [|reflexivity].
  assert (Hx : existsb (fun x => pair_eqb sk x && negb (svckey_in x keep)) (map fst (idx st)) =
               existsb (pair_eqb sk) (map fst (idx st)) && negb (svckey_in sk keep)).
  { induction (map fst (idx st)) as [|a l IH]; [reflexivity|]. cbn [existsb]. rewrite IH.
    destruct (pair_eqb sk a) eqn:E; cbn [andb orb]; [|reflexivity].
    rewrite (svckey_in_ext sk a keep E). destruct (svckey_in sk keep); cbn [negb]; [|reflexivity].
    rewrite andb_false_r. reflexivity. }
  rewrite Hx. destruct (svckey_in sk keep); cbn [negb]; [rewrite andb_false_r; reflexivity|].
  rewrite andb_true_r. destruct (existsb (pair_eqb sk) (map fst (idx st))) eqn:E; [reflexivity|].
  apply cell_unlinked. exact E.
Qed.

(* ------------------------------------------------------------------ UpdateServiceEndpoints *)
Lemma write_obj_shards k eps c o :
  o_shards (fst (write_obj k eps c o)) = aset pair_eqb k eps (o_shards o).
Proof. unfold write_obj. destruct (ns_eqb _ _); reflexivity. Qed.
Lemma write_obj_id k eps c o : o_id (fst (write_obj k eps c o)) = o_id o.
Proof. unfold write_obj. destruct (ns_eqb _ _); reflexivity. Qed.

Lemma cell_after_write st k' sk' o o' sk k eps :
  alookup pair_eqb sk' (idx st) = Some o ->
  o_shards o' = aset pair_eqb k' eps (o_shards o) ->
  cell {| idx := areplace pair_eqb sk' o' (idx st); orphans := orphans st; next := next st |} sk k =
  if pair_eqb sk sk' && pair_eqb k k' then Some eps else cell st sk k.
Proof.
  intros Hl Hs. unfold cell. cbn [idx].
  destruct (pair_eqb sk sk') eqn:E1; cbn [andb].
  - apply pair_eqb_eq in E1. subst sk'. rewrite alookup_areplace_eq, Hl, Hs.
    destruct (pair_eqb k k') eqn:E2.
    + apply pair_eqb_eq in E2. subst k'. apply alookup_aset_eq.
    + apply alookup_aset_neq. apply pair_eqb_neq. exact E2.
  - rewrite alookup_areplace_neq by (apply pair_eqb_neq; exact E1). reflexivity.
Qed.

(* a non-empty update run without interruption *)
Lemma run_update_nonempty st k' svc ns e es :
  exists o o' pt created,
    o_shards o' = aset pair_eqb k' (e :: es) (o_shards o) /\
    ((alookup pair_eqb (svc, ns) (idx st) = Some o /\ created = false /\
      run_op st (Update k' svc ns (e :: es)) =
        ({| idx := areplace pair_eqb (svc, ns) o' (idx st); orphans := orphans st; next := next st |}, Some pt)) \/
     (alookup pair_eqb (svc, ns) (idx st) = None /\ created = true /\ o_shards o = [] /\
      run_op st (Update k' svc ns (e :: es)) =
        ({| idx := areplace pair_eqb (svc, ns) o' ((svc, ns, o) :: idx st); orphans := orphans st; next := next st + 1 |},
         Some pt))) /\
    (o', pt) = write_obj k' (e :: es) created o.
Proof.
  unfold run_op. cbn [step].
  destruct (alookup pair_eqb (svc, ns) (idx st)) as [o|] eqn:Hl.
  - cbn [step]. rewrite Hl, N.eqb_refl.
    destruct (write_obj k' (e :: es) false o) as [o' pt] eqn:Hw.
    exists o, o', pt, false. split; [|split].
    + rewrite <- (write_obj_shards k' (e :: es) false o), Hw. reflexivity.
    + left. cbn [step]. auto.
    + symmetry; exact Hw.
  - cbn [step]. rewrite Hl. cbn [step idx alookup]. rewrite pair_eqb_refl. cbn [o_id]. rewrite N.eqb_refl.
    set (o := {| o_id := next st; o_shards := []; o_sa := [] |}).
    destruct (write_obj k' (e :: es) true o) as [o' pt] eqn:Hw.
    exists o, o', pt, true. split; [|split].
    + rewrite <- (write_obj_shards k' (e :: es) true o), Hw. reflexivity.
    + right. cbn [step orphans next]. auto.
    + symmetry; exact Hw.
Qed.

Lemma cell_run_op st o sk k :
  cell (fst (run_op st o)) sk k = match affects o sk k with Some v => v | None => cell st sk k end.
Proof.
  destruct o as [k' svc ns eps | k' svc ns p | k' | k' keep]; unfold affects.
  - destruct eps as [|e es].
    + unfold run_op. cbn [step fst]. rewrite cell_delete_inner, (andb_comm (pair_eqb k k')).
      destruct (pair_eqb sk (svc, ns) && pair_eqb k k'); reflexivity.
    + destruct (run_update_nonempty st k' svc ns e es) as (o & o' & pt & created & Hs & [(Hl & _ & Hr) | (Hl & _ & Ho & Hr)] & _);
        rewrite Hr; cbn [fst]; rewrite (andb_comm (pair_eqb k k')).
      * rewrite (cell_after_write st k' (svc, ns) o o' sk k (e :: es) Hl Hs).
        destruct (pair_eqb sk (svc, ns) && pair_eqb k k'); reflexivity.
      * pose (st1 := {| idx := (svc, ns, o) :: idx st; orphans := orphans st; next := next st + 1 |}).
        assert (Hl1 : alookup pair_eqb (svc, ns) (idx st1) = Some o) by (cbn [st1 idx alookup]; rewrite pair_eqb_refl; reflexivity).
        pose proof (cell_after_write st1 k' (svc, ns) o o' sk k (e :: es) Hl1 Hs) as H.
        cbn [st1 idx orphans next] in H. rewrite H.
        destruct (pair_eqb sk (svc, ns) && pair_eqb k k') eqn:E; [reflexivity|].
        unfold cell. cbn [st1 idx alookup].
        destruct (pair_eqb sk (svc, ns)) eqn:E1; [|reflexivity].
        apply pair_eqb_eq in E1. subst sk. rewrite Hl, Ho. reflexivity.
  - unfold run_op. cbn [step fst]. rewrite cell_delete_inner, (andb_comm (pair_eqb k k')).
    destruct (pair_eqb sk (svc, ns) && pair_eqb k k'); reflexivity.
  - unfold run_op. cbn [step fst]. rewrite cell_delete_shard. destruct (pair_eqb k k'); reflexivity.
  - unfold run_op. cbn [step fst]. rewrite cell_prune_shard.
    destruct (pair_eqb k k' && negb (svckey_in sk keep)); reflexivity.
Qed.

(* ------------------------------------------------------------------ sequential specification *)
Lemma run_ops_spec_from ops : forall st sk k,
  cell (run_ops st ops) sk k = spec_from (cell st sk k) ops sk k.
Proof.
  induction ops as [|o ops IH]; intros st sk k; [reflexivity|].
  unfold run_ops, spec_from in *. cbn [fold_left]. rewrite IH, cell_run_op. reflexivity.
Qed.

Theorem sequential_spec ops sk k : cell (run_ops init ops) sk k = spec ops sk k.
Proof. rewrite run_ops_spec_from. reflexivity. Qed.

Lemma run_ops_app st a b : run_ops st (a ++ b) = run_ops (run_ops st a) b.
Proof. unfold run_ops. apply fold_left_app. Qed.

(* nothing of a removed registry remains, whatever happened before *)
Theorem removed_registry_gone ops k sk : cell (run_ops init (ops ++ [DelShard k])) sk k = None.
Proof.
  rewrite run_ops_app. unfold run_ops at 1. cbn [fold_left]. rewrite cell_run_op.
  unfold affects. rewrite pair_eqb_refl. reflexivity.
Qed.

(* nothing of a deleted service remains for that registry *)
Theorem deleted_service_gone ops k svc ns p : cell (run_ops init (ops ++ [DelSvc k svc ns p])) (svc, ns) k = None.
Proof.
  rewrite run_ops_app. unfold run_ops at 1. cbn [fold_left]. rewrite cell_run_op.
  unfold affects. rewrite !pair_eqb_refl. reflexivity.
Qed.

(* pruning keeps exactly the listed services of that registry *)
Theorem pruned_gone ops k keep sk :
  svckey_in sk keep = false -> cell (run_ops init (ops ++ [Prune k keep])) sk k = None.
Proof.
  intros H. rewrite run_ops_app. unfold run_ops at 1. cbn [fold_left]. rewrite cell_run_op.
  unfold affects. rewrite pair_eqb_refl, H. reflexivity.
Qed.

(* an update never touches another registry's report or another service *)
Theorem update_isolated st k svc ns eps sk k2 :
  (sk, k2) <> ((svc, ns), k) -> cell (fst (run_op st (Update k svc ns eps))) sk k2 = cell st sk k2.
Proof.
  intros H. rewrite cell_run_op. unfold affects.
  destruct (pair_eqb k2 k) eqn:E1, (pair_eqb sk (svc, ns)) eqn:E2; cbn [andb]; try reflexivity.
  apply pair_eqb_eq in E1, E2. subst. contradiction.
Qed.

(* ------------------------------------------------------------------ push type *)
Lemma write_obj_full k eps created o :
  snd (write_obj k eps created o) = FullPush <->
  created = true \/ ns_eqb (o_sa o) (sa_of (aset pair_eqb k eps (o_shards o))) = false.
Proof.
  unfold write_obj. destruct (ns_eqb _ _) eqn:E; cbn [snd].
  - destruct created.
    + split; auto.
    + destruct (need_push _ _); split; intros H; try discriminate; destruct H; discriminate.
  - split; auto.
Qed.

(* Full push exactly on first sight of the service or when the service-account set changes *)
Theorem push_full_iff st k svc ns e es :
  snd (run_op st (Update k svc ns (e :: es))) = Some FullPush <->
  linked st (svc, ns) = false \/
  exists o, alookup pair_eqb (svc, ns) (idx st) = Some o /\
            ns_eqb (o_sa o) (sa_of (aset pair_eqb k (e :: es) (o_shards o))) = false.
Proof.
  destruct (run_update_nonempty st k svc ns e es) as (o & o' & pt & created & Hs & [(Hl & Hc & Hr) | (Hl & Hc & Ho & Hr)] & Hw);
    rewrite Hr; cbn [snd]; unfold linked; rewrite Hl; subst created.
  - assert (Hpt : pt = snd (write_obj k (e :: es) false o)) by (rewrite <- Hw; reflexivity).
    split.
    + intros H. inversion H as [H1]. right. exists o. split; [reflexivity|].
      rewrite H1 in Hpt. symmetry in Hpt. apply write_obj_full in Hpt. destruct Hpt as [?|?]; [discriminate|assumption].
    + intros [H|(o2 & H2 & H3)]; [discriminate|]. inversion H2. subst o2.
      f_equal. rewrite Hpt. apply write_obj_full. right. exact H3.
  - split; [auto|]. intros _. f_equal.
    assert (Hpt : pt = snd (write_obj k (e :: es) true o)) by (rewrite <- Hw; reflexivity).
    rewrite Hpt. apply write_obj_full. left. reflexivity.
Qed.

(* NoPush only when the report repeats the stored one: same keys, each endpoint equal to the stored
   endpoint with its key, or new but unhealthy and not to be sent when unhealthy *)
Theorem no_push_sound st k svc ns e es :
  snd (run_op st (Update k svc ns (e :: es))) = Some NoPush ->
  exists old, cell st (svc, ns) k = Some old /\
    (forall x, In x (e :: es) -> incoming_needs_push old x = false) /\
    (forall x, In x old -> key_in (ep_key x) (e :: es) = true).
Proof.
  destruct (run_update_nonempty st k svc ns e es) as (o & o' & pt & created & Hs & [(Hl & Hc & Hr) | (Hl & Hc & Ho & Hr)] & Hw);
    rewrite Hr; cbn [snd]; subst created; intros H; inversion H as [H1]; subst pt.
  - unfold cell. rewrite Hl.
    unfold write_obj in Hw. destruct (ns_eqb _ _); [|inversion Hw].
    inversion Hw as [[H2 H3]]. clear Hw H2.
    destruct (need_push (alookup pair_eqb k (o_shards o)) (e :: es)) eqn:En; [discriminate|].
    unfold need_push in En. destruct (alookup pair_eqb k (o_shards o)) as [old|]; [|discriminate].
    exists old. split; [reflexivity|]. apply orb_false_iff in En. destruct En as [E1 E2]. split.
    + intros x Hx. destruct (incoming_needs_push old x) eqn:E; [|reflexivity].
      assert (existsb (incoming_needs_push old) (e :: es) = true) by (apply existsb_exists; exists x; auto). congruence.
    + intros x Hx. destruct (key_in (ep_key x) (e :: es)) eqn:E; [reflexivity|].
      assert (existsb (fun oie => negb (key_in (ep_key oie) (e :: es))) old = true)
        by (apply existsb_exists; exists x; rewrite E; auto). congruence.
  - unfold write_obj in Hw. destruct (ns_eqb _ _); inversion Hw.
Qed.
