(* C13 — executable model of
     pilot/pkg/model/endpointshards.go   (EndpointIndex: UpdateServiceEndpoints, DeleteServiceShard,
                                          DeleteShard, PruneShard, deleteServiceInner,
                                          GetOrCreateEndpointShard, endpointUpdateRequiresPush,
                                          updateShardServiceAccount)
     pilot/pkg/xds/endpoints/endpoint_builder.go (BuildClusterLoadAssignment, snapshotShards,
                                          filterIstioEndpoint, generate, addUint32,
                                          supportsUnhealthyEndpoints, getSubSetLabels)
     pilot/pkg/xds/endpoints/ep_filters.go (EndpointsByNetworkFilter, selectNetworkGateways,
                                          scaleEndpointLBWeight, splitWeightAmongGateways,
                                          LocalityEndpoints.refreshWeight)
   Definitions only.  Strings are interned to N by the harness (0 = the empty string). *)
From Coq Require Import List NArith Bool.
Import ListNotations.
Open Scope N_scope.

(* ------------------------------------------------------------------ association lists *)
Section AList.
  Context {K V : Type} (keqb : K -> K -> bool).
  Fixpoint alookup (k : K) (l : list (K * V)) : option V :=
    match l with
    | [] => None
    | (k', v) :: l => if keqb k k' then Some v else alookup k l
    end.
  Definition aremove (k : K) (l : list (K * V)) : list (K * V) :=
    filter (fun kv => negb (keqb k (fst kv))) l.
  (* in-place replacement of the value(s) stored under k *)
  Definition areplace (k : K) (v : V) (l : list (K * V)) : list (K * V) :=
    map (fun kv => if keqb k (fst kv) then (fst kv, v) else kv) l.
  Definition aset (k : K) (v : V) (l : list (K * V)) : list (K * V) := (k, v) :: aremove k l.
End AList.

Definition pair_eqb (a b : N * N) : bool := N.eqb (fst a) (fst b) && N.eqb (snd a) (snd b).
Fixpoint list_eqb' {A} (eqb : A -> A -> bool) (l1 l2 : list A) : bool :=
  match l1, l2 with
  | [], [] => true
  | x :: l1, y :: l2 => eqb x y && list_eqb' eqb l1 l2
  | _, _ => false
  end.

(* ------------------------------------------------------------------ endpoints *)
Inductive health := Healthy | UnHealthy | Draining | Terminating.
Definition health_eqb (a b : health) : bool :=
  match a, b with
  | Healthy, Healthy | UnHealthy, UnHealthy | Draining, Draining | Terminating, Terminating => true
  | _, _ => false
  end.
(* numeric value of model.HealthStatus = envoy core.HealthStatus sent in EDS *)
Definition health_num (h : health) : N :=
  match h with Healthy => 1 | UnHealthy => 2 | Draining => 3 | Terminating => 4 end.

(* IstioEndpoint.DiscoverabilityPolicy *)
Inductive disc := DiscNone | DiscAlways | DiscSameCluster.
Definition disc_eqb (a b : disc) : bool :=
  match a, b with
  | DiscNone, DiscNone | DiscAlways, DiscAlways | DiscSameCluster, DiscSameCluster => true
  | _, _ => false
  end.

(* model.IstioEndpoint; Namespace is a constant of the harness; Addresses always has length 1:
   e_addr = 0 is Addresses = [""], e_dns marks a host-name (non-IP) address. *)
Record ep := {
  e_wl : N; e_addr : N; e_dns : bool; e_port : N (* ServicePortName *); e_eport : N (* EndpointPort, never 0 *);
  e_sa : N; e_health : health; e_send_unh : bool; e_weight : N (* LbWeight, uint32 *);
  e_labels : list (N * N) (* sorted by key, keys unique *);
  e_net : N; e_cluster : N; e_loc : N (* Locality.Label, interned order-preservingly *);
  e_tls : bool (* TLSMode = "istio" *); e_disc : disc; e_node : N }.

(* IstioEndpoint.Key *)
Definition ekey := (N * N * bool * N)%type.
Definition ep_key (e : ep) : ekey := (e_wl e, e_addr e, e_dns e, e_port e).
Definition ekey_eqb (a b : ekey) : bool :=
  match a, b with
  | (w1, a1, d1, p1), (w2, a2, d2, p2) => N.eqb w1 w2 && N.eqb a1 a2 && Bool.eqb d1 d2 && N.eqb p1 p2
  end.

(* IstioEndpoint.Equals *)
Definition ep_eqb (a b : ep) : bool :=
  N.eqb (e_wl a) (e_wl b) && N.eqb (e_addr a) (e_addr b) && Bool.eqb (e_dns a) (e_dns b) &&
  N.eqb (e_port a) (e_port b) && N.eqb (e_eport a) (e_eport b) && N.eqb (e_sa a) (e_sa b) &&
  health_eqb (e_health a) (e_health b) && Bool.eqb (e_send_unh a) (e_send_unh b) &&
  N.eqb (e_weight a) (e_weight b) && list_eqb' pair_eqb (e_labels a) (e_labels b) &&
  N.eqb (e_net a) (e_net b) && N.eqb (e_cluster a) (e_cluster b) && N.eqb (e_loc a) (e_loc b) &&
  Bool.eqb (e_tls a) (e_tls b) && disc_eqb (e_disc a) (e_disc b) && N.eqb (e_node a) (e_node b).

Definition eps_eqb := list_eqb' ep_eqb.

(* ------------------------------------------------------------------ EndpointIndex state *)
Definition skey := (N * N)%type.        (* ShardKey: (provider, cluster) *)
Definition svckey := (N * N)%type.      (* (hostname, namespace) *)

(* one *EndpointShards object; o_id is its identity (pointer) *)
Record obj := { o_id : N; o_shards : list (skey * list ep); o_sa : list N }.

(* idx = the objects reachable from shardsBySvc; orphans = objects that were unlinked while some
   caller may still hold a pointer to them *)
Record istate := { idx : list (svckey * obj); orphans : list obj; next : N }.
Definition init : istate := {| idx := []; orphans := []; next := 1 |}.

Inductive push_type := NoPush | IncrementalPush | FullPush.
Definition push_eqb (a b : push_type) : bool :=
  match a, b with
  | NoPush, NoPush | IncrementalPush, IncrementalPush | FullPush, FullPush => true
  | _, _ => false
  end.

Inductive op :=
| Update (k : skey) (svc ns : N) (eps : list ep)          (* UpdateServiceEndpoints *)
| DelSvc (k : skey) (svc ns : N) (preserve : bool)        (* DeleteServiceShard *)
| DelShard (k : skey)                                      (* DeleteShard *)
| Prune (k : skey) (keep : list svckey).                   (* PruneShard *)

(* --- endpointUpdateRequiresPush.  The stored list is always the incoming list. *)
Definition key_in (k : ekey) (l : list ep) : bool := existsb (fun e => ekey_eqb k (ep_key e)) l.
(* omap[k]: later entries overwrite earlier ones *)
Fixpoint last_with_key (k : ekey) (l : list ep) : option ep :=
  match l with
  | [] => None
  | e :: l => match last_with_key k l with
              | Some e' => Some e'
              | None => if ekey_eqb k (ep_key e) then Some e else None
              end
  end.
Definition incoming_needs_push (old : list ep) (nie : ep) : bool :=
  match last_with_key (ep_key nie) old with
  | Some oie => negb (ep_eqb oie nie)
  | None => negb (health_eqb (e_health nie) UnHealthy) || e_send_unh nie
  end.
Definition need_push (old : option (list ep)) (incoming : list ep) : bool :=
  match old with
  | None => true
  | Some old =>
      existsb (incoming_needs_push old) incoming ||
      existsb (fun oie => negb (key_in (ep_key oie) incoming)) old
  end.

(* --- updateShardServiceAccount: sorted duplicate-free list of the non-empty accounts *)
Fixpoint ins_sorted (x : N) (l : list N) : list N :=
  match l with
  | [] => [x]
  | y :: l' => if x <? y then x :: l else if x =? y then l else y :: ins_sorted x l'
  end.
Definition sa_of (shards : list (skey * list ep)) : list N :=
  fold_left (fun acc kv => fold_left (fun acc e => if e_sa e =? 0 then acc else ins_sorted (e_sa e) acc) (snd kv) acc)
            shards [].
Definition ns_eqb := list_eqb' N.eqb.

(* --- deleteServiceInner (index lock held, shard lock taken inside) *)
Definition delete_inner (k : skey) (sk : svckey) (preserve : bool) (st : istate) : istate :=
  match alookup pair_eqb sk (idx st) with
  | None => st
  | Some o =>
      let o' := {| o_id := o_id o; o_shards := aremove pair_eqb k (o_shards o); o_sa := o_sa o |} in
      match preserve, o_shards o' with
      | false, [] => {| idx := aremove pair_eqb sk (idx st); orphans := o' :: orphans st; next := next st |}
      | _, _ => {| idx := areplace pair_eqb sk o' (idx st); orphans := orphans st; next := next st |}
      end
  end.

Definition svckey_in (sk : svckey) (l : list svckey) : bool := existsb (pair_eqb sk) l.

(* DeleteShard / PruneShard: one critical section of the index lock over all linked services *)
Definition delete_shard (k : skey) (st : istate) : istate :=
  fold_left (fun st sk => delete_inner k sk false st) (map fst (idx st)) st.
Definition prune_shard (k : skey) (keep : list svckey) (st : istate) : istate :=
  fold_left (fun st sk => if svckey_in sk keep then st else delete_inner k sk false st) (map fst (idx st)) st.

(* --- the write section of UpdateServiceEndpoints (shard lock held) on one object *)
Definition write_obj (k : skey) (eps : list ep) (created : bool) (o : obj) : obj * push_type :=
  let old := alookup pair_eqb k (o_shards o) in
  let need := need_push old eps in
  let pt0 := if created then FullPush else if need then IncrementalPush else NoPush in
  let shards' := aset pair_eqb k eps (o_shards o) in
  let sa' := sa_of shards' in
  if ns_eqb (o_sa o) sa'
  then ({| o_id := o_id o; o_shards := shards'; o_sa := o_sa o |}, pt0)
  else ({| o_id := o_id o; o_shards := shards'; o_sa := sa' |}, FullPush).

Fixpoint write_orphan (id : N) (k : skey) (eps : list ep) (created : bool) (l : list obj)
  : list obj * push_type :=
  match l with
  | [] => ([], if created then FullPush else IncrementalPush)   (* unreachable: the pointer is always valid *)
  | o :: l => if o_id o =? id
              then let '(o', pt) := write_obj k eps created o in (o' :: l, pt)
              else let '(l', pt) := write_orphan id k eps created l in (o :: l', pt)
  end.

(* --- atomic steps of one call.  Gates of the real code: "getorcreate:after-miss" between
   Lookup and Create, "update:before-shard-lock" before Write. *)
Inductive thread :=
| Start (o : op)
| AfterMiss (k : skey) (sk : svckey) (eps : list ep)                         (* ShardsForService missed *)
| Holding (k : skey) (sk : svckey) (eps : list ep) (id : N) (created : bool)  (* has the *EndpointShards *)
| Done (r : option push_type).    (* None for the operations without a result *)

Definition step (st : istate) (t : thread) : istate * thread :=
  match t with
  | Start (Update k svc ns []) => (delete_inner k (svc, ns) true st, Done (Some IncrementalPush))
  | Start (Update k svc ns eps) =>
      (* GetOrCreateEndpointShard: ShardsForService under the read lock *)
      match alookup pair_eqb (svc, ns) (idx st) with
      | Some o => (st, Holding k (svc, ns) eps (o_id o) false)
      | None => (st, AfterMiss k (svc, ns) eps)
      end
  | Start (DelSvc k svc ns p) => (delete_inner k (svc, ns) p st, Done None)
  | Start (DelShard k) => (delete_shard k st, Done None)
  | Start (Prune k keep) => (prune_shard k keep st, Done None)
  | AfterMiss k sk eps =>
      (* GetOrCreateEndpointShard under the write lock: reports "created" even when it finds one *)
      match alookup pair_eqb sk (idx st) with
      | Some o => (st, Holding k sk eps (o_id o) true)
      | None =>
          let o := {| o_id := next st; o_shards := []; o_sa := [] |} in
          ({| idx := (sk, o) :: idx st; orphans := orphans st; next := next st + 1 |},
           Holding k sk eps (next st) true)
      end
  | Holding k sk eps id created =>
      match alookup pair_eqb sk (idx st) with
      | Some o =>
          if o_id o =? id
          then let '(o', pt) := write_obj k eps created o in
               ({| idx := areplace pair_eqb sk o' (idx st); orphans := orphans st; next := next st |}, Done (Some pt))
          else let '(l, pt) := write_orphan id k eps created (orphans st) in
               ({| idx := idx st; orphans := l; next := next st |}, Done (Some pt))
      | None =>
          let '(l, pt) := write_orphan id k eps created (orphans st) in
          ({| idx := idx st; orphans := l; next := next st |}, Done (Some pt))
      end
  | Done r => (st, Done r)
  end.

(* a whole call run without interruption: at most three steps *)
Definition run_op (st : istate) (o : op) : istate * option push_type :=
  let '(s1, t1) := step st (Start o) in
  let '(s2, t2) := step s1 t1 in
  let '(s3, t3) := step s2 t2 in
  (s3, match t3 with Done r => r | _ => None end).

Definition run_ops (st : istate) (ops : list op) : istate :=
  fold_left (fun st o => fst (run_op st o)) ops st.
Fixpoint run_ops_res (st : istate) (ops : list op) : istate * list (option push_type) :=
  match ops with
  | [] => (st, [])
  | o :: ops => let '(st', r) := run_op st o in
                let '(st'', rs) := run_ops_res st' ops in (st'', r :: rs)
  end.

(* observable content of the index *)
Definition cell (st : istate) (sk : svckey) (k : skey) : option (list ep) :=
  match alookup pair_eqb sk (idx st) with
  | Some o => alookup pair_eqb k (o_shards o)
  | None => None
  end.
Definition linked (st : istate) (sk : svckey) : bool :=
  match alookup pair_eqb sk (idx st) with Some _ => true | None => false end.

(* --- independent sequential specification: what the last relevant call said *)
Definition affects (o : op) (sk : svckey) (k : skey) : option (option (list ep)) :=
  match o with
  | Update k' svc ns eps =>
      if pair_eqb k k' && pair_eqb sk (svc, ns)
      then Some (match eps with [] => None | _ => Some eps end) else None
  | DelSvc k' svc ns _ => if pair_eqb k k' && pair_eqb sk (svc, ns) then Some None else None
  | DelShard k' => if pair_eqb k k' then Some None else None
  | Prune k' keep => if pair_eqb k k' && negb (svckey_in sk keep) then Some None else None
  end.
Definition spec_from (acc : option (list ep)) (ops : list op) (sk : svckey) (k : skey) : option (list ep) :=
  fold_left (fun acc o => match affects o sk k with Some v => v | None => acc end) ops acc.
Definition spec := spec_from None.

(* --- schedules: concurrent calls as threads, a schedule names the thread that takes the next step *)
Fixpoint step_nth (st : istate) (ts : list thread) (i : nat) : istate * list thread :=
  match ts, i with
  | [], _ => (st, [])
  | t :: ts, O => let '(st', t') := step st t in (st', t' :: ts)
  | t :: ts, S i => let '(st', ts') := step_nth st ts i in (st', t :: ts')
  end.
Fixpoint run_sched (st : istate) (ts : list thread) (sched : list nat) : istate * list thread :=
  match sched with
  | [] => (st, ts)
  | i :: sched => let '(st', ts') := step_nth st ts i in run_sched st' ts' sched
  end.
Definition is_done (t : thread) : bool := match t with Done _ => true | _ => false end.
Definition all_done (ts : list thread) : bool := forallb is_done ts.
Definition result_of (t : thread) : option push_type := match t with Done r => r | _ => None end.

(* equality of the observable content of two states (object identities and orphans ignored) *)
Definition shards_sub (a b : list (skey * list ep)) : bool :=
  forallb (fun kv => match alookup pair_eqb (fst kv) b with Some v => eps_eqb (snd kv) v | None => false end) a.
Definition obj_eq (a b : obj) : bool :=
  shards_sub (o_shards a) (o_shards b) && shards_sub (o_shards b) (o_shards a) && ns_eqb (o_sa a) (o_sa b).
Definition idx_sub (a b : list (svckey * obj)) : bool :=
  forallb (fun kv => match alookup pair_eqb (fst kv) b with Some o => obj_eq (snd kv) o | None => false end) a.
Definition view_eq (a b : istate) : bool := idx_sub (idx a) (idx b) && idx_sub (idx b) (idx a).

(* permutations of a small list *)
Fixpoint inserts {A} (x : A) (l : list A) : list (list A) :=
  match l with
  | [] => [[x]]
  | y :: l' => (x :: l) :: map (cons y) (inserts x l')
  end.
Fixpoint perms {A} (l : list A) : list (list A) :=
  match l with
  | [] => [[]]
  | x :: l => flat_map (inserts x) (perms l)
  end.

(* the final content equals that of some sequential order of the same calls *)
Definition linearizable_from (st0 : istate) (ops : list op) (final : istate) : bool :=
  existsb (fun p => view_eq (run_ops st0 p) final) (perms ops).

(* an unlinking call: may remove the service's EndpointShards object from the index *)
Definition unlinking (o : op) : bool :=
  match o with
  | DelSvc _ _ _ false | DelShard _ | Prune _ _ => true
  | _ => false
  end.

(* ------------------------------------------------------------------ ClusterLoadAssignment *)
Definition U32MAX : N := 4294967295.
Definition add_sat (a b : N) : N := if U32MAX - b <? a then U32MAX else a + b.   (* addUint32 *)

Record gw := { g_net : N; g_cluster : N; g_addr : N; g_port : N }.
Definition gw_eqb (a b : gw) : bool :=
  N.eqb (g_net a) (g_net b) && N.eqb (g_cluster a) (g_cluster b) && N.eqb (g_addr a) (g_addr b) && N.eqb (g_port a) (g_port b).

(* DestinationRule as far as EDS membership reads it: subsets (name, labels, outlier detection of the
   subset policy) and the outlier detection of the rule's own traffic policy.  od: None = no
   OutlierDetection, Some b = present with (MinHealthPercent > 0) = b *)
Record subset := { s_name : N; s_labels : list (N * N); s_od : option bool }.
Record drule := { d_subsets : list subset; d_od : option bool }.

Record cla_in := {
  c_found : bool;                     (* b.service != nil *)
  c_dns : bool;                       (* IsDNSCluster *)
  c_ports : list (N * N);             (* service ports: (number, name) *)
  c_port : N;                         (* port of the cluster name *)
  c_inference : bool;                 (* UseInferenceSemantics *)
  c_cluster_local : bool; c_node_local : bool; c_persistent : bool;
  c_default_unh : bool;               (* features.DefaultSendUnhealthyEndpoints *)
  c_subset : N;                       (* subset name, 0 = "" *)
  c_dr : option drule;
  p_net : N; p_cluster : N; p_node : N;
  p_view : option (list N);           (* RequestedNetworkView, None = all *)
  c_gws : list gw;                    (* resolved gateways, in SortGateways order *)
  c_scale : N;                        (* GetLBWeightScaleFactor *)
  c_shards : option (list (skey * list ep))   (* the service's shards in Keys() order; None = not in the index *)
}.

(* one LbEndpoint as far as it is observed *)
Record member := { m_gw : bool; m_addr : N; m_dns : bool; m_port : N; m_weight : N; m_health : N }.
Definition member_eqb (a b : member) : bool :=
  Bool.eqb (m_gw a) (m_gw b) && N.eqb (m_addr a) (m_addr b) && Bool.eqb (m_dns a) (m_dns b) &&
  N.eqb (m_port a) (m_port b) && N.eqb (m_weight a) (m_weight b) && N.eqb (m_health a) (m_health b).
(* one LocalityLbEndpoints: locality, LoadBalancingWeight (None = nil), members *)
Definition lgroup := (N * option N * list member)%type.

Fixpoint find_port (p : N) (ports : list (N * N)) : option N :=
  match ports with
  | [] => None
  | (n, name) :: ports => if n =? p then Some name else find_port p ports
  end.

(* labels.Instance.SubsetOf *)
Fixpoint lab_lookup (k : N) (l : list (N * N)) : option N :=
  match l with [] => None | (k', v) :: l => if k =? k' then Some v else lab_lookup k l end.
Definition subset_of (sel labels : list (N * N)) : bool :=
  forallb (fun kv => match lab_lookup (fst kv) labels with Some v => v =? snd kv | None => false end) sel.

Fixpoint find_subset (n : N) (l : list subset) : option subset :=
  match l with [] => None | s :: l => if s_name s =? n then Some s else find_subset n l end.
(* getSubSetLabels *)
Definition subset_labels (c : cla_in) : list (N * N) :=
  if c_subset c =? 0 then [] else
  match c_dr c with
  | None => []
  | Some d => match find_subset (c_subset c) (d_subsets d) with Some s => s_labels s | None => [] end
  end.
(* supportsUnhealthyEndpoints (TrafficDistribution = Any, PILOT_SEND_UNHEALTHY_ENDPOINTS off) *)
Definition effective_od (c : cla_in) : option bool :=
  match c_dr c with
  | None => None
  | Some d => match find_subset (c_subset c) (d_subsets d) with
              | Some s => match s_od s with Some b => Some b | None => d_od d end
              | None => d_od d
              end
  end.
Definition supports_unhealthy (c : cla_in) : bool :=
  c_default_unh c && negb (match effective_od c with Some true => true | _ => false end).

Definition same_or_empty (a b : N) : bool := (a =? 0) || (b =? 0) || (a =? b).
Definition visible (c : cla_in) (e : ep) : bool :=
  match p_view c with
  | None => true
  | Some nets => (e_net e =? 0) || existsb (N.eqb (e_net e)) nets
  end.

(* snapshotShards *)
Definition snapshot (c : cla_in) : list ep :=
  if c_dns c then [] else
  match c_shards c with
  | None => []
  | Some shards =>
      flat_map (fun kv => if negb (snd (fst kv) =? p_cluster c) && (c_cluster_local c || c_node_local c)
                          then [] else snd kv) shards
  end.
(* the FilterInPlace of BuildClusterLoadAssignment *)
Definition port_subset_ok (c : cla_in) (pname : N) (e : ep) : bool :=
  (c_inference c || (pname =? e_port e)) &&
  negb (negb (e_addr e =? 0) && e_dns e) &&
  subset_of (subset_labels c) (e_labels e).
(* filterIstioEndpoint *)
Definition filter_ep (c : cla_in) (e : ep) : bool :=
  negb (c_node_local c && negb (e_node e =? p_node c)) &&
  visible c e &&
  negb (c_cluster_local c && negb (p_cluster c =? e_cluster e)) &&
  match e_disc e with DiscSameCluster => same_or_empty (e_cluster e) (p_cluster c) | _ => true end &&
  negb (negb (supports_unhealthy c) && health_eqb (e_health e) UnHealthy) &&
  negb (health_eqb (e_health e) Terminating) &&
  negb (health_eqb (e_health e) Draining && negb (c_persistent c)).

Definition ep_weight (e : ep) : N := if 0 <? e_weight e then e_weight e else 1.  (* GetLoadBalancingWeight *)
Definition member_of (e : ep) : member :=
  {| m_gw := false; m_addr := e_addr e; m_dns := e_dns e; m_port := e_eport e; m_weight := ep_weight e;
     m_health := health_num (e_health e) |}.

(* the endpoints that pass every membership filter, in shard order *)
Definition selected (c : cla_in) (pname : N) : list ep :=
  filter (filter_ep c) (filter (port_subset_ok c pname) (snapshot c)).

(* generate: group by locality label (members keep their order), localities sorted *)
Fixpoint ins_loc (x : N) (l : list N) : list N :=
  match l with
  | [] => [x]
  | y :: l' => if x <? y then x :: l else if x =? y then l else y :: ins_loc x l'
  end.
Definition localities (es : list ep) : list N := fold_left (fun acc e => ins_loc (e_loc e) acc) es [].
Definition in_loc (l : N) (e : ep) : bool := e_loc e =? l.
Definition plain_sum (ws : list N) : N := fold_left N.add ws 0.
Definition sat_sum (ws : list N) : N := fold_left add_sat ws 0.
Definition group_of (es : list ep) (l : N) : N * list ep := (l, filter (in_loc l) es).

(* --- EndpointsByNetworkFilter, sidecar proxy, ambient multi-network off, IP family unknown *)
(* selectNetworkGateways *)
Definition select_gws (c : cla_in) (e : ep) : list gw :=
  let by_nc := filter (fun g => (g_net g =? e_net e) && (g_cluster g =? e_cluster e)) (c_gws c) in
  let gs := match by_nc with [] => filter (fun g => g_net g =? e_net e) (c_gws c) | _ => by_nc end in
  filter (fun g => negb (g_port g =? 0)) gs.
(* scaleEndpointLBWeight *)
Definition scale_weight (w s : N) : N :=
  if w =? 0 then s else if w <? U32MAX / s then w * s else U32MAX.
Inductive route := Direct (m : member) | ViaGw (gs : list gw) (w : N) | Dropped.
Definition route_of (c : cla_in) (e : ep) : route :=
  if negb (visible c e) then Dropped else
  let gs := select_gws c e in
  let w := scale_weight (ep_weight e) (c_scale c) in
  let force := (p_net c =? 0) && negb (e_net e =? 0) && negb (match gs with [] => true | _ => false end) in
  if negb force && (same_or_empty (e_net e) (p_net c) || match gs with [] => true | _ => false end)
  then (if (e_addr e =? 0) then Dropped
        else Direct {| m_gw := false; m_addr := e_addr e; m_dns := e_dns e; m_port := e_eport e; m_weight := w;
                       m_health := health_num (e_health e) |})
  else if negb (e_tls e) then Dropped
  else ViaGw gs w.
Fixpoint gw_add (g : gw) (w : N) (acc : list (gw * N)) : list (gw * N) :=
  match acc with
  | [] => [(g, add_sat 0 w)]
  | (g', w') :: acc' => if gw_eqb g g' then (g', add_sat w' w) :: acc' else (g', w') :: gw_add g w acc'
  end.
(* splitWeightAmongGateways: gatewayWeights[gateway], _ = addUint32(gatewayWeights[gateway], weightPerGateway) *)
Definition split_weight (gs : list gw) (w : N) (acc : list (gw * N)) : list (gw * N) :=
  let per := w / N.of_nat (length gs) in
  fold_left (fun acc g => gw_add g per acc) gs acc.
Definition gw_le (a b : gw * N) : bool :=
  (g_addr (fst a) <? g_addr (fst b)) || ((g_addr (fst a) =? g_addr (fst b)) && (g_port (fst a) <=? g_port (fst b))).
Fixpoint ins_gw (x : gw * N) (l : list (gw * N)) : list (gw * N) :=
  match l with
  | [] => [x]
  | y :: l' => if gw_le x y then x :: l else y :: ins_gw x l'
  end.
Definition sort_gws (l : list (gw * N)) : list (gw * N) := fold_right ins_gw [] l.
Definition gw_member (gwt : gw * N) : member :=
  {| m_gw := true; m_addr := g_addr (fst gwt); m_dns := false; m_port := g_port (fst gwt);
     m_weight := if snd gwt =? 0 then 1 else snd gwt; m_health := 0 |}.
Definition direct_members (c : cla_in) (es : list ep) : list member :=
  flat_map (fun e => match route_of c e with Direct m => [m] | _ => [] end) es.
Definition gw_weights (c : cla_in) (es : list ep) : list (gw * N) :=
  fold_left (fun acc e => match route_of c e with ViaGw gs w => split_weight gs w acc | _ => acc end) es [].
(* refreshWeight: nil for a locality without members, else the saturating sum (addUint32) *)
Definition net_filter_group (c : cla_in) (g : N * list ep) : lgroup :=
  let ms := direct_members c (snd g) ++ map gw_member (sort_gws (gw_weights c (snd g))) in
  (fst g, match ms with [] => None | _ => Some (sat_sum (map m_weight ms)) end, ms).
Definition plain_group (g : N * list ep) : lgroup :=
  let ms := map member_of (snd g) in
  (fst g, Some (sat_sum (map m_weight ms)), ms).

Definition multi_network (c : cla_in) : bool := match c_gws c with [] => false | _ => true end.

(* BuildClusterLoadAssignment (sidecar proxy; no locality load balancing configured) *)
Definition build_cla (c : cla_in) : list lgroup :=
  if negb (c_found c) then [] else
  match find_port (c_port c) (c_ports c) with
  | None => []
  | Some pname =>
      let es := selected c pname in
      let groups := map (group_of es) (localities es) in
      if multi_network c then map (net_filter_group c) groups else map plain_group groups
  end.

(* declarative membership: the property's wording *)
Definition reported (c : cla_in) (e : ep) : Prop :=
  exists shards k es, c_shards c = Some shards /\ In (k, es) shards /\ In e es.
Definition served_spec (c : cla_in) (pname : N) (e : ep) : Prop :=
  c_dns c = false /\
  (exists shards k es, c_shards c = Some shards /\ In (k, es) shards /\ In e es /\
     (snd k = p_cluster c \/ (c_cluster_local c = false /\ c_node_local c = false))) /\
  port_subset_ok c pname e = true /\ filter_ep c e = true.

(* ------------------------------------------------------------------ locality load balancing
   pilot/pkg/networking/core/loadbalancer/loadbalancer.go: ApplyLocalityLoadBalancer without
   `distribute` (which removes the endpoints of unmatched localities by design): applyFailoverPriorities,
   applyFailoverPriorityPerLocality, applyLocalityFailover.  A locality label is interned as
   100*region + 10*zone + subzone (digits 1..9), 0 = the empty label. *)

(* members together with the labels of the IstioEndpoint they were built from (gateway members: none
   of the harness's label keys) *)
Definition lmember := (list (N * N) * member)%type.
Definition lgroup_l := (N * option N * list lmember)%type.

Definition plain_group_l (g : N * list ep) : lgroup_l :=
  (fst g, Some (sat_sum (map m_weight (map member_of (snd g)))), map (fun e => (e_labels e, member_of e)) (snd g)).
Definition direct_members_l (c : cla_in) (es : list ep) : list lmember :=
  flat_map (fun e => match route_of c e with Direct m => [(e_labels e, m)] | _ => [] end) es.
Definition net_filter_group_l (c : cla_in) (g : N * list ep) : lgroup_l :=
  let ms := direct_members_l c (snd g) ++ map (fun x => ([], gw_member x)) (sort_gws (gw_weights c (snd g))) in
  (fst g, match ms with [] => None | _ => Some (sat_sum (map (fun x => m_weight (snd x)) ms)) end, ms).
Definition build_cla_l (c : cla_in) : list lgroup_l :=
  if negb (c_found c) then [] else
  match find_port (c_port c) (c_ports c) with
  | None => []
  | Some pname =>
      let es := selected c pname in
      let groups := map (group_of es) (localities es) in
      if multi_network c then map (net_filter_group_l c) groups else map plain_group_l groups
  end.
Definition strip_l (g : lgroup_l) : lgroup := (fst (fst g), snd (fst g), map snd (snd g)).

(* locality, priority, LoadBalancingWeight, members *)
Definition pgroup_l := (N * N * option N * list lmember)%type.
Definition pg_loc (g : pgroup_l) : N := fst (fst (fst g)).
Definition pg_prio (g : pgroup_l) : N := snd (fst (fst g)).
Definition pg_weight (g : pgroup_l) : option N := snd (fst g).
Definition pg_members (g : pgroup_l) : list lmember := snd g.
Definition set_prio (p : N) (g : pgroup_l) : pgroup_l := (pg_loc g, p, pg_weight g, pg_members g).
Definition to_pgroup (g : lgroup_l) : pgroup_l := (fst (fst g), 0, snd (fst g), snd g).

Record lb_in := {
  l_has_lb : bool;                      (* the DestinationRule has a localityLbSetting *)
  l_proxy_loc : N;                      (* proxy.Locality *)
  l_proxy_labels : list (N * N);        (* proxy.Labels *)
  l_failover : list (N * N);            (* failover: from region -> to region *)
  l_prio : list (N * option N)          (* failoverPriority: label key, optional "=value" override *)
}.

Definition loc_region (l : N) : N := l / 100.
Definition loc_zone (l : N) : N := (l / 10) mod 10.
Definition loc_sub (l : N) : N := l mod 10.
(* util.LbPriority *)
Definition lb_priority (p l : N) : N :=
  if loc_region p =? loc_region l then
    if loc_zone p =? loc_zone l then if loc_sub p =? loc_sub l then 0 else 1 else 2
  else 3.

(* sorted distinct priorities and the rank of a priority among them (the "adjust the priorities in
   order" loops) *)
Definition prios_of {A} (f : A -> N) (l : list A) : list N := fold_left (fun acc x => ins_sorted (f x) acc) l [].
Fixpoint rank_in (p : N) (l : list N) : N :=
  match l with
  | [] => 0
  | q :: l' => if q <? p then 1 + rank_in p l' else 0
  end.
Definition compact (gs : list pgroup_l) : list pgroup_l :=
  let ps := prios_of pg_prio gs in map (fun g => set_prio (rank_in (pg_prio g) ps) g) gs.

(* applyLocalityFailover *)
Definition failover_priority (lb : lb_in) (loc : N) : N :=
  let p := lb_priority (l_proxy_loc lb) loc in
  if p =? 3 then
    match find (fun f => fst f =? loc_region (l_proxy_loc lb)) (l_failover lb) with
    | Some f => if loc_region loc =? snd f then 3 else 4
    | None => 3
    end
  else p.
Definition apply_locality_failover (lb : lb_in) (gs : list pgroup_l) : list pgroup_l :=
  compact (map (fun g => set_prio (pg_prio g * 5 + failover_priority lb (pg_loc g)) g) gs).

(* applyFailoverPriorityPerLocality: the priority of one endpoint = number of labels from the first
   mismatching one on *)
Definition olab_eqb (a b : option N) : bool :=
  match a, b with Some x, Some y => x =? y | None, None => true | _, _ => false end.
Fixpoint fp_prio (lowest j : N) (ps : list (N * option N)) (plabels elabels : list (N * N)) : N :=
  match ps with
  | [] => 0
  | (key, ov) :: ps' =>
      let vp := match ov with Some v => Some v | None => lab_lookup key plabels end in
      if olab_eqb vp (lab_lookup key elabels) then fp_prio lowest (j + 1) ps' plabels elabels else lowest - j
  end.
Definition member_prio (lb : lb_in) (x : lmember) : N :=
  fp_prio (N.of_nat (length (l_prio lb))) 0 (l_prio lb) (l_proxy_labels lb) (fst x).
(* one LocalityLbEndpoints is split into one per priority present, members keep their order; the
   weight is re-summed with a saturating add *)
Definition split_group (lb : lb_in) (g : lgroup_l) : list pgroup_l :=
  map (fun p => let ms := filter (fun x => member_prio lb x =? p) (snd g) in
                (fst (fst g), p, Some (sat_sum (map (fun x => m_weight (snd x)) ms)), ms))
      (prios_of (member_prio lb) (snd g)).
(* applyFailoverPriorities *)
Definition apply_failover_priorities (lb : lb_in) (gs : list lgroup_l) : list pgroup_l :=
  match l_proxy_labels lb, gs with
  | [], _ | _, [] => map to_pgroup gs
  | _, _ => compact (flat_map (split_group lb) gs)
  end.

Definition enable_failover (c : cla_in) : bool := match effective_od c with Some _ => true | None => false end.

(* ApplyLocalityLoadBalancer as BuildClusterLoadAssignment calls it *)
Definition apply_lb (c : cla_in) (lb : lb_in) (gs : list lgroup_l) : list pgroup_l :=
  if negb (l_has_lb lb) || negb (enable_failover c) then map to_pgroup gs else
  match l_prio lb with
  | [] => apply_locality_failover lb (map to_pgroup gs)
  | _ => let gs1 := apply_failover_priorities lb gs in
         match l_failover lb with [] => gs1 | _ => apply_locality_failover lb gs1 end
  end.
Definition build_cla_lb (c : cla_in) (lb : lb_in) : list pgroup_l := apply_lb c lb (build_cla_l c).

(* what is observed of a group after load balancing *)
Definition pgroup := (N * N * option N * list member)%type.
Definition strip_p (g : pgroup_l) : pgroup := (pg_loc g, pg_prio g, pg_weight g, map snd (pg_members g)).
