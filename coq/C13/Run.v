(* Evaluation of harness cases for C13. *)
From V Require Export lib.Verdict C13.Model.
Open Scope N_scope.

(* Shardz() of the real index, canonically sorted: (service, shards in Keys() order, service accounts) *)
Definition obs_state := list (svckey * list (skey * list ep) * list N).

Inductive case :=
(* calls applied one after the other to a fresh real EndpointIndex: push types and final content *)
| Seq (id : N) (ops : list op) (res : list (option push_type)) (obs : obs_state)
(* calls [ops] run concurrently after [prefix]; [sched] = which call ran its next critical section *)
| Conc (id : N) (prefix ops : list op) (sched : list nat) (res : list (option push_type)) (obs : obs_state)
(* one BuildClusterLoadAssignment *)
| Cla (id : N) (c : cla_in) (obs : list lgroup)
(* one BuildClusterLoadAssignment with locality load balancing (ApplyToLoadAssignment) *)
| ClaLb (id : N) (c : cla_in) (lb : lb_in) (obs : list pgroup).

Definition case_id c := match c with Seq id _ _ _ => id | Conc id _ _ _ _ _ => id | Cla id _ _ => id | ClaLb id _ _ _ => id end.

Definition obs_to_state (obs : obs_state) : istate :=
  {| idx := map (fun x => (fst (fst x), {| o_id := 0; o_shards := snd (fst x); o_sa := snd x |})) obs;
     orphans := []; next := 0 |}.

Definition res_eqb := list_eqb' (option_eqb push_eqb).
Definition cell_eqb := option_eqb eps_eqb.

Definition oN_eqb := option_eqb N.eqb.
Definition lgroup_eqb (a b : lgroup) : bool :=
  N.eqb (fst (fst a)) (fst (fst b)) && oN_eqb (snd (fst a)) (snd (fst b)) && list_eqb' member_eqb (snd a) (snd b).

Definition pgroup_eqb (a b : pgroup) : bool :=
  N.eqb (fst (fst (fst a))) (fst (fst (fst b))) && N.eqb (snd (fst (fst a))) (snd (fst (fst b))) &&
  oN_eqb (snd (fst a)) (snd (fst b)) && list_eqb' member_eqb (snd a) (snd b).

Definition model_ok (c : case) : bool :=
  match c with
  | Seq _ ops res obs =>
      let '(st, rs) := run_ops_res init ops in
      res_eqb rs res && view_eq st (obs_to_state obs)
  | Conc _ prefix ops sched res obs =>
      let st0 := run_ops init prefix in
      let '(st, ts) := run_sched st0 (map Start ops) sched in
      all_done ts && res_eqb (map result_of ts) res && view_eq st (obs_to_state obs)
  | Cla _ c obs => list_eqb' lgroup_eqb (build_cla c) obs
  | ClaLb _ c lb obs => list_eqb' pgroup_eqb (map strip_p (build_cla_lb c lb)) obs
  end.

(* ---- property oracles on the observed behaviour *)

(* the cells the calls name explicitly *)
Definition cells_of (ops : list op) : list (svckey * skey) :=
  flat_map (fun o => match o with
                     | Update k svc ns _ | DelSvc k svc ns _ => [((svc, ns), k)]
                     | _ => []
                     end) ops.

(* every registry's cell holds its last non-deleted report, nothing else is stored *)
Definition seq_prop (ops : list op) (obs : obs_state) : bool :=
  let st := obs_to_state obs in
  forallb (fun c => cell_eqb (spec ops (fst c) (snd c)) (cell st (fst c) (snd c))) (cells_of ops) &&
  forallb (fun x => forallb (fun kv => cell_eqb (spec ops (fst (fst x)) (fst kv)) (Some (snd kv)) &&
                                       negb (match snd kv with [] => true | _ => false end))
                            (snd (fst x))) obs.

(* push types: NoPush is acceptable only when the registry's stored report (by the specification)
   has exactly the keys of the new one, up to new endpoints that are unhealthy and not to be sent *)
Fixpoint push_prop_from (done ops : list op) (res : list (option push_type)) : bool :=
  match ops, res with
  | o :: ops', r :: res' =>
      match o, r with
      | Update k svc ns (e :: es), Some NoPush =>
          match spec (rev done) (svc, ns) k with
          | None => false
          | Some old =>
              forallb (fun x => key_in (ep_key x) (e :: es)) old &&
              forallb (fun x => key_in (ep_key x) old || (health_eqb (e_health x) UnHealthy && negb (e_send_unh x))) (e :: es)
          end
      | Update k svc ns (e :: es), Some FullPush => true
      | Update k svc ns (e :: es), Some IncrementalPush =>
          (* an incremental push is never the answer to the first report for a service *)
          existsb (fun o' => match o' with Update _ svc' ns' (_ :: _) => pair_eqb (svc, ns) (svc', ns') | _ => false end) done
      | _, _ => true
      end && push_prop_from (o :: done) ops' res'
  | _, _ => true
  end.

(* membership oracle: which reported endpoints must be direct members, with which weight *)
Definition all_reported (c : cla_in) : list (skey * ep) :=
  match c_shards c with
  | None => []
  | Some shards => flat_map (fun kv => map (fun e => (fst kv, e)) (snd kv)) shards
  end.
Definition served_b (c : cla_in) (pname : N) (ke : skey * ep) : bool :=
  let e := snd ke in
  negb (c_dns c) &&
  ((snd (fst ke) =? p_cluster c) || (negb (c_cluster_local c) && negb (c_node_local c))) &&
  port_subset_ok c pname e && filter_ep c e &&
  (if multi_network c then match route_of c e with Direct _ => true | _ => false end else true).
Definition expected_member (c : cla_in) (e : ep) : member :=
  if multi_network c then
    {| m_gw := false; m_addr := e_addr e; m_dns := e_dns e; m_port := e_eport e;
       m_weight := scale_weight (ep_weight e) (c_scale c); m_health := health_num (e_health e) |}
  else member_of e.
Definition expected_direct (c : cla_in) : list member :=
  if negb (c_found c) then [] else
  match find_port (c_port c) (c_ports c) with
  | None => []
  | Some pname => map (fun ke => expected_member c (snd ke)) (filter (served_b c pname) (all_reported c))
  end.
Definition mem_member (m : member) (l : list member) : bool := existsb (member_eqb m) l.
Definition count_member (m : member) (l : list member) : nat := List.length (filter (member_eqb m) l).
Definition same_members (a b : list member) : bool :=
  Nat.eqb (List.length a) (List.length b) &&
  forallb (fun m => Nat.eqb (count_member m a) (count_member m b)) a &&
  forallb (fun m => Nat.eqb (count_member m a) (count_member m b)) b.
Definition weight_ok (g : lgroup) : bool :=
  match snd g with
  | [] => oN_eqb (snd (fst g)) None
  | ms => oN_eqb (snd (fst g)) (Some (N.min (plain_sum (map m_weight ms)) U32MAX))
  end.
Fixpoint strictly_sorted (l : list N) : bool :=
  match l with
  | x :: ((y :: _) as l') => (x <? y) && strictly_sorted l'
  | _ => true
  end.
(* gateway members of a locality: the weights of the endpoints they stand for, split per gateway and summed with saturation *)
Definition expected_gw_members (c : cla_in) (loc : N) : list member :=
  match find_port (c_port c) (c_ports c) with
  | None => []
  | Some pname =>
      map gw_member (sort_gws (gw_weights c (filter (in_loc loc) (selected c pname))))
  end.
Definition gw_members_ok (c : cla_in) (g : lgroup) : bool :=
  list_eqb' member_eqb (filter m_gw (snd g)) (if multi_network c then expected_gw_members c (fst (fst g)) else []).
Definition cla_prop (c : cla_in) (obs : list lgroup) : bool :=
  let direct := filter (fun m => negb (m_gw m)) (flat_map (fun g => snd g) obs) in
  same_members direct (expected_direct c) &&
  forallb weight_ok obs &&
  forallb (gw_members_ok c) obs &&
  strictly_sorted (map (fun g => fst (fst g)) obs).

(* after load balancing: the same endpoints are served (none dropped, none duplicated, each in its
   locality), every group's weight is the saturating sum of its members, priorities are 0..n-1 *)
Definition locs_of (obs : list pgroup) : list N := prios_of (fun g : pgroup => fst (fst (fst g))) obs.
Definition members_of_loc (L : N) (obs : list pgroup) : list member :=
  flat_map (fun g : pgroup => snd g) (filter (fun g : pgroup => fst (fst (fst g)) =? L) obs).
Fixpoint is_range (n : N) (l : list N) : bool :=
  match l with [] => true | x :: l' => (x =? n) && is_range (n + 1) l' end.
Definition pweight_ok (g : pgroup) : bool :=
  match snd g with
  | [] => true
  | ms => oN_eqb (snd (fst g)) (Some (N.min (plain_sum (map m_weight ms)) U32MAX))
  end.
Definition expected_direct_at (c : cla_in) (L : N) : list member :=
  if negb (c_found c) then [] else
  match find_port (c_port c) (c_ports c) with
  | None => []
  | Some pname => map (fun ke => expected_member c (snd ke))
                      (filter (fun ke => served_b c pname ke && (e_loc (snd ke) =? L)) (all_reported c))
  end.
Definition clalb_prop (c : cla_in) (obs : list pgroup) : bool :=
  let direct := filter (fun m => negb (m_gw m)) (flat_map (fun g : pgroup => snd g) obs) in
  same_members direct (expected_direct c) &&
  forallb (fun L => same_members (filter (fun m => negb (m_gw m)) (members_of_loc L obs)) (expected_direct_at c L) &&
                    same_members (filter m_gw (members_of_loc L obs))
                                 (if multi_network c then expected_gw_members c L else [])) (locs_of obs) &&
  forallb pweight_ok obs &&
  is_range 0 (prios_of (fun g : pgroup => snd (fst (fst g))) obs).

Definition prop_ok (c : case) : bool :=
  match c with
  | Seq _ ops res obs => seq_prop ops obs && push_prop_from [] ops res
  | Conc _ prefix ops _ _ obs => linearizable_from (run_ops init prefix) ops (obs_to_state obs)
  | Cla _ c obs => cla_prop c obs
  | ClaLb _ c _ obs => clalb_prop c obs
  end.

Definition mismatches := check_all case_id model_ok prop_ok.
