(* C13 proofs, part 3: membership and locality weights of the ClusterLoadAssignment model. *)
From Coq Require Import List NArith Bool Lia.
From V Require Import C13.Model.
Import ListNotations.
Open Scope N_scope.

(* ------------------------------------------------------------------ localities and groups *)
Lemma in_ins_loc x y l : In y (ins_loc x l) <-> y = x \/ In y l.
Proof.
  induction l as [|a l IH]; cbn [ins_loc In].
  - split; [intros [H|[]]; auto | intros [H|[]]; auto].
  - destruct (x <? a); [cbn [In]; split; intros H; intuition auto|].
    destruct (x =? a) eqn:E.
    + apply N.eqb_eq in E. subst a. cbn [In]. split; intros H; intuition auto.
    + cbn [In]. rewrite IH. split; intros H; intuition auto.
Qed.

Lemma in_localities_acc es : forall acc l,
  In l (fold_left (fun acc e => ins_loc (e_loc e) acc) es acc) <-> In l acc \/ exists e, In e es /\ e_loc e = l.
Proof.
  induction es as [|a es IH]; intros acc l; cbn [fold_left].
  - split; [auto | intros [H|(e & [] & _)]; exact H].
  - rewrite IH, in_ins_loc. split.
    + intros [[->|H]|(e & He & El)]; [right; exists a; cbn; auto | auto | right; exists e; cbn; auto].
    + intros [H|(e & [->|He] & El)]; [auto | left; left; auto | right; exists e; auto].
Qed.

Lemma in_localities es l : In l (localities es) <-> exists e, In e es /\ e_loc e = l.
Proof. unfold localities. rewrite in_localities_acc. split; [intros [[]|H]; exact H | auto]. Qed.

Lemma in_group es l e : In e (snd (group_of es l)) <-> In e es /\ e_loc e = l.
Proof. unfold group_of, in_loc. cbn [snd]. rewrite filter_In, N.eqb_eq. reflexivity. Qed.

(* ------------------------------------------------------------------ which endpoints are selected *)
Lemma in_snapshot c e :
  In e (snapshot c) <->
  c_dns c = false /\
  exists shards k es, c_shards c = Some shards /\ In (k, es) shards /\ In e es /\
    (snd k = p_cluster c \/ (c_cluster_local c = false /\ c_node_local c = false)).
Proof.
  unfold snapshot. destruct (c_dns c).
  - split; [intros [] | intros [H _]; discriminate].
  - destruct (c_shards c) as [shards|].
    + rewrite in_flat_map. split.
      * intros ([k es] & Hin & He). cbn [fst snd] in He.
        destruct (negb (snd k =? p_cluster c) && (c_cluster_local c || c_node_local c)) eqn:E; [destruct He|].
        split; [reflexivity|]. exists shards, k, es. repeat split; auto.
        apply andb_false_iff in E. destruct E as [E|E].
        -- left. apply negb_false_iff, N.eqb_eq in E. exact E.
        -- right. apply orb_false_iff in E. exact E.
      * intros (_ & shards' & k & es & Hs & Hin & He & Hc). inversion Hs. subst shards'.
        exists (k, es). split; [exact Hin|]. cbn [fst snd].
        destruct Hc as [Hc|[H1 H2]].
        -- rewrite Hc, N.eqb_refl. cbn [negb andb]. exact He.
        -- rewrite H1, H2. cbn [orb]. rewrite andb_false_r. exact He.
    + split; [intros [] | intros (_ & s & k & es & H & _); discriminate].
Qed.

Theorem selected_iff_spec c pname e : In e (selected c pname) <-> served_spec c pname e.
Proof.
  unfold selected, served_spec. rewrite !filter_In, in_snapshot.
  split.
  - intros (((Hd & shards & k & es & H1 & H2 & H3 & H4) & Hp) & Hf).
    repeat split; auto. exists shards, k, es. auto.
  - intros (Hd & (shards & k & es & H1 & H2 & H3 & H4) & Hp & Hf).
    repeat split; auto. exists shards, k, es. auto.
Qed.

(* ------------------------------------------------------------------ membership, single network *)
Lemma plain_members es m :
  In m (flat_map (fun g : lgroup => snd g) (map plain_group (map (group_of es) (localities es)))) <->
  exists e, In e es /\ m = member_of e.
Proof.
  rewrite in_flat_map. split.
  - intros (g & Hg & Hm). apply in_map_iff in Hg. destruct Hg as (g0 & <- & Hg0).
    apply in_map_iff in Hg0. destruct Hg0 as (l & <- & _).
    unfold plain_group in Hm. cbn [snd] in Hm. apply in_map_iff in Hm. destruct Hm as (e & <- & He).
    change (filter (in_loc l) es) with (snd (group_of es l)) in He. apply in_group in He. exists e. tauto.
  - intros (e & He & ->). exists (plain_group (group_of es (e_loc e))). split.
    + apply in_map, in_map. apply in_localities. exists e. auto.
    + unfold plain_group. cbn [snd]. apply in_map.
      change (filter (in_loc (e_loc e)) es) with (snd (group_of es (e_loc e))). apply in_group. auto.
Qed.

Theorem membership_plain c pname m :
  c_found c = true -> find_port (c_port c) (c_ports c) = Some pname -> multi_network c = false ->
  (In m (flat_map (fun g : lgroup => snd g) (build_cla c)) <-> exists e, served_spec c pname e /\ m = member_of e).
Proof.
  intros Hf Hp Hm. unfold build_cla. rewrite Hf, Hp, Hm. cbn [negb]. rewrite plain_members.
  split; intros (e & He & ->); exists e; (split; [apply selected_iff_spec; exact He | reflexivity]).
Qed.

Theorem unknown_cluster_empty c :
  c_found c = false \/ find_port (c_port c) (c_ports c) = None -> build_cla c = [].
Proof.
  unfold build_cla. intros [H|H]; rewrite H; [reflexivity|]. destruct (c_found c); reflexivity.
Qed.

(* ------------------------------------------------------------------ membership, multi-network: direct members *)
Lemma route_direct_not_gw c e m : route_of c e = Direct m -> m_gw m = false.
Proof.
  unfold route_of. destruct (negb (visible c e)); [discriminate|].
  destruct (negb _ && (_ || _)).
  - destruct (e_addr e =? 0); [discriminate|]. intros H. inversion H. reflexivity.
  - destruct (negb (e_tls e)); discriminate.
Qed.

Lemma in_direct_members c es m : In m (direct_members c es) <-> exists e, In e es /\ route_of c e = Direct m.
Proof.
  unfold direct_members. rewrite in_flat_map. split.
  - intros (e & He & Hm). exists e. split; [exact He|]. destruct (route_of c e); cbn in Hm; try contradiction.
    destruct Hm as [->|[]]. reflexivity.
  - intros (e & He & Hr). exists e. split; [exact He|]. rewrite Hr. cbn. auto.
Qed.

Lemma multi_members c es m :
  (In m (flat_map (fun g : lgroup => snd g) (map (net_filter_group c) (map (group_of es) (localities es)))) /\ m_gw m = false) <->
  exists e, In e es /\ route_of c e = Direct m.
Proof.
  rewrite in_flat_map. split.
  - intros ((g & Hg & Hm) & Hgw). apply in_map_iff in Hg. destruct Hg as (g0 & <- & Hg0).
    apply in_map_iff in Hg0. destruct Hg0 as (l & <- & _).
    unfold net_filter_group in Hm. cbn [snd] in Hm. apply in_app_or in Hm. destruct Hm as [Hm|Hm].
    + apply in_direct_members in Hm. destruct Hm as (e & He & Hr).
      change (filter (in_loc l) es) with (snd (group_of es l)) in He. apply in_group in He. exists e. tauto.
    + apply in_map_iff in Hm. destruct Hm as (x & <- & _). discriminate.
  - intros (e & He & Hr). split; [|exact (route_direct_not_gw c e m Hr)].
    exists (net_filter_group c (group_of es (e_loc e))). split.
    + apply in_map, in_map. apply in_localities. exists e. auto.
    + unfold net_filter_group. cbn [snd]. apply in_or_app. left. apply in_direct_members. exists e. split; [|exact Hr].
      change (filter (in_loc (e_loc e)) es) with (snd (group_of es (e_loc e))). apply in_group. auto.
Qed.

Theorem membership_multi c pname m :
  c_found c = true -> find_port (c_port c) (c_ports c) = Some pname -> multi_network c = true ->
  ((In m (flat_map (fun g : lgroup => snd g) (build_cla c)) /\ m_gw m = false) <->
   exists e, served_spec c pname e /\ route_of c e = Direct m).
Proof.
  intros Hf Hp Hm. unfold build_cla. rewrite Hf, Hp, Hm. cbn [negb]. rewrite multi_members.
  split; intros (e & He & Hr); exists e; (split; [apply selected_iff_spec; exact He | exact Hr]).
Qed.

(* ------------------------------------------------------------------ weights *)
Lemma plain_sum_acc ws : forall a, fold_left N.add ws a = a + plain_sum ws.
Proof.
  unfold plain_sum. induction ws as [|w ws IH]; intros a; cbn [fold_left]; [lia|].
  rewrite IH, (IH (0 + w)). lia.
Qed.

Lemma add_sat_min a b : a <= U32MAX -> b <= U32MAX -> add_sat a b = N.min (a + b) U32MAX.
Proof.
  unfold add_sat, U32MAX. intros Ha Hb. destruct (N.ltb_spec (4294967295 - b) a); lia.
Qed.

Lemma sat_sum_acc ws : forall a, a <= U32MAX -> Forall (fun w => w <= U32MAX) ws ->
  fold_left add_sat ws a = N.min (a + plain_sum ws) U32MAX.
Proof.
  induction ws as [|w ws IH]; intros a Ha Hws; cbn [fold_left].
  - unfold plain_sum. cbn [fold_left]. lia.
  - inversion Hws as [|? ? Hw Hws']. subst.
    rewrite IH; [|rewrite add_sat_min by assumption; lia | assumption].
    rewrite add_sat_min by assumption.
    unfold plain_sum at 2. cbn [fold_left]. rewrite (plain_sum_acc ws (0 + w)). lia.
Qed.

Lemma sat_sum_min ws : Forall (fun w => w <= U32MAX) ws -> sat_sum ws = N.min (plain_sum ws) U32MAX.
Proof.
  intros H. unfold sat_sum. rewrite sat_sum_acc; [reflexivity | unfold U32MAX; lia | exact H].
Qed.

Lemma in_le_plain_sum w ws : In w ws -> w <= plain_sum ws.
Proof.
  induction ws as [|x ws IH]; intros H; [destruct H|].
  unfold plain_sum. cbn [fold_left]. rewrite plain_sum_acc. destruct H as [->|H]; [lia|]. specialize (IH H). lia.
Qed.

(* the locality weight is the saturating sum of the member weights, on both code paths
   (generate, and refreshWeight after the network filter); nil for a locality left without members *)
Theorem weights_full c g :
  In g (build_cla c) -> Forall (fun w => w <= U32MAX) (map m_weight (snd g)) ->
  snd (fst g) = match snd g with
                | [] => if multi_network c then None else Some 0
                | ms => Some (N.min (plain_sum (map m_weight ms)) U32MAX)
                end.
Proof.
  unfold build_cla. destruct (negb (c_found c)); [intros []|].
  destruct (find_port (c_port c) (c_ports c)) as [pname|]; [|intros []].
  destruct (multi_network c); intros Hg Hw; apply in_map_iff in Hg; destruct Hg as (g0 & <- & _).
  - unfold net_filter_group in *. cbn [fst snd] in *.
    destruct (direct_members c (snd g0) ++ map gw_member (sort_gws (gw_weights c (snd g0)))) eqn:E; [reflexivity|].
    rewrite sat_sum_min by exact Hw. reflexivity.
  - unfold plain_group in *. cbn [fst snd] in *. rewrite sat_sum_min by exact Hw.
    destruct (map member_of (snd g0)); reflexivity.
Qed.

(* every locality of a single-network assignment has members *)
Lemma plain_groups_nonempty c g : multi_network c = false -> In g (build_cla c) -> snd g <> [].
Proof.
  unfold build_cla. destruct (negb (c_found c)); [intros _ []|].
  destruct (find_port (c_port c) (c_ports c)) as [pname|]; [|intros _ []].
  intros Hm. rewrite Hm. intros Hg. apply in_map_iff in Hg. destruct Hg as (g0 & <- & Hg0).
  apply in_map_iff in Hg0. destruct Hg0 as (l & <- & Hl). apply in_localities in Hl. destruct Hl as (e & He & El).
  unfold plain_group. cbn [snd]. intros Hnil. apply map_eq_nil in Hnil.
  assert (Hin : In e (snd (group_of (selected c pname) l))) by (apply in_group; auto).
  rewrite Hnil in Hin. exact Hin.
Qed.

Theorem weights c g :
  In g (build_cla c) -> snd g <> [] -> Forall (fun w => w <= U32MAX) (map m_weight (snd g)) ->
  snd (fst g) = Some (N.min (plain_sum (map m_weight (snd g))) U32MAX).
Proof.
  intros Hg Hne Hw. rewrite (weights_full c g Hg Hw). destruct (snd g); [contradiction | reflexivity].
Qed.

(* consistency: localities with the same members get the same weight, whichever path produced them *)
Theorem weights_consistent c1 c2 g1 g2 :
  In g1 (build_cla c1) -> In g2 (build_cla c2) -> snd g1 = snd g2 -> snd g1 <> [] ->
  Forall (fun w => w <= U32MAX) (map m_weight (snd g1)) ->
  snd (fst g1) = snd (fst g2).
Proof.
  intros H1 H2 E Hne Hw. rewrite (weights c1 g1 H1 Hne Hw).
  rewrite (weights c2 g2 H2); rewrite <- E; auto.
Qed.

(* the former K12 witness: two endpoints of weight 2^31 seen by a proxy on their own network, with and
   without a gateway configured *)
Definition k12_ep (addr : N) : ep :=
  {| e_wl := 1; e_addr := addr; e_dns := false; e_port := 1; e_eport := 8080; e_sa := 0; e_health := Healthy;
     e_send_unh := false; e_weight := 2147483648; e_labels := []; e_net := 2; e_cluster := 2; e_loc := 1; e_tls := true;
     e_disc := DiscNone; e_node := 1 |}.
Definition k12_in (gws : list gw) : cla_in :=
  {| c_found := true; c_dns := false; c_ports := [(80, 1)]; c_port := 80; c_inference := false;
     c_cluster_local := false; c_node_local := false; c_persistent := false; c_default_unh := true; c_subset := 0;
     c_dr := None; p_net := 2; p_cluster := 1; p_node := 1; p_view := None; c_gws := gws; c_scale := 1;
     c_shards := Some [((1, 2), [k12_ep 1; k12_ep 2])] |}.
Definition k12_gw : gw := {| g_net := 2; g_cluster := 2; g_addr := 1; g_port := 15443 |}.

Lemma weights_example :
  map (fun g : lgroup => snd g) (build_cla (k12_in [])) = map (fun g : lgroup => snd g) (build_cla (k12_in [k12_gw])) /\
  map (fun g : lgroup => snd (fst g)) (build_cla (k12_in [])) = [Some U32MAX] /\
  map (fun g : lgroup => snd (fst g)) (build_cla (k12_in [k12_gw])) = [Some U32MAX].
Proof. vm_compute. repeat split; reflexivity. Qed.
