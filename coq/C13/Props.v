(* C13 property theorems only. *)
From Coq Require Import Permutation.
From V Require Import lib.Verdict C13.Model C13.Proofs C13.ProofsCla C13.ProofsLin C13.ProofsSim C13.ProofsLb.

(* ---- the index, calls applied one after the other (all call sequences, all services/registries) *)

(* every registry's cell of every service holds exactly that registry's last non-deleted report *)
Theorem C13_sequential_spec : forall ops sk k, cell (run_ops init ops) sk k = spec ops sk k.
Proof. exact sequential_spec. Qed.
Print Assumptions C13_sequential_spec.

(* nothing of a removed registry remains, in any service *)
Theorem C13_removed_registry_gone : forall ops k sk, cell (run_ops init (ops ++ [DelShard k])) sk k = None.
Proof. exact removed_registry_gone. Qed.
Print Assumptions C13_removed_registry_gone.

(* nothing of a deleted service remains for the registry that deleted it *)
Theorem C13_deleted_service_gone : forall ops k svc ns p,
  cell (run_ops init (ops ++ [DelSvc k svc ns p])) (svc, ns) k = None.
Proof. exact deleted_service_gone. Qed.
Print Assumptions C13_deleted_service_gone.

(* after a prune, the registry keeps only services on the keep list *)
Theorem C13_pruned_gone : forall ops k keep sk,
  svckey_in sk keep = false -> cell (run_ops init (ops ++ [Prune k keep])) sk k = None.
Proof. exact pruned_gone. Qed.
Print Assumptions C13_pruned_gone.

(* an update changes nothing but its own registry's cell of its own service *)
Theorem C13_update_isolated : forall st k svc ns eps sk k2,
  (sk, k2) <> ((svc, ns), k) -> cell (fst (run_op st (Update k svc ns eps))) sk k2 = cell st sk k2.
Proof. exact update_isolated. Qed.
Print Assumptions C13_update_isolated.

(* Full push exactly on first sight of the service or when the stored service-account set changes *)
Theorem C13_push_full_iff : forall st k svc ns e es,
  snd (run_op st (Update k svc ns (e :: es))) = Some FullPush <->
  linked st (svc, ns) = false \/
  exists o, alookup pair_eqb (svc, ns) (idx st) = Some o /\
            ns_eqb (o_sa o) (sa_of (aset pair_eqb k (e :: es) (o_shards o))) = false.
Proof. exact push_full_iff. Qed.
Print Assumptions C13_push_full_iff.

(* NoPush only for a report with the stored keys whose endpoints are unchanged, or new but unhealthy
   and not marked send-when-unhealthy *)
Theorem C13_no_push_sound : forall st k svc ns e es,
  snd (run_op st (Update k svc ns (e :: es))) = Some NoPush ->
  exists old, cell st (svc, ns) k = Some old /\
    (forall x, In x (e :: es) -> incoming_needs_push old x = false) /\
    (forall x, In x old -> key_in (ep_key x) (e :: es) = true).
Proof. exact no_push_sound. Qed.
Print Assumptions C13_no_push_sound.

(* ---- interleavings of the critical sections of concurrent calls *)

(* K1: linearizability is false of the faithful model (and of the code: the harness imposes this
   schedule through the gates): the update's report is in no final state although every sequential
   order keeps it *)
Theorem C13_linearizable_refuted :
  exists prefix calls sched,
    let '(st, ts) := sched_outcome prefix calls sched in
    all_done ts = true /\ linearizable_from (run_ops init prefix) calls st = false.
Proof. exact linearizable_refuted. Qed.
Print Assumptions C13_linearizable_refuted.

Theorem C13_linearizable_refuted_lost_update :
  let '(st, ts) := sched_outcome k1_prefix k1_calls k1_sched in
  all_done ts = true /\
  linearizable_from (run_ops init k1_prefix) k1_calls st = false /\
  cell st (1%N, 1%N) regB = None /\
  (forall p, In p (perms k1_calls) -> cell (run_ops (run_ops init k1_prefix) p) (1%N, 1%N) regB = Some [mkep 2 2 1]).
Proof. exact k1_witness. Qed.
Print Assumptions C13_linearizable_refuted_lost_update.

(* partial, UNBOUNDED: any number of concurrent calls, any start state, any interleaving of their
   critical sections.  If no unlinking critical section (DeleteServiceShard(preserveKeys=false),
   DeleteShard, PruneShard) runs while another call holds the EndpointShards of a service it touches
   (= that call is between GetOrCreateEndpointShard and its write), the final content is that of the
   sequential run of the same calls in the order of their last critical sections *)
Theorem C13_linearizable_partial : forall st0 calls sched st' ts',
  run_sched st0 (map Start calls) sched = (st', ts') -> all_done ts' = true ->
  sched_ok st0 (map Start calls) sched ->
  exists p, Permutation p calls /\ same_content st' (run_ops st0 p).
Proof. exact linearizable_unbounded. Qed.
Print Assumptions C13_linearizable_partial.

(* static form: no call of the batch can unlink a service for which the batch has a non-empty update *)
Theorem C13_linearizable_partial_static : forall st0 calls sched st' ts',
  static_ok calls ->
  run_sched st0 (map Start calls) sched = (st', ts') -> all_done ts' = true ->
  exists p, Permutation p calls /\ same_content st' (run_ops st0 p).
Proof. exact linearizable_static. Qed.
Print Assumptions C13_linearizable_partial_static.

(* in particular: any number of updates (empty or not) and key-preserving deletes *)
Theorem C13_linearizable_partial_no_unlinking : forall st0 calls sched st' ts',
  (forall o, In o calls -> unlinking o = false) ->
  run_sched st0 (map Start calls) sched = (st', ts') -> all_done ts' = true ->
  exists p, Permutation p calls /\ same_content st' (run_ops st0 p).
Proof. exact linearizable_no_unlinking. Qed.
Print Assumptions C13_linearizable_partial_no_unlinking.

(* same_content = the same services are linked and every registry's cell is the same *)
Theorem C13_same_content_observable : forall a b, same_content a b ->
  (forall sk k, cell a sk k = cell b sk k) /\ (forall sk, linked a sk = linked b sk).
Proof. intros a b H. split; [exact (same_content_cell a b H) | exact (same_content_linked a b H)]. Qed.
Print Assumptions C13_same_content_observable.

(* the hypothesis is exactly what the K1 schedule violates *)
Theorem C13_k1_is_the_excluded_overlap :
  ~ sched_ok (run_ops init k1_prefix) (map Start k1_calls) k1_sched.
Proof. exact k1_is_the_excluded_overlap. Qed.
Print Assumptions C13_k1_is_the_excluded_overlap.

(* bounded cross-check by evaluation (11 calls of every kind on 2 registries x 2 services, 5 start
   states, all 20 interleavings of two calls; 4 calls, 2 start states, all 1680 interleavings of three) *)
Theorem C13_linearizable_bounded_pairs : forall prefix calls sched,
  In prefix starts -> In calls (pairs universe) -> safe_calls calls = true -> In sched scheds2 ->
  lin_ok prefix calls sched = true.
Proof. exact linearizable_partial_pairs. Qed.
Print Assumptions C13_linearizable_bounded_pairs.

Theorem C13_linearizable_bounded_triples : forall prefix calls sched,
  In prefix starts3 -> In calls (triples universe3) -> In sched scheds3 -> lin_ok prefix calls sched = true.
Proof. exact linearizable_partial_triples. Qed.
Print Assumptions C13_linearizable_bounded_triples.

(* every offending pair contains an unlinking call overlapping a non-empty update; the schedule
   enumerations are the 20 resp. 1680 distinct interleavings *)
Theorem C13_offenders_are_unlinking_overlaps :
  offenders2 <> [] /\
  forallb (fun x => existsb unlinking (snd (fst x)) && existsb nonempty_update (snd (fst x))) offenders2 = true.
Proof. exact offenders_shape. Qed.
Print Assumptions C13_offenders_are_unlinking_overlaps.

Theorem C13_schedule_enumerations :
  List.length scheds2 = 20%nat /\ nodupb scheds2 = true /\ List.length scheds3 = 1680%nat /\ nodupb scheds3 = true.
Proof. exact scheds_count. Qed.
Print Assumptions C13_schedule_enumerations.

(* ---- the endpoints served for a cluster *)

(* an endpoint is selected iff it is reported by an admissible registry, matches port and subset,
   and passes the health / discoverability / visibility conditions *)
Theorem C13_selected_iff_spec : forall c pname e, In e (selected c pname) <-> served_spec c pname e.
Proof. exact selected_iff_spec. Qed.
Print Assumptions C13_selected_iff_spec.

(* membership, single network: the members are exactly the selected endpoints *)
Theorem C13_membership : forall c pname m,
  c_found c = true -> find_port (c_port c) (c_ports c) = Some pname -> multi_network c = false ->
  (In m (flat_map (fun g : lgroup => snd g) (build_cla c)) <-> exists e, served_spec c pname e /\ m = member_of e).
Proof. exact membership_plain. Qed.
Print Assumptions C13_membership.

(* membership, multi-network: the non-gateway members are exactly the selected endpoints that are
   directly reachable *)
Theorem C13_membership_multi_network : forall c pname m,
  c_found c = true -> find_port (c_port c) (c_ports c) = Some pname -> multi_network c = true ->
  ((In m (flat_map (fun g : lgroup => snd g) (build_cla c)) /\ m_gw m = false) <->
   exists e, served_spec c pname e /\ route_of c e = Direct m).
Proof. exact membership_multi. Qed.
Print Assumptions C13_membership_multi_network.

Theorem C13_unknown_cluster_empty : forall c,
  c_found c = false \/ find_port (c_port c) (c_ports c) = None -> build_cla c = [].
Proof. exact unknown_cluster_empty. Qed.
Print Assumptions C13_unknown_cluster_empty.

(* locality weight = min(sum of the member weights, 2^32-1), with and without gateways (generate and
   refreshWeight both saturate); member weights are uint32 *)
Theorem C13_weights : forall c g,
  In g (build_cla c) -> snd g <> [] -> Forall (fun w => (w <= U32MAX)%N) (map m_weight (snd g)) ->
  snd (fst g) = Some (N.min (plain_sum (map m_weight (snd g))) U32MAX).
Proof. exact weights. Qed.
Print Assumptions C13_weights.

(* a locality left without members by the network filter carries no weight; a single-network
   assignment has no such locality *)
Theorem C13_weights_full : forall c g,
  In g (build_cla c) -> Forall (fun w => (w <= U32MAX)%N) (map m_weight (snd g)) ->
  snd (fst g) = match snd g with
                | [] => if multi_network c then None else Some 0%N
                | ms => Some (N.min (plain_sum (map m_weight ms)) U32MAX)
                end.
Proof. exact weights_full. Qed.
Print Assumptions C13_weights_full.

Theorem C13_single_network_localities_nonempty : forall c g,
  multi_network c = false -> In g (build_cla c) -> snd g <> [].
Proof. exact plain_groups_nonempty. Qed.
Print Assumptions C13_single_network_localities_nonempty.

(* consistent weights: the same members get the same locality weight whichever path produced them *)
Theorem C13_weights_consistent : forall c1 c2 g1 g2,
  In g1 (build_cla c1) -> In g2 (build_cla c2) -> snd g1 = snd g2 -> snd g1 <> [] ->
  Forall (fun w => (w <= U32MAX)%N) (map m_weight (snd g1)) ->
  snd (fst g1) = snd (fst g2).
Proof. exact weights_consistent. Qed.
Print Assumptions C13_weights_consistent.

(* ---- locality load balancing (ApplyLocalityLoadBalancer: failoverPriority, failover; not distribute) *)

(* the model with endpoint labels attached to the members is the assignment model *)
Theorem C13_labelled_assignment : forall c, map strip_l (build_cla_l c) = build_cla c.
Proof. exact build_cla_l_strip. Qed.
Print Assumptions C13_labelled_assignment.

(* priorities and failover neither drop nor duplicate an endpoint: for every input, setting, proxy
   locality and proxy labels the members after load balancing are a permutation of the members before *)
Theorem C13_lb_preserves_membership : forall c lb,
  Permutation (flat_map (fun g : pgroup => snd g) (map strip_p (build_cla_lb c lb)))
              (flat_map (fun g : lgroup => snd g) (build_cla c)).
Proof. exact build_cla_lb_members. Qed.
Print Assumptions C13_lb_preserves_membership.

(* ... and they stay grouped by locality: locality by locality the members are the same *)
Theorem C13_lb_preserves_locality : forall c lb L,
  Permutation (members_at L (build_cla_lb c lb)) (members_at_in L (build_cla_l c)).
Proof. exact build_cla_lb_members_at. Qed.
Print Assumptions C13_lb_preserves_locality.

(* weights after load balancing: every group with members carries min(sum of member weights, 2^32-1),
   for every setting (none, failover only, failoverPriority split) - the same rule as C13_weights *)
Theorem C13_lb_weights : forall c lb g,
  In g (build_cla_lb c lb) -> pg_members g <> [] -> Forall (fun w => (w <= U32MAX)%N) (pg_weights g) ->
  pg_weight g = Some (N.min (plain_sum (pg_weights g)) U32MAX).
Proof. exact lb_weights. Qed.
Print Assumptions C13_lb_weights.

(* non-vacuity *)
Example C13_spec_nonvacuous :
  spec [Update regA 1 1 [mkep 1 1 1]; Update regB 1 1 [mkep 2 2 1]; DelShard regA] (1%N, 1%N) regB = Some [mkep 2 2 1] /\
  spec [Update regA 1 1 [mkep 1 1 1]; Update regB 1 1 [mkep 2 2 1]; DelShard regA] (1%N, 1%N) regA = None.
Proof. split; reflexivity. Qed.
Example C13_weights_at_the_boundary :
  map (fun g : lgroup => snd g) (build_cla (k12_in [])) = map (fun g : lgroup => snd g) (build_cla (k12_in [k12_gw])) /\
  map (fun g : lgroup => snd (fst g)) (build_cla (k12_in [])) = [Some U32MAX] /\
  map (fun g : lgroup => snd (fst g)) (build_cla (k12_in [k12_gw])) = [Some U32MAX].
Proof. exact weights_example. Qed.
Example C13_lb_weights_at_the_boundary :
  map pg_weight (build_cla_lb fpw_in fpw_lb) = [Some U32MAX] /\
  map (fun g : lgroup => snd (fst g)) (build_cla fpw_in) = [Some U32MAX].
Proof. exact lb_weights_example. Qed.
Example C13_membership_nonvacuous :
  exists m, In m (flat_map (fun g : lgroup => snd g) (build_cla (k12_in []))) /\ m_addr m = 1%N.
Proof. eexists. split; [vm_compute; left; reflexivity | reflexivity]. Qed.
