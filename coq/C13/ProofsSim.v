(* C13 proofs, part 4: linearizability for any number of concurrent calls and any interleaving of
   their critical sections, as long as no unlinking step runs while another call holds a pointer
   to the EndpointShards of a service that step touches (simulation argument; linearization point =
   the last critical section of each call). *)
From Coq Require Import List NArith Bool Lia Permutation.
From V Require Import C13.Model C13.Proofs C13.ProofsLin.
Import ListNotations.
Open Scope N_scope.

(* ------------------------------------------------------------------ entries of the index *)
Definition ent (st : istate) (sk : svckey) : option obj := alookup pair_eqb sk (idx st).

(* what deleteServiceInner does to the entry of the service it names *)
Definition del_entry (k : skey) (p : bool) (v : option obj) : option obj :=
  match v with
  | None => None
  | Some o =>
      let o' := {| o_id := o_id o; o_shards := aremove pair_eqb k (o_shards o); o_sa := o_sa o |} in
      match p, o_shards o' with
      | false, [] => None
      | _, _ => Some o'
      end
  end.

Lemma ent_delete_inner k sk p st sk' :
  ent (delete_inner k sk p st) sk' = if pair_eqb sk' sk then del_entry k p (ent st sk') else ent st sk'.
Proof.
  unfold ent, delete_inner.
  destruct (pair_eqb sk' sk) eqn:E.
  - apply pair_eqb_eq in E. subst sk'.
    destruct (alookup pair_eqb sk (idx st)) as [o|] eqn:Hl; cbn [del_entry]; [|exact Hl].
    destruct p; cbn [idx].
    + rewrite alookup_areplace_eq, Hl. reflexivity.
    + cbn [o_shards]. destruct (aremove pair_eqb k (o_shards o)) eqn:Hs; cbn [idx].
      * apply alookup_aremove_eq.
      * rewrite alookup_areplace_eq, Hl. reflexivity.
  - assert (Hn : sk' <> sk) by (apply pair_eqb_neq; exact E).
    destruct (alookup pair_eqb sk (idx st)) as [o|]; [|reflexivity].
    destruct p; cbn [idx].
    + apply alookup_areplace_neq; exact Hn.
    + destruct (o_shards _); cbn [idx]; [apply alookup_aremove_neq | apply alookup_areplace_neq]; exact Hn.
Qed.

Lemma aremove_idem {V} k (l : list ((N * N) * V)) : aremove pair_eqb k (aremove pair_eqb k l) = aremove pair_eqb k l.
Proof.
  unfold aremove. induction l as [|[k' v] l IH]; [reflexivity|].
  cbn [filter fst]. destruct (pair_eqb k k') eqn:E; cbn [negb]; [exact IH|].
  cbn [filter fst]. rewrite E. cbn [negb]. rewrite IH. reflexivity.
Qed.

Lemma del_entry_idem k v : del_entry k false (del_entry k false v) = del_entry k false v.
Proof.
  destruct v as [o|]; [|reflexivity]. cbn [del_entry o_shards].
  destruct (aremove pair_eqb k (o_shards o)) eqn:E; [reflexivity|].
  cbn [del_entry o_shards o_id o_sa]. rewrite <- E, aremove_idem, E. reflexivity.
Qed.

Lemma ent_sweep k skip keys : forall st sk,
  ent (sweep k skip keys st) sk =
  if existsb (fun x => pair_eqb sk x && negb (skip x)) keys then del_entry k false (ent st sk) else ent st sk.
Proof.
  induction keys as [|a keys IH]; intros st sk; [reflexivity|].
  unfold sweep in *. cbn [fold_left existsb]. rewrite IH.
  destruct (skip a) eqn:Ea; cbn [negb]; [rewrite andb_false_r; reflexivity|].
  rewrite andb_true_r, ent_delete_inner.
  destruct (pair_eqb sk a) eqn:E; cbn [orb]; [|reflexivity].
  destruct (existsb (fun x => pair_eqb sk x && negb (skip x)) keys); [apply del_entry_idem | reflexivity].
Qed.

Lemma ent_notin st sk : existsb (pair_eqb sk) (map fst (idx st)) = false -> ent st sk = None.
Proof. apply alookup_notin. Qed.

Lemma ent_delete_shard k st sk : ent (delete_shard k st) sk = del_entry k false (ent st sk).
Proof.
  rewrite delete_shard_sweep, ent_sweep.
  destruct (existsb (fun x => pair_eqb sk x && negb false) (map fst (idx st))) eqn:E; [reflexivity|].
  rewrite ent_notin; [reflexivity|]. rewrite <- E. clear E.
  induction (map fst (idx st)) as [|a l IH]; [reflexivity|]. cbn [existsb negb]. rewrite andb_true_r, IH. reflexivity.
Qed.

Lemma ent_prune_shard k keep st sk :
  ent (prune_shard k keep st) sk = if svckey_in sk keep then ent st sk else del_entry k false (ent st sk).
Proof.
  rewrite prune_shard_sweep, ent_sweep.
  assert (Hx : existsb (fun x => pair_eqb sk x && negb (svckey_in x keep)) (map fst (idx st)) =
               existsb (pair_eqb sk) (map fst (idx st)) && negb (svckey_in sk keep)).
  { induction (map fst (idx st)) as [|a l IH]; [reflexivity|]. cbn [existsb]. rewrite IH.
    destruct (pair_eqb sk a) eqn:E; cbn [andb orb]; [|reflexivity].
    rewrite (svckey_in_ext sk a keep E). destruct (svckey_in sk keep); cbn [negb]; [|reflexivity].
    rewrite andb_false_r. reflexivity. }
  rewrite Hx. destruct (svckey_in sk keep); cbn [negb]; [rewrite andb_false_r; reflexivity|].
  rewrite andb_true_r. destruct (existsb (pair_eqb sk) (map fst (idx st))) eqn:E; [reflexivity|].
  rewrite (ent_notin st sk E). reflexivity.
Qed.

(* the services an unlinking call may unlink *)
Definition touches (o : op) (sk : svckey) : bool :=
  match o with
  | DelSvc _ svc ns false => pair_eqb sk (svc, ns)
  | DelShard _ => true
  | Prune _ keep => negb (svckey_in sk keep)
  | _ => false
  end.

(* every call with a single critical section acts entry by entry *)
Definition entry_tr (o : op) (sk : svckey) (v : option obj) : option obj :=
  match o with
  | Update k svc ns _ => if pair_eqb sk (svc, ns) then del_entry k true v else v      (* used for eps = [] only *)
  | DelSvc k svc ns p => if pair_eqb sk (svc, ns) then del_entry k p v else v
  | DelShard k => del_entry k false v
  | Prune k keep => if svckey_in sk keep then v else del_entry k false v
  end.

Definition atomic_op (o : op) : bool := match o with Update _ _ _ (_ :: _) => false | _ => true end.

Lemma ent_run_atomic st o sk : atomic_op o = true -> ent (fst (run_op st o)) sk = entry_tr o sk (ent st sk).
Proof.
  destruct o as [k svc ns [|e es] | k svc ns p | k | k keep]; cbn [atomic_op]; intros H; try discriminate;
    unfold run_op; cbn [step fst entry_tr].
  - apply ent_delete_inner.
  - apply ent_delete_inner.
  - apply ent_delete_shard.
  - apply ent_prune_shard.
Qed.

(* del_entry with preserveKeys, or on a service the call does not touch, never unlinks *)
Lemma entry_tr_keeps o sk ob : touches o sk = false -> atomic_op o = true ->
  exists ob', entry_tr o sk (Some ob) = Some ob' /\ o_id ob' = o_id ob /\
              (o_shards ob = [] -> o_shards ob' = []) /\ o_sa ob' = o_sa ob.
Proof.
  assert (Hp : forall k, exists ob', del_entry k true (Some ob) = Some ob' /\ o_id ob' = o_id ob /\
                                     (o_shards ob = [] -> o_shards ob' = []) /\ o_sa ob' = o_sa ob).
  { intros k. eexists. split; [reflexivity|]. cbn [o_id o_shards o_sa]. repeat split. intros ->. reflexivity. }
  assert (Hid : exists ob', Some ob = Some ob' /\ o_id ob' = o_id ob /\
                            (o_shards ob = [] -> o_shards ob' = []) /\ o_sa ob' = o_sa ob)
    by (exists ob; repeat split; auto).
  destruct o as [k svc ns [|e es] | k svc ns p | k | k keep]; cbn [touches atomic_op entry_tr]; intros Ht Ha; try discriminate.
  - destruct (pair_eqb sk (svc, ns)); [apply Hp | exact Hid].
  - destruct p; [destruct (pair_eqb sk (svc, ns)); [apply Hp | exact Hid]|]. rewrite Ht. exact Hid.
  - apply negb_false_iff in Ht. rewrite Ht. exact Hid.
Qed.

Lemma entry_tr_none o sk : entry_tr o sk None = None.
Proof.
  destruct o as [k svc ns eps | k svc ns p | k | k keep]; cbn [entry_tr del_entry];
    try destruct (pair_eqb sk (svc, ns)); try destruct (svckey_in sk keep); reflexivity.
Qed.

(* entries with the same content are transformed alike *)
Lemma entry_tr_same o sk a b :
  o_shards a = o_shards b -> o_sa a = o_sa b ->
  match entry_tr o sk (Some a), entry_tr o sk (Some b) with
  | Some a', Some b' => o_shards a' = o_shards b' /\ o_sa a' = o_sa b' /\ o_id a' = o_id a
  | None, None => True
  | _, _ => False
  end.
Proof.
  intros Hs Ha.
  assert (Hd : forall k p, match del_entry k p (Some a), del_entry k p (Some b) with
                           | Some a', Some b' => o_shards a' = o_shards b' /\ o_sa a' = o_sa b' /\ o_id a' = o_id a
                           | None, None => True
                           | _, _ => False
                           end).
  { intros k p. cbn [del_entry o_shards]. rewrite <- Hs.
    destruct p; [cbn [o_shards o_sa o_id]; auto|].
    destruct (aremove pair_eqb k (o_shards a)); cbn [o_shards o_sa o_id]; auto. }
  assert (Hi : o_shards a = o_shards b /\ o_sa a = o_sa b /\ o_id a = o_id a) by auto.
  destruct o as [k svc ns eps | k svc ns p | k | k keep]; cbn [entry_tr];
    try destruct (pair_eqb sk (svc, ns)); try destruct (svckey_in sk keep); first [apply Hd | exact Hi].
Qed.

(* ------------------------------------------------------------------ the write section *)
Lemma ns_eqb_eq a b : ns_eqb a b = true -> a = b.
Proof.
  unfold ns_eqb. revert b. induction a as [|x a IH]; intros [|y b]; cbn [list_eqb']; try discriminate; [reflexivity|].
  intros H. apply andb_true_iff in H. destruct H as [H1 H2]. apply N.eqb_eq in H1. subst. f_equal. apply IH. exact H2.
Qed.

Lemma write_obj_sa k eps c o : o_sa (fst (write_obj k eps c o)) = sa_of (aset pair_eqb k eps (o_shards o)).
Proof. unfold write_obj. destruct (ns_eqb _ _) eqn:E; cbn [fst o_sa]; [apply ns_eqb_eq; exact E | reflexivity]. Qed.

Definition shards_of (v : option obj) : list (skey * list ep) := match v with Some o => o_shards o | None => [] end.

(* a complete non-empty update, entry by entry *)
Lemma ent_run_update st k svc ns e es :
  exists o2, ent (fst (run_op st (Update k svc ns (e :: es)))) (svc, ns) = Some o2 /\
             o_shards o2 = aset pair_eqb k (e :: es) (shards_of (ent st (svc, ns))) /\
             o_sa o2 = sa_of (o_shards o2) /\
             forall sk, sk <> (svc, ns) -> ent (fst (run_op st (Update k svc ns (e :: es)))) sk = ent st sk.
Proof.
  destruct (run_update_nonempty st k svc ns e es) as (o & o' & pt & created & Hs & [(Hl & _ & Hr) | (Hl & _ & Ho & Hr)] & Hw);
    rewrite Hr; cbn [fst]; unfold ent; cbn [idx]; exists o'.
  - rewrite alookup_areplace_eq, Hl. cbn [shards_of]. split; [reflexivity|]. split; [exact Hs|]. split.
    + rewrite Hs. assert (o' = fst (write_obj k (e :: es) created o)) as -> by (rewrite <- Hw; reflexivity). apply write_obj_sa.
    + intros sk Hn. apply alookup_areplace_neq. exact Hn.
  - rewrite alookup_areplace_eq. cbn [alookup]. rewrite pair_eqb_refl, Hl. cbn [shards_of]. rewrite <- Ho.
    split; [reflexivity|]. split; [exact Hs|]. split.
    + rewrite Hs. assert (o' = fst (write_obj k (e :: es) created o)) as -> by (rewrite <- Hw; reflexivity). apply write_obj_sa.
    + intros sk Hn. rewrite alookup_areplace_neq by exact Hn. cbn [alookup].
      assert (pair_eqb sk (svc, ns) = false) as -> by (apply pair_eqb_neq; exact Hn). reflexivity.
Qed.

(* ------------------------------------------------------------------ threads *)
Definition holding_on (sk : svckey) (t : thread) : bool :=
  match t with Holding _ sk' _ _ _ => pair_eqb sk sk' | _ => false end.

Definition op_of (t : thread) : list op :=
  match t with
  | Start o => [o]
  | AfterMiss k sk eps => [Update k (fst sk) (snd sk) eps]
  | Holding k sk eps _ _ => [Update k (fst sk) (snd sk) eps]
  | Done _ => []
  end.
Definition pending (ts : list thread) : list op := flat_map op_of ts.

(* the excluded overlap: an unlinking section runs while another call holds the EndpointShards of a
   service it touches (the call is between GetOrCreateEndpointShard and its write) *)
Definition step_ok (ts : list thread) (t : thread) : Prop :=
  match t with
  | Start o => forall sk t', touches o sk = true -> In t' ts -> holding_on sk t' = false
  | _ => True
  end.
Fixpoint sched_ok (st : istate) (ts : list thread) (sched : list nat) : Prop :=
  match sched with
  | [] => True
  | i :: sched => step_ok ts (nth i ts (Done None)) /\
                  sched_ok (fst (step_nth st ts i)) (snd (step_nth st ts i)) sched
  end.

(* conc = the interleaved state, s = the state of the sequential run of the calls that completed *)
Definition orel (ts : list thread) (sk : svckey) (a b : option obj) : Prop :=
  match a, b with
  | None, None => True
  | Some o, Some o' => o_shards o = o_shards o' /\ o_sa o = o_sa o'
  | Some o, None => o_shards o = [] /\ o_sa o = [] /\ exists t, In t ts /\ holding_on sk t = true
  | None, Some _ => False
  end.

Record Inv (c : istate) (ts : list thread) (s : istate) : Prop := {
  inv_rel : forall sk, orel ts sk (ent c sk) (ent s sk);
  inv_hold : forall k sk eps id cr, In (Holding k sk eps id cr) ts -> exists o, ent c sk = Some o /\ o_id o = id;
  inv_ne : forall t, In t ts -> match t with AfterMiss _ _ eps | Holding _ _ eps _ _ => eps <> [] | _ => True end
}.

Lemma in_mid {A} (x t : A) l1 l2 : In x (l1 ++ t :: l2) <-> x = t \/ In x (l1 ++ l2).
Proof. rewrite !in_app_iff. cbn [In]. split; intros H; intuition auto. Qed.

Lemma orel_transfer ts ts' sk a b :
  (forall x, In x ts -> holding_on sk x = true -> exists y, In y ts' /\ holding_on sk y = true) ->
  orel ts sk a b -> orel ts' sk a b.
Proof.
  intros H. destruct a as [o|], b as [o'|]; cbn [orel]; auto.
  intros (H1 & H2 & x & Hx & Hh). repeat split; auto. exact (H x Hx Hh).
Qed.

(* replacing a thread that holds nothing on sk (or by one that holds sk) keeps the witnesses for sk *)
Lemma wit_keep l1 t t' l2 sk :
  holding_on sk t = false \/ holding_on sk t' = true ->
  forall x, In x (l1 ++ t :: l2) -> holding_on sk x = true -> exists y, In y (l1 ++ t' :: l2) /\ holding_on sk y = true.
Proof.
  intros H x Hx Hh. apply in_mid in Hx. destruct Hx as [->|Hx].
  - destruct H as [H|H]; [congruence|]. exists t'. split; [apply in_mid; auto | exact H].
  - exists x. split; [apply in_mid; auto | exact Hh].
Qed.

Lemma step_nth_split : forall ts st i st' ts',
  step_nth st ts i = (st', ts') ->
  (st' = st /\ ts' = ts /\ nth i ts (Done None) = Done None) \/
  exists l1 t l2 t', ts = l1 ++ t :: l2 /\ ts' = l1 ++ t' :: l2 /\ step st t = (st', t') /\ nth i ts (Done None) = t.
Proof.
  induction ts as [|t ts IH]; intros st i st' ts' H.
  - cbn [step_nth] in H. inversion H. left. destruct i; auto.
  - destruct i as [|i]; cbn [step_nth] in H.
    + destruct (step st t) as [s1 t1] eqn:E. inversion H. subst. right. exists [], t, ts, t1. auto.
    + destruct (step_nth st ts i) as [s1 ts1] eqn:E. inversion H. subst.
      destruct (IH st i st' ts1 E) as [(-> & -> & Hn) | (l1 & t0 & l2 & t1 & -> & -> & Hs & Hn)].
      * left. auto.
      * right. exists (t :: l1), t0, l2, t1. auto.
Qed.

Lemma pending_mid l1 t l2 : pending (l1 ++ t :: l2) = pending l1 ++ op_of t ++ pending l2.
Proof. unfold pending. rewrite flat_map_app. reflexivity. Qed.

(* ------------------------------------------------------------------ one step of one thread *)
Lemma step_atomic c o : atomic_op o = true -> exists r, step c (Start o) = (fst (run_op c o), Done r).
Proof.
  destruct o as [k svc ns [|e es] | k svc ns p | k | k keep]; cbn [atomic_op]; intros H; try discriminate;
    eexists; unfold run_op; cbn [step fst]; reflexivity.
Qed.

Lemma inv_ne_replace c s l1 t t' l2 :
  Inv c (l1 ++ t :: l2) s ->
  match t' with AfterMiss _ _ eps | Holding _ _ eps _ _ => eps <> [] | _ => True end ->
  forall x, In x (l1 ++ t' :: l2) -> match x with AfterMiss _ _ eps | Holding _ _ eps _ _ => eps <> [] | _ => True end.
Proof.
  intros HI Ht x Hx. apply in_mid in Hx. destruct Hx as [->|Hx]; [exact Ht|].
  apply (inv_ne _ _ _ HI). apply in_mid. auto.
Qed.

Lemma sim_step c s l1 t l2 c' t' :
  Inv c (l1 ++ t :: l2) s -> step c t = (c', t') -> step_ok (l1 ++ t :: l2) t ->
  (Inv c' (l1 ++ t' :: l2) s /\ op_of t' = op_of t) \/
  (exists o, op_of t = [o] /\ op_of t' = [] /\ Inv c' (l1 ++ t' :: l2) (fst (run_op s o))).
Proof.
  intros HI Hstep Hok.
  assert (Hin_t : In t (l1 ++ t :: l2)) by (apply in_mid; auto).
  destruct t as [o | k sk eps | k sk eps id cr | r].
  - (* Start *)
    destruct (atomic_op o) eqn:Hat.
    + (* a call with one critical section: it completes, the sequential run performs it too *)
      destruct (step_atomic c o Hat) as [r Hr]. rewrite Hr in Hstep. inversion Hstep. subst c' t'. clear Hstep.
      right. exists o. split; [reflexivity|]. split; [reflexivity|].
      cbn [step_ok] in Hok.
      constructor.
      * intros sk. rewrite !ent_run_atomic by exact Hat.
        pose proof (inv_rel _ _ _ HI sk) as Hrel.
        destruct (ent c sk) as [a|] eqn:Ea, (ent s sk) as [b|] eqn:Eb; cbn [orel] in Hrel.
        -- destruct Hrel as [H1 H2]. pose proof (entry_tr_same o sk a b H1 H2) as H.
           destruct (entry_tr o sk (Some a)), (entry_tr o sk (Some b)); cbn [orel]; try contradiction; [tauto | exact I].
        -- destruct Hrel as (H1 & H2 & x & Hx & Hh).
           assert (Ht : touches o sk = false).
           { destruct (touches o sk) eqn:Et; [|reflexivity]. rewrite (Hok sk x Et Hx) in Hh. discriminate. }
           destruct (entry_tr_keeps o sk a Ht Hat) as (a' & -> & _ & Hs & Hsa). rewrite entry_tr_none. cbn [orel].
           split; [auto|]. split; [congruence|].
           apply (wit_keep l1 (Start o) (Done r) l2 sk (or_introl eq_refl) x Hx Hh).
        -- contradiction.
        -- rewrite !entry_tr_none. exact I.
      * intros k sk eps id cr Hin. apply in_mid in Hin. destruct Hin as [Hin|Hin]; [discriminate|].
        assert (Hin' : In (Holding k sk eps id cr) (l1 ++ Start o :: l2)) by (apply in_mid; auto).
        destruct (inv_hold _ _ _ HI k sk eps id cr Hin') as (ob & Hob & Hid).
        assert (Ht : touches o sk = false).
        { destruct (touches o sk) eqn:Et; [|reflexivity].
          pose proof (Hok sk _ Et Hin') as Hh. cbn [holding_on] in Hh. rewrite pair_eqb_refl in Hh. discriminate. }
        rewrite ent_run_atomic by exact Hat. rewrite Hob.
        destruct (entry_tr_keeps o sk ob Ht Hat) as (ob' & -> & Hid' & _). exists ob'. split; [reflexivity | congruence].
      * apply (inv_ne_replace c s l1 (Start o) (Done r) l2 HI). exact I.
    + (* the lookup of a non-empty update *)
      destruct o as [k svc ns [|e es] | | |]; try discriminate. cbn [step] in Hstep. left.
      destruct (alookup pair_eqb (svc, ns) (idx c)) as [ob|] eqn:El; inversion Hstep; subst c' t'; clear Hstep;
        (split; [|reflexivity]); constructor.
      * intros sk. apply (orel_transfer (l1 ++ Start (Update k svc ns (e :: es)) :: l2)); [|apply (inv_rel _ _ _ HI)].
        apply wit_keep. left. reflexivity.
      * intros k0 sk eps id cr Hin. apply in_mid in Hin. destruct Hin as [Hin|Hin].
        -- inversion Hin. subst. exists ob. split; [exact El | reflexivity].
        -- apply (inv_hold _ _ _ HI k0 sk eps id cr). apply in_mid. auto.
      * apply (inv_ne_replace c s l1 _ _ l2 HI). discriminate.
      * intros sk. apply (orel_transfer (l1 ++ Start (Update k svc ns (e :: es)) :: l2)); [|apply (inv_rel _ _ _ HI)].
        apply wit_keep. left. reflexivity.
      * intros k0 sk eps id cr Hin. apply in_mid in Hin. destruct Hin as [Hin|Hin]; [discriminate|].
        apply (inv_hold _ _ _ HI k0 sk eps id cr). apply in_mid. auto.
      * apply (inv_ne_replace c s l1 _ _ l2 HI). discriminate.
  - (* AfterMiss: get-or-create under the write lock *)
    cbn [step] in Hstep. left.
    pose proof (inv_ne _ _ _ HI _ Hin_t) as Hne. cbn in Hne.
    destruct (alookup pair_eqb sk (idx c)) as [ob|] eqn:El; inversion Hstep; subst c' t'; clear Hstep;
      (split; [|reflexivity]); constructor.
    + intros sk0. apply (orel_transfer (l1 ++ AfterMiss k sk eps :: l2)); [|apply (inv_rel _ _ _ HI)].
      apply wit_keep. left. reflexivity.
    + intros k0 sk0 eps0 id cr Hin. apply in_mid in Hin. destruct Hin as [Hin|Hin].
      * inversion Hin. subst. exists ob. split; [exact El | reflexivity].
      * apply (inv_hold _ _ _ HI k0 sk0 eps0 id cr). apply in_mid. auto.
    + apply (inv_ne_replace c s l1 _ _ l2 HI). exact Hne.
    + (* created: an empty EndpointShards the sequential run does not have yet *)
      intros sk0. unfold ent at 1. cbn [idx alookup]. fold (ent c sk0).
      pose proof (inv_rel _ _ _ HI sk0) as Hrel.
      destruct (pair_eqb sk0 sk) eqn:E.
      * apply pair_eqb_eq in E. subst sk0. unfold ent in Hrel at 1. rewrite El in Hrel.
        destruct (ent s sk); cbn [orel] in *; [contradiction|].
        split; [reflexivity|]. split; [reflexivity|].
        exists (Holding k sk eps (next c) true). split; [apply in_mid; auto | cbn [holding_on]; apply pair_eqb_refl].
      * apply (orel_transfer (l1 ++ AfterMiss k sk eps :: l2)); [|exact Hrel]. apply wit_keep. left. reflexivity.
    + intros k0 sk0 eps0 id cr Hin. unfold ent. cbn [idx alookup]. apply in_mid in Hin. destruct Hin as [Hin|Hin].
      * inversion Hin. subst. rewrite pair_eqb_refl. eexists. split; [reflexivity | reflexivity].
      * assert (Hin' : In (Holding k0 sk0 eps0 id cr) (l1 ++ AfterMiss k sk eps :: l2)) by (apply in_mid; auto).
        destruct (inv_hold _ _ _ HI k0 sk0 eps0 id cr Hin') as (ob & Hob & Hid).
        destruct (pair_eqb sk0 sk) eqn:E.
        -- apply pair_eqb_eq in E. subst sk0. unfold ent in Hob. rewrite El in Hob. discriminate.
        -- exists ob. split; [exact Hob | exact Hid].
    + apply (inv_ne_replace c s l1 _ _ l2 HI). exact Hne.
  - (* Holding: the write under the shard lock = the linearization point of the update *)
    pose proof (inv_ne _ _ _ HI _ Hin_t) as Hne. cbn in Hne.
    destruct eps as [|e es]; [contradiction|]. destruct sk as [svc ns].
    destruct (inv_hold _ _ _ HI k (svc, ns) (e :: es) id cr Hin_t) as (ob & Hob & Hid).
    cbn [step] in Hstep. unfold ent in Hob. rewrite Hob in Hstep. rewrite Hid, N.eqb_refl in Hstep.
    destruct (write_obj k (e :: es) cr ob) as [o1 pt] eqn:Hw. inversion Hstep. subst c' t'. clear Hstep.
    assert (Ho1 : o1 = fst (write_obj k (e :: es) cr ob)) by (rewrite Hw; reflexivity).
    right. exists (Update k svc ns (e :: es)). split; [reflexivity|]. split; [reflexivity|].
    destruct (ent_run_update s k svc ns e es) as (o2 & Ho2 & Hs2 & Hsa2 & Hoth).
    assert (Hc' : forall sk0, ent {| idx := areplace pair_eqb (svc, ns) o1 (idx c); orphans := orphans c; next := next c |} sk0 =
                              if pair_eqb sk0 (svc, ns) then Some o1 else ent c sk0).
    { intros sk0. unfold ent. cbn [idx]. destruct (pair_eqb sk0 (svc, ns)) eqn:E.
      - apply pair_eqb_eq in E. subst sk0. rewrite alookup_areplace_eq, Hob. reflexivity.
      - apply alookup_areplace_neq. apply pair_eqb_neq. exact E. }
    constructor.
    + intros sk0. rewrite Hc'. destruct (pair_eqb sk0 (svc, ns)) eqn:E.
      * apply pair_eqb_eq in E. subst sk0. rewrite Ho2. cbn [orel].
        pose proof (inv_rel _ _ _ HI (svc, ns)) as Hrel. unfold ent in Hrel at 1. rewrite Hob in Hrel.
        assert (Hsh : o_shards ob = shards_of (ent s (svc, ns))).
        { destruct (ent s (svc, ns)); cbn [orel shards_of] in *; tauto. }
        assert (Hs1 : o_shards o1 = o_shards o2).
        { rewrite Hs2, <- Hsh, Ho1. apply write_obj_shards. }
        split; [exact Hs1|]. rewrite Hsa2, <- Hs1, Ho1, write_obj_sa, write_obj_shards. reflexivity.
      * rewrite Hoth by (apply pair_eqb_neq; exact E).
        apply (orel_transfer (l1 ++ Holding k (svc, ns) (e :: es) id cr :: l2)); [|apply (inv_rel _ _ _ HI)].
        apply wit_keep. left. cbn [holding_on]. exact E.
    + intros k0 sk0 eps0 id0 cr0 Hin. apply in_mid in Hin. destruct Hin as [Hin|Hin]; [discriminate|].
      assert (Hin' : In (Holding k0 sk0 eps0 id0 cr0) (l1 ++ Holding k (svc, ns) (e :: es) id cr :: l2)) by (apply in_mid; auto).
      destruct (inv_hold _ _ _ HI k0 sk0 eps0 id0 cr0 Hin') as (ob0 & Hob0 & Hid0).
      rewrite Hc'. destruct (pair_eqb sk0 (svc, ns)) eqn:E.
      * apply pair_eqb_eq in E. subst sk0. unfold ent in Hob0. rewrite Hob in Hob0. inversion Hob0. subst ob0.
        exists o1. split; [reflexivity|]. rewrite Ho1, write_obj_id. exact Hid0.
      * exists ob0. split; [exact Hob0 | exact Hid0].
    + apply (inv_ne_replace c s l1 _ _ l2 HI). exact I.
  - (* Done: nothing happens *)
    cbn [step] in Hstep. inversion Hstep. subst. left. split; [exact HI | reflexivity].
Qed.

(* ------------------------------------------------------------------ whole schedules *)
Lemma run_ops_cons s o lin : run_ops s (o :: lin) = run_ops (fst (run_op s o)) lin.
Proof. reflexivity. Qed.

Lemma sim_run sched : forall c ts s, Inv c ts s -> sched_ok c ts sched ->
  forall c' ts', run_sched c ts sched = (c', ts') ->
  exists lin, Inv c' ts' (run_ops s lin) /\ Permutation (lin ++ pending ts') (pending ts).
Proof.
  induction sched as [|i sched IH]; intros c ts s HI Hok c' ts' Hrun.
  - cbn [run_sched] in Hrun. inversion Hrun. subst. exists []. split; [exact HI | apply Permutation_refl].
  - cbn [run_sched] in Hrun. cbn [sched_ok] in Hok. destruct Hok as [Hok1 Hok2].
    destruct (step_nth c ts i) as [c1 ts1] eqn:E. cbn [fst snd] in Hok2.
    destruct (step_nth_split ts c i c1 ts1 E) as [(-> & -> & _) | (l1 & t & l2 & t1 & -> & -> & Hs & Hn)].
    + exact (IH c ts s HI Hok2 c' ts' Hrun).
    + rewrite Hn in Hok1.
      destruct (sim_step c s l1 t l2 c1 t1 HI Hs Hok1) as [[HI1 Hop] | (o & Ho & Ho1 & HI1)].
      * destruct (IH c1 _ s HI1 Hok2 c' ts' Hrun) as (lin & HI' & Hp). exists lin. split; [exact HI'|].
        rewrite (pending_mid l1 t l2), <- Hop, <- pending_mid. exact Hp.
      * destruct (IH c1 _ _ HI1 Hok2 c' ts' Hrun) as (lin & HI' & Hp). exists (o :: lin). split.
        -- rewrite run_ops_cons. exact HI'.
        -- rewrite (pending_mid l1 t l2), Ho. rewrite (pending_mid l1 t1 l2), Ho1 in Hp. cbn [app] in *.
           apply Permutation_trans with (o :: pending l1 ++ pending l2).
           ++ apply perm_skip. exact Hp.
           ++ apply Permutation_middle.
Qed.

(* equal observable content: the same services are linked, with the same shards and account sets *)
Definition same_content (a b : istate) : Prop :=
  forall sk, match ent a sk, ent b sk with
             | Some o, Some o' => o_shards o = o_shards o' /\ o_sa o = o_sa o'
             | None, None => True
             | _, _ => False
             end.

Lemma same_content_cell a b : same_content a b -> forall sk k, cell a sk k = cell b sk k.
Proof.
  intros H sk k. specialize (H sk). unfold cell, ent in *.
  destruct (alookup pair_eqb sk (idx a)), (alookup pair_eqb sk (idx b)); try contradiction; [|reflexivity].
  destruct H as [-> _]. reflexivity.
Qed.
Lemma same_content_linked a b : same_content a b -> forall sk, linked a sk = linked b sk.
Proof.
  intros H sk. specialize (H sk). unfold linked, ent in *.
  destruct (alookup pair_eqb sk (idx a)), (alookup pair_eqb sk (idx b)); try contradiction; reflexivity.
Qed.

Lemma pending_start calls : pending (map Start calls) = calls.
Proof. induction calls as [|o l IH]; [reflexivity|]. cbn. unfold pending in IH. rewrite IH. reflexivity. Qed.

Lemma pending_done ts : all_done ts = true -> pending ts = [].
Proof.
  induction ts as [|t ts IH]; [reflexivity|]. unfold all_done. cbn [forallb]. intros H. apply andb_true_iff in H.
  destruct H as [H1 H2]. unfold pending. cbn [flat_map]. destruct t; try discriminate. cbn [op_of app]. apply IH. exact H2.
Qed.

Lemma inv_init st0 calls : Inv st0 (map Start calls) st0.
Proof.
  constructor.
  - intros sk. destruct (ent st0 sk); cbn [orel]; auto.
  - intros k sk eps id cr Hin. apply in_map_iff in Hin. destruct Hin as (x & Hx & _). discriminate.
  - intros t Hin. apply in_map_iff in Hin. destruct Hin as (x & <- & _). exact I.
Qed.

(* ANY number of calls, ANY schedule: if no unlinking critical section runs while another call holds
   the EndpointShards of a service it touches, the final content is that of the sequential run of the
   calls in the order of their last critical sections *)
Theorem linearizable_unbounded st0 calls sched st' ts' :
  run_sched st0 (map Start calls) sched = (st', ts') -> all_done ts' = true ->
  sched_ok st0 (map Start calls) sched ->
  exists p, Permutation p calls /\ same_content st' (run_ops st0 p).
Proof.
  intros Hrun Hdone Hok.
  destruct (sim_run sched st0 (map Start calls) st0 (inv_init st0 calls) Hok st' ts' Hrun) as (lin & HI & Hp).
  rewrite (pending_done ts' Hdone), app_nil_r, pending_start in Hp.
  exists lin. split; [exact Hp|].
  intros sk. pose proof (inv_rel _ _ _ HI sk) as H.
  destruct (ent st' sk), (ent (run_ops st0 lin) sk); cbn [orel] in H; auto.
  destruct H as (_ & _ & t & Hin & Hh).
  unfold all_done in Hdone. rewrite forallb_forall in Hdone. specialize (Hdone t Hin). destruct t; discriminate.
Qed.

(* ------------------------------------------------------------------ static sufficient conditions *)
(* no call of the batch can unlink a service for which the batch contains a non-empty update *)
Definition static_ok (calls : list op) : Prop :=
  forall d k svc ns eps, In d calls -> In (Update k svc ns eps) calls -> eps <> [] -> touches d (svc, ns) = false.

Definition from_calls (calls : list op) (t : thread) : Prop :=
  match t with
  | Start o => In o calls
  | AfterMiss k sk eps | Holding k sk eps _ _ => In (Update k (fst sk) (snd sk) eps) calls /\ eps <> []
  | Done _ => True
  end.

Lemma step_from calls c t c' t' : from_calls calls t -> step c t = (c', t') -> from_calls calls t'.
Proof.
  intros Hf Hs. destruct t as [o | k sk eps | k sk eps id cr | r]; cbn [step] in Hs.
  - destruct o as [k svc ns [|e es] | k svc ns p | k | k keep]; try (inversion Hs; exact I).
    destruct (alookup pair_eqb (svc, ns) (idx c)); inversion Hs; cbn [from_calls fst snd]; (split; [exact Hf | discriminate]).
  - destruct (alookup pair_eqb sk (idx c)); inversion Hs; exact Hf.
  - destruct (alookup pair_eqb sk (idx c)) as [o|].
    + destruct (o_id o =? id).
      * destruct (write_obj k eps cr o). inversion Hs. exact I.
      * destruct (write_orphan id k eps cr (orphans c)). inversion Hs. exact I.
    + destruct (write_orphan id k eps cr (orphans c)). inversion Hs. exact I.
  - inversion Hs. exact I.
Qed.

Lemma step_nth_from calls : forall ts c i c' ts',
  Forall (from_calls calls) ts -> step_nth c ts i = (c', ts') -> Forall (from_calls calls) ts'.
Proof.
  intros ts c i c' ts' HF E.
  destruct (step_nth_split ts c i c' ts' E) as [(_ & -> & _) | (l1 & t & l2 & t1 & -> & -> & Hs & _)]; [exact HF|].
  rewrite Forall_forall in *. intros x Hx. apply in_mid in Hx. destruct Hx as [->|Hx].
  - apply (step_from calls c t c' t1); [apply HF; apply in_mid; auto | exact Hs].
  - apply HF. apply in_mid. auto.
Qed.

Lemma sched_ok_static calls : static_ok calls -> forall sched c ts,
  Forall (from_calls calls) ts -> sched_ok c ts sched.
Proof.
  intros Hst. induction sched as [|i sched IH]; intros c ts HF; [exact I|].
  cbn [sched_ok]. split.
  - assert (Hn : from_calls calls (nth i ts (Done None))).
    { destruct (nth_in_or_default i ts (Done None)) as [Hin| ->]; [|exact I].
      rewrite Forall_forall in HF. apply HF. exact Hin. }
    destruct (nth i ts (Done None)) as [o | | |]; cbn [step_ok]; auto.
    intros sk t' Ht Hin. rewrite Forall_forall in HF. specialize (HF t' Hin).
    destruct t' as [| | k sk' eps id cr |]; cbn [holding_on]; try reflexivity.
    destruct (pair_eqb sk sk') eqn:E; [|reflexivity]. apply pair_eqb_eq in E. subst sk'.
    destruct HF as [HF1 HF2]. cbn [from_calls] in Hn.
    pose proof (Hst o k (fst sk) (snd sk) eps Hn HF1 HF2) as H. rewrite <- surjective_pairing in H. congruence.
  - destruct (step_nth c ts i) as [c1 ts1] eqn:E. cbn [fst snd]. apply IH.
    exact (step_nth_from calls ts c i c1 ts1 HF E).
Qed.

Theorem linearizable_static st0 calls sched st' ts' :
  static_ok calls ->
  run_sched st0 (map Start calls) sched = (st', ts') -> all_done ts' = true ->
  exists p, Permutation p calls /\ same_content st' (run_ops st0 p).
Proof.
  intros Hst Hrun Hdone. apply (linearizable_unbounded st0 calls sched st' ts' Hrun Hdone).
  apply (sched_ok_static calls Hst). rewrite Forall_forall. intros t Hin.
  apply in_map_iff in Hin. destruct Hin as (o & <- & Ho). exact Ho.
Qed.

Lemma touches_unlinking d sk : touches d sk = true -> unlinking d = true.
Proof. destruct d as [| k svc ns [|] | |]; cbn; auto; discriminate. Qed.

(* in particular: any number of updates (empty or not) and key-preserving deletes, any schedule *)
Theorem linearizable_no_unlinking st0 calls sched st' ts' :
  (forall o, In o calls -> unlinking o = false) ->
  run_sched st0 (map Start calls) sched = (st', ts') -> all_done ts' = true ->
  exists p, Permutation p calls /\ same_content st' (run_ops st0 p).
Proof.
  intros H. apply linearizable_static. intros d k svc ns eps Hd _ _.
  destruct (touches d (svc, ns)) eqn:E; [|reflexivity]. apply touches_unlinking in E. rewrite (H d Hd) in E. discriminate.
Qed.


(* the K1 schedule is an instance of the excluded overlap: DeleteServiceShard(A, preserveKeys=false)
   runs while the update of B holds the service's EndpointShards *)
Lemma k1_is_the_excluded_overlap :
  ~ sched_ok (run_ops init k1_prefix) (map Start k1_calls) k1_sched.
Proof.
  intros H. cbn [sched_ok k1_sched] in H. destruct H as (_ & H & _).
  remember (run_ops init k1_prefix) as st0.
  vm_compute in Heqst0. subst st0. cbn in H.
  specialize (H (1%N, 1%N) _ eq_refl (or_introl eq_refl)). discriminate.
Qed.
