(* C18 proofs, part 1: rotateTime arithmetic (exact Q model and float-faithful model). *)
From Coq Require Import List NArith ZArith QArith Qround Bool Lia.
From V Require Import C18.Model.
Import ListNotations.
Open Scope Z_scope.

Lemma Qle_bool_false x y : Qle_bool x y = false -> (y < x)%Q.
Proof.
  intros H. apply Qnot_le_lt. intros Hle. apply Qle_bool_iff in Hle. congruence.
Qed.

Lemma clamp01_range q : (0 <= clamp01 q)%Q /\ (clamp01 q <= 1)%Q.
Proof.
  unfold clamp01.
  destruct (Qle_bool q 1) eqn:H1; cbn [negb].
  - destruct (Qle_bool 0 q) eqn:H0; cbn [negb].
    + apply Qle_bool_iff in H1, H0. split; assumption.
    + split; [apply Qle_refl | discriminate].
  - split; [discriminate | apply Qle_refl].
Qed.

Lemma clamp01_lower q m : (m <= 1)%Q -> (0 <= m)%Q -> (m <= q)%Q -> (m <= clamp01 q)%Q.
Proof.
  intros Hm1 Hm0 Hq. unfold clamp01.
  destruct (Qle_bool q 1) eqn:H1; cbn [negb]; [|assumption].
  destruct (Qle_bool 0 q) eqn:H0; cbn [negb]; [assumption|].
  apply Qle_bool_false in H0. exfalso.
  apply (Qlt_irrefl 0). apply Qle_lt_trans with q; [|assumption].
  apply Qle_trans with m; assumption.
Qed.

(* truncation of a product c*L with 0 <= c <= 1 stays between 0 and L *)
Lemma Qtrunc_scale_pos c L : (0 <= c)%Q -> (c <= 1)%Q -> 0 <= L ->
  0 <= Qtrunc (c * inject_Z L) <= L.
Proof.
  intros Hc0 Hc1 HL.
  assert (H0 : (0 <= c * inject_Z L)%Q).
  { apply Qmult_le_0_compat; [assumption|]. change 0%Q with (inject_Z 0). rewrite <- Zle_Qle. assumption. }
  assert (H1 : (c * inject_Z L <= inject_Z L)%Q).
  { setoid_replace (inject_Z L) with (1 * inject_Z L)%Q at 2 by ring.
    apply Qmult_le_compat_r; [assumption|]. change 0%Q with (inject_Z 0). rewrite <- Zle_Qle. assumption. }
  unfold Qtrunc. assert (Hb : Qle_bool 0 (c * inject_Z L) = true) by (apply Qle_bool_iff; assumption).
  rewrite Hb. split.
  - change 0 with (Qfloor (inject_Z 0)) at 1. rewrite Qfloor_Z. 
    rewrite <- (Qfloor_Z 0). apply Qfloor_resp_le. assumption.
  - rewrite <- (Qfloor_Z L) at 2. apply Qfloor_resp_le. assumption.
Qed.

Lemma Qtrunc_scale_neg c L : (0 <= c)%Q -> (c <= 1)%Q -> L <= 0 ->
  L <= Qtrunc (c * inject_Z L) <= 0.
Proof.
  intros Hc0 Hc1 HL.
  assert (HLq : (inject_Z L <= 0)%Q) by (change 0%Q with (inject_Z 0); rewrite <- Zle_Qle; assumption).
  assert (H0 : (c * inject_Z L <= 0)%Q).
  { setoid_replace 0%Q with (c * 0)%Q by ring. rewrite !(Qmult_comm c).
    apply Qmult_le_compat_r; assumption. }
  assert (H1 : (inject_Z L <= c * inject_Z L)%Q).
  { apply Qopp_le_compat in HLq. 
    assert (Hx : (c * - inject_Z L <= 1 * - inject_Z L)%Q).
    { apply Qmult_le_compat_r; [assumption|]. setoid_replace 0%Q with (- 0)%Q by ring. assumption. }
    apply Qopp_le_compat in Hx.
    setoid_replace (- (1 * - inject_Z L))%Q with (inject_Z L) in Hx by ring.
    setoid_replace (- (c * - inject_Z L))%Q with (c * inject_Z L)%Q in Hx by ring. assumption. }
  unfold Qtrunc. destruct (Qle_bool 0 (c * inject_Z L)) eqn:Hb.
  - apply Qle_bool_iff in Hb.
    assert (He : (c * inject_Z L == inject_Z 0)%Q) by (apply Qle_antisym; assumption).
    rewrite (Qfloor_comp _ _ He), Qfloor_Z. lia.
  - split.
    + rewrite <- (Qceiling_Z L) at 1. apply Qceiling_resp_le. assumption.
    + rewrite <- (Qceiling_Z 0). apply Qceiling_resp_le. assumption.
Qed.

Lemma grace_q_pos jgr life : 0 <= life -> 0 <= grace_q jgr life <= life.
Proof.
  intros. unfold grace_q. destruct (clamp01_range jgr). apply Qtrunc_scale_pos; assumption.
Qed.
Lemma grace_q_neg jgr life : life <= 0 -> life <= grace_q jgr life <= 0.
Proof.
  intros. unfold grace_q. destruct (clamp01_range jgr). apply Qtrunc_scale_neg; assumption.
Qed.

Lemma delay_q_nonneg created expire now jgr : 0 <= rotate_delay_q created expire now jgr.
Proof. unfold rotate_delay_q. lia. Qed.

Lemma delay_q_upper created expire now jgr :
  created <= now \/ created <= expire ->
  rotate_delay_q created expire now jgr <= Z.max 0 (expire - now).
Proof.
  intros H. unfold rotate_delay_q.
  destruct (Z_le_gt_dec 0 (expire - created)) as [Hl|Hl].
  - pose proof (grace_q_pos jgr (expire - created) Hl). lia.
  - assert (Hl' : expire - created <= 0) by lia.
    pose proof (grace_q_neg jgr (expire - created) Hl'). lia.
Qed.

(* strictness under the truncation precondition *)
Lemma grace_q_ge1 jgr life : (1 <= clamp01 jgr * inject_Z life)%Q -> 1 <= grace_q jgr life.
Proof.
  intros H. unfold grace_q, Qtrunc.
  assert (Hb : Qle_bool 0 (clamp01 jgr * inject_Z life) = true).
  { apply Qle_bool_iff. apply Qle_trans with 1%Q; [discriminate|assumption]. }
  rewrite Hb. rewrite <- (Qfloor_Z 1). apply Qfloor_resp_le. assumption.
Qed.

Lemma delay_q_strict created expire now ratio jitter x :
  (- jitter <= x)%Q -> (x <= jitter)%Q -> (jitter < ratio)%Q ->
  1 <= expire - created ->
  (1 <= (ratio - jitter) * inject_Z (expire - created))%Q ->
  now < expire ->
  rotate_delay_q created expire now (ratio + x) < expire - now.
Proof.
  intros Hx1 Hx2 Hjr Hlife Hpre Hnow.
  set (life := expire - created) in *.
  assert (HL0 : (0 <= inject_Z life)%Q) by (change 0%Q with (inject_Z 0); rewrite <- Zle_Qle; lia).
  assert (HL1 : (1 <= inject_Z life)%Q) by (change 1%Q with (inject_Z 1); rewrite <- Zle_Qle; lia).
  assert (Hd0 : (0 <= ratio - jitter)%Q).
  { apply Qlt_le_weak in Hjr. apply (Qplus_le_l _ _ jitter). ring_simplify. assumption. }
  assert (Hle : (ratio - jitter <= ratio + x)%Q).
  { apply (Qplus_le_l _ _ (jitter - ratio)). ring_simplify.
    setoid_replace (jitter + x)%Q with (x + jitter)%Q by ring.
    apply (Qplus_le_l _ _ (- jitter)). ring_simplify. assumption. }
  assert (Hg : 1 <= grace_q (ratio + x) life).
  { apply grace_q_ge1.
    destruct (Qlt_le_dec 1 (ratio - jitter)) as [Hbig|Hsmall].
    - (* ratio - jitter > 1: clamp gives 1 *)
      assert (Hc : (1 <= clamp01 (ratio + x))%Q).
      { apply clamp01_lower; [apply Qle_refl|discriminate|].
        apply Qle_trans with (ratio - jitter)%Q; [apply Qlt_le_weak; assumption|assumption]. }
      apply Qle_trans with (1 * inject_Z life)%Q; [ring_simplify; assumption|].
      apply Qmult_le_compat_r; assumption.
    - assert (Hc : (ratio - jitter <= clamp01 (ratio + x))%Q) by (apply clamp01_lower; assumption).
      apply Qle_trans with ((ratio - jitter) * inject_Z life)%Q; [assumption|].
      apply Qmult_le_compat_r; assumption. }
  unfold rotate_delay_q. fold life. lia.
Qed.

(* ---------------------------------------------------------------- float-faithful model *)

Lemma round53_nonneg d : 0 <= fst d -> 0 <= fst (round53 d).
Proof.
  destruct d as [m e]. cbn [fst]. intros Hm. unfold round53.
  destruct (Z.log2 (Z.abs m) + 1 - 53 <=? 0); cbn [fst]; [assumption|].
  set (k := Z.log2 (Z.abs m) + 1 - 53).
  assert (Hq : 0 <= Z.abs m / 2 ^ k).
  { destruct (Z_lt_le_dec k 0).
    - rewrite Z.pow_neg_r by assumption. rewrite Zdiv_0_r. lia.
    - apply Z.div_pos; [lia|]. apply Z.pow_pos_nonneg; lia. }
  assert (Hs : 0 <= Z.sgn m) by lia.
  destruct ((2 ^ (k - 1) <? Z.abs m mod 2 ^ k) || ((Z.abs m mod 2 ^ k =? 2 ^ (k - 1)) && Z.odd (Z.abs m / 2 ^ k)));
    apply Z.mul_nonneg_nonneg; lia.
Qed.

Lemma dy_clamp01_nonneg x : 0 <= fst (dy_clamp01 x).
Proof.
  unfold dy_clamp01. destruct (dy_gt1 x); cbn [fst]; [lia|].
  destruct (fst x <? 0) eqn:H; cbn [fst]; lia.
Qed.

Lemma dy_trunc_nonneg x : 0 <= fst x -> 0 <= dy_trunc x.
Proof.
  destruct x as [m e]. cbn [fst]. intros Hm. unfold dy_trunc.
  destruct (0 <=? e) eqn:He.
  - apply Z.mul_nonneg_nonneg; [assumption|]. apply Z.pow_nonneg. lia.
  - apply Z.leb_gt in He. apply Z.quot_pos; [assumption|]. apply Z.pow_pos_nonneg; lia.
Qed.

Lemma grace_fl_nonneg jgr life : 0 <= life -> 0 <= grace_fl jgr life.
Proof.
  intros HL. unfold grace_fl. apply dy_trunc_nonneg. unfold dy_mul. apply round53_nonneg. cbn [fst].
  apply Z.mul_nonneg_nonneg; [apply dy_clamp01_nonneg|].
  apply (round53_nonneg (life, 0)). assumption.
Qed.

Lemma delay_fl_bounds created expire now jgr : created <= expire ->
  0 <= rotate_delay_fl created expire now jgr <= Z.max 0 (expire - now).
Proof.
  intros H. unfold rotate_delay_fl.
  assert (Hg : 0 <= grace_fl jgr (expire - created)) by (apply grace_fl_nonneg; lia). lia.
Qed.

Lemma delay_lo_hi_bounds c created expire now : created <= expire ->
  0 <= delay_lo c created expire now /\ delay_lo c created expire now <= delay_hi c created expire now
  /\ delay_hi c created expire now <= Z.max 0 (expire - now).
Proof.
  intros H. unfold delay_lo, delay_hi, delay_plus, delay_minus.
  pose proof (delay_fl_bounds created expire now (dy_add (c_ratio c) (c_jitter c)) H).
  pose proof (delay_fl_bounds created expire now (dy_add (c_ratio c) (dy_neg (c_jitter c))) H). lia.
Qed.
