(* C18 proofs: see ProofsArith (rotateTime), ProofsMachine (single steps), ProofsInv (invariants over
   all action sequences). *)
From V Require Export C18.ProofsArith C18.ProofsMachine C18.ProofsInv.
