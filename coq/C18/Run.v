(* Evaluation of harness cases for C18. *)
From V Require Export lib.Verdict C18.Model.
From Coq Require Import QArith Qround.
Open Scope Z_scope.

(* Harness-level steps.  Each is a fixed sequence of atomic model actions (see [hstep_run]):
   the harness imposes exactly these points on the real SecretManagerClient. *)
Inductive hstep :=
| HStart (t : N) (r : res)                 (* spawn GenerateSecret(r); it runs to its next blocking point *)
| HReply (o : outcome) (next : option N)   (* the fake CA answers the in-flight CSRSign; [next] = the waiter
                                              that was observed to enter CSRSign afterwards (mutex hand-off
                                              order is the one thing the harness does not choose) *)
| HAdvance (d : Z)                         (* fake clock += d; due timers run *)
| HBundle (b : list N).                    (* UpdateConfigTrustBundle *)

Record fin := { f_workload : option item; f_cert_root : list N; f_bundle : list N; f_ncsr : N }.

Inductive case :=
| Trace (id : N) (c : cfg) (t0 : Z) (steps : list (hstep * list ev)) (final : fin)
(* the same observed trace, judged only on "a CA-root change seen by a ROOTCA-triggered generation is
   announced" (the one condition of the known finding), so that the finding masks nothing else *)
| TraceAnn (id : N) (steps : list (hstep * list ev))
(* rotateTime called directly at fake time [now_]; observed delay *)
| Rot (id : N) (c : cfg) (created expire now_ obs : Z)
(* K8 witness: sub-nanosecond grace period *)
| RotWitness (id : N) (c : cfg) (created expire now_ obs : Z).

Definition case_id c :=
  match c with Trace id _ _ _ _ => id | TraceAnn id _ => id | Rot id _ _ _ _ _ => id | RotWitness id _ _ _ _ _ => id end.

(* ---------------------------------------------------------------- equality / canonical order *)

Definition optN_eqb := option_eqb N.eqb.
Definition ret_eqb (a b : ret) : bool :=
  optN_eqb (r_key a) (r_key b) && optN_eqb (r_cert a) (r_cert b) && (r_created a =? r_created b)
  && (r_expire a =? r_expire b) && list_N_eqb (r_root a) (r_root b).

(* [exact = false] (jitter > 0): the instant a timer fires is only known up to the jitter interval *)
Definition ev_eqb (exact : bool) (a b : ev) : bool :=
  match a, b with
  | ECsr t k, ECsr t' k' => (t =? t')%N && (k =? k')%N
  | ESigned k, ESigned k' => (k =? k')%N
  | ERet t at_ r, ERet t' at' r' => (t =? t')%N && (at_ =? at') && option_eqb ret_eqb r r'
  | ENotify r at_, ENotify r' at' => res_eqb r r' && (negb exact || (at_ =? at'))
  | _, _ => false
  end.

Definition is_csr e := match e with ECsr _ _ => true | _ => false end.
Definition is_signed e := match e with ESigned _ => true | _ => false end.
Definition ret_tid e := match e with ERet t _ _ => Some t | _ => None end.

Fixpoint insert_ret (e : ev) (t : N) (l : list ev) : list ev :=
  match l with
  | [] => [e]
  | x :: l' => match ret_tid x with
               | Some t' => if (t <=? t')%N then e :: l else x :: insert_ret e t l'
               | None => e :: l
               end
  end.
Definition sort_rets (l : list ev) : list ev :=
  fold_right (fun e acc => match ret_tid e with Some t => insert_ret e t acc | None => acc end) [] l.

(* handler callbacks keep their order; returns of different goroutines are ordered by thread id *)
Definition is_notify_r e := match e with ENotify RRoot _ => true | _ => false end.
Definition is_notify_w e := match e with ENotify RWorkload _ => true | _ => false end.
(* a zero-delay rotation runs on the queue worker concurrently with the caller's own ROOTCA
   notification: the two kinds are compared as separate sequences *)
Definition canon (l : list ev) : list ev :=
  filter is_notify_r l ++ filter is_notify_w l ++ filter is_csr l ++ filter is_signed l ++ sort_rets l.

(* ---------------------------------------------------------------- model run of harness steps *)

Definition is_want (s : st) (t : N) : bool := match pcs s t with PWant _ => true | _ => false end.

(* the due task with the earliest due time (the delayed queue is a heap ordered by runAt) *)
Fixpoint find_due (T : Z) (q : list qent) (k : nat) : option (nat * qent) :=
  match q with
  | [] => None
  | e :: q' =>
    let rest := find_due T q' (S k) in
    if q_hi e <=? T then
      match rest with
      | Some (k', e') => if q_hi e' <? q_hi e then rest else Some (k, e)
      | None => Some (k, e)
      end
    else rest
  end.

(* tasks whose whole due interval has passed run (at their due time); the fake clock ends at [T] *)
Fixpoint fire_due (c : cfg) (fuel : nat) (T : Z) (s : st) : st * list ev :=
  match fuel with
  | O => (s, [])
  | S f =>
    match find_due T (queue s) 0 with
    | None => (s, [])
    | Some (k, e) =>
      let '(s1, e1) := step c (set_now s (Z.max (now s) (q_hi e))) (AFire k) in
      let '(s2, e2) := fire_due c f T s1 in (s2, e1 ++ e2)
    end
  end.

Definition ambiguous (T : Z) (q : list qent) : bool :=
  existsb (fun e => (q_lo e <=? T) && (T <? q_hi e)) q.

(* returns (state, events, harness-precondition-ok) *)
Definition hstep_run (c : cfg) (tids : list N) (s : st) (h : hstep) : st * list ev * bool :=
  match h with
  | HStart t r => (run c s [ASpawn t r; ACheck1 t; ALock t; ACheck2 t], true)
  | HReply o next =>
    match lock s with
    | None => (s, [], false)
    | Some t =>
      let ws := filter (is_want s) tids in
      let order := match next with Some n => n :: ws | None => ws end in
      let '(s1, e1) := run c s (AReply t o :: flat_map (fun w => [ALock w; ACheck2 w]) order) in
      (* a task registered with delay 0 is executed by the queue worker right away *)
      let '(s2, e2) := fire_due c (List.length (queue s1)) (now s1) s1 in
      (s2, e1 ++ e2,
       match next with Some n => existsb (N.eqb n) ws | None => true end)
    end
  | HAdvance d =>
    let T := now s + Z.max d 0 in
    let '(s1, e1) := fire_due c (List.length (queue s)) T s in
    (set_now s1 T, e1, negb (ambiguous T (queue s)))
  | HBundle b => (run c s [ABundle b], true)
  end.

Definition hstep_tid (h : hstep) : list N := match h with HStart t _ => [t] | _ => [] end.

Fixpoint trace_run (c : cfg) (exact : bool) (tids : list N) (s : st) (steps : list (hstep * list ev))
  : st * bool :=
  match steps with
  | [] => (s, true)
  | (h, obs) :: rest =>
    let tids' := hstep_tid h ++ tids in
    let '(s1, evs, pre) := hstep_run c tids' s h in
    let ok := pre && list_eqb (ev_eqb exact) (canon evs) (canon obs) in
    let '(s2, ok2) := trace_run c exact tids' s1 rest in
    (s2, ok && ok2)
  end.

Definition item_eqb (a b : item) : bool :=
  (i_key a =? i_key b)%N && (i_cert a =? i_cert b)%N && (i_created a =? i_created b)
  && (i_expire a =? i_expire b) && list_N_eqb (i_root a) (i_root b).

Definition fin_ok (s : st) (f : fin) : bool :=
  option_eqb item_eqb (workload s) (f_workload f) && list_N_eqb (cert_root s) (f_cert_root f)
  && list_N_eqb (bundle s) (f_bundle f) && (ncsr s =? f_ncsr f)%N
  && match lock s with None => true | Some _ => false end.

Definition jitter_zero (c : cfg) : bool := fst (c_jitter c) =? 0.

(* hypothesis of the theorems validated on every trace: CreatedTimes of successive certificates are
   strictly increasing (time.Now() is monotone and key generation takes time; under the fake clock the
   harness has to make it so) *)
Fixpoint fresh_created (seen : list (N * Z)) (l : list ev) : bool :=
  match l with
  | [] => true
  | ERet _ _ (Some r) :: l' =>
    match r_key r with
    | Some k =>
      (* a different key must have a different (larger) CreatedTime than every earlier key *)
      forallb (fun p => (fst p =? k)%N || (snd p <? r_created r)) seen
      && fresh_created ((k, r_created r) :: seen) l'
    | None => fresh_created seen l'
    end
  | _ :: l' => fresh_created seen l'
  end.

Definition model_ok (c : case) : bool :=
  match c with
  | Trace _ cf t0 steps f =>
    let '(s, ok) := trace_run cf (jitter_zero cf) [] (set_now init t0) steps in
    ok && fin_ok s f && fresh_created [] (flat_map snd steps)
  | TraceAnn _ _ => true
  | Rot _ cf created expire now_ obs =>
    (delay_lo cf created expire now_ <=? obs) && (obs <=? delay_hi cf created expire now_)
  | RotWitness _ cf created expire now_ obs =>
    (* the implementation still behaves as the refutation witness says: renewal AT expiry *)
    (delay_lo cf created expire now_ =? obs) && (obs =? expire - now_)
  end.

(* ---------------------------------------------------------------- property oracle *)

Record ost := {
  o_cur : option (N * N * Z * Z);      (* key, cert, created, expire served in the current epoch *)
  o_roots : option (list N);           (* CA roots seen by the last successful generation *)
  o_bundle : list N;
  o_incsr : option N;
  o_signed : nat;                      (* successful signings in the current epoch *)
  o_now : Z;
  o_ok : bool }.

Definition o_fail (o : ost) : ost :=
  {| o_cur := o_cur o; o_roots := o_roots o; o_bundle := o_bundle o; o_incsr := o_incsr o;
     o_signed := o_signed o; o_now := o_now o; o_ok := false |}.
Definition o_req (b : bool) (o : ost) : ost := if b then o else o_fail o.

Fixpoint subset (a b : list N) : bool :=
  match a with [] => true | x :: a' => existsb (N.eqb x) b && subset a' b end.

Definition has_notify (r : res) (l : list ev) : bool :=
  existsb (fun e => match e with ENotify r' _ => res_eqb r r' | _ => false end) l.
Definition has_csr (t : N) (l : list ev) : bool :=
  existsb (fun e => match e with ECsr t' _ => (t =? t')%N | _ => false end) l.
Definition has_okret (t : N) (l : list ev) : bool :=
  existsb (fun e => match e with ERet t' _ (Some _) => (t =? t')%N | _ => false end) l.

(* one observed event; [timer] = the step is HAdvance; [errholder] = thread whose CSR was answered
   with an error in this step *)
(* spec-level rotation window of a certificate, in exact arithmetic: created + lifetime*(1 - clamp(ratio +/- jitter)),
   with 64ns of slack for the float rounding of lifetimes above 2^53 ns *)
Definition rot_window_ok (c : cfg) (created expire at_ : Z) : bool :=
  let r := dyQ (c_ratio c) in let j := dyQ (c_jitter c) in
  (created + rotate_delay_q created expire created (r + j) - 64 <=? at_)
  && (at_ <=? created + rotate_delay_q created expire created (r - j) + 64).

Definition o_event (c : cfg) (timer : bool) (errholder : option N) (o : ost) (e : ev) : ost :=
  match e with
  | ECsr t _ =>
    {| o_cur := o_cur o; o_roots := o_roots o; o_bundle := o_bundle o; o_incsr := Some t;
       o_signed := o_signed o; o_now := o_now o; o_ok := o_ok o |}
  | ESigned _ =>
    o_req (Nat.eqb (o_signed o) 0)   (* at most one successful signing per epoch *)
    {| o_cur := o_cur o; o_roots := o_roots o; o_bundle := o_bundle o; o_incsr := o_incsr o;
       o_signed := S (o_signed o); o_now := o_now o; o_ok := o_ok o |}
  | ERet t at_ None => o_req (option_eqb N.eqb errholder (Some t)) o   (* errors only from a failed CA call *)
  | ERet t at_ (Some r) =>
    match r_key r, r_cert r with
    | Some k, Some cid =>
      (* key and certificate belong together, certificate not expired when served *)
      let o1 := o_req ((k =? cid)%N && negb (k =? 0)%N && (at_ <=? r_expire r)) o in
      match o_cur o1 with
      | Some (k0, c0, _, _) => o_req ((k =? k0)%N && (cid =? c0)%N) o1     (* everyone gets the same pair *)
      | None =>
        {| o_cur := Some (k, cid, r_created r, r_expire r); o_roots := o_roots o1; o_bundle := o_bundle o1;
           o_incsr := o_incsr o1; o_signed := o_signed o1; o_now := o_now o1; o_ok := o_ok o1 |}
      end
    | None, None =>
      (* trust bundle answer: contains the configured bundle and the CA's roots *)
      o_req (subset (o_bundle o) (r_root r)
             && match o_roots o with Some rs => subset rs (r_root r) | None => false end) o
    | _, _ => o_fail o
    end
  | ENotify RWorkload at_ =>
    let o1 := if timer
              then match o_cur o with
                   | Some (_, _, created, expire) =>
                     (* renewal no later than expiry, and at this certificate's own rotation instant *)
                     o_req ((at_ <=? expire) && rot_window_ok c created expire at_) o
                   | None => o_fail o                                  (* a stale task must be a no-op *)
                   end
              else o in
    {| o_cur := None; o_roots := o_roots o1; o_bundle := o_bundle o1; o_incsr := o_incsr o1;
       o_signed := 0; o_now := o_now o1; o_ok := o_ok o1 |}
  | ENotify RRoot _ => o
  end.

Definition thread_res (steps : list (hstep * list ev)) : list (N * res) :=
  flat_map (fun hs => match fst hs with HStart t r => [(t, r)] | _ => [] end) steps.
Definition res_is_root (rs : list (N * res)) (t : option N) : bool :=
  match t with
  | Some t => existsb (fun p => (fst p =? t)%N && res_eqb (snd p) RRoot) rs
  | None => false
  end.
Definition last_csr (obs : list ev) (d : option N) : option N :=
  fold_left (fun acc e => match e with ECsr t _ => Some t | _ => acc end) obs d.

(* Announcement of CA-root changes by successful generations.  [tainted] = a ROOTCA-triggered generation
   happened since the last "default"-triggered one (the code's certRoot was not maintained by it).
   [finding = true] judges exactly the generations affected by the known finding
   root-change-seen-by-rootca-request-not-announced (ROOTCA-triggered, or "default"-triggered while
   tainted); [finding = false] judges all the others. *)
Fixpoint ann_scan (finding : bool) (rs : list (N * res)) (prev : option (list N)) (tainted : bool)
  (holder : option N) (steps : list (hstep * list ev)) : bool :=
  match steps with
  | [] => true
  | (h, obs) :: rest =>
    match h with
    | HReply (CaOk _ bnd cr) _ =>
      let roots := roots_of bnd cr in
      let isroot := res_is_root rs holder in
      let mine := Bool.eqb finding (isroot || tainted) in
      let ok := match prev with
                | Some old => negb mine || list_N_eqb old roots || has_notify RRoot obs
                | None => true
                end in
      ok && ann_scan finding rs (Some roots) isroot (last_csr obs None) rest
    | HReply CaErr _ => ann_scan finding rs prev tainted (last_csr obs None) rest
    | _ => ann_scan finding rs prev tainted (last_csr obs holder) rest
    end
  end.

Definition o_step (c : cfg) (rs : list (N * res)) (o : ost) (hs : hstep * list ev) : ost :=
  let '(h, obs) := hs in
  match h with
  | HStart t r =>
    let pre :=
      match o_cur o, o_incsr o with
      | Some _, _ => has_okret t obs && negb (has_csr t obs)   (* served from cache, no new signing *)
      | None, None => has_csr t obs                            (* nothing cached, nobody signing: must try *)
      | None, Some _ => negb (has_csr t obs)                   (* somebody is signing: must not sign too *)
      end in
    fold_left (o_event c false None) obs (o_req pre o)
  | HReply out next =>
    let holder := o_incsr o in
    let o0 := {| o_cur := o_cur o; o_roots := o_roots o; o_bundle := o_bundle o; o_incsr := None;
                 o_signed := o_signed o; o_now := o_now o; o_ok := o_ok o |} in
    match out with
    | CaErr => fold_left (o_event c false holder) obs o0
    | CaOk expire bnd cr =>
      let roots := roots_of bnd cr in
      let announced :=
        match o_roots o with
        | Some old => true   (* announcement of root changes: see [ann_scan] *)
        | None => true
        end in
      let o1 := {| o_cur := o_cur o0; o_roots := Some roots; o_bundle := o_bundle o0; o_incsr := None;
                   o_signed := o_signed o0; o_now := o_now o0; o_ok := o_ok o0 |} in
      (* a rotation notification inside this step can only come from a zero-delay timer: it follows the returns *)
      let o2 := fold_left (o_event c false None) (filter (fun e => negb (is_notify_w e)) obs) (o_req announced o1) in
      fold_left (o_event c true None) (filter is_notify_w obs) o2
    end
  | HAdvance d =>
    let T := o_now o + Z.max d 0 in
    let o1 := fold_left (o_event c true None) obs o in
    let o2 := {| o_cur := o_cur o1; o_roots := o_roots o1; o_bundle := o_bundle o1; o_incsr := o_incsr o1;
                 o_signed := o_signed o1; o_now := T; o_ok := o_ok o1 |} in
    (* a certificate still being served at or after its expiry = renewal was missed *)
    match o_cur o2 with
    | Some (_, _, _, expire) => o_req (T <? expire) o2
    | None => o2
    end
  | HBundle b =>
    let changed := negb (list_N_eqb b (o_bundle o)) in
    let o1 := {| o_cur := o_cur o; o_roots := o_roots o; o_bundle := b; o_incsr := o_incsr o;
                 o_signed := o_signed o; o_now := o_now o; o_ok := o_ok o |} in
    fold_left (o_event c false None) obs
      (o_req (negb changed || (has_notify RRoot obs && has_notify RWorkload obs)) o1)
  end.

Definition o_init (t0 : Z) : ost :=
  {| o_cur := None; o_roots := None; o_bundle := []; o_incsr := None; o_signed := 0; o_now := t0; o_ok := true |}.

(* (ratio - jitter) * lifetime >= 1ns with ratio > jitter: the truncation precondition of strictness *)
Definition strict_pre (c : cfg) (created expire : Z) : bool :=
  let d := dyQ (dy_add (c_ratio c) (dy_neg (c_jitter c))) in
  let d1 := if Qle_bool 1 d then 1%Q else d in
  (0 <? expire - created) && Qle_bool 0 d && Qle_bool 1 (d1 * inject_Z (expire - created))%Q.

Definition prop_ok (c : case) : bool :=
  match c with
  | Trace _ cf t0 steps f => o_ok (fold_left (o_step cf (thread_res steps)) steps (o_init t0))
    && ann_scan false (thread_res steps) None false None steps
  | Rot _ cf created expire now_ obs =>
    (0 <=? obs)
    && (negb ((created <=? now_) || (created <=? expire)) || (obs <=? Z.max 0 (expire - now_)))
    && (negb (strict_pre cf created expire && (now_ <? expire)) || (obs <? expire - now_))
  | TraceAnn _ steps => ann_scan true (thread_res steps) None false None steps
  | RotWitness _ _ _ _ _ _ => true
  end.

Definition mismatches := check_all case_id model_ok prop_ok.
